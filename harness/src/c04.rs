//! C04: reported balances equal the sum of the register, over any date range.
//! Accepted generated ledgers; `Ledger::balance` for (start, end) pairs drawn from
//! {unbounded, before, each transaction date, each date + 1, after} (inverted and empty
//! ranges included), `Ledger::postings` accumulated as RegisterCmd does, and the same
//! through the CLI (`okane balance --start --end`, `okane register`) on a scratch file.
use crate::cli;
use crate::coq::{self, Shards, Stats};
use crate::ledger::*;
use crate::prng::Rng;
use crate::Opts;
use serde_json::json;

const MAX_QUERIES: usize = 36;

fn lit(m: i64, scale: u32, c: usize) -> VE {
    VE::Amt(Lit { m, scale, comm: Some(c), grouped: false })
}
fn post(a: usize, amt: Option<VE>, bal: Option<VE>) -> Posting {
    Posting { account: a, amount: amt, cost: None, lot: None, balance: bal }
}
fn txn(d: i32, posts: Vec<Posting>) -> Entry {
    Entry::Txn(Txn { effective: None, date: d, posts, head: Head::default() })
}

fn fixed_cases() -> Vec<Vec<Entry>> {
    let mut out = Vec::new();
    // three transactions on three dates, one commodity
    out.push(vec![
        txn(10, vec![post(0, Some(lit(100, 0, 4)), None), post(2, None, None)]),
        txn(20, vec![post(3, Some(lit(30, 0, 4)), None), post(0, None, None)]),
        txn(30, vec![post(3, Some(lit(5, 0, 4)), None), post(1, None, None)]),
    ]);
    // two transactions on the same date; a third out of file order (earlier date later in the file)
    out.push(vec![
        txn(10, vec![post(0, Some(lit(100, 0, 4)), None), post(2, None, None)]),
        txn(10, vec![post(0, Some(lit(-40, 0, 4)), None), post(3, None, None)]),
        txn(5, vec![post(0, Some(lit(7, 0, 2)), None), post(2, None, None)]),
    ]);
    // an account that returns to exactly zero: the commodity must disappear from the whole-history
    // report and from every range containing both transactions, and show in between
    out.push(vec![
        txn(1, vec![post(1, Some(lit(1250, 2, 4)), None), post(2, None, None)]),
        txn(2, vec![post(1, Some(lit(-1250, 2, 4)), None), post(2, None, None)]),
        txn(3, vec![post(1, Some(lit(0, 0, 4)), None), post(2, Some(lit(0, 0, 4)), None)]),
    ]);
    // declared precision 2 with 3-place amounts: the recomputed report rounds (half-even), the
    // whole-history report does not; 0.004 USD rounds to 0.00 and may be shown
    for dp in [0u32, 2] {
        out.push(vec![
            Entry::Format(4, dp, FmtLit::default()),
            txn(1, vec![post(0, Some(lit(1005, 3, 4)), None), post(2, Some(lit(-1005, 3, 4)), None)]),
            txn(2, vec![post(0, Some(lit(1015, 3, 4)), None), post(2, Some(lit(-1015, 3, 4)), None)]),
            txn(3, vec![post(0, Some(lit(-2016, 3, 4)), None), post(2, Some(lit(2016, 3, 4)), None)]),
            txn(4, vec![post(0, Some(lit(500, 3, 4)), None), post(2, Some(lit(-500, 3, 4)), None)]),
        ]);
    }
    // multi-commodity accounts, an omitted posting absorbing two commodities, an assignment
    out.push(vec![
        txn(1, vec![post(0, Some(lit(10, 0, 4)), None), post(0, Some(lit(7, 0, 2)), None), post(2, None, None)]),
        txn(2, vec![post(0, None, Some(lit(25, 0, 4))), post(4, None, None)]),
        txn(2, vec![post(0, Some(lit(-7, 0, 2)), Some(lit(0, 0, 2))), post(3, None, None)]),
        txn(9, vec![post(0, None, Some(VE::Amt(Lit { m: 0, scale: 0, comm: None, grouped: false }))), post(2, None, None)]),
    ]);
    // implied exchange and costs: the register lists the amounts, not the balancing values
    out.push(vec![
        txn(1, vec![post(0, Some(lit(10, 0, 2)), None), post(1, Some(lit(-11, 0, 4)), None)]),
        txn(3, vec![
            Posting { account: 0, amount: Some(lit(3, 0, 0)), cost: Some(Exch::Rate(lit(150, 0, 4))), lot: None, balance: None },
            post(1, None, None),
        ]),
    ]);
    // an account holding k = 3..5 commodities, of which the j-th returns to exactly zero later
    // (by explicit postings on both sides, or with the counter-posting omitted), and is then
    // bought again in the last variant: the zero commodity must not be shown, whatever the
    // number of other commodities the account holds (seeded change C04-K)
    for k in 3usize..=5 {
        for j in 0..k {
            for omitted in [false, true] {
                let mut es = Vec::new();
                for c in 0..k {
                    let m = 10 * (c as i64 + 1) + 5;
                    es.push(txn(1 + c as i32, vec![post(0, Some(lit(m, 1, c)), None), post(2, Some(lit(-m, 1, c)), None)]));
                }
                let mj = 10 * (j as i64 + 1) + 5;
                let back = if omitted { post(3, None, None) } else { post(3, Some(lit(mj, 1, j)), None) };
                es.push(txn(10, vec![post(0, Some(lit(-mj, 1, j)), None), back]));
                if omitted && j % 2 == 0 {
                    es.push(txn(12, vec![post(0, Some(lit(3, 0, j)), None), post(3, None, None)]));
                }
                out.push(es);
            }
        }
    }
    // empty ledger, and a ledger with only a zero transaction
    out.push(vec![Entry::Comment]);
    out.push(vec![txn(1, vec![post(0, Some(lit(0, 0, 4)), None)])]);
    out
}

/// the (start, end) pairs for a ledger: all pairs over the candidate points when few,
/// otherwise every pair with an unbounded side plus a seeded sample of the rest
fn ranges_for(entries: &[Entry], r: &mut Rng) -> Vec<(Option<i32>, Option<i32>)> {
    let mut dates: Vec<i32> = entries.iter().filter_map(|e| if let Entry::Txn(t) = e { Some(t.date) } else { None }).collect();
    dates.sort();
    dates.dedup();
    let mut pts: Vec<Option<i32>> = vec![None];
    let mut ds: Vec<i32> = Vec::new();
    if let (Some(first), Some(last)) = (dates.first(), dates.last()) {
        ds.push(first - 3);
        for d in &dates {
            ds.push(*d);
            ds.push(*d + 1);
        }
        ds.push(last + 5);
    } else {
        ds.push(0);
        ds.push(1);
    }
    ds.sort();
    ds.dedup();
    pts.extend(ds.iter().map(|d| Some(*d)));
    let mut all: Vec<(Option<i32>, Option<i32>)> = Vec::new();
    for s in &pts {
        for e in &pts {
            all.push((*s, *e));
        }
    }
    if all.len() <= MAX_QUERIES {
        return all;
    }
    let mut keep: Vec<(Option<i32>, Option<i32>)> = Vec::new();
    let mut rest: Vec<(Option<i32>, Option<i32>)> = Vec::new();
    for (s, e) in all {
        let unbounded = s.is_none() || e.is_none();
        // adjacent points and equal points always: they are the boundary cases
        let adjacent = match (s, e) {
            (Some(a), Some(b)) => {
                let ia = ds.iter().position(|x| *x == a).unwrap() as i64;
                let ib = ds.iter().position(|x| *x == b).unwrap() as i64;
                (ib - ia).abs() <= 1
            }
            _ => false,
        };
        if (unbounded || adjacent) && keep.len() < MAX_QUERIES * 2 {
            keep.push((s, e));
        } else {
            rest.push((s, e));
        }
    }
    r.shuffle(&mut rest);
    r.shuffle(&mut keep);
    // (None, None) first, then a mix
    let mut out = vec![(None, None)];
    for q in keep.into_iter().filter(|q| *q != (None, None)).take(MAX_QUERIES * 2 / 3) {
        out.push(q);
    }
    for q in rest {
        if out.len() >= MAX_QUERIES {
            break;
        }
        out.push(q);
    }
    out
}

fn iso(d: i32) -> String {
    day_to_date(d).format("%Y-%m-%d").to_string()
}

/// `amount` as printed inline at the start of `s`; returns it and the rest of the line
fn take_inline<'a>(s: &'a str, comms: &[String]) -> Option<(AmountObs, &'a str)> {
    let s = s.trim_start();
    if s.starts_with('(') {
        let i = s.find(')')?;
        return Some((parse_inline(&s[..=i], comms), &s[i + 1..]));
    }
    let (v, rest) = match s.find(' ') {
        Some(i) => (&s[..i], &s[i + 1..]),
        None => (s, ""),
    };
    if v.is_empty() {
        return None;
    }
    let next = rest.split(' ').next().unwrap_or("");
    if next.chars().next().map(|c| c.is_alphabetic()).unwrap_or(false) {
        let after = &rest[next.len()..];
        Some((parse_inline(&format!("{} {}", v, next), comms), after))
    } else if v == "0" {
        Some((AmountObs::new(), rest))
    } else {
        None
    }
}

/// the same queries through the CLI glue (BalanceCmd / RegisterCmd) on a real file
fn run_cli(path: &str, ranges: &[(Option<i32>, Option<i32>)], names: &Names) -> Result<ReportObs, String> {
    let mut ro = ReportObs::default();
    for (s, e) in ranges {
        let mut args: Vec<String> = vec!["balance".into(), path.into()];
        if let Some(s) = s {
            args.push("--start".into());
            args.push(iso(*s));
        }
        if let Some(e) = e {
            args.push("--end".into());
            args.push(iso(*e));
        }
        let a: Vec<&str> = args.iter().map(|x| x.as_str()).collect();
        let res = cli::run(&a);
        if !res.ok {
            return Err(format!("okane {} failed: {}", args.join(" "), res.stderr));
        }
        let mut result = Vec::new();
        for line in res.stdout.lines() {
            let (acct, amt) = line.split_once(": ").ok_or_else(|| format!("balance line {:?}", line))?;
            let a = names.accounts.iter().position(|x| x == acct).ok_or_else(|| format!("account {:?}", acct))?;
            let (am, rest) = take_inline(amt, &names.commodities).ok_or_else(|| format!("amount {:?}", amt))?;
            if !rest.trim().is_empty() {
                return Err(format!("balance line {:?}", line));
            }
            result.push((a, am));
        }
        ro.queries.push(QueryObs { start: *s, end: *e, result, error: None });
    }
    let res = cli::run(&["register", path]);
    if !res.ok {
        return Err(format!("okane register failed: {}", res.stderr));
    }
    for line in res.stdout.lines() {
        let (acct, rest) = line.split_once(' ').ok_or_else(|| format!("register line {:?}", line))?;
        let a = names.accounts.iter().position(|x| x == acct).ok_or_else(|| format!("account {:?}", acct))?;
        let (amt, rest) = take_inline(rest, &names.commodities).ok_or_else(|| format!("register line {:?}", line))?;
        let (tot, rest) = take_inline(rest, &names.commodities).ok_or_else(|| format!("register line {:?}", line))?;
        if !rest.trim().is_empty() {
            return Err(format!("register line {:?}", line));
        }
        ro.register.push((a, amt, tot));
    }
    Ok(ro)
}

fn opt_z(d: Option<i32>) -> String {
    coq::opt(d.map(|d| coq::z(d as i128)))
}

fn report_terms(ro: &ReportObs) -> (String, String) {
    let qs = coq::list(ro.queries.iter().map(|q| {
        format!(
            "Q {} {} {}",
            opt_z(q.start),
            opt_z(q.end),
            coq::list(q.result.iter().map(|(a, am)| format!("({}, {})", a, amount_term(am))))
        )
    }));
    let rg = coq::list(ro.register.iter().map(|(a, x, t)| format!("({}, {}, {})", a, amount_term(x), amount_term(t))));
    (qs, rg)
}

fn amount_text(a: &AmountObs) -> String {
    if a.is_empty() {
        return "0".into();
    }
    a.iter().map(|(c, v)| format!("{} {}", v, COMMODITIES.get(*c).unwrap_or(&"?"))).collect::<Vec<_>>().join(" + ")
}

fn report_json(ro: &ReportObs) -> serde_json::Value {
    json!({
        "queries": ro.queries.iter().map(|q| json!({
            "start": q.start.map(iso), "end": q.end.map(iso),
            "balance": q.result.iter().map(|(a, am)| format!("{}: {}", ACCOUNTS.get(*a).unwrap_or(&"?"), amount_text(am))).collect::<Vec<_>>(),
            "error": q.error,
        })).collect::<Vec<_>>(),
        "register": ro.register.iter().map(|(a, x, t)| format!("{} | {} | {}", ACCOUNTS.get(*a).unwrap_or(&"?"), amount_text(x), amount_text(t))).collect::<Vec<_>>(),
    })
}

fn count_queries(st: &mut Stats, entries: &[Entry], ranges: &[(Option<i32>, Option<i32>)]) {
    let dates: Vec<i32> = entries.iter().filter_map(|e| if let Entry::Txn(t) = e { Some(t.date) } else { None }).collect();
    for (s, e) in ranges {
        st.count("query:total");
        let inside = dates.iter().filter(|d| s.map(|s| **d >= s).unwrap_or(true) && e.map(|e| **d < e).unwrap_or(true)).count();
        match (s, e) {
            (None, None) => st.count("query:unbounded_both(raw path)"),
            (Some(a), Some(b)) if a > b => st.count("query:inverted(start>end)"),
            (Some(a), Some(b)) if a == b => st.count("query:start=end"),
            (None, _) | (_, None) => st.count("query:unbounded_one_side"),
            _ => st.count("query:bounded"),
        }
        if inside == 0 {
            st.count("query:selects_no_transaction");
        } else if inside == dates.len() {
            st.count("query:selects_all_transactions");
        } else {
            st.count("query:selects_proper_subset");
        }
        if s.map(|s| dates.contains(&s)).unwrap_or(false) {
            st.count("query:start_on_transaction_date");
        }
        if e.map(|e| dates.contains(&e)).unwrap_or(false) {
            st.count("query:end_on_transaction_date");
        }
        if e.map(|e| dates.contains(&(e - 1))).unwrap_or(false) {
            st.count("query:end_day_after_transaction");
        }
    }
}

fn emit(sh: &mut Shards, st: &mut Stats, scratch: &cli::Scratch, entries: &[Entry], r: &mut Rng, tag: &str) {
    let rd = render(entries);
    let names = Names::default_names();
    let ranges = ranges_for(entries, r);
    let (o, api) = run_process_ext(&[("/main.ledger".to_string(), rd.text.clone())], &names, Some(&rd), Some(&ranges));
    let s = shape(entries);
    let accepted = matches!(o, Obs::Ok { .. });
    st.eval(&rd.text, accepted && s.txns > 0);
    st.count(&obs_kind(&o));
    st.count(&format!("gen:{}", tag));
    st.add("shape:txns", s.txns as u64);
    st.add("shape:postings", s.postings as u64);
    st.add("shape:omitted", s.omitted as u64);
    st.add("shape:assigned", s.assigned as u64);
    st.add("shape:format_decl", s.formats as u64);
    shape_text_stats(st, &s);
    let mut variants: Vec<(&str, ReportObs)> = Vec::new();
    let mut harness_error: Option<String> = None;
    if let Some(api) = api {
        count_queries(st, entries, &ranges);
        if api.queries.iter().any(|q| q.error.is_some()) {
            harness_error = Some("Ledger::balance returned an error without conversion".into());
        }
        let path = scratch.write("c04.ledger", &rd.text);
        match run_cli(path.to_str().unwrap(), &ranges, &names) {
            Ok(c) => {
                if c == api {
                    st.count("cli:same_as_api");
                    variants.push(("api+cli", api));
                } else {
                    st.count("cli:differs_from_api");
                    variants.push(("api", api));
                    variants.push(("cli", c));
                }
            }
            Err(e) => {
                st.count("cli:unreadable");
                harness_error = Some(e);
                variants.push(("api", api));
            }
        }
    } else {
        variants.push(("none", ReportObs::default()));
    }
    let es = coq::list(entries.iter().map(entry_term));
    for (src, ro) in &variants {
        let (qs, rg) = report_terms(ro);
        let mut rep = case_json("C04", entries, &rd.text, &o);
        rep["source"] = json!(src);
        rep["reports"] = report_json(ro);
        rep["reproduce"] = json!("write `ledger` to a file and run: okane balance <file> [--start D --end D]; okane register <file>");
        if st.samples.len() < 3 && accepted && s.txns > 1 {
            let mut small = rep.clone();
            if let Some(q) = small["reports"]["queries"].as_array_mut() {
                q.truncate(6);
            }
            st.sample(small, 6);
        }
        sh.push(format!("C {} {} {} {}", es, obs_term(&o), qs, rg), vec![rep]);
    }
    if let Some(e) = harness_error {
        // verdict 9: the harness could not read what the implementation printed
        let mut rep = case_json("C04", entries, &rd.text, &o);
        rep["harness_error"] = json!(e);
        sh.push("Broken".to_string(), vec![rep]);
    }
}

pub fn run(o: &Opts) {
    let mut st = Stats::new();
    let mut sh = Shards::new(&o.out, o.shards, &header("Classify_C04"));
    st.rule = "generated ledgers biased to be accepted (1-6 transactions, omitted/assigned/asserted postings, costs, 1-3 of 5 commodities, format declarations with 0-6 places and 3-place amounts, dates that repeat and go backwards) + fixed boundary ledgers; per accepted ledger up to 36 (start, end) pairs over {unbounded, 3 days before the first date, each transaction date, each date + 1, 5 days after the last}, inverted and empty ranges included; Ledger::balance and Ledger::postings in process, and `okane balance --start --end` / `okane register` run in process on a scratch file and parsed back; non-trivial = the ledger is accepted and has a transaction; distinct by ledger text".into();
    st.rule = format!("{}; {}", st.rule, TEXT_SHAPES_RULE);
    st.assumptions.push("literal mantissas below 10^7 with scale <= 3: every intermediate Decimal is exact".into());
    st.assumptions.push("no commodity conversion (-X): conversion is C09/C10".into());
    let scratch = cli::Scratch::new("c04");
    let (corpus, replay) = corpus_entries(&o.corpus, &o.extra);
    let mut fr = Rng::new(0, 1040);
    for es in corpus {
        emit(&mut sh, &mut st, &scratch, &es, &mut fr, "corpus");
    }
    if !replay {
        for (n, mut es) in fixed_cases().into_iter().enumerate() {
            vary_shapes_nth(&mut es, n);
            emit(&mut sh, &mut st, &scratch, &es, &mut fr, "fixed");
        }
        let mut r = Rng::new(o.seed, 104);
        let n = if o.thorough { 12000 } else { 1200 };
        for k in 0..n {
            let mut b = Bias::default_bias();
            b.unbalanced_pct = 2;
            b.wrong_assert_pct = 1;
            b.max_txns = 6;
            b.format_pct = 50;
            if k % 3 == 0 {
                b.cost_pct = 0;
                b.lot_pct = 0;
                b.expr_pct = 5;
            }
            let es = gen_ledger(&mut r, &b);
            emit(&mut sh, &mut st, &scratch, &es, &mut r, "random");
        }
    }
    sh.finish(&st);
}
