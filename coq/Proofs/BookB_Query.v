(* C04: the reports of Model/Query.v are sums of the stored postings. *)
From Coq Require Import List NArith ZArith Bool QArith Qcanon Lia.
From Okv Require Import Base.Maps Base.Dec Model.Amount Model.Book Model.Query Model.BookSpecB
     Proofs.BookB_Maps Proofs.BookB_Inv.
Import ListNotations.
Open Scope Qc_scope.

(* ---- the re-fold of Ledger::balance ---- *)
Definition add_posts (b : balance) (ps : list oposting) : balance :=
  fold_left (fun b p => bal_add_amount b (o_account p) (o_amount p)) ps b.
Definition refold_step (st en : option Z) (b : balance) (t : otxn) : balance :=
  if range_contains st en (o_date t) then add_posts b (o_posts t) else b.

Lemma refold_unfold txns st en : refold txns st en = fold_left (refold_step st en) txns [].
Proof. reflexivity. Qed.

Lemma add_posts_wf ps : forall b, bal_wf b -> bal_wf (add_posts b ps).
Proof.
  unfold add_posts. induction ps as [|p ps IH]; intros b H; cbn [fold_left]; [assumption|].
  apply IH. now apply bal_add_amount_wf.
Qed.

Lemma add_posts_get ps : posts_wf ps -> forall b a c, bal_wf b ->
  a_get (bal_get (add_posts b ps) a) c = a_get (bal_get b a) c + sum_posts ps a c.
Proof.
  unfold add_posts. induction ps as [|p ps IH]; intros Hps b a c H; cbn [fold_left].
  - rewrite sum_posts_nil. ring.
  - inversion Hps as [|? ? Hp Hps']; subst.
    rewrite (IH Hps') by now apply bal_add_amount_wf.
    rewrite bal_add_amount_get by assumption. rewrite sum_posts_cons. unfold contrib. ring.
Qed.

Definition txns_wf (txns : list otxn) : Prop := Forall (fun t => posts_wf (o_posts t)) txns.

Lemma txns_wf_of_flat txns : posts_wf (flat_map o_posts txns) -> txns_wf txns.
Proof.
  induction txns as [|t txns IH]; intro H; [constructor|]. cbn [flat_map] in H.
  apply Forall_app in H. destruct H as [H1 H2]. constructor; [assumption|now apply IH].
Qed.

Lemma Inv_txns_wf s : Inv s -> txns_wf (s_txns s).
Proof. intro I. apply txns_wf_of_flat. apply (inv_posts _ I). Qed.

Lemma range_sum_cons t txns st en a c :
  range_sum (t :: txns) st en a c =
  (if range_contains st en (o_date t) then sum_posts (o_posts t) a c else 0) + range_sum txns st en a c.
Proof. reflexivity. Qed.

Lemma refold_gen st en txns : forall b, bal_wf b ->
  bal_wf (fold_left (refold_step st en) txns b)
  /\ (txns_wf txns -> forall a c,
      a_get (bal_get (fold_left (refold_step st en) txns b) a) c =
      a_get (bal_get b a) c + range_sum txns st en a c).
Proof.
  induction txns as [|t txns IH]; intros b H; cbn [fold_left].
  - split; [assumption|]. intros _ a c. unfold range_sum. cbn [fold_right]. ring.
  - assert (Hs : bal_wf (refold_step st en b t)).
    { unfold refold_step. destruct (range_contains st en (o_date t)); [now apply add_posts_wf|assumption]. }
    destruct (IH _ Hs) as [H1 H2]. split; [assumption|].
    intros Hw a c. inversion Hw as [|? ? Ht Hw']; subst. rewrite (H2 Hw'), range_sum_cons.
    unfold refold_step. destruct (range_contains st en (o_date t)).
    + rewrite add_posts_get by assumption. ring.
    + ring.
Qed.

(* ---- C04(3): no zero-valued entry, in any re-fold ---- *)
Theorem refold_wf txns st en : bal_wf (refold txns st en).
Proof. rewrite refold_unfold. apply refold_gen. apply bal_wf_nil. Qed.

Theorem no_zero_commodity_refold txns st en a x c v :
  In (a, x) (refold txns st en) -> In (c, v) x -> v <> 0.
Proof. intros Hx Hv. destruct (refold_wf txns st en) as [_ H]. destruct (H a x Hx) as [_ Hnz]. eauto. Qed.

(* ---- C04(2): the ranged report is the sum over the transactions dated in the range ---- *)
Theorem range_is_sum_gen txns st en : txns_wf txns ->
  forall a c, a_get (bal_get (refold txns st en) a) c = range_sum txns st en a c.
Proof.
  intros Hw a c. rewrite refold_unfold.
  destruct (refold_gen st en txns [] bal_wf_nil) as [_ H]. rewrite (H Hw). cbn. ring.
Qed.

Lemma sum_posts_flat_filter (f : otxn -> bool) txns a c :
  sum_posts (flat_map o_posts (filter f txns)) a c =
  fold_right (fun t acc => (if f t then sum_posts (o_posts t) a c else 0) + acc) 0 txns.
Proof.
  induction txns as [|t txns IH]; [reflexivity|]. cbn [filter fold_right].
  destruct (f t).
  - cbn [flat_map]. rewrite sum_posts_app, IH. reflexivity.
  - rewrite IH. ring.
Qed.

Lemma range_sum_filter txns st en a c :
  range_sum txns st en a c =
  sum_posts (flat_map o_posts (filter (fun t => range_contains st en (o_date t)) txns)) a c.
Proof. now rewrite sum_posts_flat_filter. Qed.

Lemma range_contains_whole d : range_contains None None d = true.
Proof. reflexivity. Qed.

Lemma range_sum_whole txns a c : range_sum txns None None a c = sum_posts (flat_map o_posts txns) a c.
Proof.
  induction txns as [|t txns IH]; [reflexivity|].
  rewrite range_sum_cons. cbn [flat_map]. rewrite sum_posts_app, IH. reflexivity.
Qed.

(* adjacent ranges *)
Definition ole_l (s : option Z) (b : Z) : Prop := match s with Some a => (a <= b)%Z | None => True end.
Definition ole_r (b : Z) (e : option Z) : Prop := match e with Some c => (b <= c)%Z | None => True end.

Lemma range_split st en b d (x : Qc) : ole_l st b -> ole_r b en ->
  (if range_contains st (Some b) d then x else 0) + (if range_contains (Some b) en d then x else 0)
  = if range_contains st en d then x else 0.
Proof.
  unfold range_contains, ole_l, ole_r. intros H1 H2.
  destruct st as [a|]; destruct en as [e|];
    repeat match goal with
           | |- context [(?u <? ?v)%Z] => destruct (Z.ltb_spec u v)
           | |- context [(?u <=? ?v)%Z] => destruct (Z.leb_spec u v)
           end; cbn [negb andb]; try ring; exfalso; lia.
Qed.

Theorem adjacent_add_sum txns st en b a c : ole_l st b -> ole_r b en ->
  range_sum txns st (Some b) a c + range_sum txns (Some b) en a c = range_sum txns st en a c.
Proof.
  intros H1 H2. induction txns as [|t txns IH]; [unfold range_sum; cbn [fold_right]; ring|].
  rewrite !range_sum_cons, <- IH, <- (range_split st en b (o_date t) _ H1 H2). ring.
Qed.

Lemma range_contains_empty a b d : (b <= a)%Z -> range_contains (Some a) (Some b) d = false.
Proof.
  intro H. unfold range_contains.
  destruct (Z.ltb_spec d a); destruct (Z.leb_spec b d); cbn [negb andb]; try reflexivity. exfalso. lia.
Qed.

Theorem refold_empty txns a b : (b <= a)%Z -> refold txns (Some a) (Some b) = [].
Proof.
  intro H. rewrite refold_unfold.
  assert (G : forall acc, fold_left (refold_step (Some a) (Some b)) txns acc = acc).
  { induction txns as [|t txns IH]; intro acc; cbn [fold_left]; [reflexivity|].
    rewrite IH. unfold refold_step. now rewrite range_contains_empty. }
  apply G.
Qed.

(* ---- register ---- *)
Lemma reg_sum_lines ps : forall acc a c, reg_sum (register_lines acc ps) a c = sum_posts ps a c.
Proof.
  induction ps as [|p ps IH]; intros acc a c; [reflexivity|].
  cbn [register_lines]. unfold reg_sum. cbn [fold_right fst snd]. fold (reg_sum (register_lines (a_add acc (o_amount p)) ps) a c).
  rewrite IH, sum_posts_cons. reflexivity.
Qed.

Lemma last_total_lines ps : forall acc d,
  snd (last (register_lines acc ps) d) =
  match ps with [] => snd d | _ => fold_left (fun acc p => a_add acc (o_amount p)) ps acc end.
Proof.
  induction ps as [|p ps IH]; intros acc d; [reflexivity|].
  cbn [register_lines fold_left]. destruct ps as [|p2 ps].
  - reflexivity.
  - specialize (IH (a_add acc (o_amount p)) d).
    cbn [register_lines] in IH |- *. cbn [last] in IH |- *. exact IH.
Qed.

Lemma a_get_fold_add ps : posts_wf ps -> forall acc c,
  a_get (fold_left (fun acc p => a_add acc (o_amount p)) ps acc) c = a_get acc c + sum_all ps c.
Proof.
  induction ps as [|p ps IH]; intros Hw acc c; cbn [fold_left].
  - unfold sum_all. cbn [fold_right]. ring.
  - inversion Hw as [|? ? Hp Hw']; subst. rewrite (IH Hw'), a_get_add by assumption.
    unfold sum_all. cbn [fold_right]. ring.
Qed.

(* sums over the accounts of a balance *)
Definition key_sum (ks : list aid) (f : aid -> Qc) : Qc := fold_right (fun a acc => f a + acc) 0 ks.

Lemma key_sum_ext ks f g : (forall a, In a ks -> f a = g a) -> key_sum ks f = key_sum ks g.
Proof.
  induction ks as [|k ks IH]; intro H; [reflexivity|]. unfold key_sum. cbn [fold_right].
  fold (key_sum ks f). fold (key_sum ks g). rewrite IH, (H k) by (intros; try apply H; now (left + right)).
  reflexivity.
Qed.

Lemma key_sum_plus ks f g : key_sum ks (fun a => f a + g a) = key_sum ks f + key_sum ks g.
Proof.
  induction ks as [|k ks IH]; [unfold key_sum; cbn [fold_right]; ring|].
  unfold key_sum in *. cbn [fold_right]. rewrite IH. ring.
Qed.

Lemma key_sum_indicator_out ks k v : ~ In k ks -> key_sum ks (fun a => if (k =? a)%N then v else 0) = 0.
Proof.
  induction ks as [|x ks IH]; intro H; [reflexivity|]. unfold key_sum in *. cbn [fold_right].
  rewrite IH by (intro; apply H; now right).
  destruct (N.eqb_spec k x); [exfalso; apply H; now left|ring].
Qed.

Lemma key_sum_indicator ks k v : NoDup ks -> In k ks -> key_sum ks (fun a => if (k =? a)%N then v else 0) = v.
Proof.
  induction ks as [|x ks IH]; intros Hnd Hin; [destruct Hin|].
  inversion Hnd as [|? ? Hni Hnd']; subst. unfold key_sum in *. cbn [fold_right].
  destruct (N.eqb_spec k x).
  - subst. fold (key_sum ks (fun a => if (x =? a)%N then v else 0)).
    rewrite key_sum_indicator_out by assumption. ring.
  - rewrite IH; [ring|assumption|]. destruct Hin; [congruence|assumption].
Qed.

Lemma bal_total_key_sum b c : NoDup (keys b) ->
  bal_total b c = key_sum (keys b) (fun a => a_get (bal_get b a) c).
Proof.
  induction b as [|[a x] r IH]; intro H; [reflexivity|].
  cbn [keys map fst] in H |- *. inversion H as [|? ? Hni Hnd]; subst.
  unfold bal_total, key_sum. cbn [fold_right snd].
  fold (bal_total r c). fold (key_sum (keys r) (fun a0 => a_get (bal_get ((a, x) :: r) a0) c)).
  rewrite (IH Hnd). f_equal.
  - unfold bal_get. cbn [get]. now rewrite N.eqb_refl.
  - apply key_sum_ext. intros a' Ha'. unfold bal_get. cbn [get].
    destruct (N.eqb_spec a a'); [subst; contradiction|reflexivity].
Qed.

Lemma key_sum_sum_posts ks ps c : NoDup ks -> (forall p, In p ps -> In (o_account p) ks) ->
  key_sum ks (fun a => sum_posts ps a c) = sum_all ps c.
Proof.
  intros Hnd. induction ps as [|p ps IH]; intro Hc.
  - unfold sum_all. cbn [fold_right]. clear. induction ks as [|k ks IH]; [reflexivity|].
    unfold key_sum in *. cbn [fold_right]. rewrite IH. rewrite sum_posts_nil. ring.
  - rewrite (key_sum_ext _ _ (fun a => contrib a c p + sum_posts ps a c)) by (intros; apply sum_posts_cons).
    rewrite key_sum_plus, IH by (intros; apply Hc; now right).
    unfold contrib. rewrite key_sum_indicator; [|assumption|apply Hc; now left].
    unfold sum_all. cbn [fold_right]. reflexivity.
Qed.

Theorem bal_total_sum_all s c : Inv s -> bal_total (s_bal s) c = sum_all (all_postings s) c.
Proof.
  intro I. destruct (inv_bal _ I) as [Hnd _].
  rewrite bal_total_key_sum by assumption.
  rewrite (key_sum_ext _ _ (fun a => sum_posts (all_postings s) a c)) by (intros; apply (inv_sum _ I)).
  apply key_sum_sum_posts; [assumption|apply (inv_cover _ I)].
Qed.

(* ---- C04(4) ---- *)
Theorem register_total s : Inv s ->
  forall c, a_get (last_total (register_lines [] (all_postings s))) c = bal_total (balance_report s None None) c.
Proof.
  intros I c. unfold balance_report. cbn [range_bypass]. rewrite bal_total_sum_all by assumption.
  unfold last_total. rewrite last_total_lines.
  destruct (all_postings s) as [|p ps] eqn:E; [reflexivity|].
  rewrite a_get_fold_add by (rewrite <- E; apply (inv_posts _ I)). rewrite a_get_nil. ring.
Qed.

(* ---- C04(1) ---- *)
Theorem raw_is_sum s : Inv s ->
  forall a c, a_get (bal_get (balance_report s None None) a) c = reg_sum (register_lines [] (all_postings s)) a c.
Proof. intros I a c. unfold balance_report. cbn [range_bypass]. rewrite reg_sum_lines. apply (inv_sum _ I). Qed.

Theorem whole_vs_range s : Inv s ->
  forall a c, a_get (bal_get (refold (s_txns s) None None) a) c = a_get (bal_get (s_bal s) a) c.
Proof.
  intros I a c. rewrite range_is_sum_gen by now apply Inv_txns_wf.
  rewrite range_sum_whole. symmetry. apply (inv_sum _ I).
Qed.

Theorem adjacent_add_refold txns st en b : txns_wf txns -> ole_l st b -> ole_r b en ->
  forall a c, a_get (bal_get (refold txns st (Some b)) a) c + a_get (bal_get (refold txns (Some b) en) a) c
              = a_get (bal_get (refold txns st en) a) c.
Proof. intros Hw H1 H2 a c. rewrite !range_is_sum_gen by assumption. now apply adjacent_add_sum. Qed.

(* a well-formed amount shows exactly the commodities whose value is not zero *)
Lemma amt_wf_shown x c : amt_wf x -> (In c (keys x) <-> a_get x c <> 0).
Proof.
  intros [Hnd Hnz]. unfold a_get. split.
  - intro Hin. destruct (get c x) as [v|] eqn:E.
    + apply get_some_in in E. eauto.
    + apply get_none_notin in E. contradiction.
  - intro H. destruct (get c x) as [v|] eqn:E; [|congruence].
    apply get_some_in in E. eapply in_keys; eauto.
Qed.

Lemma bal_get_round f b a : bal_get (bal_round f b) a = a_round f (bal_get b a).
Proof.
  unfold bal_get, bal_round. rewrite (get_map_val (fun _ x => a_round f x)).
  destruct (get a b); reflexivity.
Qed.

(* the ranged report shows a commodity on an account iff its exact total over the range is not zero *)
Theorem shown_iff_nonzero s st en a c : Inv s -> range_bypass st en = false ->
  (In c (keys (bal_get (balance_report s st en) a)) <-> range_sum (s_txns s) st en a c <> 0).
Proof.
  intros I Hb. unfold balance_report. rewrite Hb, bal_get_round, keys_round.
  rewrite <- (range_is_sum_gen _ st en (Inv_txns_wf _ I)).
  apply amt_wf_shown. apply bal_wf_get. apply refold_wf.
Qed.

Theorem shown_iff_nonzero_raw s a c : Inv s ->
  (In c (keys (bal_get (balance_report s None None) a)) <-> sum_posts (all_postings s) a c <> 0).
Proof.
  intro I. unfold balance_report. cbn [range_bypass]. rewrite <- (inv_sum _ I).
  apply amt_wf_shown. apply bal_wf_get. apply (inv_bal _ I).
Qed.
