(* C17 classifier: 0 Agree | 1 ModelMismatch | 2 PropertyFail |
   9 harness error (a Camt053 rule list outside the model: bank-transaction-code matchers).
   A case is a list of configuration documents, a file path, what ConfigSet::select returned,
   and either the CSV records fed to import::import under the selected configuration (with the
   column layout the harness used) or the records of a Camt053 statement (the texts of the fields
   a rule can look at), and the transactions that came out.
   The property is re-derived from the observation: the selected entry against the declarative
   merge (Model/ImpConfigSpec.v), and payee / code / counter account / pending mark of every
   transaction against the rules that hit its record (Model/ImpExtractSpec.v). *)
From Coq Require Import List NArith ZArith Bool QArith Qcanon.
From Okv Require Import Base.Dec Model.ImpConfig Model.ImpConfigSpec Model.ImpExtract
     Model.ImpExtractSpec Model.ImpSingleEntry Model.ImpCsv Model.ImpCamtMatch Run.ImpPattern Run.ImpCase.
Import ListNotations.

Inductive sel_obs := SelNone | SelErr (code : N) | SelOk (e : entry pat) | SelPanic.

Record csv_case := { k_docs : list (doc pat); k_path : str; k_sel : sel_obs;
                     k_fmt : format_spec;           (* layout used for the import run *)
                     k_header : list str; k_rows : list row; k_imp : imp_obs }.

(* a Camt053 run: the entries of the statement in file order, each the list of its records (the
   entry itself when it has no TxDtls, else one per TxDtls) *)
Record camt_case := { kc_docs : list (doc pat); kc_path : str; kc_sel : sel_obs;
                      kc_entries : list (list camt_entity); kc_imp : imp_obs }.

Inductive case := KCsv (c : csv_case) | KCamt (c : camt_case).
Definition K docs path sel fmt header rows imp : case :=
  KCsv {| k_docs := docs; k_path := path; k_sel := sel; k_fmt := fmt; k_header := header; k_rows := rows;
          k_imp := imp |}.
(* CE: the fields by RewriteField code, AcctSvcrRef, debit *)
Definition CE (fields : list (N * str)) (reference : option str) (debit : bool) : camt_entity :=
  {| ce_texts := map (fun kv => (RF (fst kv), snd kv)) fields; ce_reference := reference; ce_debit := debit |}.
Definition KC docs path sel entries imp : case :=
  KCamt {| kc_docs := docs; kc_path := path; kc_sel := sel; kc_entries := entries; kc_imp := imp |}.

Definition cfg_err_code (e : cfg_err) : N :=
  match e with NoEncoding => 1 | NoAccount => 2 | NoAccountType => 3 | NoCommodity => 4 end%N.

Definition sel_agrees (o : sel_obs) (m : option (entry pat + cfg_err)) : bool :=
  match o, m with
  | SelNone, None => true
  | SelErr k, Some (inr e) => (k =? cfg_err_code e)%N
  | SelOk a, Some (inl b) => entry_eqb a b
  | _, _ => false
  end.

(* ---- the property on the selected entry ---- *)
Definition spec_select (docs : list (doc pat)) (fp : str) (o : sel_obs) : bool :=
  match o with
  | SelPanic => false
  | _ => sel_agrees o (option_map to_entry (spec_merged docs fp))
  end.

(* ---- the property on the imported transactions ---- *)
Definition first_post (t : stxn) : option sposting := hd_error (st_posts t).
Definition last_post (t : stxn) : option sposting := hd_error (rev (st_posts t)).

Definition spec_txn (e : entry pat) (fm : field_map) (r : row) (t : stxn) : bool :=
  let rec := row_fields r in
  match fm_extract fm FPayee rec, fm_extract fm FCategory rec, fm_extract fm FSecondaryCommodity rec,
        fm_amount fm (e_account_type e) rec with
  | IOk (Some payee0), IOk cat, IOk sc, IOk amount =>
      let hs := hits (csv_matches re_captures) frag0 (compile (e_rewrite e))
                     {| rc_payee := payee0; rc_category := cat; rc_secondary_commodity := sc |} in
      let counter := if d_neg amount then first_post t else last_post t in
      (* the transaction carries the text on one line without outer white space (one_line, the
         C15 repair); the rules themselves see the captured text as it is, e.g. " coop" *)
      str_eqb (st_payee t) (one_line (match spec_payee hs with Some p => p | None => payee0 end))
      && ostr_eqb (st_code t) (option_map one_line (spec_code hs))
      && match counter with
         | None => false
         | Some p =>
             str_eqb (sp_account p)
                     (match spec_account hs with
                      | Some a => a
                      | None => if d_neg amount then expenses_unknown else income_unknown
                      end)
             && clear_eqb (sp_clear p) (if spec_cleared hs then Uncleared else Pending)
         end
  | _, _, _, _ => false
  end.

Fixpoint spec_txns (e : entry pat) (fm : field_map) (rows : list row) (ts : list stxn) : bool :=
  match rows, ts with
  | [], [] => true
  | r :: rr, t :: tr => spec_txn e fm r t && spec_txns e fm rr tr
  | _, _ => false
  end.

Definition is_err {A} (x : ires A) : bool := match x with IErr _ => true | _ => false end.

Definition spec_import (e : entry pat) (header : list str) (rows : list row) (o : imp_obs)
           (m : ires (list stxn)) : bool :=
  match o with
  | ImpPanic => false
  | ImpNotRun => false
  | ImpErr _ => is_err m          (* a refusal is in order only where the model refuses too *)
  | ImpOk ts =>
      match fieldmap_new (fs_fields (e_format e)) header with
      | IOk fm =>
          (* rows with an empty date produce nothing; output is reversed under new_to_old *)
          let live := filter (fun r => match fm_extract fm FDate (row_fields r) with
                                       | IOk (Some []) => false | _ => true end) rows in
          let ordered := match fs_row_order (e_format e) with OldToNew => live | NewToOld => rev live end in
          spec_txns e fm ordered ts
      | _ => false
      end
  end.

Definition classify_csv (c : csv_case) : N :=
  let msel := select (k_docs c) (k_path c) in
  let sel_spec := spec_select (k_docs c) (k_path c) (k_sel c) in
  let sel_same := sel_agrees (k_sel c) msel in
  match k_sel c with
  | SelOk e =>
      let e' := with_format e (k_fmt c) in
      let m := model_import e' (k_header c) (k_rows c) in
      if negb (sel_spec && spec_import e' (k_header c) (k_rows c) (k_imp c) m) then 2%N
      else if sel_same && imp_agrees (k_imp c) m then 0%N else 1%N
  | _ =>
      if negb sel_spec then 2%N
      else if sel_same && match k_imp c with ImpNotRun => true | _ => false end then 0%N else 1%N
  end.

(* ---- Camt053 records ---- *)
Definition camt_hits (e : entry pat) (r : camt_entity) : list (hit pat) :=
  hits (camt_matches re_captures) frag0 (compile (e_rewrite e)) r.

(* the property on one transaction: payee, counter account and pending mark as the rules that hit
   the record say; the code is the one a hit captured when there is one, otherwise the statement's
   reference (C17-K1, fixed in /repo d2eb1b8: the Camt053 importer used to ignore a captured code) *)
Definition spec_camt_txn (e : entry pat) (r : camt_entity) (t : stxn) : bool :=
  let hs := camt_hits e r in
  let counter := if ce_debit r then first_post t else last_post t in
  str_eqb (st_payee t) (one_line (match spec_payee hs with Some p => p | None => unknown_payee end))
  && ostr_eqb (st_code t)
              (option_map one_line (option_or (spec_code hs) (ce_reference r)))
  && match counter with
     | None => false
     | Some p =>
         str_eqb (sp_account p)
                 (match spec_account hs with
                  | Some a => a
                  | None => if ce_debit r then expenses_unknown else income_unknown
                  end)
         && clear_eqb (sp_clear p) (if spec_cleared hs then Uncleared else Pending)
     end.

Fixpoint spec_camt_txns (e : entry pat) (rs : list camt_entity) (ts : list stxn) : bool :=
  match rs, ts with
  | [], [] => true
  | r :: rr, t :: tr => spec_camt_txn e r t && spec_camt_txns e rr tr
  | _, _ => false
  end.

(* one transaction per record; entries reversed under new_to_old, the details of an entry not *)
Definition camt_records (e : entry pat) (entries : list (list camt_entity)) : list camt_entity :=
  concat (match fs_row_order (e_format e) with OldToNew => entries | NewToOld => rev entries end).

(* the Extractor is built before the statement is read: a rule list with a matcher that does not
   convert (invalid regex, a CSV-only field, an empty AND-list) is refused *)
Definition camt_rules_ok (e : entry pat) : bool := rules_ok (camt_valid re_valid) (e_rewrite e).

Definition spec_camt (e : entry pat) (entries : list (list camt_entity)) (o : imp_obs) : bool :=
  match o with
  | ImpPanic | ImpNotRun => false
  | ImpErr _ => negb (camt_rules_ok e)
  | ImpOk ts => camt_rules_ok e && spec_camt_txns e (camt_records e entries) ts
  end.

(* the model's transactions, seen through the same four observables *)
Definition view_agrees (r : camt_entity) (v : camt_view) (t : stxn) : bool :=
  let counter := if ce_debit r then first_post t else last_post t in
  str_eqb (st_payee t) (cv_payee v) && ostr_eqb (st_code t) (cv_code v)
  && match counter with
     | None => false
     | Some p =>
         str_eqb (sp_account p) (match cv_dest v with
                                 | Some a => a
                                 | None => if ce_debit r then expenses_unknown else income_unknown
                                 end)
         && clear_eqb (sp_clear p) (if cv_pending v then Pending else Uncleared)
     end.
Fixpoint views_agree (e : entry pat) (rs : list camt_entity) (ts : list stxn) : bool :=
  match rs, ts with
  | [], [] => true
  | r :: rr, t :: tr => view_agrees r (camt_record_view re_captures (e_rewrite e) r) t && views_agree e rr tr
  | _, _ => false
  end.
Definition camt_model_agrees (e : entry pat) (entries : list (list camt_entity)) (o : imp_obs) : bool :=
  match o with
  | ImpErr _ => negb (camt_rules_ok e)
  | ImpOk ts => camt_rules_ok e && views_agree e (camt_records e entries) ts
  | _ => false
  end.

Definition classify_camt (c : camt_case) : N :=
  let msel := select (kc_docs c) (kc_path c) in
  let sel_spec := spec_select (kc_docs c) (kc_path c) (kc_sel c) in
  let sel_same := sel_agrees (kc_sel c) msel in
  match kc_sel c with
  | SelOk e =>
      if negb (camt_in_model (e_rewrite e)) then 9%N
      else if negb sel_spec then 2%N
      else if negb (spec_camt e (kc_entries c) (kc_imp c)) then 2%N
      else if sel_same && camt_model_agrees e (kc_entries c) (kc_imp c) then 0%N else 1%N
  | _ =>
      if negb sel_spec then 2%N
      else if sel_same && match kc_imp c with ImpNotRun => true | _ => false end then 0%N else 1%N
  end.

Definition classify (c : case) : N :=
  match c with KCsv c => classify_csv c | KCamt c => classify_camt c end.

Definition verdicts (cs : list case) : list N := map classify cs.
