(* Lemmas for property C08, shape: the token-level parser model (Model/ExprParse.v, the
   left fold of separated_foldl1 made explicit, recursion on fuel) returns tree t with rest k
   exactly when the textbook left-recursive grammar derives t before k. *)
From Coq Require Import List NArith ZArith Bool QArith Qcanon Lia.
From Okv Require Import Base.Maps Base.Dec Model.Amount Model.ExprParse.
Import ListNotations.
Open Scope nat_scope.

Scheme g_value_min := Minimality for g_value Sort Prop
  with g_unary_min := Minimality for g_unary Sort Prop
  with g_mul_min := Minimality for g_mul Sort Prop
  with g_add_min := Minimality for g_add Sort Prop.
Combined Scheme g_all_ind from g_value_min, g_unary_min, g_mul_min, g_add_min.

Lemma add_op_not_mul : forall t op, add_op t = Some op -> mul_op t = None.
Proof. intros [] op H; cbn in *; congruence. Qed.

(* ---------- a phrase is not empty ---------- *)
Lemma g_consumes :
  (forall ts v k, g_value ts v k -> length k < length ts) /\
  (forall ts e k, g_unary ts e k -> length k < length ts) /\
  (forall ts e k, g_mul ts e k -> length k < length ts) /\
  (forall ts e k, g_add ts e k -> length k < length ts).
Proof.
  apply g_all_ind; intros; cbn [length] in *; lia.
Qed.

(* ---------- soundness: what the parser returns, the grammar derives ---------- *)
Section LoopSound.
  Variable is_op : token -> option binop.
  Variable operand : list token -> presult (expr * list token).
  Variables Dop Dch : list token -> expr -> list token -> Prop.
  Hypothesis operand_sound : forall ts e k, operand ts = POk (e, k) -> Dop ts e k.
  Hypothesis ch_one : forall ts e k, Dop ts e k -> Dch ts e k.
  Hypothesis ch_bin : forall ts l t op k1 r k,
    Dch ts l (t :: k1) -> is_op t = Some op -> Dop k1 r k -> Dch ts (EBin op l r) k.

  Lemma foldl_loop_sound : forall n acc cur e k ts0,
    Dch ts0 acc cur -> foldl_loop is_op operand n acc cur = POk (e, k) -> Dch ts0 e k.
  Proof.
    induction n as [|n IH]; intros acc cur e k ts0 D H; cbn [foldl_loop] in H; [discriminate|].
    destruct cur as [|t r]; [inversion H; subst; exact D|].
    destruct (is_op t) as [op|] eqn:O; [|inversion H; subst; exact D].
    destruct (operand r) as [[e' k']| |] eqn:R; [|inversion H; subst; exact D | discriminate].
    eapply IH; [|exact H]. eapply ch_bin; [exact D | exact O | apply operand_sound; exact R].
  Qed.

  Lemma infixl_sound : forall n ts e k, infixl is_op operand n ts = POk (e, k) -> Dch ts e k.
  Proof.
    intros n ts e k H. unfold infixl in H.
    destruct (operand ts) as [[e' k']| |] eqn:R; try discriminate.
    eapply foldl_loop_sound; [|exact H]. apply ch_one. apply operand_sound. exact R.
  Qed.
End LoopSound.

Lemma unary_of_sound : forall pv,
  (forall ts v k, pv ts = POk (v, k) -> g_value ts v k) ->
  forall ts e k, unary_of pv ts = POk (e, k) -> g_unary ts e k.
Proof.
  intros pv Hpv ts e k H. unfold unary_of in H.
  assert (V : forall ts', match pv ts' with POk (v, k0) => POk (EVal v, k0) | PFail => PFail | POutOfFuel => POutOfFuel end = POk (e, k) -> g_unary ts' e k).
  { intros ts' H'. destruct (pv ts') as [[v k0]| |] eqn:P; try discriminate. inversion H'; subst.
    apply GU_value. apply Hpv. exact P. }
  destruct ts as [|t r]; [apply V; exact H|].
  destruct t; try (apply V; exact H).
  destruct (pv r) as [[v k0]| |] eqn:P; try discriminate. inversion H; subst.
  apply GU_neg. apply Hpv. exact P.
Qed.

Lemma mul_of_sound : forall pv n,
  (forall ts v k, pv ts = POk (v, k) -> g_value ts v k) ->
  forall ts e k, mul_of pv n ts = POk (e, k) -> g_mul ts e k.
Proof.
  intros pv n Hpv ts e k H. unfold mul_of in H.
  eapply (infixl_sound mul_op (unary_of pv) g_unary g_mul); [| | |exact H].
  - apply unary_of_sound. exact Hpv.
  - apply GM_unary.
  - intros. eapply GM_bin; eassumption.
Qed.

Lemma add_of_sound : forall pv n,
  (forall ts v k, pv ts = POk (v, k) -> g_value ts v k) ->
  forall ts e k, add_of pv n ts = POk (e, k) -> g_add ts e k.
Proof.
  intros pv n Hpv ts e k H. unfold add_of in H.
  eapply (infixl_sound add_op (mul_of pv n) g_mul g_add); [| | |exact H].
  - apply mul_of_sound. exact Hpv.
  - apply GA_mul.
  - intros. eapply GA_bin; eassumption.
Qed.

Lemma parse_value_sound : forall f ts v k, parse_value f ts = POk (v, k) -> g_value ts v k.
Proof.
  induction f as [|f IH]; intros ts v k H; cbn [parse_value] in H; [discriminate|].
  destruct ts as [|t r]; [discriminate|]. destruct t; try discriminate.
  - inversion H; subst. apply GV_amount.
  - destruct (add_of (parse_value f) f r) as [[e k0]| |] eqn:A; try discriminate.
    destruct k0 as [|t0 k1]; [discriminate|]. destruct t0; try discriminate.
    inversion H; subst. apply GV_paren. eapply add_of_sound; [exact IH | exact A].
Qed.

(* ---------- fuel: token count suffices ---------- *)
Section LoopFuel.
  Variable is_op : token -> option binop.
  Variable operand : list token -> presult (expr * list token).
  Variable L : nat.
  Hypothesis operand_consumes : forall ts e k, operand ts = POk (e, k) -> length k < length ts.
  Hypothesis operand_fuel : forall ts, length ts < L -> operand ts <> POutOfFuel.

  Lemma foldl_loop_fuel : forall n acc ts, length ts < n -> length ts <= L ->
    foldl_loop is_op operand n acc ts <> POutOfFuel.
  Proof.
    induction n as [|n IH]; intros acc ts Hn HL; [lia|]. cbn [foldl_loop].
    destruct ts as [|t r]; [discriminate|]. cbn [length] in *.
    destruct (is_op t); [|discriminate].
    destruct (operand r) as [[e k]| |] eqn:R; [| discriminate | exfalso; apply (operand_fuel r); [lia | exact R]].
    apply operand_consumes in R. apply IH; lia.
  Qed.

  Lemma infixl_fuel : forall n ts, length ts < n -> length ts < L -> infixl is_op operand n ts <> POutOfFuel.
  Proof.
    intros n ts Hn HL. unfold infixl.
    destruct (operand ts) as [[e k]| |] eqn:R; [| discriminate | exfalso; apply (operand_fuel ts); assumption].
    apply operand_consumes in R. apply foldl_loop_fuel; lia.
  Qed.
End LoopFuel.

Lemma parse_value_fuel : forall f ts, length ts < f -> parse_value f ts <> POutOfFuel.
Proof.
  induction f as [|f IH]; intros ts Hf; [lia|]. cbn [parse_value].
  destruct ts as [|t r]; [discriminate|]. destruct t; try discriminate. cbn [length] in Hf.
  assert (S0 : forall ts v k, parse_value f ts = POk (v, k) -> g_value ts v k) by (apply parse_value_sound).
  assert (U : forall ts, length ts < f -> unary_of (parse_value f) ts <> POutOfFuel).
  { intros ts H. unfold unary_of.
    assert (V : forall ts', length ts' < f ->
              match parse_value f ts' with POk (v, k0) => POk (EVal v, k0) | PFail => PFail | POutOfFuel => POutOfFuel end
              <> (POutOfFuel : presult (expr * list token))).
    { intros ts' H'. specialize (IH ts' H'). destruct (parse_value f ts') as [[v k0]| |]; congruence. }
    destruct ts as [|t0 r0]; [apply V; exact H|]. destruct t0; try (apply V; exact H).
    cbn [length] in H. assert (H' : length r0 < f) by lia. specialize (IH r0 H').
    destruct (parse_value f r0) as [[v k0]| |]; congruence. }
  assert (M : forall ts, length ts < f -> mul_of (parse_value f) f ts <> POutOfFuel).
  { intros ts H. unfold mul_of. apply (infixl_fuel mul_op (unary_of (parse_value f)) f); try assumption.
    intros ts0 e k R. apply (unary_of_sound _ S0) in R. apply (proj1 (proj2 g_consumes)) in R. exact R. }
  assert (A : add_of (parse_value f) f r <> POutOfFuel).
  { unfold add_of. apply (infixl_fuel add_op (mul_of (parse_value f) f) f); try lia; try assumption.
    intros ts0 e k R. apply (mul_of_sound _ _ S0) in R. apply (proj1 (proj2 (proj2 g_consumes))) in R. exact R. }
  destruct (add_of (parse_value f) f r) as [[e k0]| |]; try congruence.
  destruct k0 as [|t0 k1]; [discriminate|]. destruct t0; discriminate.
Qed.

Theorem parse_value_expr_total : forall ts, parse_value_expr ts <> POutOfFuel.
Proof. intros ts. unfold parse_value_expr. apply parse_value_fuel. lia. Qed.

(* ---------- completeness: the parser finds the derivation ---------- *)
Lemma loop_stops : forall is_op operand n acc k,
  length k < n -> match k with t :: _ => is_op t = None | [] => True end ->
  foldl_loop is_op operand n acc k = POk (acc, k).
Proof.
  intros is_op operand n acc k Hn Hk. destruct n as [|n]; [lia|]. cbn [foldl_loop].
  destruct k as [|t r]; [reflexivity|]. rewrite Hk. reflexivity.
Qed.

Definition Pv (ts : list token) (v : vexpr) (k : list token) : Prop :=
  forall f, length ts < f -> parse_value f ts = POk (v, k).
Definition Pu (ts : list token) (e : expr) (k : list token) : Prop :=
  forall f, length ts < f -> unary_of (parse_value f) ts = POk (e, k).
(* the loop reaches the state (e, k) with fuel to spare *)
Definition Pm (ts : list token) (e : expr) (k : list token) : Prop :=
  forall f n, length ts < f -> length ts < n ->
    exists n', length k < n' /\
      mul_of (parse_value f) n ts = foldl_loop mul_op (unary_of (parse_value f)) n' e k.
Definition Pa (ts : list token) (e : expr) (k : list token) : Prop :=
  forall f n, length ts < f -> length ts < n -> no_mul_head k ->
    exists n', length k < n' /\
      add_of (parse_value f) n ts = foldl_loop add_op (mul_of (parse_value f) n) n' e k.

Lemma g_complete_all :
  (forall ts v k, g_value ts v k -> Pv ts v k) /\
  (forall ts e k, g_unary ts e k -> Pu ts e k) /\
  (forall ts e k, g_mul ts e k -> Pm ts e k) /\
  (forall ts e k, g_add ts e k -> Pa ts e k).
Proof.
  apply g_all_ind.
  - (* amount *)
    intros q c k f Hf. destruct f as [|f]; [cbn [length] in Hf; lia|]. reflexivity.
  - (* ( add ) *)
    intros ts e k D IH f Hf. destruct f as [|f]; [lia|]. cbn [length] in Hf. cbn [parse_value].
    destruct (IH f f) as [n' [Hn' E]]; [lia | lia | cbn; reflexivity |].
    rewrite E. rewrite loop_stops; [reflexivity | exact Hn' | reflexivity].
  - (* - value *)
    intros ts v k D IH f Hf. cbn [length] in Hf. unfold unary_of. rewrite IH by lia. reflexivity.
  - (* value *)
    intros ts v k D IH f Hf. unfold unary_of. rewrite IH by exact Hf.
    inversion D; subst; reflexivity.
  - (* mul ::= unary *)
    intros ts e k D IH f n Hf Hn. exists n. split.
    + apply (proj1 (proj2 g_consumes)) in D. lia.
    + unfold mul_of, infixl. rewrite IH by exact Hf. reflexivity.
  - (* mul ::= mul op unary *)
    intros ts l t op k1 r k D1 IH1 O D2 IH2 f n Hf Hn.
    destruct (IH1 f n Hf Hn) as [n' [Hn' E]]. cbn [length] in Hn'.
    destruct n' as [|n'']; [lia|]. exists n''.
    pose proof (proj1 (proj2 (proj2 g_consumes)) _ _ _ D1) as C1. cbn [length] in C1.
    pose proof (proj1 (proj2 g_consumes) _ _ _ D2) as C2.
    split; [lia|]. rewrite E. cbn [foldl_loop]. rewrite O. rewrite IH2 by lia. reflexivity.
  - (* add ::= mul *)
    intros ts e k D IH f n Hf Hn NM. exists n.
    pose proof (proj1 (proj2 (proj2 g_consumes)) _ _ _ D) as C.
    split; [lia|]. unfold add_of, infixl.
    destruct (IH f n Hf Hn) as [n' [Hn' E]]. fold (mul_of (parse_value f) n). rewrite E.
    rewrite loop_stops; [reflexivity | exact Hn' | exact NM].
  - (* add ::= add op mul *)
    intros ts l t op k1 r k D1 IH1 O D2 IH2 f n Hf Hn NM.
    destruct (IH1 f n Hf Hn) as [n' [Hn' E]]; [cbn; eapply add_op_not_mul; exact O|].
    cbn [length] in Hn'. destruct n' as [|n'']; [lia|]. exists n''.
    pose proof (proj2 (proj2 (proj2 g_consumes)) _ _ _ D1) as C1. cbn [length] in C1.
    pose proof (proj1 (proj2 (proj2 g_consumes)) _ _ _ D2) as C2.
    split; [lia|]. rewrite E. cbn [foldl_loop]. rewrite O.
    destruct (IH2 f n) as [m [Hm Em]]; [lia | lia |]. rewrite Em.
    rewrite loop_stops; [reflexivity | exact Hm | exact NM].
Qed.

Theorem parser_is_grammar : forall ts t k, parse_value_expr ts = POk (t, k) <-> g_value ts t k.
Proof.
  intros ts t k. unfold parse_value_expr. split.
  - apply parse_value_sound.
  - intros D. apply (proj1 g_complete_all ts t k D). lia.
Qed.

(* the grammar is unambiguous, and a value phrase is determined by where it starts *)
Theorem g_value_unique : forall ts t k t' k', g_value ts t k -> g_value ts t' k' -> t = t' /\ k = k'.
Proof.
  intros ts t k t' k' D D'. apply parser_is_grammar in D. apply parser_is_grammar in D'.
  rewrite D in D'. inversion D'; subst. split; reflexivity.
Qed.

(* same statement for a parenthesised sum read to its closing parenthesis *)
Theorem add_phrase_complete : forall ts e k f,
  g_add ts e (TRP :: k) -> length ts < f -> parse_add f ts = POk (e, TRP :: k).
Proof.
  intros ts e k f D Hf. unfold parse_add.
  destruct (proj2 (proj2 (proj2 g_complete_all)) ts e (TRP :: k) D f f Hf Hf) as [n' [Hn' E]]; [cbn; reflexivity|].
  rewrite E. apply loop_stops; [exact Hn' | reflexivity].
Qed.

(* non-vacuity: precedence, left associativity, unary minus and the fold to the left *)
Definition n (z : Z) : token := TNum (of_dec z 0) None.
Definition lit (z : Z) : expr := EVal (VAmt (of_dec z 0) None).
Example ex_precedence :
  parse_value_expr [TLP; n 1; TPlus; n 2; TStar; n 3; TRP]
  = POk (VParen (EBin OAdd (lit 1) (EBin OMul (lit 2) (lit 3))), []).
Proof. reflexivity. Qed.
Example ex_left_assoc :
  parse_value_expr [TLP; n 1; TMinus; n 2; TMinus; n 3; TRP]
  = POk (VParen (EBin OSub (EBin OSub (lit 1) (lit 2)) (lit 3)), []).
Proof. reflexivity. Qed.
Example ex_unary_binds_tighter :
  parse_value_expr [TLP; TMinus; n 1; TStar; n 2; TRP]
  = POk (VParen (EBin OMul (EUnaryNeg (lit 1)) (lit 2)), []).
Proof. reflexivity. Qed.
Example ex_grammar_derivation :
  derives [TLP; n 1; TPlus; n 2; TStar; n 3; TRP] (VParen (EBin OAdd (lit 1) (EBin OMul (lit 2) (lit 3)))) [].
Proof. apply parser_is_grammar. reflexivity. Qed.
Example ex_dangling_operator : parse_value_expr [TLP; n 1; TPlus; TRP] = PFail.
Proof. reflexivity. Qed.
