(* Every parser of the model is safe (no panic, no out-of-fuel, leaves a suffix) on inputs of
   length at most the fuel, and the parsers used as loop bodies / separators / entries consume
   input when they succeed.  These are the consumption lemmas behind C06_parse_total. *)
From Coq Require Import List NArith ZArith Bool Lia Arith.
From Okv Require Import Model.Lit Model.Syntax Model.Comb Model.ParseExpr Model.ParseMeta
  Model.ParsePosting Model.ParseTxn Model.ParseDirective Model.ParseLedger Proofs.CombSpec
  Proofs.ParseExprErase.
Import ListNotations.

Create HintDb psafe.
#[export] Hint Resolve safe_ret safe_fail safe_literal safe_take_while0 safe_take_till0 safe_eof
  safe_space0 cons_any cons_one_of cons_chr cons_take_while1 cons_take_till1 cons_space1 cons_digit1
  cons_safe : psafe.

(* structural decomposition of `safe` goals *)
Ltac psafe_step :=
  cbv beta;
  lazymatch goal with
  | |- forall _, _ => intro
  | |- triple ?n ?p (fun _ _ _ => True) => change (safe n p)
  | |- safe _ (bind _ _) => apply safe_bind
  | |- safe _ (ret _) => apply safe_ret
  | |- safe _ (pmap _ _) => apply safe_pmap
  | |- safe _ (void _) => apply safe_void
  | |- safe _ (preceded _ _) => apply safe_preceded
  | |- safe _ (terminated _ _) => apply safe_terminated
  | |- safe _ (delimited _ _ _) => apply safe_delimited
  | |- safe _ (opt _) => apply safe_opt
  | |- safe _ (alt _ _) => apply safe_alt
  | |- safe _ (peek _) => apply safe_peek
  | |- safe _ (pnot _) => apply safe_pnot
  | |- safe _ (has_peek _) => apply safe_has_peek
  | |- safe _ (cut_err _) => apply triple_cut_err
  | |- safe _ (context _ _) => apply triple_context
  | |- safe _ (cond _ _) => apply safe_cond
  | |- safe _ (cond_else _ _ _) => apply triple_cond_else
  | |- safe _ (taken _) => apply safe_taken
  | |- safe _ (with_span _) => apply safe_with_span
  | |- safe _ (try_map _ _) => apply safe_try_map
  | |- safe _ (if ?b then _ else _) => destruct b
  | |- safe _ (match ?x with Some _ => _ | None => _ end) => destruct x
  | |- safe _ (let (_, _) := ?x in _) => destruct x
  | |- safe _ _ => solve [eauto with psafe]
  end.
Ltac psafe := repeat psafe_step.

(* ---- character.rs ---- *)
Lemma cons_line_ending : forall n, cons n line_ending.
Proof. intros. unfold line_ending. apply cons_alt; apply cons_literal; discriminate. Qed.
#[export] Hint Resolve cons_line_ending : psafe.
Lemma cons_line_ending_or_semi : forall n, cons n line_ending_or_semi.
Proof. intros. unfold line_ending_or_semi. apply cons_alt; auto with psafe. apply cons_literal; discriminate. Qed.
Lemma safe_line_ending_or_eof : forall n, safe n line_ending_or_eof.
Proof. intros. unfold line_ending_or_eof. psafe. Qed.
#[export] Hint Resolve cons_line_ending_or_semi safe_line_ending_or_eof : psafe.

Lemma safe_till_line_ending : forall n, safe n till_line_ending.
Proof.
  intros n i _. unfold till_line_ending. destruct (span_while _ i) eqn:E.
  apply span_while_app in E. subst.
  assert (suffix l0 (l ++ l0)) by (now exists l).
  destruct l0 as [| c [| d t]]; auto.
  - destruct c as [| p]; auto. repeat (destruct p; auto).
  - destruct c as [| p]; auto. repeat (destruct p; auto); destruct d as [| q]; auto; repeat (destruct q; auto).
Qed.
#[export] Hint Resolve safe_till_line_ending : psafe.

Lemma safe_paren : forall A n (p : parser A), safe n p -> safe n (paren p).
Proof. intros. unfold paren. psafe. Qed.
Lemma cons_paren : forall A n (p : parser A), safe n p -> cons n (paren p).
Proof. intros. unfold paren. apply cons_delimited_l; auto with psafe. Qed.
Lemma cons_paren_str : forall n, cons n paren_str.
Proof. intros. unfold paren_str. apply cons_paren. psafe. Qed.
#[export] Hint Resolve cons_paren_str : psafe.

(* ---- primitive.rs ---- *)
Lemma safe_pretty_decimal : forall n, safe n pretty_decimal.
Proof. intros. unfold pretty_decimal, decimal_token. psafe. Qed.
Lemma safe_commodity : forall n, safe n commodity.
Proof. intros. unfold commodity. psafe. Qed.
Lemma cons_date_with : forall n c, cons n (date_with c).
Proof. intros. unfold date_with. apply cons_bind_l; auto with psafe; psafe. Qed.
Lemma cons_date : forall n, cons n date.
Proof. intros. unfold date. apply cons_try_map, cons_alt; apply cons_date_with. Qed.
#[export] Hint Resolve safe_pretty_decimal safe_commodity cons_date : psafe.

(* ---- expr.rs ---- *)
Lemma safe_amount : forall n, safe n amount.
Proof. intros. unfold amount. psafe. Qed.
Lemma cons_add_op : forall n, cons n add_op.
Proof. intros. unfold add_op. apply cons_alt; apply cons_bind_l; auto with psafe; psafe. Qed.
Lemma cons_mul_op : forall n, cons n mul_op.
Proof. intros. unfold mul_op. apply cons_alt; apply cons_bind_l; auto with psafe; psafe. Qed.
#[export] Hint Resolve safe_amount cons_add_op cons_mul_op : psafe.

(* the chain loop of infixl: every turn consumes the operator, so fuel >= length suffices *)
Lemma safe_chain_loop : forall n (op : parser s_binop) (p : parser s_expr), safe n p -> cons n op ->
  forall fuel i lhs, (length i <= fuel)%nat -> (length i <= n)%nat ->
    match chain_loop fuel op p lhs i with
    | POk _ r => suffix r i
    | PErr _ _ r => suffix r i
    | _ => False
    end.
Proof.
  intros n op p Hp Hop.
  assert (Hsep : cons n (delimited space0 op space0)) by (apply cons_delimited_m; auto with psafe).
  induction fuel; intros i lhs Hfu Hn; cbn [chain_loop].
  - specialize (Hsep i Hn). destruct (delimited space0 op space0 i) as [b r | [] l r | |]; auto with sfx.
    destruct Hsep as [Hs Hlt]. lia.
  - specialize (Hsep i Hn). destruct (delimited space0 op space0 i) as [b r | [] l r | |]; auto with sfx.
    destruct Hsep as [Hs Hlt].
    assert (H2 : (length r <= n)%nat) by lia. specialize (Hp r H2).
    destruct (p r) as [a r' | [] l r' | |]; auto with sfx.
    + destruct Hp as [Hs' _].
      destruct (fits_under _); [| auto with sfx].
      assert (H3 : (length r' <= fuel)%nat) by (apply suffix_length in Hs'; lia).
      assert (H4 : (length r' <= n)%nat) by (apply suffix_length in Hs'; lia).
      specialize (IHfuel r' (SBinary b lhs a) H3 H4).
      destruct (chain_loop fuel op p (SBinary b lhs a) r'); auto;
        (eapply suffix_trans; [eassumption |]; eapply suffix_trans; eauto).
    + eapply suffix_trans; eauto.
Qed.
Lemma safe_infixl_e : forall n fuel op operand, (n <= fuel)%nat -> cons n op -> safe n operand ->
  safe n (infixl_e fuel op operand).
Proof.
  intros n fuel op operand Hfu Hop Hp i Hi. unfold infixl_e.
  pose proof (Hp i Hi) as H0. destruct (operand i) as [a m | | |]; auto. destruct H0 as [Hs _].
  pose proof (safe_chain_loop n op operand Hp Hop fuel m a) as H.
  assert (H1 : (length m <= fuel)%nat) by (apply suffix_length in Hs; lia).
  assert (H2 : (length m <= n)%nat) by (apply suffix_length in Hs; lia).
  specialize (H H1 H2). destruct (chain_loop fuel op operand a m); auto.
  - split; [eapply suffix_trans; eauto | exact I].
  - eapply suffix_trans; eauto.
Qed.
Lemma safe_unary_e : forall n ve, safe n ve -> safe n (unary_e ve).
Proof.
  intros n ve H i Hi. unfold unary_e. destruct i as [| c r]; [simpl; auto with sfx |].
  destruct (N.eqb c 45).
  - unfold negate_e.
    match goal with |- context [try_map ?p ?f] => assert (S : safe n (try_map p f)) by psafe end.
    apply S; assumption.
  - assert (S : safe n (pmap SValue ve)) by psafe. apply S; assumption.
Qed.
Lemma safe_value_expr_d : forall n fuel d, (n <= fuel)%nat -> safe n (value_expr_d fuel d).
Proof.
  intros n fuel d Hf. induction d; intros i Hi; simpl; destruct i as [| c r]; auto with sfx.
  - destruct (N.eqb c 40); auto with sfx.
    assert (S : safe n (pmap SAmount amount)) by psafe. apply S; assumption.
  - destruct (N.eqb c 40).
    + match goal with |- context [paren_e ?p] => assert (S : safe n (paren_e p)) end.
      { unfold paren_e. apply safe_try_map, safe_paren, safe_delimited; auto with psafe.
        apply safe_infixl_e; auto with psafe. apply safe_infixl_e; auto with psafe.
        apply safe_unary_e. exact IHd. }
      apply S; assumption.
    + assert (S : safe n (pmap SAmount amount)) by psafe. apply S; assumption.
Qed.
Lemma safe_value_expr : forall n fuel, (n <= fuel)%nat -> safe n (value_expr fuel).
Proof.
  intros n fuel H i Hi. rewrite value_expr_erase. exact (safe_value_expr_d n fuel max_expr_depth H i Hi).
Qed.
#[export] Hint Resolve safe_value_expr : psafe.

(* ---- metadata.rs ---- *)
Lemma safe_clear_state : forall n, safe n clear_state.
Proof. intros. unfold clear_state. psafe. Qed.
Lemma cons_tag_key : forall n, cons n tag_key.
Proof. intros. unfold tag_key. auto with psafe. Qed.
Lemma safe_metadata_value : forall n, safe n metadata_value.
Proof. intros. unfold metadata_value. psafe. Qed.
#[export] Hint Resolve safe_clear_state cons_tag_key safe_metadata_value : psafe.
Lemma safe_metadata_kv : forall n, safe n metadata_kv.
Proof. intros. unfold metadata_kv. psafe. Qed.
Lemma safe_metadata_tags : forall n fuel, (n <= fuel)%nat -> safe n (metadata_tags fuel).
Proof.
  intros. unfold metadata_tags. apply safe_pmap, safe_delimited; auto with psafe.
  apply cons_safe, cons_many1; auto. apply cons_terminated_l; auto with psafe.
Qed.
#[export] Hint Resolve safe_metadata_kv safe_metadata_tags : psafe.
Lemma cons_line_metadata : forall n fuel, (n <= fuel)%nat -> cons n (line_metadata fuel).
Proof.
  intros. unfold line_metadata. apply cons_delimited_l; auto with psafe.
  - apply cons_bind_l; auto with psafe; psafe.
  - psafe.
Qed.
#[export] Hint Resolve cons_line_metadata : psafe.
Lemma safe_block_metadata : forall n fuel, (n <= fuel)%nat -> safe n (block_metadata fuel).
Proof.
  intros n fuel Hf i Hi. unfold block_metadata.
  assert (S1 : safe n (separated1 fuel (line_metadata fuel) space1))
    by (apply safe_separated1; auto with psafe).
  assert (S2 : safe n (preceded line_ending_or_eof (many0 fuel (preceded space1 (line_metadata fuel))))).
  { apply safe_preceded; auto with psafe. apply safe_many0; auto.
    apply cons_preceded_l; auto with psafe. }
  destruct (match i with c :: _ => N.eqb c 59 | [] => false end); [apply S1 | apply S2]; assumption.
Qed.
#[export] Hint Resolve safe_block_metadata : psafe.

(* ---- posting.rs ---- *)
Lemma safe_posting_account : forall n fuel, (n <= fuel)%nat -> safe n (posting_account fuel).
Proof.
  intros. unfold posting_account. apply safe_terminated; auto with psafe.
  apply safe_with_span, safe_try_map, safe_pmap, safe_taken, cons_safe, cons_repeat_till1; auto.
  - apply cons_bind_r; psafe; auto with psafe.
  - psafe.
Qed.
Lemma safe_lot_amount : forall n fuel, (n <= fuel)%nat -> safe n (lot_amount fuel).
Proof. intros. unfold lot_amount. psafe. Qed.
#[export] Hint Resolve safe_posting_account safe_lot_amount : psafe.

Definition lot_missing (l : s_lot) : nat :=
  (match lot_price l with None => 1 | Some _ => 0 end) +
  (match lot_date l with None => 1 | Some _ => 0 end) +
  (match lot_note l with None => 1 | Some _ => 0 end).

Lemma safe_lot_loop : forall n fuel, (n <= fuel)%nat ->
  forall k l psp, (lot_missing l < k)%nat -> safe n (lot_loop fuel k l psp).
Proof.
  intros n fuel Hf. induction k; intros l psp Hk; [lia |].
  intros i Hi. simpl.
  destruct i as [| c r]; [simpl; auto with sfx |].
  destruct (N.eqb c 123); [| destruct (N.eqb c 91); [| destruct (N.eqb c 40); [| simpl; auto with sfx]]].
  - destruct (lot_price l) eqn:E; [simpl; auto with sfx |].
    match goal with |- context [bind ?p ?k] => assert (S : safe n (bind p k)) end.
    { apply safe_bind; [psafe |]. intros pr. apply safe_bind; auto with psafe. intros _.
      apply IHk. unfold lot_missing in *. simpl. rewrite E in Hk. lia. }
    apply S; assumption.
  - destruct (lot_date l) eqn:E; [simpl; auto with sfx |].
    match goal with |- context [bind ?p ?k] => assert (S : safe n (bind p k)) end.
    { apply safe_bind; [psafe |]. intros d. apply safe_bind; auto with psafe. intros _.
      apply IHk. unfold lot_missing in *. simpl. rewrite E in Hk. lia. }
    apply S; assumption.
  - destruct (lot_note l) eqn:E; [simpl; auto with sfx |].
    match goal with |- context [bind ?p ?k] => assert (S : safe n (bind p k)) end.
    { apply safe_bind; [apply safe_paren; psafe |]. intros d. apply safe_bind; auto with psafe. intros _.
      apply IHk. unfold lot_missing in *. simpl. rewrite E in Hk. lia. }
    apply S; assumption.
Qed.

Lemma safe_lot : forall n fuel, (n <= fuel)%nat -> safe n (lot fuel).
Proof.
  intros n fuel H. unfold lot. apply safe_bind; auto with psafe. intros _.
  apply (safe_lot_loop n fuel H 4); unfold lot_missing; simpl; lia.
Qed.
Lemma safe_total_cost : forall n fuel, (n <= fuel)%nat -> safe n (total_cost fuel).
Proof. intros. unfold total_cost. psafe. Qed.
Lemma safe_rate_cost : forall n fuel, (n <= fuel)%nat -> safe n (rate_cost fuel).
Proof. intros. unfold rate_cost. psafe. Qed.
#[export] Hint Resolve safe_lot safe_total_cost safe_rate_cost : psafe.
Lemma safe_posting_amount : forall n fuel, (n <= fuel)%nat -> safe n (posting_amount fuel).
Proof. intros. unfold posting_amount. psafe. Qed.
#[export] Hint Resolve safe_posting_amount : psafe.
Lemma safe_posting_body : forall n fuel, (n <= fuel)%nat -> safe n (posting_body fuel).
Proof. intros. unfold posting_body. psafe. Qed.
#[export] Hint Resolve safe_posting_body : psafe.
Lemma safe_posting : forall n fuel, (n <= fuel)%nat -> safe n (posting fuel).
Proof. intros. unfold posting. psafe. Qed.
#[export] Hint Resolve safe_posting : psafe.

(* ---- transaction.rs ---- *)
Lemma cons_posting_indent : forall n, cons n posting_indent.
Proof. intros. unfold posting_indent. apply cons_bind_l; auto with psafe; psafe. Qed.
#[export] Hint Resolve cons_posting_indent : psafe.
Lemma cons_transaction : forall n fuel, (n <= fuel)%nat -> cons n (transaction fuel).
Proof.
  intros. unfold transaction. apply cons_bind_l.
  - apply triple_context. apply cons_date.
  - intros d. unfold till_line_ending_or_semi. psafe.
    apply safe_many0; auto. apply cons_preceded_l; auto with psafe. psafe.
Qed.
#[export] Hint Resolve cons_transaction : psafe.

(* ---- directive.rs ---- *)
Lemma cons_multiline_text : forall A n fuel (prefix : parser A), (n <= fuel)%nat -> cons n prefix ->
  cons n (multiline_text fuel prefix).
Proof.
  intros. unfold multiline_text. apply cons_pmap, cons_many1; auto.
  apply cons_delimited_l; auto with psafe.
Qed.
Lemma cons_detail_comment : forall n fuel, (n <= fuel)%nat -> cons n (detail_comment fuel).
Proof.
  intros. unfold detail_comment. apply cons_multiline_text; auto.
  apply cons_bind_l; auto with psafe; psafe.
Qed.
Lemma cons_detail_note : forall n fuel, (n <= fuel)%nat -> cons n (detail_note fuel).
Proof.
  intros. unfold detail_note. apply cons_multiline_text; auto.
  apply cons_bind_l; auto with psafe; psafe.
Qed.
Lemma cons_detail_alias : forall n, cons n detail_alias.
Proof.
  intros. unfold detail_alias. apply cons_pmap, cons_delimited_l; auto with psafe.
  apply cons_bind_l; auto with psafe; psafe.
Qed.
#[export] Hint Resolve cons_detail_comment cons_detail_note cons_detail_alias : psafe.

Lemma kw_nonempty : kw_account <> [] /\ kw_apply <> [] /\ kw_end <> [] /\ kw_include <> [] /\ kw_commodity <> [].
Proof. repeat split; discriminate. Qed.

Lemma cons_account_declaration : forall n fuel, (n <= fuel)%nat -> cons n (account_declaration fuel).
Proof.
  intros. unfold account_declaration. apply cons_bind_l.
  - apply cons_delimited_l; auto with psafe. apply cons_bind_l; [apply cons_literal; discriminate | psafe].
  - intros name. apply safe_bind; [| psafe]. apply safe_many0; auto.
    repeat apply cons_alt; apply cons_pmap; auto with psafe.
Qed.
Lemma cons_commodity_declaration : forall n fuel, (n <= fuel)%nat -> cons n (commodity_declaration fuel).
Proof.
  intros. unfold commodity_declaration. apply cons_bind_l.
  - apply cons_delimited_l; auto with psafe. apply cons_bind_l; [apply cons_literal; discriminate | psafe].
  - intros name. apply safe_bind; [| psafe]. apply safe_many0; auto.
    repeat apply cons_alt; apply cons_pmap; auto with psafe.
    apply cons_delimited_l; auto with psafe. apply cons_bind_l; auto with psafe; psafe.
Qed.
Lemma cons_apply_tag : forall n, cons n apply_tag.
Proof.
  intros. unfold apply_tag. apply cons_bind_l; [| psafe].
  apply cons_preceded_l; auto with psafe. apply cons_bind_l; [apply cons_literal; discriminate | psafe].
Qed.
Lemma cons_end_apply_tag : forall n, cons n end_apply_tag.
Proof.
  intros. unfold end_apply_tag. apply cons_bind_l; [apply cons_literal; discriminate | psafe].
Qed.
Lemma cons_include : forall n, cons n include.
Proof.
  intros. unfold include. apply cons_pmap, cons_delimited_l; auto with psafe.
  apply cons_bind_l; [apply cons_literal; discriminate | psafe].
Qed.
Lemma cons_top_comment : forall n fuel, (n <= fuel)%nat -> cons n (top_comment fuel).
Proof.
  intros. unfold top_comment. apply cons_pmap, cons_multiline_text; auto with psafe.
Qed.
#[export] Hint Resolve cons_account_declaration cons_commodity_declaration cons_apply_tag
  cons_end_apply_tag cons_include cons_top_comment : psafe.

(* ---- parse.rs ---- *)
Lemma cons_parse_ledger_entry : forall n fuel, (n <= fuel)%nat -> cons n (parse_ledger_entry fuel).
Proof.
  intros n fuel Hf i Hi. unfold parse_ledger_entry.
  destruct i as [| c r]; [simpl; auto with sfx |].
  destruct (N.eqb c 97).
  { assert (S : cons n (alt (preceded (peek (literal kw_account))
                                      (cut_err (pmap (fun e => (e, @nil posting_spans)) (account_declaration fuel))))
                            (preceded (peek (literal kw_apply))
                                      (cut_err (pmap (fun e => (e, @nil posting_spans)) apply_tag))))).
    { apply cons_alt; apply cons_preceded_r; try (apply safe_peek; auto with psafe);
        apply triple_cut_err, cons_pmap; auto with psafe. }
    apply S; assumption. }
  destruct (N.eqb c 99).
  { assert (S : cons n (pmap (fun e => (e, @nil posting_spans)) (commodity_declaration fuel)))
      by (apply cons_pmap; auto with psafe).
    apply S; assumption. }
  destruct (N.eqb c 101).
  { assert (S : cons n (pmap (fun e => (e, @nil posting_spans)) end_apply_tag))
      by (apply cons_pmap; auto with psafe).
    apply S; assumption. }
  destruct (N.eqb c 105).
  { assert (S : cons n (pmap (fun e => (e, @nil posting_spans)) include))
      by (apply cons_pmap; auto with psafe).
    apply S; assumption. }
  destruct (is_comment_prefix c).
  { assert (S : cons n (pmap (fun e => (e, @nil posting_spans)) (top_comment fuel)))
      by (apply cons_pmap; auto with psafe).
    apply S; assumption. }
  destruct (is_digit c).
  { assert (S : cons n (pmap (fun x : s_txn * list posting_spans => (STxn (fst x), snd x)) (transaction fuel)))
      by (apply cons_pmap; auto with psafe).
    apply S; assumption. }
  simpl. auto with sfx.
Qed.

Lemma safe_vertical_space : forall n fuel, (n <= fuel)%nat -> safe n (vertical_space fuel).
Proof.
  intros. unfold vertical_space. apply safe_void, safe_many0; auto.
  apply cons_alt; apply cons_void; auto with psafe.
  apply cons_terminated_l; auto with psafe. psafe.
Qed.
