(* The composed pipeline on small trees of text files: a root that includes two files through a
   glob, one of them with a failing balance assertion; the same ledger in one file; a syntax
   error in an included file; a broken file nobody includes; an include cycle.  The hypotheses
   of the split theorem are satisfiable, and what the theorems say is what vm_compute shows. *)
From Coq Require Import List NArith ZArith Bool QArith Qcanon Lia.
From Okv Require Import Model.Syntax Model.Load Model.LoadSpec Model.ParseLedger Model.Named Model.Book Model.Lower
     Model.Convert Model.PriceDb Model.RoundTripSpec Model.Pipeline Model.PipelineSpec
     Proofs.RoundTripSame Proofs.TotalPipeline Proofs.PipelineLoad Proofs.PipelineProofs.
Import ListNotations.
Open Scope N_scope.

Definition p_main : path := [[114]; [109;97;105;110;46;108]].          (* /r/main.l *)
Definition p_a : path := [[114]; [115;117;98]; [97;46;108]].            (* /r/sub/a.l *)
Definition p_b : path := [[114]; [115;117;98]; [98;46;108]].            (* /r/sub/b.l *)
Definition p_c : path := [[114]; [115;117;98]; [99;46;108]].            (* /r/sub/c.l *)

(* '; books\ninclude sub/[star].l\n' *)
Definition t_main : list N := [59;32;98;111;111;107;115;10;105;110;99;108;117;100;101;32;115;117;98;47;42;46;108;10].
(* '2024/01/01 x\n  A  1 USD\n  B\n' *)
Definition t_a : list N := [50;48;50;52;47;48;49;47;48;49;32;120;10;32;32;65;32;32;49;32;85;83;68;10;32;32;66;10].
(* '; second file\n\n2024/01/02 y\n  A  1 USD = 5 USD\n  B\n' *)
Definition t_b : list N := [59;32;115;101;99;111;110;100;32;102;105;108;101;10;10;50;48;50;52;47;48;49;47;48;50;32;121;10;32;32;65;32;32;49;32;85;83;68;32;61;32;53;32;85;83;68;10;32;32;66;10].
(* '; second file\n\n2024/01/02 y\n  A  1 USD = 2 USD\n  B\n' *)
Definition t_b_ok : list N := [59;32;115;101;99;111;110;100;32;102;105;108;101;10;10;50;48;50;52;47;48;49;47;48;50;32;121;10;32;32;65;32;32;49;32;85;83;68;32;61;32;50;32;85;83;68;10;32;32;66;10].
(* '; books\n2024/01/01 x\n  A  1 USD\n  B\n\n; second file\n\n2024/01/02 y\n  A  1 USD = 2 USD\n  B\n' *)
Definition t_whole : list N := [59;32;98;111;111;107;115;10;50;48;50;52;47;48;49;47;48;49;32;120;10;32;32;65;32;32;49;32;85;83;68;10;32;32;66;10;10;59;32;115;101;99;111;110;100;32;102;105;108;101;10;10;50;48;50;52;47;48;49;47;48;50;32;121;10;32;32;65;32;32;49;32;85;83;68;32;61;32;50;32;85;83;68;10;32;32;66;10].
(* '; books\n2024/01/01 x\n  A  1 USD\n  B\n\n; second file\n\n2024/01/02 y\n  A  1 USD = 5 USD\n  B\n' *)
Definition t_whole_bad : list N := [59;32;98;111;111;107;115;10;50;48;50;52;47;48;49;47;48;49;32;120;10;32;32;65;32;32;49;32;85;83;68;10;32;32;66;10;10;59;32;115;101;99;111;110;100;32;102;105;108;101;10;10;50;48;50;52;47;48;49;47;48;50;32;121;10;32;32;65;32;32;49;32;85;83;68;32;61;32;53;32;85;83;68;10;32;32;66;10].
(* '2024/01/03 z\n  A  1 USD\n  B\n\nxyz\n' *)
Definition t_syntax : list N := [50;48;50;52;47;48;49;47;48;51;32;122;10;32;32;65;32;32;49;32;85;83;68;10;32;32;66;10;10;120;121;122;10].
(* 'include ../main.l\n' *)
Definition t_loop : list N := [105;110;99;108;117;100;101;32;46;46;47;109;97;105;110;46;108;10].

(* listed b before a: the glob's matches are visited in path order *)
Definition ex_fs : tfs := [(p_main, t_main); (p_b, t_b); (p_a, t_a)].
Definition ex_fs_ok : tfs := [(p_main, t_main); (p_b, t_b_ok); (p_a, t_a)].

Definition shown_load (r : trun) :=
  (map (fun l => (l_path l, l_index l, e_span (l_parsed l), e_line_start (l_parsed l))) (fst r), snd r).

(* the include line is replaced by a.l then b.l; every entry comes with its own file, its
   position in that file, its byte span there and the line it starts on *)
Example ex_load :
  shown_load (load_texts 4 ex_fs p_main) =
  ([(p_main, 0, (0, 8), 1); (p_a, 0, (0, 28), 1); (p_b, 0, (0, 14), 1); (p_b, 1, (15, 51), 3)], TDone).
Proof. vm_compute. reflexivity. Qed.

(* the assertion `= 5 USD` of b.l fails (A holds 2 USD): the error names b.l, the span of that
   transaction in b.l and line 3, and it is the fourth entry in load order *)
Example ex_assertion_fails :
  match run_files 4 0 choose_max opts0 ex_fs p_main with
  | FrProcessError p sp ln (NBook (BalanceAssertionFailure 0 _ _)) 3 => p = p_b /\ sp = (15, 51) /\ ln = 3
  | _ => False
  end.
Proof. vm_compute. repeat split. Qed.

(* with `= 2 USD` the tree is booked: A 2 USD, B -2 USD *)
Example ex_report :
  match run_files 4 0 choose_max opts0 ex_fs_ok p_main with
  | FrReport [(0%N, [(0%N, a)]); (1%N, [(0%N, b)])] [_; _; _; _] => a = Q2Qc 2%Q /\ b = Q2Qc (-2)%Q
  | _ => False
  end.
Proof. vm_compute. split; apply Qc_is_canon; reflexivity. Qed.

(* the same ledger in one file: the same report ... *)
Example ex_one_file_same :
  run_files 2 0 choose_max opts0 [(p_main, t_whole)] p_main = run_files 4 0 choose_max opts0 ex_fs_ok p_main.
Proof. vm_compute. reflexivity. Qed.

(* ... and, with the failing assertion, the same error on the same entry number, placed in
   main.l at line 8 instead of b.l at line 3 *)
Example ex_one_file_fails :
  match run_files 2 0 choose_max opts0 [(p_main, t_whole_bad)] p_main with
  | FrProcessError p sp ln (NBook (BalanceAssertionFailure 0 _ _)) 3 => p = p_main /\ sp = (52, 88) /\ ln = 8
  | _ => False
  end /\
  unplaced (run_files 2 0 choose_max opts0 [(p_main, t_whole_bad)] p_main) =
  unplaced (run_files 4 0 choose_max opts0 ex_fs p_main).
Proof. split; [vm_compute; repeat split|vm_compute; reflexivity]. Qed.

(* the hypotheses of split_texts_invariant hold of this tree, for every budget and option *)
Example ex_wf : wf_tfs ex_fs_ok.
Proof.
  unfold wf_tfs. cbn. repeat constructor; cbn; intuition discriminate.
Qed.

Example ex_cut : exists pes,
  parse_ledger t_whole = LOk pes /\ no_includes (map e_entry pes) /\
  cut_text_of ex_fs_ok p_main (map e_entry pes).
Proof.
  destruct (parse_ledger t_whole) as [pes| | | |] eqn:P; try (vm_compute in P; discriminate).
  exists pes. split; [reflexivity|].
  assert (E : map e_entry pes = loaded_entries (fst (load_texts 4 ex_fs_ok p_main))).
  { vm_compute in P. inversion P. vm_compute. reflexivity. }
  split.
  - rewrite E. vm_compute. intros w H. intuition discriminate.
  - rewrite E. apply (loaded_text_is_cut ex_fs_ok ex_wf 4 [] p_main). vm_compute. reflexivity.
Qed.

Example ex_split_all_options : forall f0 f qfuel choose o, (1 < f0)%nat -> (3 < f)%nat ->
  unplaced (run_files f0 qfuel choose o [(canonicalize p_main, t_whole)] p_main) =
  unplaced (run_files f qfuel choose o ex_fs_ok p_main).
Proof.
  intros f0 f qfuel choose o B0 B. destruct ex_cut as [pes [P [NI C]]].
  apply (split_texts_invariant t_whole pes p_main ex_fs_ok p_main (map e_entry pes) P NI ex_wf C).
  - apply same_meaning_refl.
  - exact B0.
  - exact B.
Qed.

(* a third file with a syntax error on its line 5: LoadError::Parse naming c.l, after the
   entries of a.l, b.l and the transaction of c.l itself were delivered and booked ... *)
Definition ex_fs_syntax : tfs := [(p_main, t_main); (p_b, t_b_ok); (p_a, t_a); (p_c, t_syntax)].

Example ex_syntax_error :
  match run_files 5 0 choose_max opts0 ex_fs_syntax p_main with
  | FrParseError p e => p = p_c /\ pe_line_start e = 4 /\ pe_text_start e = 28
  | _ => False
  end /\
  length (fst (load_texts 5 ex_fs_syntax p_main)) = 5%nat.
Proof. split; [vm_compute; repeat split|vm_compute; reflexivity]. Qed.

(* ... but the failing assertion of b.l is met first *)
Example ex_bookkeeping_before_syntax :
  match run_files 5 0 choose_max opts0 [(p_main, t_main); (p_b, t_b); (p_a, t_a); (p_c, t_syntax)] p_main with
  | FrProcessError p _ ln _ 3 => p = p_b /\ ln = 3
  | _ => False
  end.
Proof. vm_compute. repeat split. Qed.

(* a broken file that no include reaches is never parsed *)
Example ex_unvisited :
  snd (load_texts 3 [(p_main, t_a); (p_c, t_syntax)] p_main) = TDone.
Proof. vm_compute. reflexivity. Qed.

(* c.l includes ../main.l: an include cycle is an error, after what was delivered *)
Example ex_cycle :
  snd (load_texts 5 [(p_main, t_main); (p_b, t_b_ok); (p_a, t_a); (p_c, t_loop)] p_main) = TFailed IncludeCycle /\
  length (fst (load_texts 5 [(p_main, t_main); (p_b, t_b_ok); (p_a, t_a); (p_c, t_loop)] p_main)) = 4%nat.
Proof. split; vm_compute; reflexivity. Qed.

(* the abstraction of the tree: what Model/Load.v's loader is run on *)
Example ex_parse_fs :
  parse_fs ex_fs = [(p_main, [Ent 0; Inc [115;117;98;47;42;46;108]]); (p_b, [Ent 0; Ent 1]); (p_a, [Ent 0])].
Proof. vm_compute. reflexivity. Qed.

(* Include expansion is NOT textual inclusion.  a.l = "2024/01/01 (x\n  A  1 USD\n  B\n\n" and
   b.l = "; note)\n", included one after the other, are a balanced transaction and a comment.
   The two texts concatenated in one file are ONE transaction whose code runs from `(` over the
   line ends to the `)` of the comment (the code parser is take_till(')') and does not stop at a
   line end), with no postings: nothing is booked and nothing is reported.  So where an entry
   ends depends on the text after it, and cut_text_of relates files to entries through the
   parser instead of slicing characters.  (Replayed on the okane binary: `balance` of the tree
   prints A: 1 USD / B: -1 USD, `balance` of the concatenation prints nothing, exit status 0.) *)
Definition t_open : list N := [50;48;50;52;47;48;49;47;48;49;32;40;120;10;32;32;65;32;32;49;32;85;83;68;10;32;32;66;10;10].
Definition t_close : list N := [59;32;110;111;116;101;41;10].
Definition t_two : list N := [105;110;99;108;117;100;101;32;97;46;108;10;105;110;99;108;117;100;101;32;98;46;108;10].
Definition p_m : path := [[114]; [109;46;108]].
Definition p_x : path := [[114]; [97;46;108]].
Definition p_y : path := [[114]; [98;46;108]].

Example textual_inclusion_refuted :
  match run_files 4 0 choose_max opts0 [(p_m, t_two); (p_x, t_open); (p_y, t_close)] p_m with
  | FrReport [_; _] [_; _] => True
  | _ => False
  end /\
  run_files 2 0 choose_max opts0 [(p_m, t_open ++ t_close)] p_m = FrReport [] [] /\
  match parse_ledger (t_open ++ t_close) with
  | LOk [e] => match e_entry e with STxn t => st_posts t = [] /\ st_payee t = [] | _ => False end
  | _ => False
  end.
Proof. split; [vm_compute; exact I|]. split; [vm_compute; reflexivity|vm_compute; split; reflexivity]. Qed.
