(* check_balance: exact characterisation of its three results, absence of the division
   hazard, and independence from the iteration order of the residual. *)
From Coq Require Import List NArith ZArith Bool QArith Qcanon Lia Permutation.
From Okv Require Import Base.Maps.
From Okv Require Import Base.Dec.
From Okv Require Import Model.Amount.
From Okv Require Import Model.Book.
From Okv Require Import Model.BookSpec.
From Okv Require Import Proofs.BookA_Maps.
From Okv Require Import Proofs.BookA_Amount.
Import ListNotations.
Open Scope Qc_scope.

Lemma neg_pos_absurd v : v < 0 -> 0 < v -> False.
Proof. intros H1 H2. apply Qclt_le_weak in H1. eapply Qcle_not_lt; eauto. Qed.

(* the shape of the non-zero part of a two_opposite amount *)
Lemma two_opposite_shape a c1 v1 c2 v2 :
  a_remove_zeros a = [(c1, v1); (c2, v2)] ->
  (two_opposite a <-> sign_positive v1 <> sign_positive v2).
Proof.
  intros EZ.
  assert (In (c1, v1) (a_remove_zeros a)) as H1 by (rewrite EZ; left; reflexivity).
  assert (In (c2, v2) (a_remove_zeros a)) as H2 by (rewrite EZ; right; left; reflexivity).
  apply in_remove_zeros in H1. apply in_remove_zeros in H2.
  destruct H1 as [H1 N1], H2 as [H2 N2].
  split.
  - intros [_ [d1 [w1 [d2 [w2 [I1 [I2 [Hn Hp]]]]]]]] Heq.
    assert (In (d1, w1) (a_remove_zeros a)) as J1.
    { apply in_remove_zeros. split; [exact I1|]. intros ->. eapply Qclt_not_eq in Hn. congruence. }
    assert (In (d2, w2) (a_remove_zeros a)) as J2.
    { apply in_remove_zeros. split; [exact I2|]. intros ->. eapply Qclt_not_eq in Hp. congruence. }
    rewrite EZ in J1, J2. cbn [In] in J1, J2.
    apply sign_positive_false_nonzero in Hn.
    assert (sign_positive w2 = true) as Hp'.
    { apply sign_positive_nonzero; [|exact Hp]. intros ->. eapply Qclt_not_eq in Hp. congruence. }
    destruct J1 as [J1|[J1|[]]], J2 as [J2|[J2|[]]];
      injection J1 as <- <-; injection J2 as <- <-; congruence.
  - intros Hne. split; [rewrite EZ; reflexivity|].
    destruct (sign_positive v1) eqn:S1, (sign_positive v2) eqn:S2; try congruence.
    + exists c2, v2, c1, v1. repeat split; try assumption.
      * apply sign_positive_false_nonzero. exact S2.
      * apply sign_positive_nonzero; assumption.
    + exists c1, v1, c2, v2. repeat split; try assumption.
      * apply sign_positive_false_nonzero. exact S1.
      * apply sign_positive_nonzero; assumption.
Qed.

Lemma two_opposite_length a : two_opposite a -> length (a_remove_zeros a) = 2%nat.
Proof. intros [H _]. exact H. Qed.

Lemma two_opposite_not_all_zero a : two_opposite a -> ~ all_zero a.
Proof.
  intros [_ [c1 [v1 [_ [_ [H1 [_ [Hn _]]]]]]]] Hz.
  apply Hz in H1. subst. eapply Qclt_not_eq in Hn. congruence.
Qed.

(* The whole of check_balance in one statement. *)
Lemma check_balance_cases f d posts r :
  (balanced f r /\ exists x, check_balance f d posts r = Ok x) \/
  (~ balanced f r /\
   check_balance f d posts r = Err (UnbalancedPostings (a_remove_zeros (a_round f r)))).
Proof.
  unfold check_balance, balanced. cbv zeta. set (R := a_round f r).
  destruct (a_is_zero R) eqn:Ez.
  { left. split; [left; apply a_is_zero_iff; exact Ez|eauto]. }
  apply a_is_zero_false_iff in Ez.
  destruct (a_remove_zeros R) as [|[c1 v1] [|[c2 v2] [|p3 rest]]] eqn:EZ.
  - right. split; [|reflexivity]. intros [H|H]; [contradiction|].
    apply two_opposite_length in H. rewrite EZ in H. discriminate.
  - right. split; [|reflexivity]. intros [H|H]; [contradiction|].
    apply two_opposite_length in H. rewrite EZ in H. discriminate.
  - pose proof (two_opposite_shape R c1 v1 c2 v2 EZ) as Hshape.
    assert (In (c1, v1) (a_remove_zeros R)) as H1 by (rewrite EZ; left; reflexivity).
    assert (In (c2, v2) (a_remove_zeros R)) as H2 by (rewrite EZ; right; left; reflexivity).
    apply in_remove_zeros in H1. apply in_remove_zeros in H2.
    destruct H1 as [_ N1], H2 as [_ N2].
    apply qc_zero_false_iff in N1. apply qc_zero_false_iff in N2.
    destruct (Bool.eqb (sign_positive v1) (sign_positive v2)) eqn:Es; cbn [negb].
    + right. split; [|reflexivity]. intros [H|H]; [contradiction|].
      apply Hshape in H. apply eqb_prop in Es. contradiction.
    + left. rewrite N1, N2. cbn [orb]. split; [|eauto].
      right. apply Hshape. intros Heq. rewrite Heq, eqb_reflx in Es. discriminate.
  - right. split; [|reflexivity]. intros [H|H]; [contradiction|].
    apply two_opposite_length in H. rewrite EZ in H. discriminate.
Qed.

Lemma check_balance_iff f d posts r :
  ((exists x, check_balance f d posts r = Ok x) <-> balanced f r) /\
  (~ balanced f r ->
   check_balance f d posts r = Err (UnbalancedPostings (a_remove_zeros (a_round f r)))).
Proof.
  destruct (check_balance_cases f d posts r) as [[Hb Hok]|[Hnb Herr]].
  - split; [tauto|]. intros; contradiction.
  - split; [|intros _; exact Herr]. split; [|intros; contradiction].
    intros [x Hx]. rewrite Herr in Hx. discriminate.
Qed.

Lemma check_balance_no_panic f d posts r : check_balance f d posts r <> Panic.
Proof.
  destruct (check_balance_cases f d posts r) as [[_ [x Hx]]|[_ Herr]]; congruence.
Qed.

(* what an accepted residual returns: untouched postings when everything rounds to zero, the
   implied exchange filled in otherwise *)
Lemma check_balance_ok_inv f d posts r ps ev :
  check_balance f d posts r = Ok (ps, ev) ->
  (all_zero (a_round f r) /\ ps = posts /\ ev = None) \/
  (exists c1 v1 c2 v2,
      a_remove_zeros (a_round f r) = [(c1, v1); (c2, v2)] /\
      sign_positive v1 <> sign_positive v2 /\
      ps = map (fill_converted c1 v1 c2 v2) posts /\
      ev = Some {| e_source := SLedger; e_date := d; e_xc := c1; e_xv := Qcabs.Qcabs v1;
                   e_yc := c2; e_yv := Qcabs.Qcabs v2 |}).
Proof.
  unfold check_balance. cbv zeta. set (R := a_round f r).
  destruct (a_is_zero R) eqn:Ez.
  { intros H. injection H as <- <-. left. split; [apply a_is_zero_iff; exact Ez|tauto]. }
  destruct (a_remove_zeros R) as [|[c1 v1] [|[c2 v2] [|p3 rest]]] eqn:EZ; try discriminate.
  destruct (Bool.eqb (sign_positive v1) (sign_positive v2)) eqn:Es; cbn [negb]; [discriminate|].
  destruct (qc_zero v1 || qc_zero v2); [discriminate|].
  intros H. injection H as <- <-. right. exists c1, v1, c2, v2.
  repeat split. intros Heq. rewrite Heq, eqb_reflx in Es. discriminate.
Qed.

(* posting amounts and accounts are never touched by check_balance *)
Lemma fill_converted_amount c1 v1 c2 v2 p :
  o_amount (fill_converted c1 v1 c2 v2 p) = o_amount p /\
  o_account (fill_converted c1 v1 c2 v2 p) = o_account p.
Proof.
  unfold fill_converted. destruct (amount_to_single (o_amount p)) as [[c v]|]; [|tauto].
  destruct (c1 =? c)%N; [cbn; tauto|]. destruct (c2 =? c)%N; cbn; tauto.
Qed.

Lemma check_balance_amounts f d posts r ps ev :
  check_balance f d posts r = Ok (ps, ev) ->
  map o_amount ps = map o_amount posts /\ map o_account ps = map o_account posts.
Proof.
  intros H. apply check_balance_ok_inv in H.
  destruct H as [[_ [-> _]]|[c1 [v1 [c2 [v2 [_ [_ [-> _]]]]]]]]; [tauto|].
  rewrite !map_map. split; apply map_ext; intros p; apply fill_converted_amount.
Qed.

(* ---- order independence ---- *)

Lemma check_balance_perm_accept f d posts r r' :
  Permutation r r' ->
  ((exists x, check_balance f d posts r = Ok x) <-> (exists x, check_balance f d posts r' = Ok x)).
Proof.
  intros HP.
  destruct (check_balance_iff f d posts r) as [H1 _], (check_balance_iff f d posts r') as [H2 _].
  rewrite H1, H2. split; apply balanced_perm; [exact HP|apply Permutation_sym; exact HP].
Qed.

Lemma fill_converted_swap c1 v1 c2 v2 p : c1 <> c2 ->
  fill_converted c2 v2 c1 v1 p = fill_converted c1 v1 c2 v2 p.
Proof.
  intros Hne. unfold fill_converted.
  destruct (amount_to_single (o_amount p)) as [[c v]|]; [|reflexivity].
  destruct (N.eqb_spec c1 c) as [E1|E1], (N.eqb_spec c2 c) as [E2|E2]; try reflexivity.
  congruence.
Qed.

(* With distinct commodities in the residual (the HashMap case) the postings returned do not
   depend on the iteration order either; only the orientation of the implied price event
   (which commodity is listed first) follows the order. *)
Lemma check_balance_perm_posts f d posts r r' ps ev ps' ev' :
  NoDup (keys r) -> Permutation r r' ->
  check_balance f d posts r = Ok (ps, ev) ->
  check_balance f d posts r' = Ok (ps', ev') ->
  ps = ps'.
Proof.
  intros Hnd HP H H'.
  pose proof (remove_zeros_perm _ _ (round_perm f _ _ HP)) as HPZ.
  apply check_balance_ok_inv in H. apply check_balance_ok_inv in H'.
  destruct H as [[Hz [-> _]]|[c1 [v1 [c2 [v2 [EZ [_ [-> _]]]]]]]].
  - destruct H' as [[_ [-> _]]|[c1 [v1 [c2 [v2 [EZ' _]]]]]]; [reflexivity|].
    apply remove_zeros_nil_iff in Hz. rewrite Hz, EZ' in HPZ.
    apply Permutation_length in HPZ. discriminate.
  - destruct H' as [[Hz [-> _]]|[d1 [w1 [d2 [w2 [EZ' [_ [-> _]]]]]]]].
    + apply remove_zeros_nil_iff in Hz. rewrite Hz, EZ in HPZ.
      apply Permutation_length in HPZ. discriminate.
    + rewrite EZ, EZ' in HPZ. apply Permutation_length_2_inv in HPZ.
      destruct HPZ as [E|E]; injection E as -> -> -> ->; [reflexivity|].
      apply map_ext. intros p. symmetry. apply fill_converted_swap.
      assert (NoDup (keys (a_remove_zeros (a_round f r)))) as Hnd'.
      { apply NoDup_remove_zeros. rewrite keys_round. exact Hnd. }
      rewrite EZ in Hnd'. cbn in Hnd'. inversion Hnd' as [|? ? Hni _]; subst.
      intros ->. apply Hni. left. reflexivity.
Qed.

(* a rejected residual is rejected in any order, with the same entries in the error *)
Lemma check_balance_perm_err f d posts r r' e :
  Permutation r r' -> check_balance f d posts r = Err e ->
  exists z z', e = UnbalancedPostings z /\
               check_balance f d posts r' = Err (UnbalancedPostings z') /\ Permutation z z'.
Proof.
  intros HP H.
  destruct (check_balance_cases f d posts r) as [[_ [x Hx]]|[Hnb Herr]]; [congruence|].
  rewrite Herr in H. injection H as <-.
  exists (a_remove_zeros (a_round f r)), (a_remove_zeros (a_round f r')).
  split; [reflexivity|]. split.
  - apply check_balance_iff. intros Hb. apply Hnb.
    eapply balanced_perm; [apply Permutation_sym; exact HP|exact Hb].
  - apply remove_zeros_perm, round_perm, HP.
Qed.
