(* The parsers of expr.rs return every tree WITH its height (Model/ParseExpr.v follows the code).
   The height they carry is the height of the tree (vexpr_height / expr_height), so the same
   parsers can be written over plain trees, computing the height where the code compares it:
   these are the `_e` ("erased") parsers below, and `value_expr_d`.  The theorem at the end,
   value_expr_erase, says that value_expr of the model IS value_expr_d at MAX_EXPR_DEPTH; the
   proofs about value expressions (safety, heights, round trip, documented grammar) are about
   the erased parsers and are carried to the model by it. *)
From Coq Require Import List NArith Bool Lia Arith.
From Okv Require Import Model.Lit Model.Syntax Model.Comb Model.ParseExpr.
Import ListNotations.
Open Scope N_scope.

(* "the tree one level above a child of height h is allowed" *)
Definition fits_under (h : nat) : bool := (h <? max_expr_height)%nat.

Lemma taller_fits : forall h, taller h = if fits_under h then Some (S h) else None.
Proof. reflexivity. Qed.

Lemma taller_some : forall h h', taller h = Some h' <-> (h < max_expr_height)%nat /\ h' = S h.
Proof.
  intros h h'. unfold taller. destruct (Nat.ltb_spec h max_expr_height); split.
  - intros E. inversion E. auto.
  - intros [_ ->]. reflexivity.
  - discriminate.
  - intros [L _]. lia.
Qed.

(* ---- the parsers over plain trees ---- *)
Fixpoint chain_loop (fuel : nat) (op : parser s_binop) (operand : parser s_expr)
         (lhs : s_expr) (i : list N) : presult s_expr :=
  match delimited space0 op space0 i with
  | PErr false _ _ => POk lhs i
  | PErr true l r => PErr true l r
  | PPanic w => PPanic w
  | PFuel => PFuel
  | POk o r =>
      match operand r with
      | PErr false _ _ => POk lhs i
      | PErr true l r' => PErr true l r'
      | PPanic w => PPanic w
      | PFuel => PFuel
      | POk rhs r' =>
          if fits_under (Nat.max (expr_height lhs) (expr_height rhs)) then
            match fuel with
            | O => PFuel
            | S n => chain_loop n op operand (SBinary o lhs rhs) r'
            end
          else PErr false 0 i
      end
  end.
Definition infixl_e (fuel : nat) (op : parser s_binop) (operand : parser s_expr) : parser s_expr :=
  fun i => match operand i with
           | POk lhs r => chain_loop fuel op operand lhs r
           | x => x
           end.

Definition negate_e (ve : parser s_vexpr) : parser s_expr :=
  try_map (preceded (chr 45) ve)
          (fun v => if fits_under (vexpr_height v) then Some (SUnaryNeg (SValue v)) else None).
Definition unary_e (ve : parser s_vexpr) : parser s_expr :=
  fun i => match i with
           | [] => PErr false 0 i
           | c :: _ => if c =? 45 then negate_e ve i else pmap SValue ve i
           end.

Definition paren_e (add : parser s_expr) : parser s_vexpr :=
  try_map (paren (delimited space0 add space0))
          (fun e => if fits_under (expr_height e) then Some (SParen e) else None).

Fixpoint value_expr_d (fuel : nat) (d : nat) : parser s_vexpr :=
  fun i =>
    match i with
    | [] => PErr false 0 i
    | c :: _ =>
        if c =? 40 then
          match d with
          | O => PErr false 0 i
          | S d' => paren_e (infixl_e fuel add_op (infixl_e fuel mul_op (unary_e (value_expr_d fuel d')))) i
          end
        else pmap SAmount amount i
    end.

(* ---- a result with the height put back ---- *)
Definition with_h {A} (h : A -> nat) (x : presult A) : presult (A * nat) :=
  match x with
  | POk a r => POk (a, h a) r
  | PErr c l r => PErr c l r
  | PPanic w => PPanic w
  | PFuel => PFuel
  end.

(* q is p with the heights *)
Definition carries {A} (h : A -> nat) (q : parser (A * nat)) (p : parser A) : Prop :=
  forall i, q i = with_h h (p i).

Lemma carries_infixl_loop : forall op (q : parser (s_expr * nat)) (p : parser s_expr),
  carries expr_height q p ->
  forall fuel lhs i,
    infixl_loop fuel op q lhs (expr_height lhs) i = with_h expr_height (chain_loop fuel op p lhs i).
Proof.
  intros op q p H. induction fuel; intros lhs i; cbn [infixl_loop chain_loop];
    destruct (delimited space0 op space0 i) as [o r | [] l r | |]; try reflexivity;
    rewrite (H r); destruct (p r) as [rhs r' | [] l r' | |]; try reflexivity;
    cbn [with_h]; rewrite taller_fits;
    destruct (fits_under (Nat.max (expr_height lhs) (expr_height rhs))); try reflexivity.
  exact (IHfuel (SBinary o lhs rhs) r').
Qed.

Lemma carries_infixl : forall fuel op q p,
  carries expr_height q p -> carries expr_height (infixl fuel op q) (infixl_e fuel op p).
Proof.
  intros fuel op q p H i. unfold infixl, infixl_e. rewrite (H i).
  destruct (p i) as [lhs r | | |]; try reflexivity. cbn [with_h].
  apply carries_infixl_loop. exact H.
Qed.

Lemma carries_unary : forall q p,
  carries vexpr_height q p -> carries expr_height (unary_expr q) (unary_e p).
Proof.
  intros q p H i. unfold unary_expr, unary_e. destruct i as [| c t]; [reflexivity |].
  destruct (c =? 45).
  - unfold negate_expr, negate_e, try_map, preceded, bind.
    destruct (chr 45 (c :: t)) as [x m | | |]; try reflexivity.
    rewrite (H m). destruct (p m) as [v r | | |]; try reflexivity.
    cbn [with_h fst snd]. rewrite taller_fits. destruct (fits_under (vexpr_height v)); reflexivity.
  - unfold pmap, bind. rewrite (H (c :: t)). destruct (p (c :: t)); reflexivity.
Qed.

Lemma carries_paren : forall q p (i : list N),
  carries expr_height q p ->
  try_map (paren (delimited space0 q space0))
          (fun eh => match taller (snd eh) with
                     | Some h => Some (SParen (fst eh), h)
                     | None => None
                     end) i
  = with_h vexpr_height (paren_e p i).
Proof.
  intros q p i H. unfold paren_e, try_map, paren, delimited, bind, ret.
  destruct (chr 40 i) as [x m | | |]; try reflexivity.
  destruct (space0 m) as [s m1 | | |]; try reflexivity.
  rewrite (H m1). destruct (p m1) as [e m2 | | |]; try reflexivity. cbn [with_h].
  destruct (space0 m2) as [s2 m3 | | |]; try reflexivity.
  destruct (chr 41 m3) as [y m4 | | |]; try reflexivity.
  cbn [fst snd]. rewrite taller_fits. destruct (fits_under (expr_height e)); reflexivity.
Qed.

Lemma carries_nested : forall fuel d,
  carries vexpr_height (nested_value_expr fuel d) (value_expr_d fuel d).
Proof.
  intros fuel. induction d; intros i; cbn [nested_value_expr value_expr_d];
    destruct i as [| c t]; try reflexivity; destruct (c =? 40); try reflexivity.
  - unfold pmap, bind. destruct (amount (c :: t)); reflexivity.
  - apply carries_paren. apply carries_infixl, carries_infixl, carries_unary. exact IHd.
  - unfold pmap, bind. destruct (amount (c :: t)); reflexivity.
Qed.

(* the model's value_expr is the erased parser at MAX_EXPR_DEPTH *)
Theorem value_expr_erase : forall fuel i, value_expr fuel i = value_expr_d fuel max_expr_depth i.
Proof.
  intros fuel i. unfold value_expr, pmap, bind. rewrite (carries_nested fuel max_expr_depth i).
  destruct (value_expr_d fuel max_expr_depth i); reflexivity.
Qed.

(* and the height the model's parser returns is the height of the tree it returns *)
Theorem nested_value_expr_height : forall fuel d i v h r,
  nested_value_expr fuel d i = POk (v, h) r -> h = vexpr_height v /\ value_expr_d fuel d i = POk v r.
Proof.
  intros fuel d i v h r H. rewrite (carries_nested fuel d i) in H.
  destruct (value_expr_d fuel d i); try discriminate. inversion H; subst. auto.
Qed.

(* unfolding equations *)
Lemma value_expr_d_paren : forall fuel d i, value_expr_d fuel (S d) (40 :: i) =
  paren_e (infixl_e fuel add_op (infixl_e fuel mul_op (unary_e (value_expr_d fuel d)))) (40 :: i).
Proof. reflexivity. Qed.
Lemma value_expr_d_amount : forall fuel d c i, (c =? 40) = false ->
  value_expr_d fuel d (c :: i) = pmap SAmount amount (c :: i).
Proof. intros fuel d c i H. destruct d; simpl; rewrite H; reflexivity. Qed.
