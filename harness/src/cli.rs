//! In-process invocation of the okane CLI (same code path as cli/src/bin/okane.rs) and
//! scratch files on the real file system.
use clap::Parser as _;
use std::path::PathBuf;

pub struct CliResult {
    pub ok: bool,
    pub stdout: String,
    pub stderr: String,
    pub panicked: bool,
}

/// what `main` does: parse args, run, print the error chain on failure
pub fn run(args: &[&str]) -> CliResult {
    let mut full = vec!["okane"];
    full.extend_from_slice(args);
    let r = std::panic::catch_unwind(|| {
        let cli = match okane::cmd::Cli::try_parse_from(&full) {
            Ok(c) => c,
            Err(e) => {
                return CliResult { ok: false, stdout: String::new(), stderr: format!("{}", e), panicked: false }
            }
        };
        let mut out: Vec<u8> = Vec::new();
        match cli.run(&mut out) {
            Ok(()) => CliResult { ok: true, stdout: String::from_utf8_lossy(&out).into_owned(), stderr: String::new(), panicked: false },
            Err(err) => {
                use std::error::Error;
                let mut s = format!("{}\n", err);
                let mut cur: &dyn Error = &err;
                while let Some(src) = cur.source() {
                    s.push_str(&format!("Caused by {}\n", src));
                    cur = src;
                }
                CliResult { ok: false, stdout: String::from_utf8_lossy(&out).into_owned(), stderr: s, panicked: false }
            }
        }
    });
    r.unwrap_or(CliResult { ok: false, stdout: String::new(), stderr: "panic".into(), panicked: true })
}

pub struct Scratch {
    pub dir: PathBuf,
}

impl Scratch {
    pub fn new(tag: &str) -> Self {
        let base = std::env::var("OKV_SCRATCH").unwrap_or_else(|_| "/verif/.build/scratch".to_string());
        let dir = PathBuf::from(base).join(format!("{}-{}", tag, std::process::id()));
        let _ = std::fs::remove_dir_all(&dir);
        std::fs::create_dir_all(&dir).unwrap();
        Scratch { dir }
    }
    pub fn write(&self, rel: &str, content: &str) -> PathBuf {
        let p = self.dir.join(rel);
        if let Some(parent) = p.parent() {
            std::fs::create_dir_all(parent).unwrap();
        }
        std::fs::write(&p, content).unwrap();
        p
    }
}

impl Drop for Scratch {
    fn drop(&mut self) {
        let _ = std::fs::remove_dir_all(&self.dir);
    }
}
