(* Display rescale: the value is unchanged and the scale is max(scale, precision) whenever the
   padded mantissa still fits 96 bits (otherwise as far as it fits). *)
From Coq Require Import List NArith ZArith Bool Lia.
From Okv Require Import Model.Lit Model.SingleEntry2 Model.TxnText.
Import ListNotations.
Open Scope N_scope.

Lemma pow10n_S : forall k, pow10n (S k) = 10 * pow10n k.
Proof. reflexivity. Qed.

Lemma pow10n_pos : forall k, 0 < pow10n k.
Proof. induction k; cbn [pow10n]; lia. Qed.

(* rescale_up multiplies by 10^j and raises the scale by j, for some j <= k *)
Lemma rescale_up_spec : forall k m sc m' sc',
  rescale_up k m sc = (m', sc') ->
  exists j, (j <= k)%nat /\ sc' = (sc + j)%nat /\ m' = m * pow10n j /\
            (j = k \/ max96N < m' * 10).
Proof.
  induction k; intros m sc m' sc' H; cbn [rescale_up] in H.
  - inversion H; subst. exists 0%nat. cbn [pow10n]. split; [lia|]. split; [lia|]. split; [lia|]. left; reflexivity.
  - destruct (m * 10 <=? max96N) eqn:E.
    + apply IHk in H. destruct H as [j [Hj [Hs [Hm Hstop]]]].
      exists (S j). split; [lia|]. split; [lia|]. split.
      * rewrite Hm. rewrite pow10n_S. lia.
      * destruct Hstop as [->|Hstop]; [left; reflexivity | right; exact Hstop].
    + inversion H; subst. exists 0%nat. cbn [pow10n].
      apply N.leb_gt in E. split; [lia|]. split; [lia|]. split; [lia|]. right. lia.
Qed.

(* same value: mantissas agree once both are brought to the larger scale *)
Lemma rescale_value : forall x target, (scale x <= target)%nat ->
  same_value x (rescale x target) = true /\ neg (rescale x target) = neg x.
Proof.
  intros x target Hle. unfold rescale.
  destruct (Nat.eqb (scale x) target) eqn:E1.
  - split; [|reflexivity]. unfold same_value. rewrite Nat.max_id, Nat.sub_diag. cbn [pow10n].
    rewrite N.eqb_refl, Bool.eqb_reflx. cbn [andb]. rewrite ?orb_true_r. reflexivity.
  - destruct (mant x =? 0) eqn:E2.
    + split; [|reflexivity]. apply N.eqb_eq in E2. unfold same_value. cbn [mant scale neg].
      rewrite E2. cbn. reflexivity.
    + destruct (rescale_up (target - scale x) (mant x) (scale x)) as [m s] eqn:E3.
      split; [|reflexivity].
      apply rescale_up_spec in E3. destruct E3 as [j [Hj [Hs [Hm _]]]].
      unfold same_value. cbn [mant scale neg]. subst s m.
      replace (Nat.max (scale x) (scale x + j)) with (scale x + j)%nat by lia.
      replace (scale x + j - scale x)%nat with j by lia.
      rewrite Nat.sub_diag. cbn [pow10n]. rewrite N.mul_1_r, N.eqb_refl, Bool.eqb_reflx.
      cbn [andb]. rewrite ?orb_true_r. reflexivity.
Qed.

Lemma rescale_scale : forall x target, (scale x <= target)%nat -> (target <= 28)%nat ->
  (scale x <= scale (rescale x target) <= target)%nat /\
  (mant x * pow10n (target - scale x) <= max96N -> scale (rescale x target) = target) /\
  (scale (rescale x target) = target \/ max96N < mant (rescale x target) * 10).
Proof.
  intros x target Hle H28. unfold rescale.
  destruct (Nat.eqb (scale x) target) eqn:E1.
  - apply Nat.eqb_eq in E1. split; [lia|]. split; [intros; lia|]. left; exact E1.
  - destruct (mant x =? 0) eqn:E2.
    + cbn [scale mant]. rewrite Nat.min_l by lia. split; [lia|]. split; [intros; lia|]. left; reflexivity.
    + destruct (rescale_up (target - scale x) (mant x) (scale x)) as [m s] eqn:E3.
      cbn [scale mant].
      apply rescale_up_spec in E3. destruct E3 as [j [Hj [Hs [Hm Hstop]]]].
      split; [lia|]. split.
      * intros Hfit. destruct Hstop as [->|Hstop]; [lia|].
        destruct (Nat.eq_dec j (target - scale x)) as [Hjk|Hjk]; [lia|].
        (* stopped early although the full padding fits: impossible *)
        exfalso. subst m.
        assert (Hlt : (j < target - scale x)%nat) by lia.
        assert (Hmono : mant x * pow10n (S j) <= mant x * pow10n (target - scale x)).
        { apply N.mul_le_mono_l.
          replace (target - scale x)%nat with (S j + (target - scale x - S j))%nat by lia.
          generalize (target - scale x - S j)%nat. intro d.
          induction d.
          - rewrite Nat.add_0_r. lia.
          - replace (S j + S d)%nat with (S (S j + d)) by lia. rewrite (pow10n_S (S j + d)).
            pose proof (pow10n_pos (S j + d)). lia. }
        rewrite pow10n_S in Hmono. lia.
      * destruct Hstop as [->|Hstop]; [left; lia | right; exact Hstop].
Qed.

(* what display.rs prints for an amount *)
Lemma display_rescale_spec : forall p a,
  (scale (sa_value a) <= 28)%nat ->
  let target := Nat.max (scale (sa_value a)) (Nat.min (prec_of p (sa_comm a)) 28) in
  same_value (sa_value a) (display_rescale p a) = true /\
  neg (display_rescale p a) = neg (sa_value a) /\
  (mant (sa_value a) * pow10n (target - scale (sa_value a)) <= max96N -> scale (display_rescale p a) = target) /\
  padded_scale_ok p a (display_rescale p a) = true.
Proof.
  intros p a H28 target. unfold display_rescale. fold target.
  assert (Hle : (scale (sa_value a) <= target)%nat) by (unfold target; lia).
  assert (Ht : (target <= 28)%nat) by (unfold target; lia).
  destruct (rescale_value (sa_value a) target Hle) as [Hv Hn].
  destruct (rescale_scale (sa_value a) target Hle Ht) as [Hb [Hfit Hstop]].
  repeat split; auto.
  unfold padded_scale_ok. fold target.
  destruct Hstop as [Heq|Hover].
  - rewrite Heq, Nat.eqb_refl. reflexivity.
  - apply orb_true_iff. right.
    apply andb_true_iff; split; [apply andb_true_iff; split|].
    + apply Nat.leb_le. lia.
    + apply Nat.leb_le. lia.
    + apply N.ltb_lt. exact Hover.
Qed.
