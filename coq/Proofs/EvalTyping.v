(* Lemmas for property C08, typing: which combinations the evaluator model rejects, with which
   error, and the values of the accepted mixed forms.  Stated on expressions: l and r are
   arbitrary subexpressions that evaluated to the given kinds of value. *)
From Coq Require Import List NArith ZArith Bool QArith Qcanon Lia.
From Okv Require Import Base.Maps Base.Dec Model.Amount Model.EvalSpec Proofs.EvalProofs.
Import ListNotations.
Open Scope Qc_scope.

Definition ev_binop (op : binop) : evaluated -> evaluated -> evaluated + eval_err :=
  match op with OAdd => ev_add | OSub => ev_sub | OMul => ev_mul | ODiv => ev_div end.

(* compositionality: a binary node is the operator applied to the values of its children,
   the left error first *)
Lemma eval_bin : forall op l r,
  eval_e (EBin op l r) =
  match eval_e l with
  | inr x => inr x
  | inl a => match eval_e r with inr x => inr x | inl b => ev_binop op a b end
  end.
Proof. intros op l r. cbn [eval_e]. destruct (eval_e l); [|reflexivity]. destruct (eval_e r); [|reflexivity]. destruct op; reflexivity. Qed.

Lemma eval_bin_values : forall op l r a b,
  eval_e l = inl a -> eval_e r = inl b -> eval_e (EBin op l r) = ev_binop op a b.
Proof. intros op l r a b Hl Hr. rewrite eval_bin, Hl, Hr. reflexivity. Qed.

Lemma eval_neg : forall x,
  eval_e (EUnaryNeg x) = match eval_e x with inl v => inl (ev_negate v) | inr e => inr e end.
Proof. reflexivity. Qed.
Lemma eval_paren : forall e, eval_v (VParen e) = eval_e e.
Proof. reflexivity. Qed.
Lemma eval_val : forall v, eval_e (EVal v) = eval_v v.
Proof. reflexivity. Qed.
Lemma eval_lit_num : forall q, eval_v (VAmt q None) = inl (ENum q).
Proof. reflexivity. Qed.
Lemma eval_lit_com : forall q c, eval_v (VAmt q (Some c)) = inl (ECom (a_single c q)).
Proof. reflexivity. Qed.

Lemma eval_total : forall e, (exists v, eval_e e = inl v) \/ (exists x, eval_e e = inr x).
Proof. intros e. destruct (eval_e e); eauto. Qed.

(* number +/- amount, amount +/- number *)
Lemma add_num_com_rejected : forall l r q a,
  (eval_e l = inl (ENum q) /\ eval_e r = inl (ECom a)) \/ (eval_e l = inl (ECom a) /\ eval_e r = inl (ENum q)) ->
  eval_e (EBin OAdd l r) = inr UnmatchingOperation /\ eval_e (EBin OSub l r) = inr UnmatchingOperation.
Proof.
  intros l r q a [[Hl Hr]|[Hl Hr]]; split; rewrite (eval_bin_values _ _ _ _ _ Hl Hr); reflexivity.
Qed.

(* amount x amount *)
Lemma mul_com_com_rejected : forall l r a b,
  eval_e l = inl (ECom a) -> eval_e r = inl (ECom b) -> eval_e (EBin OMul l r) = inr UnmatchingOperation.
Proof. intros l r a b Hl Hr. rewrite (eval_bin_values _ _ _ _ _ Hl Hr). reflexivity. Qed.

(* what "zero" means for a divisor *)
Lemma ev_is_zero_num : forall q, ev_is_zero (ENum q) = true <-> q = 0.
Proof. intros q. apply qc_zero_true. Qed.
Lemma ev_is_zero_com : forall a, ev_is_zero (ECom a) = true <-> (forall c v, In (c, v) a -> v = 0).
Proof.
  intros a. cbn [ev_is_zero]. unfold a_is_zero. rewrite forallb_forall. split.
  - intros H c v I. apply qc_zero_true. apply (H (c, v) I).
  - intros H [c v] I. apply qc_zero_true. apply (H c v I).
Qed.
Lemma ev_is_zero_empty : ev_is_zero (ECom a_zero) = true.
Proof. reflexivity. Qed.

(* anything / zero: a zero number, or an amount all of whose entries are zero (the empty
   amount included), whatever the dividend *)
Lemma div_by_zero_rejected : forall l r vl vr,
  eval_e l = inl vl -> eval_e r = inl vr -> ev_is_zero vr = true ->
  eval_e (EBin ODiv l r) = inr DivideByZero.
Proof.
  intros l r vl vr Hl Hr Z. rewrite (eval_bin_values _ _ _ _ _ Hl Hr). cbn [ev_binop]. unfold ev_div. rewrite Z. reflexivity.
Qed.

(* amount / non-zero amount *)
Lemma div_com_by_com_rejected : forall l r a b,
  eval_e l = inl (ECom a) -> eval_e r = inl (ECom b) -> ev_is_zero (ECom b) = false ->
  eval_e (EBin ODiv l r) = inr UnmatchingOperation.
Proof.
  intros l r a b Hl Hr Z. rewrite (eval_bin_values _ _ _ _ _ Hl Hr). cbn [ev_binop]. unfold ev_div. rewrite Z. reflexivity.
Qed.

(* number / amount of two or more commodities *)
Lemma div_num_by_multi_rejected : forall l r x b,
  eval_e l = inl (ENum x) -> eval_e r = inl (ECom b) -> ev_is_zero (ECom b) = false -> (2 <= length b)%nat ->
  eval_e (EBin ODiv l r) = inr SingleAmountRequired.
Proof.
  intros l r x b Hl Hr Z L. rewrite (eval_bin_values _ _ _ _ _ Hl Hr). cbn [ev_binop]. unfold ev_div. rewrite Z.
  destruct b as [|[c v] [|p2 t]]; cbn [length] in L; try lia. destruct p2. reflexivity.
Qed.

(* a bare number where an amount is required *)
Lemma amount_required : forall q,
  (q <> 0 -> ev_to_amount (ENum q) = inr AmountRequired /\ ev_to_pa (ENum q) = inr AmountRequired
             /\ ev_to_single (ENum q) = inr AmountRequired)
  /\ (q = 0 -> ev_to_amount (ENum q) = inl a_zero /\ ev_to_pa (ENum q) = inl PZero).
Proof.
  intros q. split.
  - intros N. apply qc_zero_false in N. unfold ev_to_pa, ev_to_single. cbn [ev_to_amount]. rewrite N. auto.
  - intros ->. split; reflexivity.
Qed.

(* a sum of several commodities where one is required *)
Lemma single_rejects_multi : forall a, (2 <= length a)%nat ->
  amount_to_single a = inr SingleAmountRequired /\ amount_to_pa a = inr PostingAmountRequired
  /\ ev_to_single (ECom a) = inr SingleAmountRequired /\ ev_to_pa (ECom a) = inr PostingAmountRequired.
Proof.
  intros a L. destruct a as [|[c v] [|[c2 v2] t]]; cbn [length] in L; try lia. repeat split; reflexivity.
Qed.
Lemma single_rejects_empty : amount_to_single a_zero = inr SingleAmountRequired /\ amount_to_pa a_zero = inl PZero.
Proof. split; reflexivity. Qed.
Lemma single_accepts_one : forall c v,
  amount_to_single [(c, v)] = inl (c, v) /\ amount_to_pa [(c, v)] = inl (PSingle c v).
Proof. split; reflexivity. Qed.

(* ---- accepted mixed forms and their values ---- *)
Lemma a_scale_get : forall a k c, a_get (a_scale a k) c = a_get a c * k.
Proof. intros. unfold a_scale. apply (a_get_map_val (fun x => x * k)). ring. Qed.
Lemma a_scale_keys : forall a k, keys (a_scale a k) = keys a.
Proof. intros. unfold a_scale. apply (keys_map_val (fun x => x * k)). Qed.
Lemma a_div_get : forall a k c, a_get (a_div a k) c = a_get a c / k.
Proof. intros. unfold a_div. apply (a_get_map_val (fun x => x / k)). apply Qc_div_0_l. Qed.
Lemma a_div_keys : forall a k, keys (a_div a k) = keys a.
Proof. intros. unfold a_div. apply (keys_map_val (fun x => x / k)). Qed.

Lemma mixed_forms_accepted : forall l r k a,
  (* number x amount, amount x number: every commodity scaled, none added or lost *)
  (eval_e l = inl (ENum k) -> eval_e r = inl (ECom a) ->
     exists a', eval_e (EBin OMul l r) = inl (ECom a') /\ keys a' = keys a /\ forall c, a_get a' c = a_get a c * k) /\
  (eval_e l = inl (ECom a) -> eval_e r = inl (ENum k) ->
     exists a', eval_e (EBin OMul l r) = inl (ECom a') /\ keys a' = keys a /\ forall c, a_get a' c = a_get a c * k) /\
  (* amount / non-zero number *)
  (eval_e l = inl (ECom a) -> eval_e r = inl (ENum k) -> k <> 0 ->
     exists a', eval_e (EBin ODiv l r) = inl (ECom a') /\ keys a' = keys a /\ forall c, a_get a' c = a_get a c / k).
Proof.
  intros l r k a. repeat split.
  - intros Hl Hr. rewrite (eval_bin_values _ _ _ _ _ Hl Hr). eexists. split; [reflexivity|]. split; [apply a_scale_keys | apply a_scale_get].
  - intros Hl Hr. rewrite (eval_bin_values _ _ _ _ _ Hl Hr). eexists. split; [reflexivity|]. split; [apply a_scale_keys | apply a_scale_get].
  - intros Hl Hr N. rewrite (eval_bin_values _ _ _ _ _ Hl Hr). cbn [ev_binop]. unfold ev_div. cbn [ev_is_zero].
    apply qc_zero_false in N. rewrite N. eexists. split; [reflexivity|]. split; [apply a_div_keys | apply a_div_get].
Qed.

(* number / amount of one commodity = that commodity, x / v *)
Lemma num_div_single : forall l r x c v,
  eval_e l = inl (ENum x) -> eval_e r = inl (ECom [(c, v)]) -> v <> 0 ->
  eval_e (EBin ODiv l r) = inl (ECom [(c, x / v)]).
Proof.
  intros l r x c v Hl Hr N. rewrite (eval_bin_values _ _ _ _ _ Hl Hr). cbn [ev_binop]. unfold ev_div.
  apply qc_zero_false in N. cbn [ev_is_zero a_is_zero forallb snd amount_to_single]. rewrite N. cbn [andb]. reflexivity.
Qed.

(* same commodities combine, different ones stay apart *)
Lemma add_pointwise : forall l r a b,
  eval_e l = inl (ECom a) -> eval_e r = inl (ECom b) -> NoDup (keys b) ->
  exists s, eval_e (EBin OAdd l r) = inl (ECom s) /\
            (forall c, a_get s c = a_get a c + a_get b c) /\
            (forall c, In c (keys s) <-> In c (keys a) \/ In c (keys b)).
Proof.
  intros l r a b Hl Hr ND. rewrite (eval_bin_values _ _ _ _ _ Hl Hr). eexists. split; [reflexivity|]. split.
  - intros c. apply a_get_add. exact ND.
  - intros c. rewrite a_add_addf. apply in_keys_addf.
Qed.
Lemma sub_pointwise : forall l r a b,
  eval_e l = inl (ECom a) -> eval_e r = inl (ECom b) -> NoDup (keys b) ->
  exists s, eval_e (EBin OSub l r) = inl (ECom s) /\
            (forall c, a_get s c = a_get a c - a_get b c) /\
            (forall c, In c (keys s) <-> In c (keys a) \/ In c (keys b)).
Proof.
  intros l r a b Hl Hr ND. rewrite (eval_bin_values _ _ _ _ _ Hl Hr). eexists. split; [reflexivity|]. split.
  - intros c. apply a_get_sub. exact ND.
  - intros c. rewrite a_sub_addf. apply in_keys_addf.
Qed.

(* every amount the evaluator produces has distinct commodities (so the NoDup above is free) *)
Lemma eval_nodup : forall e a, eval_e e = inl (ECom a) -> NoDup (keys a).
Proof.
  intros e a H. destruct (eval_denotes_pointwise e _ H) as [d [_ [_ D]]].
  destruct d as [q|ks f]; cbn [denotes] in D; [contradiction | apply D].
Qed.

Lemma add_pointwise_eval : forall l r a b,
  eval_e l = inl (ECom a) -> eval_e r = inl (ECom b) ->
  exists s, eval_e (EBin OAdd l r) = inl (ECom s) /\
            (forall c, a_get s c = a_get a c + a_get b c) /\
            (forall c, In c (keys s) <-> In c (keys a) \/ In c (keys b)).
Proof. intros l r a b Hl Hr. apply add_pointwise; try assumption. eapply eval_nodup. exact Hr. Qed.

Lemma sub_pointwise_eval : forall l r a b,
  eval_e l = inl (ECom a) -> eval_e r = inl (ECom b) ->
  exists s, eval_e (EBin OSub l r) = inl (ECom s) /\
            (forall c, a_get s c = a_get a c - a_get b c) /\
            (forall c, In c (keys s) <-> In c (keys a) \/ In c (keys b)).
Proof. intros l r a b Hl Hr. apply sub_pointwise; try assumption. eapply eval_nodup. exact Hr. Qed.

Lemma div_by_zero_rejected_explicit : forall l r vl vr,
  eval_e l = inl vl -> eval_e r = inl vr ->
  (match vr with ENum q => q = 0 | ECom a => forall c v, In (c, v) a -> v = 0 end) ->
  eval_e (EBin ODiv l r) = inr DivideByZero.
Proof.
  intros l r vl vr Hl Hr Z. eapply div_by_zero_rejected; try eassumption.
  destruct vr; [apply ev_is_zero_num | apply ev_is_zero_com]; exact Z.
Qed.

(* non-vacuity: the hypotheses above are satisfiable *)
Definition q (z : Z) : Qc := of_dec z 0.
Example ex_precedence :
  eval_e (EBin OAdd (EVal (VAmt (q 1) (Some 4%N))) (EBin OMul (EVal (VAmt (q 2) (Some 4%N))) (EVal (VAmt (q 3) None))))
  = inl (ECom [(4%N, q 1 + q 2 * q 3)]).
Proof. reflexivity. Qed.
Example ex_left_assoc :
  eval_e (EBin OSub (EBin OSub (EVal (VAmt (q 10) None)) (EVal (VAmt (q 3) None))) (EVal (VAmt (q 2) None)))
  = inl (ENum (q 10 - q 3 - q 2)).
Proof. reflexivity. Qed.
Example ex_two_commodities :
  exists s, eval_e (EBin OAdd (EVal (VAmt (q 1) (Some 4%N))) (EVal (VAmt (q 2) (Some 2%N)))) = inl (ECom s)
            /\ a_get s 4%N = q 1 /\ a_get s 2%N = q 2 /\ length s = 2%nat.
Proof. eexists. repeat split. Qed.
Example ex_div_zero_amount :
  eval_e (EBin ODiv (EVal (VAmt (q 1) (Some 4%N))) (EVal (VAmt (q 0) (Some 2%N)))) = inr DivideByZero.
Proof. reflexivity. Qed.
Example ex_num_div_single :
  eval_e (EBin ODiv (EVal (VAmt (q 1) None)) (EVal (VAmt (q 4) (Some 2%N)))) = inl (ECom [(2%N, q 1 / q 4)]).
Proof. reflexivity. Qed.
