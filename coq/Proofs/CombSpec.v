(* Specifications of the parser combinators (Model/Comb.v): a Hoare-style triple that says,
   for every input of length at most n, the parser neither panics nor runs out of fuel, what
   it leaves is a suffix of its input (also on failure), and its result satisfies Q. *)
From Coq Require Import List NArith Bool Lia Arith.
From Okv Require Import Model.Comb.
Import ListNotations.

Definition suffix (r i : list N) : Prop := exists p, i = p ++ r.

Lemma suffix_refl : forall i, suffix i i.
Proof. intros; exists []; reflexivity. Qed.
Lemma suffix_trans : forall a b c, suffix a b -> suffix b c -> suffix a c.
Proof. intros a b c [p ->] [q ->]. exists (q ++ p). now rewrite app_assoc. Qed.
Lemma suffix_length : forall r i, suffix r i -> (length r <= length i)%nat.
Proof. intros r i [p ->]. rewrite app_length. lia. Qed.
Lemma suffix_cons : forall c r, suffix r (c :: r).
Proof. intros; exists [c]; reflexivity. Qed.
Lemma suffix_nil : forall i, suffix [] i.
Proof. intros; exists i. now rewrite app_nil_r. Qed.
Lemma suffix_same_length : forall r i, suffix r i -> length r = length i -> r = i.
Proof.
  intros r i [p ->] H. rewrite app_length in H. destruct p; [reflexivity | simpl in H; lia].
Qed.
Lemma utf8_len_app : forall a b, utf8_len (a ++ b) = (utf8_len a + utf8_len b)%N.
Proof. induction a; intros; simpl; [reflexivity | rewrite IHa; lia]. Qed.
Lemma suffix_utf8_len : forall r i, suffix r i -> (utf8_len r <= utf8_len i)%N.
Proof. intros r i [p ->]. rewrite utf8_len_app. lia. Qed.
#[export] Hint Resolve suffix_refl suffix_cons suffix_nil : sfx.

Definition triple {A} (n : nat) (p : parser A) (Q : list N -> A -> list N -> Prop) : Prop :=
  forall i, (length i <= n)%nat ->
    match p i with
    | POk a r => suffix r i /\ Q i a r
    | PErr _ _ r => suffix r i
    | PPanic _ => False
    | PFuel => False
    end.

Definition safe {A} (n : nat) (p : parser A) : Prop := triple n p (fun _ _ _ => True).
Definition cons {A} (n : nat) (p : parser A) : Prop :=
  triple n p (fun i _ r => (length r < length i)%nat).

Lemma triple_conseq : forall A n (p : parser A) (Q Q' : list N -> A -> list N -> Prop),
  triple n p Q ->
  (forall i a r, (length i <= n)%nat -> suffix r i -> Q i a r -> Q' i a r) ->
  triple n p Q'.
Proof.
  intros A n p Q Q' H HQ i Hi. specialize (H i Hi). destruct (p i); auto.
  destruct H; split; auto.
Qed.

Lemma cons_safe : forall A n (p : parser A), cons n p -> safe n p.
Proof. intros. eapply triple_conseq; eauto. Qed.

Lemma triple_and : forall A n (p : parser A) Q1 Q2,
  triple n p Q1 -> triple n p Q2 -> triple n p (fun i a r => Q1 i a r /\ Q2 i a r).
Proof.
  intros A n p Q1 Q2 H1 H2 i Hi. specialize (H1 i Hi). specialize (H2 i Hi).
  destruct (p i); auto. destruct H1, H2; auto.
Qed.

(* ---- sequencing ---- *)
Lemma triple_ret : forall A n (a : A), triple n (ret a) (fun i x r => x = a /\ r = i).
Proof. intros A n a i _. simpl. auto with sfx. Qed.

Lemma triple_bind : forall A B n (p : parser A) (k : A -> parser B) Q1 Q2,
  triple n p Q1 -> (forall a, triple n (k a) (Q2 a)) ->
  triple n (bind p k)
         (fun i b r => exists a m, suffix m i /\ suffix r m /\ Q1 i a m /\ Q2 a m b r).
Proof.
  intros A B n p k Q1 Q2 Hp Hk i Hi. unfold bind. specialize (Hp i Hi).
  destruct (p i) as [a m | | |]; auto. destruct Hp as [Hs HQ].
  assert (Hm : (length m <= n)%nat) by (apply suffix_length in Hs; lia).
  specialize (Hk a m Hm). destruct (k a m) as [b r | c l r | |]; auto.
  - destruct Hk as [Hs' HQ']. split; [eapply suffix_trans; eauto |]. eauto 10.
  - eapply suffix_trans; eauto.
Qed.

Lemma safe_ret : forall A n (a : A), safe n (ret a).
Proof. intros A n a i _. simpl. auto with sfx. Qed.

Lemma safe_bind : forall A B n (p : parser A) (k : A -> parser B),
  safe n p -> (forall a, safe n (k a)) -> safe n (bind p k).
Proof.
  intros A B n p k Hp Hk. unfold safe in *.
  eapply triple_conseq;
    [apply (triple_bind _ _ n p k (fun _ _ _ => True) (fun _ _ _ _ => True)); assumption | auto].
Qed.

Lemma cons_bind_l : forall A B n (p : parser A) (k : A -> parser B),
  cons n p -> (forall a, safe n (k a)) -> cons n (bind p k).
Proof.
  intros A B n p k Hp Hk. unfold safe, cons in *.
  eapply triple_conseq;
    [apply (triple_bind _ _ n p k (fun i _ r => (length r < length i)%nat) (fun _ _ _ _ => True));
     assumption |].
  cbv beta. intros i b r _ _ (a & m & Hs & Hs' & Hlt & _).
  apply suffix_length in Hs'. lia.
Qed.

Lemma cons_bind_r : forall A B n (p : parser A) (k : A -> parser B),
  safe n p -> (forall a, cons n (k a)) -> cons n (bind p k).
Proof.
  intros A B n p k Hp Hk. unfold safe, cons in *.
  eapply triple_conseq;
    [apply (triple_bind _ _ n p k (fun _ _ _ => True) (fun _ i _ r => (length r < length i)%nat));
     assumption |].
  cbv beta. intros i b r _ _ (a & m & Hs & Hs' & _ & Hlt).
  apply suffix_length in Hs. lia.
Qed.

(* ---- derived sequencing ---- *)
Lemma safe_pmap : forall A B n (f : A -> B) p, safe n p -> safe n (pmap f p).
Proof. intros; unfold pmap; apply safe_bind; auto using safe_ret. Qed.
Lemma cons_pmap : forall A B n (f : A -> B) p, cons n p -> cons n (pmap f p).
Proof. intros; unfold pmap; apply cons_bind_l; auto using safe_ret. Qed.
Lemma safe_void : forall A n (p : parser A), safe n p -> safe n (void p).
Proof. intros; unfold void; apply safe_bind; auto using safe_ret. Qed.
Lemma cons_void : forall A n (p : parser A), cons n p -> cons n (void p).
Proof. intros; unfold void; apply cons_bind_l; auto using safe_ret. Qed.
Lemma safe_preceded : forall A B n (p : parser A) (q : parser B),
  safe n p -> safe n q -> safe n (preceded p q).
Proof. intros; unfold preceded; apply safe_bind; auto. Qed.
Lemma cons_preceded_l : forall A B n (p : parser A) (q : parser B),
  cons n p -> safe n q -> cons n (preceded p q).
Proof. intros; unfold preceded; apply cons_bind_l; auto. Qed.
Lemma cons_preceded_r : forall A B n (p : parser A) (q : parser B),
  safe n p -> cons n q -> cons n (preceded p q).
Proof. intros; unfold preceded; apply cons_bind_r; auto. Qed.
Lemma safe_terminated : forall A B n (p : parser A) (q : parser B),
  safe n p -> safe n q -> safe n (terminated p q).
Proof. intros; unfold terminated; apply safe_bind; auto; intros; apply safe_bind; auto using safe_ret. Qed.
Lemma cons_terminated_l : forall A B n (p : parser A) (q : parser B),
  cons n p -> safe n q -> cons n (terminated p q).
Proof.
  intros; unfold terminated; apply cons_bind_l; auto; intros; apply safe_bind; auto using safe_ret.
Qed.
Lemma cons_terminated_r : forall A B n (p : parser A) (q : parser B),
  safe n p -> cons n q -> cons n (terminated p q).
Proof.
  intros; unfold terminated; apply cons_bind_r; auto; intros; apply cons_bind_l; auto using safe_ret.
Qed.
Lemma safe_delimited : forall A B C n (p : parser A) (q : parser B) (r : parser C),
  safe n p -> safe n q -> safe n r -> safe n (delimited p q r).
Proof.
  intros; unfold delimited; apply safe_bind; auto; intros; apply safe_bind; auto; intros;
  apply safe_bind; auto using safe_ret.
Qed.
Lemma cons_delimited_l : forall A B C n (p : parser A) (q : parser B) (r : parser C),
  cons n p -> safe n q -> safe n r -> cons n (delimited p q r).
Proof.
  intros; unfold delimited; apply cons_bind_l; auto; intros; apply safe_bind; auto; intros;
  apply safe_bind; auto using safe_ret.
Qed.
Lemma cons_delimited_m : forall A B C n (p : parser A) (q : parser B) (r : parser C),
  safe n p -> cons n q -> safe n r -> cons n (delimited p q r).
Proof.
  intros; unfold delimited; apply cons_bind_r; auto; intros; apply cons_bind_l; auto; intros;
  apply safe_bind; auto using safe_ret.
Qed.

(* ---- tokens ---- *)
Lemma safe_fail : forall A n, safe n (@fail A).
Proof. intros A n i _. simpl. auto with sfx. Qed.
Lemma cons_any : forall n, cons n any.
Proof. intros n i _. destruct i; simpl; auto with sfx. Qed.
Lemma cons_one_of : forall n f, cons n (one_of f).
Proof. intros n f i _. destruct i; simpl; auto with sfx. destruct (f n0); simpl; auto with sfx. Qed.
Lemma cons_chr : forall n c, cons n (chr c).
Proof. intros; apply cons_one_of. Qed.

Lemma strip_prefix_app : forall l i r, strip_prefix l i = Some r -> i = l ++ r.
Proof.
  induction l; simpl; intros i r H; [now inversion H |].
  destruct i; [discriminate |]. destruct (N.eqb_spec a n); [| discriminate].
  subst. f_equal. auto.
Qed.
Lemma safe_literal : forall n l, safe n (literal l).
Proof.
  intros n l i _. unfold literal. destruct (strip_prefix l i) eqn:E; auto with sfx.
  split; auto. exists l. now apply strip_prefix_app.
Qed.
Lemma cons_literal : forall n l, l <> [] -> cons n (literal l).
Proof.
  intros n l Hl i _. unfold literal. destruct (strip_prefix l i) eqn:E; auto with sfx.
  apply strip_prefix_app in E. subst. split; [now exists l |].
  rewrite app_length. destruct l; [congruence | simpl; lia].
Qed.

Lemma span_while_app : forall f i a b, span_while f i = (a, b) -> i = a ++ b.
Proof.
  induction i; simpl; intros a0 b H; [now inversion H |].
  destruct (f a).
  - destruct (span_while f i) eqn:E. inversion H; subst. simpl. f_equal. auto.
  - now inversion H.
Qed.
Lemma safe_take_while0 : forall n f, safe n (take_while0 f).
Proof.
  intros n f i _. unfold take_while0. destruct (span_while f i) eqn:E.
  split; auto. exists l. now apply span_while_app in E.
Qed.
Lemma cons_take_while1 : forall n f, cons n (take_while1 f).
Proof.
  intros n f i _. unfold take_while1. destruct (span_while f i) eqn:E.
  apply span_while_app in E. subst. destruct l; auto with sfx.
  split; [now exists (n0 :: l) |]. rewrite app_length. simpl. lia.
Qed.
Lemma safe_take_till0 : forall n f, safe n (take_till0 f).
Proof. intros; apply safe_take_while0. Qed.
Lemma cons_take_till1 : forall n f, cons n (take_till1 f).
Proof. intros; apply cons_take_while1. Qed.
Lemma safe_eof : forall n, safe n eof.
Proof. intros n i _. destruct i; simpl; auto with sfx. Qed.
Lemma safe_space0 : forall n, safe n space0.
Proof. intros; apply safe_take_while0. Qed.
Lemma cons_space1 : forall n, cons n space1.
Proof. intros; apply cons_take_while1. Qed.
Lemma cons_digit1 : forall n, cons n digit1.
Proof. intros; apply cons_take_while1. Qed.

(* ---- choice, lookahead, decoration ---- *)
Lemma safe_opt : forall A n (p : parser A), safe n p -> safe n (opt p).
Proof.
  intros A n p H i Hi. specialize (H i Hi). unfold opt.
  destruct (p i) as [a r | [] l r | |]; auto with sfx; try tauto.
Qed.
Lemma triple_alt : forall A n (p q : parser A) Q, triple n p Q -> triple n q Q -> triple n (alt p q) Q.
Proof.
  intros A n p q Q Hp Hq i Hi. specialize (Hp i Hi). specialize (Hq i Hi). unfold alt.
  destruct (p i) as [a r | [] l r | |]; auto.
Qed.
Lemma safe_alt : forall A n (p q : parser A), safe n p -> safe n q -> safe n (alt p q).
Proof. intros; now apply triple_alt. Qed.
Lemma cons_alt : forall A n (p q : parser A), cons n p -> cons n q -> cons n (alt p q).
Proof. intros; now apply triple_alt. Qed.
Lemma safe_peek : forall A n (p : parser A), safe n p -> safe n (peek p).
Proof.
  intros A n p H i Hi. specialize (H i Hi). unfold peek. destruct (p i); auto with sfx.
Qed.
Lemma safe_pnot : forall A n (p : parser A), safe n p -> safe n (pnot p).
Proof.
  intros A n p H i Hi. specialize (H i Hi). unfold pnot.
  destruct (p i) as [a r | [] l r | |]; auto with sfx.
Qed.
Lemma safe_has_peek : forall A n (p : parser A), safe n p -> safe n (has_peek p).
Proof. intros; unfold has_peek. apply safe_pmap, safe_peek, safe_opt; auto. Qed.
Lemma triple_cut_err : forall A n (p : parser A) Q, triple n p Q -> triple n (cut_err p) Q.
Proof.
  intros A n p Q H i Hi. specialize (H i Hi). unfold cut_err. destruct (p i); auto.
Qed.
Lemma triple_context : forall A n lbl (p : parser A) Q, triple n p Q -> triple n (context lbl p) Q.
Proof.
  intros A n lbl p Q H i Hi. specialize (H i Hi). unfold context.
  destruct (p i) as [a r | c l r | |]; auto. destruct l; auto.
Qed.
Lemma safe_cond : forall A n b (p : parser A), safe n p -> safe n (cond b p).
Proof. intros; unfold cond; destruct b; auto using safe_pmap, safe_ret. Qed.
Lemma triple_cond_else : forall A n b (p q : parser A) Q,
  triple n p Q -> triple n q Q -> triple n (cond_else b p q) Q.
Proof. intros; unfold cond_else; destruct b; auto. Qed.
Lemma safe_taken : forall A n (p : parser A), safe n p -> safe n (taken p).
Proof.
  intros A n p H i Hi. specialize (H i Hi). unfold taken. destruct (p i); auto.
Qed.
Lemma cons_taken : forall A n (p : parser A), cons n p -> cons n (taken p).
Proof.
  intros A n p H i Hi. specialize (H i Hi). unfold taken. destruct (p i); auto.
Qed.
Lemma safe_with_span : forall A n (p : parser A), safe n p -> safe n (with_span p).
Proof.
  intros A n p H i Hi. specialize (H i Hi). unfold with_span. destruct (p i); auto.
Qed.
Lemma cons_with_span : forall A n (p : parser A), cons n p -> cons n (with_span p).
Proof.
  intros A n p H i Hi. specialize (H i Hi). unfold with_span. destruct (p i); auto.
Qed.
Lemma safe_try_map : forall A B n (p : parser A) (f : A -> option B), safe n p -> safe n (try_map p f).
Proof.
  intros A B n p f H i Hi. specialize (H i Hi). unfold try_map.
  destruct (p i); auto. destruct (f a); auto with sfx.
Qed.
Lemma cons_try_map : forall A B n (p : parser A) (f : A -> option B), cons n p -> cons n (try_map p f).
Proof.
  intros A B n p f H i Hi. specialize (H i Hi). unfold try_map.
  destruct (p i); auto. destruct (f a); auto with sfx.
Qed.

(* ---- repetition ---- *)
Lemma consumed_true : forall (i r : list N), (length r < length i)%nat -> consumed i r = true.
Proof. intros. unfold consumed. now apply Nat.ltb_lt. Qed.

Lemma safe_many0_gen : forall A n (p : parser A), cons n p ->
  forall f i, (length i <= f)%nat -> (length i <= n)%nat ->
    match many0 f p i with
    | POk _ r => suffix r i
    | PErr _ _ r => suffix r i
    | _ => False
    end.
Proof.
  intros A n p Hp. induction f; intros i Hf Hn; simpl.
  - specialize (Hp i Hn). destruct (p i) as [a r | [] l r | |]; auto with sfx.
    destruct Hp as [_ Hlt]. lia.
  - specialize (Hp i Hn). destruct (p i) as [a r | [] l r | |]; auto with sfx.
    destruct Hp as [Hs Hlt]. rewrite consumed_true by assumption.
    assert (H1 : (length r <= f)%nat) by lia.
    assert (H2 : (length r <= n)%nat) by lia.
    specialize (IHf r H1 H2). destruct (many0 f p r); auto; eapply suffix_trans; eauto.
Qed.
Lemma safe_many0 : forall A n f (p : parser A), (n <= f)%nat -> cons n p -> safe n (many0 f p).
Proof.
  intros A n f p Hf Hp i Hi. pose proof (safe_many0_gen A n p Hp f i) as H.
  assert (H1 : (length i <= f)%nat) by lia. specialize (H H1 Hi).
  destruct (many0 f p i); auto.
Qed.
Lemma cons_many1 : forall A n f (p : parser A), (n <= f)%nat -> cons n p -> cons n (many1 f p).
Proof.
  intros. unfold many1. apply cons_bind_l; auto. intros. apply safe_bind; auto using safe_ret, safe_many0.
Qed.

Lemma safe_repeat_till_loop : forall A B n (f : parser A) (g : parser B), cons n f -> safe n g ->
  forall fuel i, (length i <= fuel)%nat -> (length i <= n)%nat ->
    match repeat_till_loop fuel f g i with
    | POk _ r => suffix r i
    | PErr _ _ r => suffix r i
    | _ => False
    end.
Proof.
  intros A B n f g Hf Hg. induction fuel; intros i Hfu Hn; simpl.
  - specialize (Hg i Hn). destruct (g i) as [b r | [] l r | |]; try tauto.
    specialize (Hf i Hn). destruct (f i) as [a r' | c l' r' | |]; auto.
    destruct Hf as [_ Hlt]. lia.
  - specialize (Hg i Hn). destruct (g i) as [b r | [] l r | |]; try tauto.
    specialize (Hf i Hn). destruct (f i) as [a r' | c l' r' | |]; auto.
    destruct Hf as [Hs Hlt]. rewrite consumed_true by assumption.
    assert (H1 : (length r' <= fuel)%nat) by lia.
    assert (H2 : (length r' <= n)%nat) by lia.
    specialize (IHfuel r' H1 H2). destruct (repeat_till_loop fuel f g r'); auto; eapply suffix_trans; eauto.
Qed.
Lemma cons_repeat_till1 : forall A B n fuel (f : parser A) (g : parser B),
  (n <= fuel)%nat -> cons n f -> safe n g -> cons n (repeat_till1 fuel f g).
Proof.
  intros A B n fuel f g Hfu Hf Hg. unfold repeat_till1. apply cons_bind_l; auto.
  intros _ i Hi. pose proof (safe_repeat_till_loop A B n f g Hf Hg fuel i) as H.
  assert (H1 : (length i <= fuel)%nat) by lia. specialize (H H1 Hi).
  destruct (repeat_till_loop fuel f g i); auto.
Qed.

Lemma safe_separated_loop : forall A B n (p : parser A) (sep : parser B), safe n p -> cons n sep ->
  forall fuel i, (length i <= fuel)%nat -> (length i <= n)%nat ->
    match separated_loop fuel p sep i with
    | POk _ r => suffix r i
    | PErr _ _ r => suffix r i
    | _ => False
    end.
Proof.
  intros A B n p sep Hp Hsep. induction fuel; intros i Hfu Hn; simpl.
  - specialize (Hsep i Hn). destruct (sep i) as [b r | [] l r | |]; auto with sfx.
    destruct Hsep as [Hs Hlt]. lia.
  - specialize (Hsep i Hn). destruct (sep i) as [b r | [] l r | |]; auto with sfx.
    destruct Hsep as [Hs Hlt]. rewrite consumed_true by assumption.
    assert (H2 : (length r <= n)%nat) by lia. specialize (Hp r H2).
    destruct (p r) as [a r' | [] l r' | |]; auto with sfx.
    + destruct Hp as [Hs' _].
      assert (H3 : (length r' <= fuel)%nat) by (apply suffix_length in Hs'; lia).
      assert (H4 : (length r' <= n)%nat) by (apply suffix_length in Hs'; lia).
      specialize (IHfuel r' H3 H4).
      destruct (separated_loop fuel p sep r'); auto;
        (eapply suffix_trans; [eassumption |]; eapply suffix_trans; eauto).
    + eapply suffix_trans; eauto.
Qed.
Lemma triple_separated1 : forall A B n fuel (p : parser A) (sep : parser B) Q,
  (n <= fuel)%nat -> triple n p (fun i _ r => Q i r) -> safe n p -> cons n sep ->
  (forall i m r, suffix m i -> suffix r m -> Q i m -> Q i r) ->
  triple n (separated1 fuel p sep) (fun i _ r => Q i r).
Proof.
  intros A B n fuel p sep Q Hfu HpQ Hp Hsep Hmono i Hi. unfold separated1, bind.
  specialize (HpQ i Hi). destruct (p i) as [a m | | |]; auto. destruct HpQ as [Hs HQ].
  pose proof (safe_separated_loop A B n p sep Hp Hsep fuel m) as H.
  assert (H1 : (length m <= fuel)%nat) by (apply suffix_length in Hs; lia).
  assert (H2 : (length m <= n)%nat) by (apply suffix_length in Hs; lia).
  specialize (H H1 H2). destruct (separated_loop fuel p sep m); auto.
  - simpl. split; [eapply suffix_trans; eauto | eauto].
  - eapply suffix_trans; eauto.
Qed.
Lemma safe_separated1 : forall A B n fuel (p : parser A) (sep : parser B),
  (n <= fuel)%nat -> safe n p -> cons n sep -> safe n (separated1 fuel p sep).
Proof.
  intros. apply (triple_separated1 A B n fuel p sep (fun _ _ => True)); auto.
Qed.
Lemma cons_separated1 : forall A B n fuel (p : parser A) (sep : parser B),
  (n <= fuel)%nat -> cons n p -> cons n sep -> cons n (separated1 fuel p sep).
Proof.
  intros. apply (triple_separated1 A B n fuel p sep (fun i r => (length r < length i)%nat)); auto.
  - now apply cons_safe.
  - intros i m r _ Hs Hlt. apply suffix_length in Hs. lia.
Qed.

Lemma safe_foldl1_loop : forall A B n (p : parser A) (sep : parser B) op, safe n p -> cons n sep ->
  forall fuel i acc, (length i <= fuel)%nat -> (length i <= n)%nat ->
    match foldl1_loop fuel p sep op acc i with
    | POk _ r => suffix r i
    | PErr _ _ r => suffix r i
    | _ => False
    end.
Proof.
  intros A B n p sep op Hp Hsep. induction fuel; intros i acc Hfu Hn; simpl.
  - specialize (Hsep i Hn). destruct (sep i) as [b r | [] l r | |]; auto with sfx.
    destruct Hsep as [Hs Hlt]. lia.
  - specialize (Hsep i Hn). destruct (sep i) as [b r | [] l r | |]; auto with sfx.
    destruct Hsep as [Hs Hlt]. rewrite consumed_true by assumption.
    assert (H2 : (length r <= n)%nat) by lia. specialize (Hp r H2).
    destruct (p r) as [a r' | [] l r' | |]; auto with sfx.
    + destruct Hp as [Hs' _].
      assert (H3 : (length r' <= fuel)%nat) by (apply suffix_length in Hs'; lia).
      assert (H4 : (length r' <= n)%nat) by (apply suffix_length in Hs'; lia).
      specialize (IHfuel r' (op acc b a) H3 H4).
      destruct (foldl1_loop fuel p sep op (op acc b a) r'); auto;
        (eapply suffix_trans; [eassumption |]; eapply suffix_trans; eauto).
    + eapply suffix_trans; eauto.
Qed.
Lemma triple_separated_foldl1 : forall A B n fuel (p : parser A) (sep : parser B) op Q,
  (n <= fuel)%nat -> triple n p (fun i _ r => Q i r) -> safe n p -> cons n sep ->
  (forall i m r, suffix m i -> suffix r m -> Q i m -> Q i r) ->
  triple n (separated_foldl1 fuel p sep op) (fun i _ r => Q i r).
Proof.
  intros A B n fuel p sep op Q Hfu HpQ Hp Hsep Hmono i Hi. unfold separated_foldl1.
  specialize (HpQ i Hi). destruct (p i) as [a m | | |]; auto. destruct HpQ as [Hs HQ].
  pose proof (safe_foldl1_loop A B n p sep op Hp Hsep fuel m a) as H.
  assert (H1 : (length m <= fuel)%nat) by (apply suffix_length in Hs; lia).
  assert (H2 : (length m <= n)%nat) by (apply suffix_length in Hs; lia).
  specialize (H H1 H2). destruct (foldl1_loop fuel p sep op a m); auto.
  - split; [eapply suffix_trans; eauto | eauto].
  - eapply suffix_trans; eauto.
Qed.
Lemma safe_separated_foldl1 : forall A B n fuel (p : parser A) (sep : parser B) op,
  (n <= fuel)%nat -> safe n p -> cons n sep -> safe n (separated_foldl1 fuel p sep op).
Proof.
  intros. apply (triple_separated_foldl1 A B n fuel p sep op (fun _ _ => True)); auto.
Qed.
