(* Non-vacuity of the C02/C04 theorems: concrete ledgers, and the witness of C02-K1. *)
From Coq Require Import List NArith ZArith Bool QArith Qcanon Lia.
From Okv Require Import Base.Maps Base.Dec Model.Amount Model.Book Model.Query Model.BookSpecB
     Proofs.BookB_Maps Proofs.BookB_Inv Proofs.BookB_Assert Proofs.BookB_Query.
Import ListNotations.
Open Scope Qc_scope.

Lemma qc_neq_of_bool x y : Qc_eq_bool x y = false -> x <> y.
Proof. intros H ->. unfold Qc_eq_bool in H. destruct (Qc_eq_dec y y); [discriminate|contradiction]. Qed.
Lemma qc_eq_of_bool x y : Qc_eq_bool x y = true -> x = y.
Proof. apply Qc_eq_bool_correct. Qed.

(* accounts: 0 A (Assets:Bank), 1 B (Assets:Cash), 2 Equity, 3 Expenses:Food; commodities: 2 EUR, 4 USD *)
Definition lit (m : Z) (s : nat) (c : N) : vexpr := VAmt (of_dec m s) (Some c).
Definition mk (a : N) (amt bal : option vexpr) : posting :=
  {| p_account := a; p_amount := amt; p_cost := None; p_lot := None; p_balance := bal |}.

(* ---- C02-K1: `A ; A 5 USD = 5 USD ; B 3 USD` is accepted although A ends at -3 USD ---- *)
Definition k1_txn : txn :=
  {| t_date := 0%Z;
     t_posts := [mk 0 None None; mk 0 (Some (lit 5 0 4)) (Some (lit 5 0 4)); mk 1 (Some (lit 3 0 4)) None] |}.
Definition k1_ledger : list entry := [ETxn k1_txn].
Definition k1_final : bstate := match process k1_ledger with (Ok L, _) => L | _ => bstate0 end.
Definition k1_stored : otxn := hd {| o_date := 0%Z; o_posts := [] |} (s_txns k1_final).

Example k1_accepted : process k1_ledger = (Ok k1_final, 1%nat).
Proof. vm_compute. reflexivity. Qed.
Example k1_txns : s_txns k1_final = [k1_stored].
Proof. vm_compute. reflexivity. Qed.
Example k1_expected : eval_pa (lit 5 0 4) = Ok (PSingle 4 (of_dec 5 0)).
Proof. vm_compute. reflexivity. Qed.
Example k1_known : known_class k1_txn 1 = true.
Proof. reflexivity. Qed.
(* A stands at -3 USD after the asserted posting and everything before it *)
Example k1_running : Qc_eq_bool (running [] (o_posts k1_stored) 1 0%N 4%N) (of_dec (-3) 0) = true.
Proof. vm_compute. reflexivity. Qed.
Example k1_running_ne : Qc_eq_bool (running [] (o_posts k1_stored) 1 0%N 4%N) (of_dec 5 0) = false.
Proof. vm_compute. reflexivity. Qed.
(* while the live balance the implementation compared with was 5 USD *)
Example k1_live : Qc_eq_bool (running_live [] (t_posts k1_txn) (o_posts k1_stored) 1 0%N 4%N) (of_dec 5 0) = true.
Proof. vm_compute. reflexivity. Qed.

Theorem K1_refuted :
  exists es es1 t es2 L n i p sa bc expected,
    process es = (Ok L, n) /\ es = es1 ++ ETxn t :: es2
    /\ nth_error (t_posts t) i = Some p /\ p_amount p = Some sa /\ p_balance p = Some bc
    /\ eval_pa bc = Ok expected /\ known_class t i = true
    /\ ~ exists pre ot post,
           s_txns L = pre ++ ot :: post /\ length pre = count_txns es1
           /\ holds expected (running (flat_map o_posts pre) (o_posts ot) i (p_account p)).
Proof.
  exists k1_ledger, [], k1_txn, [], k1_final, 1%nat, 1%nat,
         (mk 0 (Some (lit 5 0 4)) (Some (lit 5 0 4))), (lit 5 0 4), (lit 5 0 4), (PSingle 4 (of_dec 5 0)).
  split; [exact k1_accepted|]. split; [reflexivity|]. split; [reflexivity|]. split; [reflexivity|].
  split; [reflexivity|]. split; [exact k1_expected|]. split; [exact k1_known|].
  intros (pre & ot & post & Htx & Hlen & Hh).
  destruct pre; [|discriminate Hlen]. rewrite k1_txns in Htx. cbn [app] in Htx.
  injection Htx as <- _. cbn [holds flat_map p_account mk] in Hh.
  exact (qc_neq_of_bool _ _ k1_running_ne Hh).
Qed.

(* ---- an accepted ledger with assertions, a declared precision, three dates ---- *)
Definition ex_ledger : list entry :=
  [ EFormat 4 2;
    ETxn {| t_date := 10%Z; t_posts := [mk 0 (Some (lit 100005 3 4)) None; mk 2 None None] |};
    ETxn {| t_date := 20%Z; t_posts := [mk 3 (Some (lit 30 0 4)) (Some (lit 30 0 4));
                                        mk 0 None None;
                                        mk 0 (Some (lit 0 0 4)) (Some (lit 100005 3 4))] |};
    ENop;
    ETxn {| t_date := 30%Z; t_posts := [mk 3 (Some (lit 5 0 2)) None; mk 1 (Some (lit (-5) 0 2)) (Some (lit (-5) 0 2));
                                        mk 0 (Some (lit (-70005) 3 4)) (Some (VAmt (of_dec 0 0) None));
                                        mk 2 None None] |} ].
Definition ex_final : bstate := match process ex_ledger with (Ok L, _) => L | _ => bstate0 end.

Example ex_accepted : process ex_ledger = (Ok ex_final, 5%nat).
Proof. vm_compute. reflexivity. Qed.
Example ex_reachable : reachable ex_final.
Proof. exists ex_ledger, 5%nat. exact ex_accepted. Qed.
Example ex_three_txns : length (s_txns ex_final) = 3%nat.
Proof. vm_compute. reflexivity. Qed.

(* the hypotheses of assertions_hold_outside_K1 are met by the first posting of the second
   transaction, and by the assertion after the omitted posting on another account *)
Example ex_not_known_0 :
  known_class {| t_date := 20%Z; t_posts := [mk 3 (Some (lit 30 0 4)) (Some (lit 30 0 4)); mk 0 None None;
                                             mk 0 (Some (lit 0 0 4)) (Some (lit 100005 3 4))] |} 0 = false.
Proof. reflexivity. Qed.
(* ... while the third posting of that transaction (A after the omitted A) is in the known class:
   `= 100.005 USD` is accepted (the live balance) although A stands at 70.005 USD in file order *)
Example ex_known_2 :
  known_class {| t_date := 20%Z; t_posts := [mk 3 (Some (lit 30 0 4)) (Some (lit 30 0 4)); mk 0 None None;
                                             mk 0 (Some (lit 0 0 4)) (Some (lit 100005 3 4))] |} 2 = true.
Proof. reflexivity. Qed.

(* whole-history report (raw path, unrounded): A = 0 (bare `= 0` passed), Food = 30 USD + 5 EUR *)
Example ex_raw_A : bal_get (balance_report ex_final None None) 0%N = [].
Proof. vm_compute. reflexivity. Qed.
Example ex_raw_food_usd : Qc_eq_bool (a_get (bal_get (balance_report ex_final None None) 3%N) 4%N) (of_dec 30 0) = true.
Proof. vm_compute. reflexivity. Qed.
(* [10, 21): A = 100.005 - 30 = 70.005 exactly, reported as 70.00 (half-even at 2 places) *)
Example ex_range_exact :
  Qc_eq_bool (a_get (bal_get (refold (s_txns ex_final) (Some 10%Z) (Some 21%Z)) 0%N) 4%N) (of_dec 70005 3) = true.
Proof. vm_compute. reflexivity. Qed.
Example ex_range_reported :
  Qc_eq_bool (a_get (bal_get (balance_report ex_final (Some 10%Z) (Some 21%Z)) 0%N) 4%N) (of_dec 7000 2) = true.
Proof. vm_compute. reflexivity. Qed.
(* end is exclusive, start inclusive *)
Example ex_range_boundaries :
  Qc_eq_bool (a_get (bal_get (refold (s_txns ex_final) (Some 10%Z) (Some 20%Z)) 0%N) 4%N) (of_dec 100005 3) = true
  /\ Qc_eq_bool (a_get (bal_get (refold (s_txns ex_final) (Some 11%Z) (Some 20%Z)) 0%N) 4%N) 0 = true
  /\ Qc_eq_bool (a_get (bal_get (refold (s_txns ex_final) (Some 20%Z) (Some 31%Z)) 0%N) 4%N) (of_dec (-100005) 3) = true.
Proof. vm_compute. repeat split. Qed.
(* inverted range: empty report *)
Example ex_inverted : refold (s_txns ex_final) (Some 30%Z) (Some 10%Z) = [].
Proof. vm_compute. reflexivity. Qed.
(* the register has 9 lines; its last running total is zero in every commodity *)
Example ex_register_len : length (register_lines [] (all_postings ex_final)) = 9%nat.
Proof. vm_compute. reflexivity. Qed.
Example ex_register_total :
  Qc_eq_bool (a_get (last_total (register_lines [] (all_postings ex_final))) 4%N) 0 = true
  /\ Qc_eq_bool (a_get (last_total (register_lines [] (all_postings ex_final))) 2%N) 0 = true.
Proof. vm_compute. split; reflexivity. Qed.

(* ---- a rejected ledger: the second assertion is false ---- *)
Definition bad_ledger : list entry :=
  [ ETxn {| t_date := 1%Z; t_posts := [mk 0 (Some (lit 10 0 4)) (Some (lit 10 0 4)); mk 2 None None] |};
    ETxn {| t_date := 2%Z; t_posts := [mk 0 (Some (lit 5 0 4)) None;
                                       mk 0 (Some (lit 1 0 4)) (Some (lit 17 0 4));
                                       mk 2 None None] |} ].
Example bad_rejected :
  match process bad_ledger with
  | (Err (BalanceAssertionFailure 1 computed diff), 1%nat) =>
      Qc_eq_bool (a_get computed 4%N) (of_dec 16 0) && Qc_eq_bool (a_get diff 4%N) (of_dec 1 0)
  | _ => false
  end = true.
Proof. vm_compute. reflexivity. Qed.
