(* Lemmas about association-list maps (Base/Maps.v) and amounts (Model/Amount.v) used by the
   book-keeping invariants of C02/C04. *)
From Coq Require Import List NArith ZArith Bool QArith Qcanon Lia.
From Okv Require Import Base.Maps Base.Dec Model.Amount Model.Book Model.BookSpecB.
Import ListNotations.
Open Scope Qc_scope.

Lemma NoDup_snoc {A} (l : list A) x : NoDup l -> ~ In x l -> NoDup (l ++ [x]).
Proof.
  induction l as [|a l IH]; cbn; intros Hnd Hni.
  - constructor; [tauto|constructor].
  - inversion Hnd as [|? ? Ha Hl]; subst. constructor.
    + rewrite in_app_iff. cbn. intuition.
    + apply IH; tauto.
Qed.

(* ---- generic maps ---- *)
Section MapLemmas.
  Context {V : Type}.
  Implicit Types (m : amap V) (k : N).

  Lemma get_set_same m k v : get k (set k v m) = Some v.
  Proof.
    induction m as [|[k' v'] r IH]; cbn.
    - now rewrite N.eqb_refl.
    - destruct (N.eqb_spec k' k); cbn.
      + now rewrite N.eqb_refl.
      + destruct (N.eqb_spec k' k); [contradiction|exact IH].
  Qed.

  Lemma get_set_other m k k' v : k' <> k -> get k' (set k v m) = get k' m.
  Proof.
    intro Hne. induction m as [|[k2 v2] r IH]; cbn.
    - destruct (N.eqb_spec k k'); [congruence|reflexivity].
    - destruct (N.eqb_spec k2 k); cbn.
      + subst. destruct (N.eqb_spec k k'); [congruence|reflexivity].
      + destruct (N.eqb_spec k2 k'); [reflexivity|exact IH].
  Qed.

  Lemma get_none_notin m k : get k m = None <-> ~ In k (keys m).
  Proof.
    induction m as [|[k' v'] r IH]; cbn.
    - tauto.
    - destruct (N.eqb_spec k' k).
      + split; [discriminate|]. intro H. exfalso. apply H. now left.
      + rewrite IH. unfold keys. tauto.
  Qed.

  Lemma get_some_in m k v : get k m = Some v -> In (k, v) m.
  Proof.
    induction m as [|[k' v'] r IH]; cbn; [discriminate|].
    destruct (N.eqb_spec k' k).
    - intros [= ->]. subst. now left.
    - intro H. right. now apply IH.
  Qed.

  Lemma in_keys m k v : In (k, v) m -> In k (keys m).
  Proof. intro H. unfold keys. change k with (fst (k, v)). now apply in_map. Qed.

  Lemma in_get_nodup m k v : NoDup (keys m) -> In (k, v) m -> get k m = Some v.
  Proof.
    induction m as [|[k' v'] r IH]; cbn; [tauto|].
    intros Hnd [H|H].
    - injection H as -> ->. now rewrite N.eqb_refl.
    - inversion Hnd as [|? ? Hni Hnd']; subst.
      destruct (N.eqb_spec k' k).
      + subst. exfalso. apply Hni. eapply in_keys; eauto.
      + now apply IH.
  Qed.

  Lemma keys_set_in m k v : In k (keys m) -> keys (set k v m) = keys m.
  Proof.
    induction m as [|[k' v'] r IH]; cbn; [tauto|].
    intros H. destruct (N.eqb_spec k' k); cbn.
    - now subst.
    - f_equal. apply IH. destruct H; [congruence|assumption].
  Qed.

  Lemma keys_set_notin m k v : ~ In k (keys m) -> keys (set k v m) = keys m ++ [k].
  Proof.
    induction m as [|[k' v'] r IH]; cbn; [reflexivity|].
    intros H. destruct (N.eqb_spec k' k); cbn.
    - exfalso. apply H. now left.
    - f_equal. apply IH. tauto.
  Qed.

  Lemma in_keys_set m k k' v : In k' (keys (set k v m)) <-> k' = k \/ In k' (keys m).
  Proof.
    destruct (in_dec N.eq_dec k (keys m)) as [Hin|Hni].
    - rewrite keys_set_in by assumption. split; [tauto|]. intros [->|H]; assumption.
    - rewrite keys_set_notin by assumption. rewrite in_app_iff. cbn. intuition.
  Qed.

  Lemma NoDup_keys_set m k v : NoDup (keys m) -> NoDup (keys (set k v m)).
  Proof.
    intro H. destruct (in_dec N.eq_dec k (keys m)) as [Hin|Hni].
    - now rewrite keys_set_in.
    - rewrite keys_set_notin by assumption.
      now apply NoDup_snoc.
  Qed.

  Lemma in_set m k v k' v' : In (k', v') (set k v m) -> (k' = k /\ v' = v) \/ In (k', v') m.
  Proof.
    induction m as [|[k2 v2] r IH]; cbn.
    - intros [[= <- <-]|[]]. now left.
    - destruct (N.eqb_spec k2 k); cbn.
      + intros [[= <- <-]|H]; [now left|right; now right].
      + intros [H|H]; [right; now left|]. destruct (IH H); [now left|right; now right].
  Qed.

  Lemma get_remove_other m k k' : k' <> k -> get k' (remove k m) = get k' m.
  Proof.
    intro Hne. induction m as [|[k2 v2] r IH]; cbn; [reflexivity|].
    destruct (N.eqb_spec k2 k); cbn.
    - subst. destruct (N.eqb_spec k k'); [congruence|reflexivity].
    - destruct (N.eqb_spec k2 k'); [reflexivity|exact IH].
  Qed.

  Lemma in_remove m k x : In x (remove k m) -> In x m.
  Proof.
    induction m as [|[k2 v2] r IH]; cbn; [tauto|].
    destruct (N.eqb_spec k2 k); cbn; [tauto|]. intros [H|H]; [now left|right; now apply IH].
  Qed.

  Lemma in_keys_remove m k x : In x (keys (remove k m)) -> In x (keys m).
  Proof.
    induction m as [|[k2 v2] r IH]; cbn; [tauto|].
    destruct (N.eqb_spec k2 k); cbn; [tauto|]. intros [H|H]; [now left|right; now apply IH].
  Qed.

  Lemma NoDup_keys_remove m k : NoDup (keys m) -> NoDup (keys (remove k m)).
  Proof.
    induction m as [|[k2 v2] r IH]; cbn; [trivial|].
    intro H. inversion H as [|? ? Hni Hnd]; subst.
    destruct (N.eqb_spec k2 k); cbn; [assumption|].
    constructor; [|now apply IH]. intro Hin. apply Hni. eapply in_keys_remove; eauto.
  Qed.

  Lemma get_remove_same m k : NoDup (keys m) -> get k (remove k m) = None.
  Proof.
    induction m as [|[k2 v2] r IH]; cbn; [trivial|].
    intro H. inversion H as [|? ? Hni Hnd]; subst.
    destruct (N.eqb_spec k2 k); cbn.
    - subst. now apply get_none_notin.
    - destruct (N.eqb_spec k2 k); [contradiction|now apply IH].
  Qed.

  Lemma in_keys_filter (f : N * V -> bool) m x : In x (keys (filter f m)) -> In x (keys m).
  Proof.
    unfold keys. rewrite !in_map_iff. intros [p [Hp Hin]]. exists p. split; [assumption|].
    apply filter_In in Hin. tauto.
  Qed.

  Lemma NoDup_keys_filter (f : N * V -> bool) m : NoDup (keys m) -> NoDup (keys (filter f m)).
  Proof.
    induction m as [|[k2 v2] r IH]; cbn; [trivial|].
    intro H. inversion H as [|? ? Hni Hnd]; subst.
    destruct (f (k2, v2)); cbn; [|now apply IH].
    constructor; [|now apply IH]. intro Hin. apply Hni. eapply in_keys_filter; eauto.
  Qed.

  Lemma get_filter_val (f : V -> bool) m k :
    NoDup (keys m) ->
    get k (filter (fun p => f (snd p)) m) =
    match get k m with Some v => if f v then Some v else None | None => None end.
  Proof.
    induction m as [|[k2 v2] r IH]; cbn; [trivial|].
    intro H. inversion H as [|? ? Hni Hnd]; subst.
    destruct (N.eqb_spec k2 k).
    - subst. destruct (f v2) eqn:E; cbn.
      + now rewrite N.eqb_refl.
      + apply get_none_notin. intro Hin. apply Hni. eapply in_keys_filter; eauto.
    - destruct (f v2); cbn.
      + destruct (N.eqb_spec k2 k); [contradiction|now apply IH].
      + now apply IH.
  Qed.

  Lemma keys_map_val (g : N -> V -> V) m : keys (map (fun p => (fst p, g (fst p) (snd p))) m) = keys m.
  Proof. unfold keys. rewrite map_map. reflexivity. Qed.

  Lemma get_map_val (g : N -> V -> V) m k :
    get k (map (fun p => (fst p, g (fst p) (snd p))) m) = option_map (g k) (get k m).
  Proof.
    induction m as [|[k2 v2] r IH]; cbn; [reflexivity|].
    destruct (N.eqb_spec k2 k); [now subst|exact IH].
  Qed.

  Lemma get_app m1 m2 k :
    get k (m1 ++ m2) = match get k m1 with Some v => Some v | None => get k m2 end.
  Proof.
    induction m1 as [|[k2 v2] r IH]; cbn; [reflexivity|].
    destruct (N.eqb_spec k2 k); [reflexivity|exact IH].
  Qed.

  Lemma mem_in_keys m k : mem k m = true <-> In k (keys m).
  Proof.
    unfold mem. destruct (get k m) eqn:E.
    - split; [|trivial]. intros _. apply get_some_in in E. eapply in_keys; eauto.
    - split; [discriminate|]. intro H. apply get_none_notin in E. contradiction.
  Qed.
End MapLemmas.

(* ---- Qc zero test ---- *)
Lemma qc_zero_true x : qc_zero x = true <-> x = 0.
Proof.
  unfold qc_zero, Qc_eq_bool. destruct (Qc_eq_dec x 0); split; auto; discriminate.
Qed.
Lemma qc_zero_false x : qc_zero x = false <-> x <> 0.
Proof.
  unfold qc_zero, Qc_eq_bool. destruct (Qc_eq_dec x 0); split; auto; try discriminate. contradiction.
Qed.

(* ---- amounts ---- *)

(* sum of all entries stored under key c (equals a_get when keys are distinct) *)
Definition sum_key (b : amount) (c : cid) : Qc :=
  fold_right (fun p acc => (if (fst p =? c)%N then snd p else 0) + acc) 0 b.

Lemma a_get_nil c : a_get [] c = 0.
Proof. reflexivity. Qed.

Lemma a_get_single c v c' : a_get (a_single c v) c' = if (c =? c')%N then v else 0.
Proof. unfold a_get, a_single. cbn. destruct (c =? c')%N; reflexivity. Qed.

Lemma a_get_add1 a c v c' : a_get (a_add1 a c v) c' = a_get a c' + (if (c =? c')%N then v else 0).
Proof.
  unfold a_add1, a_get. destruct (get c a) eqn:E.
  - destruct (N.eqb_spec c c').
    + subst. rewrite get_set_same, E. reflexivity.
    + rewrite get_set_other by congruence. destruct (get c' a); ring.
  - rewrite get_app. destruct (N.eqb_spec c c').
    + subst. rewrite E. cbn. rewrite N.eqb_refl. ring.
    + destruct (get c' a); [ring|]. cbn. destruct (N.eqb_spec c c'); [contradiction|ring].
Qed.

Lemma keys_add1 a c v : NoDup (keys a) -> NoDup (keys (a_add1 a c v)).
Proof.
  intro H. unfold a_add1. destruct (get c a) eqn:E.
  - now apply NoDup_keys_set.
  - apply get_none_notin in E. unfold keys. rewrite map_app. cbn.
    now apply NoDup_snoc.
Qed.

Lemma a_get_add_gen b : forall a c, a_get (a_add a b) c = a_get a c + sum_key b c.
Proof.
  unfold a_add, sum_key. induction b as [|[k v] r IH]; intros a c; cbn [fold_left fold_right fst snd].
  - ring.
  - rewrite IH, a_get_add1. ring.
Qed.

Lemma sum_key_cons k v r c : sum_key ((k, v) :: r) c = (if (k =? c)%N then v else 0) + sum_key r c.
Proof. reflexivity. Qed.

Lemma sum_key_notin b c : ~ In c (keys b) -> sum_key b c = 0.
Proof.
  induction b as [|[k v] r IH]; [reflexivity|].
  rewrite sum_key_cons. cbn [keys map fst In]. intro H.
  destruct (N.eqb_spec k c); [exfalso; apply H; now left|].
  rewrite IH by tauto. ring.
Qed.

Lemma sum_key_nodup b c : NoDup (keys b) -> sum_key b c = a_get b c.
Proof.
  induction b as [|[k v] r IH]; [reflexivity|].
  rewrite sum_key_cons. cbn [keys map fst]. intro H. inversion H as [|? ? Hni Hnd]; subst.
  unfold a_get. cbn [get]. destruct (N.eqb_spec k c).
  - subst. rewrite sum_key_notin by assumption. ring.
  - rewrite IH by assumption. unfold a_get. ring.
Qed.

Lemma a_get_add a b c : NoDup (keys b) -> a_get (a_add a b) c = a_get a c + a_get b c.
Proof. intro H. now rewrite a_get_add_gen, sum_key_nodup. Qed.

Lemma keys_add b : forall a, NoDup (keys a) -> NoDup (keys (a_add a b)).
Proof.
  unfold a_add. induction b as [|[k v] r IH]; intros a H; cbn; [assumption|].
  apply IH. now apply keys_add1.
Qed.

Lemma a_get_remove_zeros a c : NoDup (keys a) -> a_get (a_remove_zeros a) c = a_get a c.
Proof.
  intro H. unfold a_get, a_remove_zeros.
  rewrite (get_filter_val (fun v => negb (qc_zero v))) by assumption.
  destruct (get c a) as [v|]; [|reflexivity].
  destruct (qc_zero v) eqn:E; cbn; [|reflexivity].
  apply qc_zero_true in E. now subst.
Qed.

Lemma nozero_remove_zeros a : nozero (a_remove_zeros a).
Proof.
  intros c v H. unfold a_remove_zeros in H. apply filter_In in H. destruct H as [_ H]. cbn in H.
  apply negb_true_iff in H. now apply qc_zero_false.
Qed.

Lemma keys_remove_zeros a : NoDup (keys a) -> NoDup (keys (a_remove_zeros a)).
Proof. apply NoDup_keys_filter. Qed.

Lemma amt_wf_remove_zeros a : NoDup (keys a) -> amt_wf (a_remove_zeros a).
Proof. intro H. split; [now apply keys_remove_zeros|apply nozero_remove_zeros]. Qed.

Lemma amt_wf_nil : amt_wf [].
Proof. split; [constructor|intros c v []]. Qed.

Lemma keys_neg a : keys (a_neg a) = keys a.
Proof. unfold a_neg, keys. rewrite map_map. reflexivity. Qed.

Lemma a_get_neg a c : a_get (a_neg a) c = - a_get a c.
Proof.
  unfold a_get, a_neg. rewrite (get_map_val (fun _ v => - v)).
  destruct (get c a); cbn; ring.
Qed.

Lemma keys_round f a : keys (a_round f a) = keys a.
Proof. unfold a_round, keys. rewrite map_map. reflexivity. Qed.

Definition pa_get (p : posting_amount) (c : cid) : Qc := a_get (pa_to_amount p) c.

Lemma a_get_add_pa a p c : a_get (a_add_pa a p) c = a_get a c + pa_get p c.
Proof.
  destruct p as [|k v]; unfold pa_get; cbn [a_add_pa pa_to_amount].
  - rewrite a_get_nil. ring.
  - now rewrite a_get_add1, a_get_single.
Qed.

Lemma keys_add_pa a p : NoDup (keys a) -> NoDup (keys (a_add_pa a p)).
Proof. destruct p; cbn [a_add_pa]; [trivial|apply keys_add1]. Qed.

Lemma keys_pa_to_amount p : NoDup (keys (pa_to_amount p)).
Proof. destruct p; cbn; constructor; [tauto|constructor]. Qed.

(* nozero amounts: "all entries zero" means "empty" *)
Lemma a_is_zero_nozero a : nozero a -> a_is_zero a = true -> a = [].
Proof.
  destruct a as [|[c v] r]; [trivial|]. intros Hnz H. cbn in H.
  apply andb_true_iff in H. destruct H as [H _]. apply qc_zero_true in H.
  exfalso. eapply Hnz; [left; reflexivity|assumption].
Qed.

Lemma a_is_zero_spec a : a_is_zero a = true <-> forall c v, In (c, v) a -> v = 0.
Proof.
  unfold a_is_zero. rewrite forallb_forall. split.
  - intros H c v Hin. apply qc_zero_true. apply (H (c, v) Hin).
  - intros H [c v] Hin. apply qc_zero_true. eapply H; eauto.
Qed.

Lemma a_get_zero_of_all_zero a : (forall c v, In (c, v) a -> v = 0) -> forall c, a_get a c = 0.
Proof.
  intros H c. unfold a_get. destruct (get c a) eqn:E; [|reflexivity].
  apply get_some_in in E. eapply H; eauto.
Qed.
