(* Declarative reading of property C18 on a deserialised statement: which records become
   transactions and in which order, what sign and dates they carry, and when a statement's figures
   are consistent.  Independent of Model/Camt.v's `import`.  Everything is executable (the
   classifier evaluates the same definitions on what the implementation did). *)
From Coq Require Import List NArith ZArith Bool QArith Qcanon.
From Okv Require Import Base.Dec Model.Lit Model.SingleEntry2 Model.Camt Model.CamtBook.
Import ListNotations.
Open Scope Qc_scope.

(* a record that becomes one transaction: an entry without details, or one detail of a batched entry *)
Inductive unit_rec := UEntry (e : entry) | UDetail (e : entry) (d : detail).

Definition entry_units (e : entry) : list unit_rec :=
  match en_details e with
  | [] => [UEntry e]
  | ds => map (UDetail e) ds
  end.
(* in output order *)
Definition stmt_units (cfg : config) (st : statement) : list unit_rec :=
  flat_map entry_units (if cf_new_to_old cfg then rev (st_entries st) else st_entries st).

Definition unit_entry (u : unit_rec) : entry := match u with UEntry e => e | UDetail e _ => e end.
Definition unit_amount (u : unit_rec) : xamount :=
  match u with UEntry e => en_amount e | UDetail _ d => td_amount d end.
Definition unit_cd (u : unit_rec) : cdind :=
  match u with UEntry e => en_cd e | UDetail _ d => td_cd d end.
Definition unit_charges (u : unit_rec) : list charge_record :=
  match u with UEntry e => en_charges e | UDetail e d => en_charges e ++ td_charges d end.

(* credit +, debit - *)
Definition signed (cd : cdind) (v : Qc) : Qc := match cd with Credit => v | Debit => - v end.
Definition unit_value (u : unit_rec) : Qc := signed (unit_cd u) (d_value (xa_value (unit_amount u))).
Definition entry_value (e : entry) : Qc := signed (en_cd e) (d_value (xa_value (en_amount e))).
Definition detail_value (d : detail) : Qc := signed (td_cd d) (d_value (xa_value (td_amount d))).

(* date = value date, else booking date; effective date = booking date iff different *)
Definition expected_date (e : entry) : date :=
  match en_value e with Some v => v | None => en_booking e end.
Definition expected_edate (e : entry) : option date :=
  if date_eqb (expected_date e) (en_booking e) then None else Some (en_booking e).

Definition qsum (l : list Qc) : Qc := fold_right Qcplus 0 l.

Definition balance_of (st : statement) (code : bal_code) : option balance :=
  find (fun b => bal_code_eqb (b_code b) code) (st_balances st).
Definition balance_value (b : balance) : Qc := signed (b_cd b) (d_value (xa_value (b_amount b))).

(* ---- consistency of a single-currency statement ---- *)
Definition nonzero_charges (rs : list charge_record) : list charge_record :=
  filter (fun cr => negb (d_is_zero (xa_value (cr_amount cr)))) rs.
(* what a charge contributes to the transaction: a debit charge is a positive expense *)
Definition charge_value (cr : charge_record) : Qc := - signed (cr_cd cr) (d_value (xa_value (cr_amount cr))).

Definition nonneg_amount (a : xamount) : bool := negb (neg (xa_value a)).
Definition is_some {A} (o : option A) : bool := match o with Some _ => true | None => false end.

(* charges are in the statement's currency, included in the amount, and the operator is configured *)
Definition charges_ok (cfg : config) (c0 : str) (rs : list charge_record) : bool :=
  forallb (fun cr => cr_included cr && str_eqb (xa_ccy (cr_amount cr)) c0) (nonzero_charges rs)
  && (match nonzero_charges rs with [] => true | _ => is_some (cf_operator cfg) end).

(* the amount the counter-party sees: TxAmt when given, else the amount itself *)
Definition unit_tx_amount (u : unit_rec) : xamount :=
  match u with
  | UEntry e => en_amount e
  | UDetail _ d => match td_details d with Some ad => ad_amount ad | None => td_amount d end
  end.
Definition unit_no_exchange (u : unit_rec) : bool :=
  match u with
  | UDetail _ d => match td_details d with Some ad => negb (is_some (ad_exchange ad)) | None => true end
  | UEntry _ => true
  end.

(* amount (signed) + charges = transaction amount (signed): "charges included in the amount" *)
Definition unit_ok (cfg : config) (c0 : str) (u : unit_rec) : bool :=
  str_eqb (xa_ccy (unit_amount u)) c0 && nonneg_amount (unit_amount u)
  && str_eqb (xa_ccy (unit_tx_amount u)) c0 && nonneg_amount (unit_tx_amount u)
  && unit_no_exchange u
  && charges_ok cfg c0 (unit_charges u)
  && Qc_eq_bool (unit_value u + qsum (map charge_value (nonzero_charges (unit_charges u))))
                (signed (unit_cd u) (d_value (xa_value (unit_tx_amount u)))).

(* a batched entry's details sum to the entry *)
Definition batch_ok (e : entry) : bool :=
  match en_details e with
  | [] => true
  | ds => Qc_eq_bool (qsum (map detail_value ds)) (entry_value e)
  end.

Definition nonempty {A} (l : list A) : bool := match l with [] => false | _ => true end.

Definition consistent_b (cfg : config) (c0 : str) (st : statement) : bool :=
  nonempty c0 &&
  match balance_of st OPBD, balance_of st CLBD with
  | Some ob, Some cb =>
      str_eqb (xa_ccy (b_amount ob)) c0 && str_eqb (xa_ccy (b_amount cb)) c0
      && forallb batch_ok (st_entries st)
      && forallb (unit_ok cfg c0) (stmt_units cfg st)
      && Qc_eq_bool (balance_value ob + qsum (map entry_value (st_entries st))) (balance_value cb)
  | _, _ => false
  end.

(* every account a counter posting can go to *)
Definition unit_frag (u : unit_rec) : fragment :=
  match u with UEntry e => en_frag e | UDetail _ d => td_frag d end.
Definition counter_accounts (cfg : config) (st : statement) : list str :=
  [s_equity_adjustments; s_expenses_commissions; s_income_unknown; s_expenses_unknown]
  ++ flat_map (fun u => match f_account (unit_frag u) with Some a => [a] | None => [] end) (stmt_units cfg st).
