(* C13 vocabulary for the import rewrite rules.  Definitions only. *)
From Coq Require Import List NArith Bool.
From Okv Require Import Model.ImpConfig Model.ImpExtract.
Import ListNotations.

(* ---- import rules: what is true of CsvMatcher::captures (cli/src/import/csv.rs) ----
   a category / secondary-commodity matcher looks at the record only and captures nothing
   (Matched::default()); only the payee matcher reads the fragment (its payee) and may capture *)
Definition is_payee (f : rewrite_field) : bool := match f with RPayee => true | _ => false end.
Definition csv_like {P R} (matches : rewrite_field * P -> R -> frag -> option captures) : Prop :=
  forall fld p e f, is_payee fld = false ->
    (forall f', matches (fld, p) e f = matches (fld, p) e f') /\
    (forall c, matches (fld, p) e f = Some c -> c = no_captures).
