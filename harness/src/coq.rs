//! Writing cases as Coq terms, sharded; plus the per-case replay records.
use serde_json::Value;
use std::collections::{BTreeMap, HashSet};
use std::fmt::Write as _;
use std::hash::{Hash, Hasher};
use std::io::Write;
use std::path::{Path, PathBuf};

pub fn n_list<I: IntoIterator<Item = u64>>(xs: I) -> String {
    let mut s = String::from("[");
    let mut first = true;
    for x in xs {
        if !first {
            s.push(';');
        }
        first = false;
        write!(s, "{}", x).unwrap();
    }
    s.push(']');
    s
}

pub fn bytes_list(b: &[u8]) -> String {
    n_list(b.iter().map(|x| *x as u64))
}

/// Lossless run-length form of a byte string: [(count, unit)] whose expansion is the string.
/// Generic (it knows nothing of how the bytes were made): at each position the shortest period
/// <= 32 whose repetition covers at least 48 bytes (and 4 periods) becomes a run, everything else is
/// literal.  Long texts made of repeated lines stay small as Coq literals this way.
pub fn rle(b: &[u8]) -> Vec<(usize, Vec<u8>)> {
    let n = b.len();
    let mut out: Vec<(usize, Vec<u8>)> = Vec::new();
    let mut lit = 0usize;
    let mut i = 0usize;
    while i < n {
        let mut best: (usize, usize) = (0, 0);
        for p in 1..=32usize {
            if i + 2 * p > n {
                break;
            }
            if b[i + p..i + 2 * p] != b[i..i + p] {
                continue;
            }
            let mut k = 2;
            while i + (k + 1) * p <= n && b[i + k * p..i + (k + 1) * p] == b[i..i + p] {
                k += 1;
            }
            if k >= 4 && k * p >= 48 && k * p > best.0 * best.1 {
                best = (k, p);
            }
        }
        if best.0 > 0 {
            if lit < i {
                out.push((1, b[lit..i].to_vec()));
            }
            out.push((best.0, b[i..i + best.1].to_vec()));
            i += best.0 * best.1;
            lit = i;
        } else {
            i += 1;
        }
    }
    if lit < n {
        out.push((1, b[lit..n].to_vec()));
    }
    out
}

pub fn unrle(segs: &[(usize, Vec<u8>)]) -> Vec<u8> {
    let mut o = Vec::new();
    for (k, u) in segs {
        for _ in 0..*k {
            o.extend_from_slice(u);
        }
    }
    o
}

/// a byte string as a Coq `list N`: the plain list when short, `(RLE [(count, unit); ..])` when long
pub fn bytes_term(b: &[u8]) -> String {
    if b.len() <= 512 {
        return bytes_list(b);
    }
    let segs = rle(b);
    debug_assert!(unrle(&segs) == b);
    format!("(RLE {})", list(segs.iter().map(|(k, u)| format!("({}, {})", k, bytes_list(u)))))
}

pub fn z(v: i128) -> String {
    if v < 0 {
        format!("({})%Z", v)
    } else {
        format!("{}%Z", v)
    }
}

pub fn bool_(b: bool) -> &'static str {
    if b {
        "true"
    } else {
        "false"
    }
}

pub fn opt<T: AsRef<str>>(o: Option<T>) -> String {
    match o {
        Some(x) => format!("(Some {})", x.as_ref()),
        None => "None".to_string(),
    }
}

pub fn list<I: IntoIterator<Item = String>>(xs: I) -> String {
    let v: Vec<String> = xs.into_iter().collect();
    format!("[{}]", v.join("; "))
}

/// Text packed 7 bytes per Uint63 literal (little-endian), decoded by Run/Unpack.v.
pub fn packed(b: &[u8]) -> String {
    let mut words = Vec::new();
    for ch in b.chunks(7) {
        let mut w: u64 = 0;
        for (k, x) in ch.iter().enumerate() {
            w |= (*x as u64) << (8 * k);
        }
        words.push(format!("{}%uint63", w));
    }
    format!("(mk_packed {} [{}])", b.len(), words.join(";"))
}

pub struct Stats {
    pub evaluations: u64,
    pub nontrivial_hashes: HashSet<u64>,
    pub dist: BTreeMap<String, u64>,
    pub samples: Vec<Value>,
    pub assumptions: Vec<String>,
    pub rule: String,
}

impl Stats {
    pub fn new() -> Self {
        Stats {
            evaluations: 0,
            nontrivial_hashes: HashSet::new(),
            dist: BTreeMap::new(),
            samples: Vec::new(),
            assumptions: Vec::new(),
            rule: String::new(),
        }
    }
    pub fn count(&mut self, key: &str) {
        *self.dist.entry(key.to_string()).or_insert(0) += 1;
    }
    pub fn add(&mut self, key: &str, n: u64) {
        *self.dist.entry(key.to_string()).or_insert(0) += n;
    }
    /// record one evaluated case; `canon` identifies it for distinctness
    pub fn eval<H: Hash>(&mut self, canon: &H, nontrivial: bool) {
        self.evaluations += 1;
        if nontrivial {
            let mut h = std::collections::hash_map::DefaultHasher::new();
            canon.hash(&mut h);
            self.nontrivial_hashes.insert(h.finish());
        }
    }
    pub fn sample(&mut self, v: Value, max: usize) {
        if self.samples.len() < max {
            self.samples.push(v);
        }
    }
}

/// One shard = one cases_k.v (a list of Coq `case` terms) + cases_k.jsonl (one replay
/// record per *verdict* the classifier will emit, in order).
pub struct Shards {
    dir: PathBuf,
    header: String,
    terms: Vec<Vec<String>>,
    replays: Vec<Vec<Value>>,
    next: usize,
    groups: Vec<Group>,
}

/// shards of their own (numbered after the regular ones) whose case files start with another
/// header: cases of another classifier's `case` type wrapped by a module of this property
struct Group {
    header: String,
    terms: Vec<Vec<String>>,
    replays: Vec<Vec<Value>>,
    next: usize,
}

fn write_shard(dir: &Path, k: usize, header: &str, terms: &[String], replays: &[Value]) {
    let p = dir.join(format!("cases_{}.v", k));
    let mut f = std::io::BufWriter::new(std::fs::File::create(p).unwrap());
    writeln!(f, "{}", header).unwrap();
    writeln!(f, "Set Printing Depth 100000000.\nSet Printing Width 1000000.").unwrap();
    writeln!(f, "Definition cases : list case := [").unwrap();
    for (i, t) in terms.iter().enumerate() {
        writeln!(f, " {}{}", t, if i + 1 < terms.len() { ";" } else { "" }).unwrap();
    }
    writeln!(f, "].").unwrap();
    writeln!(f, "Eval vm_compute in verdicts cases.").unwrap();
    let p = dir.join(format!("cases_{}.jsonl", k));
    let mut f = std::io::BufWriter::new(std::fs::File::create(p).unwrap());
    for r in replays {
        writeln!(f, "{}", r).unwrap();
    }
}

impl Shards {
    /// `n` further shards with their own header; returns the group's handle
    pub fn add_group(&mut self, header: &str, n: usize) -> usize {
        self.groups.push(Group { header: header.to_string(), terms: vec![Vec::new(); n], replays: vec![Vec::new(); n], next: 0 });
        self.groups.len() - 1
    }
    pub fn push_group(&mut self, g: usize, term: String, replays: Vec<Value>) {
        let gr = &mut self.groups[g];
        let k = gr.next;
        gr.next = (gr.next + 1) % gr.terms.len();
        gr.terms[k].push(term);
        gr.replays[k].extend(replays);
    }
    pub fn new(dir: &Path, n: usize, header: &str) -> Self {
        std::fs::create_dir_all(dir).unwrap();
        Shards {
            dir: dir.to_path_buf(),
            header: header.to_string(),
            terms: vec![Vec::new(); n],
            replays: vec![Vec::new(); n],
            next: 0,
            groups: Vec::new(),
        }
    }
    /// add a case to the least recently used shard; `replays` has one record per verdict
    pub fn push(&mut self, term: String, replays: Vec<Value>) {
        let k = self.next;
        self.next = (self.next + 1) % self.terms.len();
        self.terms[k].push(term);
        self.replays[k].extend(replays);
    }
    pub fn push_to(&mut self, k: usize, term: String, replays: Vec<Value>) {
        self.terms[k].push(term);
        self.replays[k].extend(replays);
    }
    pub fn finish(self, stats: &Stats) {
        for (k, terms) in self.terms.iter().enumerate() {
            if terms.is_empty() {
                continue;
            }
            write_shard(&self.dir, k, &self.header, terms, &self.replays[k]);
        }
        let mut k = self.terms.len();
        for g in &self.groups {
            for (j, terms) in g.terms.iter().enumerate() {
                if !terms.is_empty() {
                    write_shard(&self.dir, k, &g.header, terms, &g.replays[j]);
                }
                k += 1;
            }
        }
        let meta = serde_json::json!({
            "evaluations": stats.evaluations,
            "distinct_nontrivial": stats.nontrivial_hashes.len(),
            "distribution": stats.dist,
            "samples": stats.samples,
            "assumptions": stats.assumptions,
            "rule": stats.rule,
        });
        std::fs::write(self.dir.join("meta.json"), serde_json::to_string_pretty(&meta).unwrap()).unwrap();
    }
}
