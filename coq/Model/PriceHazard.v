(* The divisions of report::price_db with their hazard as a value.  Model/PriceDb.v divides
   exact rationals, where x / 0 is a number; rust_decimal's `/` panics ("Division by zero")
   on a zero divisor.  The only division of price_db.rs is `price_with.value / price_of.value`
   in insert_impl; here insert_impl, insert_price, load_price_db and the repository built by
   report::process are repeated with that division checked: None = the panic.  (The divisions
   of book_keeping.rs are check_balance's, whose hazard is `Panic` in Model/Book.v, and the
   evaluator's, which are guarded by EvalError::DivideByZero in Model/Amount.v.)
   Definitions only. *)
From Coq Require Import List NArith ZArith Bool QArith Qcanon.
From Okv Require Import Base.Maps Base.Dec Model.Amount Model.Book Model.PriceDb.
Import ListNotations.
Open Scope Qc_scope.

(* Decimal::div *)
Definition div_chk (a b : Qc) : option Qc := if qc_zero b then None else Some (a / b).

Definition insert_impl_chk (recs : records) (src : source) (date : Z) (oc : cid) (ov : Qc) (wc : cid) (wv : Qc)
  : option records :=
  match div_chk wv ov with
  | None => None
  | Some _ => Some (insert_impl recs src date oc ov wc wv)
  end.

Definition insert_price_chk (recs : records) (e : price_event) : option records :=
  if qc_zero (e_xv e) || qc_zero (e_yv e) then Some recs else
  match insert_impl_chk recs (e_source e) (e_date e) (e_xc e) (e_xv e) (e_yc e) (e_yv e) with
  | None => None
  | Some r1 => insert_impl_chk r1 (e_source e) (e_date e) (e_yc e) (e_yv e) (e_xc e) (e_xv e)
  end.

Fixpoint insert_prices_chk (recs : records) (evs : list price_event) : option records :=
  match evs with
  | [] => Some recs
  | e :: r => match insert_price_chk recs e with
              | None => None
              | Some recs' => insert_prices_chk recs' r
              end
  end.

Definition load_price_db_chk (recs : records) (ls : list pline) : option records :=
  insert_prices_chk recs (map pline_event ls).

Definition repository_chk (evs : list price_event) (db : list pline) : option records :=
  match insert_prices_chk [] evs with
  | None => None
  | Some r => option_map build (load_price_db_chk r db)
  end.
