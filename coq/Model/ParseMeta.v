(* Model of core/src/parse/metadata.rs (block_metadata as repaired by the F3 "fix:" commit:
   the end of input is a line end).  Definitions only. *)
From Coq Require Import List NArith ZArith Bool.
From Okv Require Import Model.Lit Model.Syntax Model.Comb Model.ParseExpr.
Import ListNotations.
Open Scope N_scope.

(* StrContext::Label ids *)
Definition L_txn_date : N := 1.        (* "transaction date" *)
Definition L_account : N := 2.         (* "account of the posting" *)
Definition L_amount : N := 3.          (* "amount of the posting" *)
Definition L_balance : N := 4.         (* "balance of the posting" *)
Definition L_post_meta : N := 5.       (* "metadata section of the posting" *)
Definition L_posting : N := 6.         (* "posting of the transaction" *)
Definition L_no_syntax : N := 7.       (* "no matching syntax" *)
Definition L_lot_price_dup : N := 8.
Definition L_lot_date_dup : N := 9.
Definition L_lot_note_dup : N := 10.

Definition clear_state : parser clear_state :=
  pmap (fun o => match o with Some x => x | None => Uncleared end)
       (opt (terminated (alt (chr 42 ;;; ret Cleared) (chr 33 ;;; ret Pending)) space0)).

Definition tag_key : parser (list N) :=
  take_till1 (fun c => is_ascii_whitespace c || (c =? 58)).

Definition metadata_value : parser s_meta_value :=
  alt (pmap (fun x => MExpr (trim x)) (preceded (literal [58; 58]) till_line_ending))
      (pmap (fun x => MText (trim x)) (preceded (chr 58) till_line_ending)).

Definition metadata_kv : parser s_metadata :=
  k <- terminated tag_key space0 ;; v <- metadata_value ;; ret (MKeyValue k v).

Definition metadata_tags (fuel : nat) : parser s_metadata :=
  pmap MWordTags (delimited (chr 58) (many1 fuel (terminated tag_key (chr 58))) space0).

Definition line_metadata (fuel : nat) : parser s_metadata :=
  delimited (chr 59 ;;; space0)
            (alt (metadata_tags fuel)
                 (alt metadata_kv
                      (pmap (fun s => MComment (trim_end s)) till_line_ending)))
            line_ending_or_eof.

(* dispatch on the next character, if any: `;` starts metadata on the same line *)
Definition block_metadata (fuel : nat) : parser (list s_metadata) :=
  fun i => if match i with c :: _ => c =? 59 | [] => false end
           then separated1 fuel (line_metadata fuel) space1 i
           else preceded line_ending_or_eof (many0 fuel (preceded space1 (line_metadata fuel))) i.
