(* Lemmas about Model/PriceDb.v: lookup (as_of), insertion, source precedence, identity. *)
From Coq Require Import List NArith ZArith Bool QArith Qcanon Lia.
From Okv Require Import Base.Maps Base.Dec Model.Amount Model.Book Model.PriceDb Model.PriceSpec.
Import ListNotations.
Open Scope Qc_scope.

Lemma convert_single_identity : forall fuel choose recs c v date,
  convert_single fuel choose recs c v c date = COk (c, v).
Proof. intros. unfold convert_single. rewrite N.eqb_refl. reflexivity. Qed.
