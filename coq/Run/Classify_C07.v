(* Correspondence classifier for C07.  Evaluated with vm_compute on cases written by the
   harness; returns one verdict code per evaluated string:
   0 Agree | 1 ModelMismatch (spec holds of what the implementation did, model differs)
   2 PropertyFail (spec predicate false of what the implementation did). *)
From Coq Require Import List NArith ZArith Bool QArith.
From Okv Require Import Model.Lit Model.LitSpec.
Import ListNotations.
Open Scope N_scope.

(* what the implementation did on one string *)
Inductive obs :=
| OOk (ng : bool) (m : N) (sc : N) (f : N) (shown : list N)   (* f: 0 None, 1 Plain, 2 Comma3Dot *)
| OErr (kind : N) (pos : N)   (* 1 UnexpectedChar 2 CommaRequired 3 IncompleteGroup 4 NoDigit 5 InvalidDecimal 9 other *)
| OPanic.

Definition fmt_code (f : option fmt) : N :=
  match f with None => 0 | Some Plain => 1 | Some Comma3Dot => 2 end.

Definition list_eqb (a b : list N) : bool :=
  (length a =? length b)%nat && forallb (fun p => fst p =? snd p) (combine a b).

Definition pdec_matches (d : pdec) (ng : bool) (m sc f : N) : bool :=
  Bool.eqb (neg d) ng && (mant d =? m) && (N.of_nat (scale d) =? sc) && (fmt_code (pfmt d) =? f).

Definition model_obs (input : list N) : obs :=
  match scan input with
  | SOk d => OOk (neg d) (mant d) (N.of_nat (scale d)) (fmt_code (pfmt d)) (show d)
  | SErr (UnexpectedChar i) => OErr 1 i
  | SErr (CommaRequired i) => OErr 2 i
  | SErr (IncompleteGroup i) => OErr 3 i
  | SErr NoDigit => OErr 4 0
  | SErr InvalidDecimal => OErr 5 0
  end.

Definition obs_eqb (a b : obs) : bool :=
  match a, b with
  | OOk n1 m1 s1 f1 t1, OOk n2 m2 s2 f2 t2 =>
      Bool.eqb n1 n2 && (m1 =? m2) && (s1 =? s2) && (f1 =? f2) && list_eqb t1 t2
  | OErr k1 p1, OErr k2 p2 => (k1 =? k2) && (p1 =? p2)
  | OPanic, OPanic => true
  | _, _ => false
  end.

(* is the integer part at least 1000, i.e. are there thousands to group? *)
Definition big (d : pdec) : bool :=
  (pow10_N (3 + scale d) <=? mant d).

(* The property, evaluated on what the implementation did. *)
Definition spec_holds (input : list N) (o : obs) : bool :=
  match o with
  | OPanic => false
  | OErr _ _ =>
      match spec_scan input with
      | Some t => negb (fits t)        (* well-formed: may be rejected only when unrepresentable *)
      | None => true
      end
  | OOk ng m sc f shown =>
      match spec_scan input with
      | None => false                  (* accepted something that is not a well-formed literal *)
      | Some t =>
          fits t && pdec_matches (pdec_of t) ng m sc f &&
          (* printed form: a well-formed literal with the same value, places, and style if big *)
          match spec_scan shown with
          | None => false
          | Some t' =>
              let d := pdec_of t in let d' := pdec_of t' in
              Bool.eqb (neg d) (neg d') && (mant d =? mant d') && (scale d =? scale d')%nat &&
              (negb (big d) || (fmt_code (pfmt d) =? fmt_code (pfmt d')))
          end
      end
  end.

Definition classify1 (input : list N) (o : obs) : N :=
  if negb (spec_holds input o) then 2
  else if obs_eqb o (model_obs input) then 0 else 1.

(* all strings of exactly length n over alpha, first symbol most significant *)
Fixpoint strings (alpha : list N) (n : nat) : list (list N) :=
  match n with
  | O => [[]]
  | S k => flat_map (fun c => map (cons c) (strings alpha k)) alpha
  end.

(* the literal read by the real parser in a syntactic position: errors are parse errors there,
   so only acceptance and the accepted value are compared *)
Definition classify_ctx (input : list N) (o : obs) : N :=
  if negb (spec_holds input o) then 2
  else match o, model_obs input with
       | OErr _ _, OErr _ _ => 0
       | _, m => if obs_eqb o m then 0 else 1
       end.

(* ---- literals printed back in every syntactic position ----
   The harness writes a ledger text whose numbers stand in the positions where the parser reads
   a literal and the printer writes it back (posting amount, operands of a value expression,
   lot price, cost, balance assertion / assignment, `format` line of a commodity directive) and
   hands over that text together with what `okane format`, `okane primitive format` and
   `okane primitive flatten` printed for it.  The literals are found in both texts by the same
   tokenizer; nothing else in the generated texts contains a digit except dates (which have `/`). *)

(* what one print command did *)
Inductive pobs :=
| PText (t : list N)
| PErr
| PPanic.

(* separators: white space ( ) { } [ ] = @ ; and, inside parentheses, the operator `-`
   (there a leading `-` is the unary operator, not part of the literal: parse/expr.rs unary_expr) *)
Definition is_sep (depth : nat) (c : N) : bool :=
  (c =? 32) || (c =? 10) || (c =? 13) || (c =? 9) || (c =? 40) || (c =? 41) || (c =? 123) || (c =? 125) ||
  (c =? 91) || (c =? 93) || (c =? 61) || (c =? 64) || (c =? 59) ||
  (match depth with O => false | _ => c =? 45 end).

Definition flush (cur : list N) (acc : list (list N)) : list (list N) :=
  match cur with [] => acc | _ => rev cur :: acc end.

(* maximal runs of non-separators, in order *)
Fixpoint tokens_aux (l : list N) (depth : nat) (cur : list N) (acc : list (list N)) : list (list N) :=
  match l with
  | [] => rev (flush cur acc)
  | c :: r =>
      let depth' := if c =? 40 then S depth else if c =? 41 then pred depth else depth in
      if is_sep depth c then tokens_aux r depth' [] (flush cur acc)
      else tokens_aux r depth' (c :: cur) acc
  end.
Definition tokens (l : list N) : list (list N) := tokens_aux l 0 [] [].

Definition lit_char (c : N) : bool := is_digit c || (c =? 44) || (c =? 46) || (c =? 45).
(* a token that can only be meant as a number: made of 0-9 , . - with at least one digit *)
Definition numeric (t : list N) : bool := forallb lit_char t && existsb is_digit t.
Definition literals (text : list N) : list (list N) := filter numeric (tokens text).

(* the property on one literal and its printed form: the printed form is a well-formed literal
   with the same sign, value and number of places, and the same grouping style when there are
   thousands to group *)
Definition printed_ok (src shown : list N) : bool :=
  match spec_scan src, spec_scan shown with
  | Some t, Some t' =>
      let d := pdec_of t in let d' := pdec_of t' in
      fits t && Bool.eqb (neg d) (neg d') && (mant d =? mant d') && (scale d =? scale d')%nat &&
      (negb (big d) || (fmt_code (pfmt d) =? fmt_code (pfmt d')))
  | _, _ => false
  end.

Definition lit_accepted (src : list N) : bool :=
  match spec_scan src with Some t => fits t | None => false end.

Fixpoint all2 {A} (f : A -> A -> bool) (a b : list A) : bool :=
  match a, b with
  | [], [] => true
  | x :: a', y :: b' => f x y && all2 f a' b'
  | _, _ => false
  end.

Definition model_show (src : list N) : list N :=
  match scan src with SOk d => show d | SErr _ => [] end.

Definition classify_printed (src : list N) (o : pobs) : N :=
  let ls := literals src in
  match o with
  | PPanic => 2
  | PErr =>
      (* every text the generator writes is grammatical apart from its literals: a text all of
         whose literals are well-formed and representable must be printed *)
      if forallb lit_accepted ls then 2
      else if forallb (fun s => match scan s with SOk _ => true | SErr _ => false end) ls then 1 else 0
  | PText t =>
      let ps := literals t in
      if negb (forallb lit_accepted ls) then 2          (* printed although a literal is not well-formed *)
      else if negb (all2 printed_ok ls ps) then 2       (* a literal lost, gained or changed in print *)
      else if all2 list_eqb (map model_show ls) ps then 0 else 1
  end.

Inductive case :=
| Printed (src : list N) (os : list pobs)   (* one verdict per print command *)
| InCtx (input : list N) (o : obs)
| Single (input : list N) (o : obs)
| Block (alpha : list N) (prefix : list N) (n : nat) (os : list obs).
  (* every string prefix ++ s, s over alpha of length n, in `strings` order *)

Definition classify (c : case) : list N :=
  match c with
  | Printed src os => map (classify_printed src) os
  | InCtx i o => [classify_ctx i o]
  | Single i o => [classify1 i o]
  | Block alpha pre n os =>
      let ss := strings alpha n in
      if (length ss =? length os)%nat
      then map (fun p => classify1 (pre ++ fst p) (snd p)) (combine ss os)
      else [9]   (* malformed block: harness error *)
  end.

Definition verdicts (cs : list case) : list N := flat_map classify cs.
