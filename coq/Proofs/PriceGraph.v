(* Walks in the price graph (Model/PriceSpec.v): distances along walks, cycle removal, and
   correctness of the brute-force optimum `best` over simple paths. *)
From Coq Require Import List NArith ZArith Bool QArith Qcanon Lia.
From Okv Require Import Base.Maps Base.Dec Model.Amount Model.Book Model.PriceDb Model.PriceSpec Proofs.PriceProofs.
Import ListNotations.
Open Scope Qc_scope.

Section GraphProofs.
  Variable out : cid -> list edge.

  Notation is_walk := (is_walk out).
  Notation spaths := (spaths out).
  Notation paths_to := (paths_to out).
  Notation best := (best out).
  Notation best_rates := (best_rates out).

  Definition ext (d : dist) (e : edge) : dist := extend d (e_src e) (e_stale e).

  (* ---- walks ---- *)
  Lemma is_walk_app : forall w1 w2 a c,
    is_walk a (w1 ++ w2) c <-> exists b, is_walk a w1 b /\ is_walk b w2 c.
  Proof.
    induction w1 as [|e r IH]; intros w2 a c; cbn.
    - split; [intros H; exists a; auto|intros (b & -> & H); exact H].
    - rewrite IH. split.
      + intros (Hin & b & H1 & H2). exists b. auto.
      + intros (b & (Hin & H1) & H2). split; [assumption|]. exists b. auto.
  Qed.

  Lemma is_walk_end_unique : forall w a b b', is_walk a w b -> is_walk a w b' -> b = b'.
  Proof.
    induction w as [|e r IH]; intros a b b'; cbn.
    - congruence.
    - intros [_ H1] [_ H2]. eapply IH; eassumption.
  Qed.

  Lemma walk_dist_from_app : forall w1 w2 d,
    walk_dist_from d (w1 ++ w2) = walk_dist_from (walk_dist_from d w1) w2.
  Proof. intros. unfold walk_dist_from. apply fold_left_app. Qed.

  Lemma walk_dist_from_cons : forall e w d, walk_dist_from d (e :: w) = walk_dist_from (ext d e) w.
  Proof. reflexivity. Qed.

  Lemma walk_dist_snoc : forall w e, walk_dist (w ++ [e]) = ext (walk_dist w) e.
  Proof. intros. unfold walk_dist. rewrite walk_dist_from_app. reflexivity. Qed.

  Lemma walk_rate_snoc : forall w e, walk_rate (w ++ [e]) = walk_rate w * e_rate e.
  Proof. intros. unfold walk_rate. rewrite fold_left_app. reflexivity. Qed.

  Lemma walk_dist_from_mono : forall w d1 d2, leP d1 d2 -> leP (walk_dist_from d1 w) (walk_dist_from d2 w).
  Proof.
    induction w as [|e r IH]; intros d1 d2 H; cbn; [assumption|].
    apply IH. apply extend_mono. assumption.
  Qed.

  Fixpoint ledger_hops (w : list edge) : nat :=
    match w with
    | [] => O
    | e :: r => (match e_src e with SLedger => 1 | SPriceDB => 0 end + ledger_hops r)%nat
    end.

  Lemma walk_dist_from_counts : forall w d,
    d_ledger (walk_dist_from d w) = (d_ledger d + ledger_hops w)%nat /\
    d_all (walk_dist_from d w) = (d_all d + length w)%nat /\
    (d_stale d <= d_stale (walk_dist_from d w))%Z.
  Proof.
    induction w as [|e r IH]; intros d; cbn [walk_dist_from fold_left ledger_hops length].
    - repeat split; lia.
    - fold (walk_dist_from (extend d (e_src e) (e_stale e)) r).
      destruct (IH (extend d (e_src e) (e_stale e))) as (H1 & H2 & H3).
      rewrite H1, H2. unfold extend in *. cbn [d_ledger d_all d_stale] in *.
      repeat split; try lia.
  Qed.

  Lemma walk_dist_from_infl : forall w d, leP d (walk_dist_from d w).
  Proof.
    intros w d. destruct (walk_dist_from_counts w d) as (H1 & H2 & H3).
    unfold leP. destruct w as [|e r]; cbn [length ledger_hops] in *; lia.
  Qed.

  (* dropping a non-empty prefix strictly lowers the distance *)
  Lemma drop_prefix_lt : forall p w d, p <> [] -> ltP (walk_dist_from d w) (walk_dist_from d (p ++ w)).
  Proof.
    intros p w d Hp. rewrite walk_dist_from_app.
    destruct (walk_dist_from_counts p d) as (P1 & P2 & P3).
    destruct (walk_dist_from_counts w d) as (A1 & A2 & A3).
    destruct (walk_dist_from_counts w (walk_dist_from d p)) as (B1 & B2 & B3).
    unfold ltP. rewrite A1, A2, B1, B2, P1, P2.
    destruct p as [|e r]; [contradiction Hp; reflexivity|]. cbn [length]. lia.
  Qed.

  Lemma walk_dist_ge0 : forall w, leP dist0 (walk_dist w).
  Proof. intros. apply walk_dist_from_infl. Qed.
  Lemma walk_dist_nonempty : forall w, w <> [] -> ltP dist0 (walk_dist w).
  Proof.
    intros w H. unfold walk_dist. rewrite <- (app_nil_r w).
    apply (drop_prefix_lt w [] dist0 H).
  Qed.

  (* ---- cycle removal ---- *)
  Lemma simple_tail : forall a e r, simple a (e :: r) -> simple (e_to e) r.
  Proof. intros a e r H. unfold simple, walk_nodes in *. cbn in H. inversion H; assumption. Qed.

  (* inside a simple walk from c, a walk from any visited node a to the end is a simple suffix *)
  Lemma suffix_from_node : forall r c b a,
    is_walk c r b -> simple c r -> In a (walk_nodes c r) ->
    exists pre suf, r = pre ++ suf /\ is_walk a suf b /\ simple a suf /\ (a = c \/ pre <> []).
  Proof.
    induction r as [|e2 r2 IH]; intros c b a Hw Hs Hin.
    - cbn in Hin. destruct Hin as [<-|[]]. exists [], []. split; [reflexivity|]. split; [exact Hw|]. split; [exact Hs|left; reflexivity].
    - cbn [walk_nodes map] in Hin. destruct (N.eq_dec c a) as [->|Hne].
      + exists [], (e2 :: r2). split; [reflexivity|]. split; [exact Hw|]. split; [exact Hs|left; reflexivity].
      + destruct Hin as [E|Hin]; [contradiction|].
        destruct Hw as [Ho Hw]. pose proof (simple_tail _ _ _ Hs) as Hs2.
        destruct (IH (e_to e2) b a Hw Hs2 Hin) as (pre & suf & -> & H1 & H2 & _).
        exists (e2 :: pre), suf. split; [reflexivity|]. split; [exact H1|]. split; [exact H2|right; discriminate].
  Qed.

  Lemma cycle_removal : forall w a b,
    is_walk a w b ->
    exists w', is_walk a w' b /\ simple a w' /\
               (w' = w \/ forall d, ltP (walk_dist_from d w') (walk_dist_from d w)).
  Proof.
    induction w as [|e r IH]; intros a b Hw.
    - exists []. split; [assumption|]. split; [|left; reflexivity].
      unfold simple, walk_nodes. cbn. constructor; [intros []|constructor].
    - destruct Hw as [Ho Hw]. destruct (IH _ _ Hw) as (r' & Hw' & Hs' & Hcmp).
      assert (Hle : forall d, leP (walk_dist_from d r') (walk_dist_from d r)).
      { intros d. destruct Hcmp as [->|H]; [apply leP_refl|apply ltP_leP, H]. }
      destruct (in_dec N.eq_dec a (walk_nodes (e_to e) r')) as [Hin|Hnin].
      + (* a is revisited: keep only the part after that visit *)
        destruct (suffix_from_node _ _ _ _ Hw' Hs' Hin) as (pre & suf & -> & H1 & H2 & _).
        exists suf. split; [assumption|]. split; [assumption|]. right. intros d.
        eapply ltP_leP_trans.
        * apply (drop_prefix_lt (e :: pre) suf d). discriminate.
        * cbn [app]. rewrite !walk_dist_from_cons. apply Hle.
      + exists (e :: r'). split; [split; assumption|]. split.
        * unfold simple, walk_nodes in *. cbn [map]. constructor; assumption.
        * destruct Hcmp as [->|H]; [left; reflexivity|right].
          intros d. rewrite !walk_dist_from_cons. apply H.
  Qed.

  (* ---- the enumeration of simple paths ---- *)
  Lemma spaths_sound : forall n seen a b w, In (b, w) (spaths n seen a) -> is_walk a w b.
  Proof.
    induction n as [|k IH]; intros seen a b w H; cbn [PriceSpec.spaths In] in H.
    - destruct H as [E|[]]. inversion E; subst. reflexivity.
    - destruct H as [E|H]; [inversion E; subst; reflexivity|].
      apply in_flat_map in H. destruct H as (e & He & H).
      destruct (cmem (e_to e) (a :: seen)); [destruct H|].
      apply in_map_iff in H. destruct H as ([b' w'] & E & H). inversion E; subst.
      cbn. split; [assumption|]. eapply IH; eassumption.
  Qed.

  Lemma spaths_complete : forall w n seen a b,
    is_walk a w b -> (length w <= n)%nat -> simple a w ->
    (forall x, In x (map e_to w) -> ~ In x seen) ->
    In (b, w) (spaths n seen a).
  Proof.
    induction w as [|e r IH]; intros n seen a b Hw Hn Hs Hseen.
    - cbn in Hw. subst b. destruct n; left; reflexivity.
    - destruct n as [|k]; [cbn in Hn; lia|]. destruct Hw as [Ho Hw].
      cbn [PriceSpec.spaths]. right. apply in_flat_map. exists e. split; [assumption|].
      unfold simple, walk_nodes in Hs. cbn [map] in Hs. inversion Hs as [|? ? Hna Hnd]; subst.
      destruct (cmem (e_to e) (a :: seen)) eqn:Ec.
      + exfalso. apply cmem_iff in Ec. destruct Ec as [E|Ec].
        * apply Hna. left. symmetry. assumption.
        * apply (Hseen (e_to e)); [left; reflexivity|assumption].
      + apply in_map_iff. exists (b, r). split; [reflexivity|].
        apply IH; [assumption|cbn in Hn; lia|exact Hnd|].
        intros x Hx [E|Hin].
        * subst x. apply Hna. right. assumption.
        * apply (Hseen x); [right; assumption|assumption].
  Qed.

  (* ---- min_dist ---- *)
  Definition min_step (m : option dist) (w : list edge) : option dist :=
    match m with
    | None => Some (walk_dist w)
    | Some d => if dist_ltb (walk_dist w) d then Some (walk_dist w) else Some d
    end.

  Lemma min_fold_spec : forall ws m d,
    fold_left min_step ws m = Some d ->
    (m = Some d \/ exists w, In w ws /\ walk_dist w = d) /\
    (forall w, In w ws -> leP d (walk_dist w)) /\
    (forall d0, m = Some d0 -> leP d d0).
  Proof.
    induction ws as [|w r IH]; intros m d H; cbn [fold_left] in H.
    - split; [left; assumption|]. split; [intros ? []|]. intros d0 E. rewrite E in H. inversion H. apply leP_refl.
    - destruct (IH _ _ H) as (H1 & H2 & H3). unfold min_step in H1, H3. destruct m as [d0|].
      + destruct (dist_ltb (walk_dist w) d0) eqn:E.
        * apply dist_ltb_iff in E. split; [|split].
          -- destruct H1 as [X|(w' & Hw & X)]; [inversion X; right; exists w; split; [left; reflexivity|reflexivity]|
                                                right; exists w'; split; [right; assumption|assumption]].
          -- intros w' [<-|Hw]; [apply H3; reflexivity|apply H2; assumption].
          -- intros d1 X. inversion X; subst. eapply leP_trans; [apply H3; reflexivity|apply ltP_leP; assumption].
        * apply dist_ltb_false_iff in E. split; [|split].
          -- destruct H1 as [X|(w' & Hw & X)]; [left; assumption|right; exists w'; split; [right; assumption|assumption]].
          -- intros w' [<-|Hw]; [eapply leP_trans; [apply H3; reflexivity|assumption]|apply H2; assumption].
          -- intros d1 X. inversion X; subst. apply H3. reflexivity.
      + split; [|split].
        * destruct H1 as [X|(w' & Hw & X)]; [inversion X; right; exists w; split; [left; reflexivity|reflexivity]|
                                              right; exists w'; split; [right; assumption|assumption]].
        * intros w' [<-|Hw]; [apply H3; reflexivity|apply H2; assumption].
        * intros d1 X. discriminate.
  Qed.

  Lemma min_fold_none : forall ws m, fold_left min_step ws m = None -> m = None /\ ws = [].
  Proof.
    induction ws as [|w r IH]; intros m H; cbn [fold_left] in H; [auto|].
    destruct (IH _ H) as [X _]. unfold min_step in X. destruct m; [destruct (dist_ltb _ _)|]; discriminate.
  Qed.

  (* ---- best ---- *)
  Variable universe : list cid.
  Hypothesis out_closed : forall a e, In e (out a) -> In (e_to e) universe.

  Lemma walk_targets_in_universe : forall w a b, is_walk a w b -> incl (map e_to w) universe.
  Proof.
    induction w as [|e r IH]; intros a b H x Hx; cbn in *; [contradiction|].
    destruct H as [Ho Hw]. destruct Hx as [<-|Hx]; [eapply out_closed; eassumption|eapply IH; eassumption].
  Qed.

  Lemma simple_length : forall w a b, is_walk a w b -> simple a w -> (length w <= length universe)%nat.
  Proof.
    intros w a b Hw Hs. unfold simple, walk_nodes in Hs. inversion Hs as [|? ? _ Hnd]; subst.
    rewrite <- (map_length e_to w). apply NoDup_incl_length; [assumption|].
    eapply walk_targets_in_universe; eassumption.
  Qed.

  Lemma in_paths_to : forall n target c w,
    In w (paths_to n target c) <-> w <> [] /\ In (c, w) (spaths n [] target).
  Proof.
    intros n target c w. unfold PriceSpec.paths_to. rewrite in_omap. split.
    - intros ([b w'] & Hin & Hf). cbn [fst snd] in Hf. destruct (b =? c)%N eqn:E; [|discriminate].
      apply N.eqb_eq in E. subst b. destruct w' as [|e r]; [discriminate|]. inversion Hf; subst.
      split; [discriminate|assumption].
    - intros (Hne & Hin). exists (c, w). split; [assumption|]. cbn [fst snd]. rewrite N.eqb_refl.
      destruct w; [contradiction Hne; reflexivity|reflexivity].
  Qed.

  Lemma paths_to_complete : forall target c w,
    w <> [] -> is_walk target w c -> simple target w -> In w (paths_to (length universe) target c).
  Proof.
    intros target c w Hne Hw Hs. apply in_paths_to. split; [assumption|].
    apply spaths_complete; [assumption|eapply simple_length; eassumption|assumption|intros x _ []].
  Qed.

  (* best is the least distance over ALL walks from the target to c, attained by a walk *)
  Lemma best_some : forall target c d,
    best (length universe) target c = Some d ->
    (exists w, w <> [] /\ is_walk target w c /\ walk_dist w = d) /\
    (forall w, w <> [] -> c <> target -> is_walk target w c -> leP d (walk_dist w)).
  Proof.
    intros target c d H. unfold PriceSpec.best, min_dist in H.
    change (fun m w => _) with min_step in H.
    destruct (min_fold_spec _ _ _ H) as (H1 & H2 & _). split.
    - destruct H1 as [X|(w & Hw & E)]; [discriminate|]. apply in_paths_to in Hw. destruct Hw as [Hne Hw].
      exists w. split; [assumption|]. split; [eapply spaths_sound; eassumption|assumption].
    - intros w Hne Hct Hw. destruct (cycle_removal _ _ _ Hw) as (w' & Hw' & Hs' & Hcmp).
      assert (Hne' : w' <> []).
      { intro E. subst w'. cbn in Hw'. congruence. }
      eapply leP_trans; [apply H2; apply paths_to_complete; eassumption|].
      destruct Hcmp as [->|Hlt]; [apply leP_refl|apply ltP_leP, Hlt].
  Qed.

  Lemma best_none : forall target c,
    best (length universe) target c = None -> c <> target ->
    forall w, ~ is_walk target w c.
  Proof.
    intros target c H Hct w Hw. unfold PriceSpec.best, min_dist in H.
    change (fun m w => _) with min_step in H.
    destruct (min_fold_none _ _ H) as [_ E].
    destruct (cycle_removal _ _ _ Hw) as (w' & Hw' & Hs' & _).
    assert (Hne' : w' <> []).
    { intro X. subst w'. cbn in Hw'. congruence. }
    pose proof (paths_to_complete _ _ _ Hne' Hw' Hs') as Hin. rewrite E in Hin. exact Hin.
  Qed.

  (* an optimal walk is a simple path, so its rate is one of best_rates *)
  Lemma optimal_rate_in_best_rates : forall target c d w,
    c <> target -> best (length universe) target c = Some d ->
    is_walk target w c -> walk_dist w = d ->
    In (walk_rate w) (best_rates (length universe) target c).
  Proof.
    intros target c d w Hct Hb Hw Hd. unfold PriceSpec.best_rates. rewrite Hb.
    apply in_omap. exists w. split.
    - assert (Hne : w <> []). { intro X. subst w. cbn in Hw. congruence. }
      destruct (cycle_removal _ _ _ Hw) as (w' & Hw' & Hs' & Hcmp).
      destruct Hcmp as [->|Hlt]; [apply paths_to_complete; assumption|].
      exfalso. assert (Hne' : w' <> []). { intro X. subst w'. cbn in Hw'. congruence. }
      destruct (best_some _ _ _ Hb) as [_ Hmin].
      specialize (Hmin w' Hne' Hct Hw'). specialize (Hlt dist0).
      fold (walk_dist w') in Hlt. fold (walk_dist w) in Hlt. rewrite Hd in Hlt.
      exact (leP_not_ltP _ _ Hmin Hlt).
    - rewrite Hd. rewrite (proj2 (dist_cmp_eq d d) eq_refl). reflexivity.
  Qed.

  Lemma best_rates_sound : forall target c r,
    In r (best_rates (length universe) target c) ->
    exists d w, best (length universe) target c = Some d /\ is_walk target w c /\
                walk_dist w = d /\ walk_rate w = r.
  Proof.
    intros target c r H. unfold PriceSpec.best_rates in H.
    destruct (best (length universe) target c) as [d|] eqn:Hb; [|destruct H].
    apply in_omap in H. destruct H as (w & Hw & Hf).
    destruct (dist_cmp (walk_dist w) d) eqn:E; try discriminate.
    apply dist_cmp_eq in E. inversion Hf; subst.
    apply in_paths_to in Hw. destruct Hw as [_ Hw].
    exists (walk_dist w), w. repeat split; try reflexivity. eapply spaths_sound; eassumption.
  Qed.
End GraphProofs.
