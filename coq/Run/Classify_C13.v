(* C13 classifier.  A case = one ledger, and for each command the number of DISTINCT
   (exit status, stdout, stderr) triples seen over N fresh processes plus the parsed content of
   the first run, in printing order.  0 Agree | 1 ModelMismatch | 2 PropertyFail. *)
From Coq Require Import List NArith ZArith Bool QArith Qcanon.
From Okv Require Import Base.Maps Base.Dec Model.Amount Model.Book Model.Query Model.Render Run.LedgerCase.
Import ListNotations.

Definition seq := list (cid * Qc).

Inductive out_obs :=
| OBalance (lines : list (aid * seq))
| ORegister (lines : list (aid * seq * seq))
| OUnbalanced (residual : seq)
| OOpaque.                         (* compared across runs only *)

Record run_obs := { r_distinct : N; r_ok : bool; r_out : out_obs }.
Definition R (d : N) (ok : bool) (o : out_obs) : run_obs := {| r_distinct := d; r_ok := ok; r_out := o |}.

Record case := { c_entries : list entry; c_runs : list run_obs }.
Definition C (es : list entry) (rs : list run_obs) : case := {| c_entries := es; c_runs := rs |}.

Fixpoint seq_eqb (a b : seq) : bool :=
  match a, b with
  | [], [] => true
  | (c1, v1) :: r1, (c2, v2) :: r2 => (c1 =? c2)%N && qc_eqb v1 v2 && seq_eqb r1 r2
  | _, _ => false
  end.

Definition agrees (m : outcome bstate * nat) (r : run_obs) : bool :=
  match r_out r, m with
  | OOpaque, _ => true
  | OBalance ls, (Ok s, _) =>
      r_ok r && list_eqb (fun x y => (fst x =? fst y)%N && seq_eqb (snd x) (snd y)) ls
                         (render_balance (balance_report s None None))
  | ORegister ls, (Ok s, _) =>
      r_ok r && list_eqb (fun x y => (fst (fst x) =? fst (fst y))%N && seq_eqb (snd (fst x)) (snd (fst y)) && seq_eqb (snd x) (snd y))
                         ls (render_register (all_postings s))
  | OUnbalanced sq, (Err e, _) =>
      negb (r_ok r) && match render_unbalanced e with Some sq' => seq_eqb sq sq' | None => false end
  | _, _ => false
  end.

Definition classify (c : case) : N :=
  if negb (forallb (fun r => (r_distinct r =? 1)%N) (c_runs c)) then 2%N
  else let m := process (c_entries c) in
       if forallb (agrees m) (c_runs c) then 0%N else 1%N.

Definition verdicts (cs : list case) : list N := map classify cs.
