(* C07 — numeric literals mean exactly what is written.  Theorems only. *)
From Coq Require Import List NArith ZArith Bool.
From Okv Require Import Model.Lit Model.LitSpec.
Import ListNotations.
Open Scope N_scope.

(* placeholder until Proofs/LitProofs.v lands: the empty literal is rejected *)
Theorem C07_empty_rejected : scan [] = SErr NoDigit.
Proof. reflexivity. Qed.
Print Assumptions C07_empty_rejected.
