(* Model of cli/src/import/single_entry.rs (Txn, its builder methods, to_double_entry) and of
   the part of okane_core::syntax a converted transaction is made of.  Written from the source,
   method by method.  Text is a list of Unicode scalar values; decimals are rust_decimal's
   sign-magnitude triples (Model/Lit.v pdec with no print style: PrettyDecimal::unformatted),
   so that a negative zero (`-0.00 CHF` in the Camt golden file) is a value like any other.
   Definitions only. *)
From Coq Require Import List NArith ZArith Bool.
From Okv Require Import Model.Lit.
Import ListNotations.
Open Scope N_scope.

Definition str := list N.

Fixpoint str_eqb (a b : str) : bool :=
  match a, b with
  | [], [] => true
  | x :: r, y :: s => (x =? y) && str_eqb r s
  | _, _ => false
  end.

(* chrono::NaiveDate as (year, month, day) *)
Record date := { d_y : N; d_m : N; d_d : N }.
Definition date_eqb (a b : date) : bool :=
  (d_y a =? d_y b) && (d_m a =? d_m b) && (d_d a =? d_d b).

(* ---- rust_decimal::Decimal operations used by the importers ---- *)
Definition mkd (ng : bool) (m : N) (s : nat) : pdec := {| neg := ng; mant := m; scale := s; pfmt := None |}.
Definition d_zero : pdec := mkd false 0 0.                      (* Decimal::ZERO *)
(* `-x`: flips the sign bit, also of a zero *)
Definition d_neg (x : pdec) : pdec := {| neg := negb (neg x); mant := mant x; scale := scale x; pfmt := pfmt x |}.
Definition d_is_zero (x : pdec) : bool := mant x =? 0.
Definition d_sign_positive (x : pdec) : bool := negb (neg x).
(* set_sign_positive(p) *)
Definition d_set_sign_positive (x : pdec) (p : bool) : pdec :=
  {| neg := negb p; mant := mant x; scale := scale x; pfmt := pfmt x |}.
Fixpoint pow10n (n : nat) : N := match n with O => 1 | S k => 10 * pow10n k end.
(* `==` on Decimal is numeric: 1.0 == 1.00, -0 == 0 *)
Definition d_eqb (a b : pdec) : bool :=
  let s := Nat.max (scale a) (scale b) in
  let ma := mant a * pow10n (s - scale a) in
  let mb := mant b * pow10n (s - scale b) in
  (ma =? mb) && ((ma =? 0) || Bool.eqb (neg a) (neg b)).
(* `a + b` (ops::add): a zero operand returns the other operand unchanged; otherwise the scales are
   aligned to the larger one, and when the magnitudes cancel the result keeps the sign of `a`.
   Overflow of the 96-bit mantissa is outside the model (generator range, asserted by the harness). *)
Definition d_add (a b : pdec) : pdec :=
  if mant a =? 0 then b
  else if mant b =? 0 then a
  else
    let s := Nat.max (scale a) (scale b) in
    let ma := mant a * pow10n (s - scale a) in
    let mb := mant b * pow10n (s - scale b) in
    if Bool.eqb (neg a) (neg b) then mkd (neg a) (ma + mb) s
    else if ma <? mb then mkd (neg b) (mb - ma) s
    else mkd (neg a) (ma - mb) s.

(* ---- import::amount::OwnedAmount ---- *)
Record oamount := { oa_value : pdec; oa_comm : str }.
Definition oa_neg (a : oamount) : oamount := {| oa_value := d_neg (oa_value a); oa_comm := oa_comm a |}.

(* ---- syntax tree of a transaction, as far as importers build it and the reader returns it ---- *)
Inductive clear := Uncleared | Cleared | Pending.
Record samount := { sa_value : pdec; sa_comm : str }.            (* expr::Amount under ValueExpr::Amount *)
Inductive metadata :=
| MComment (s : str)
| MKeyValue (key : str) (text : str)                             (* KeyValueTag with MetadataValue::Text *)
| MKeyExpr (key : str) (text : str)                              (* KeyValueTag with MetadataValue::Expr *)
| MWordTags (tags : list str).
Record pamount := { pa_amount : samount; pa_cost : option samount (* Exchange::Rate *) }.
Record sposting := { sp_account : str; sp_clear : clear; sp_amount : option pamount;
                     sp_balance : option samount; sp_meta : list metadata }.
Record stxn := { tr_date : date; tr_edate : option date; tr_clear : clear; tr_code : option str;
                 tr_payee : str; tr_meta : list metadata; tr_posts : list sposting }.

(* ---- single_entry::Txn ---- *)
Record charge := { ch_payee : str; ch_amount : oamount }.
Record txn := {
  x_date : date; x_edate : option date; x_code : option str; x_payee : str;
  x_comments : list str; x_dest : option str; x_clear : option clear;
  x_transferred : option oamount; x_amount : oamount;
  x_rates : list (str * oamount);          (* HashMap<String, OwnedAmount>: target commodity -> rate *)
  x_balance : option oamount; x_charges : list charge }.

Definition txn_new (d : date) (payee : str) (a : oamount) : txn :=
  {| x_date := d; x_edate := None; x_code := None; x_payee := payee; x_comments := [];
     x_dest := None; x_clear := None; x_transferred := None; x_amount := a; x_rates := [];
     x_balance := None; x_charges := [] |}.

(* effective_date: only when it differs from the date *)
Definition set_effective_date (t : txn) (e : date) : txn :=
  if date_eqb (x_date t) e then t else
  {| x_date := x_date t; x_edate := Some e; x_code := x_code t; x_payee := x_payee t;
     x_comments := x_comments t; x_dest := x_dest t; x_clear := x_clear t;
     x_transferred := x_transferred t; x_amount := x_amount t; x_rates := x_rates t;
     x_balance := x_balance t; x_charges := x_charges t |}.
Definition set_code (t : txn) (c : option str) : txn :=
  {| x_date := x_date t; x_edate := x_edate t; x_code := c; x_payee := x_payee t;
     x_comments := x_comments t; x_dest := x_dest t; x_clear := x_clear t;
     x_transferred := x_transferred t; x_amount := x_amount t; x_rates := x_rates t;
     x_balance := x_balance t; x_charges := x_charges t |}.
Definition add_comment (t : txn) (c : str) : txn :=
  {| x_date := x_date t; x_edate := x_edate t; x_code := x_code t; x_payee := x_payee t;
     x_comments := x_comments t ++ [c]; x_dest := x_dest t; x_clear := x_clear t;
     x_transferred := x_transferred t; x_amount := x_amount t; x_rates := x_rates t;
     x_balance := x_balance t; x_charges := x_charges t |}.
Definition set_dest (t : txn) (a : option str) : txn :=
  {| x_date := x_date t; x_edate := x_edate t; x_code := x_code t; x_payee := x_payee t;
     x_comments := x_comments t; x_dest := a; x_clear := x_clear t;
     x_transferred := x_transferred t; x_amount := x_amount t; x_rates := x_rates t;
     x_balance := x_balance t; x_charges := x_charges t |}.
Definition set_clear (t : txn) (c : clear) : txn :=
  {| x_date := x_date t; x_edate := x_edate t; x_code := x_code t; x_payee := x_payee t;
     x_comments := x_comments t; x_dest := x_dest t; x_clear := Some c;
     x_transferred := x_transferred t; x_amount := x_amount t; x_rates := x_rates t;
     x_balance := x_balance t; x_charges := x_charges t |}.
Definition set_transferred (t : txn) (a : oamount) : txn :=
  {| x_date := x_date t; x_edate := x_edate t; x_code := x_code t; x_payee := x_payee t;
     x_comments := x_comments t; x_dest := x_dest t; x_clear := x_clear t;
     x_transferred := Some a; x_amount := x_amount t; x_rates := x_rates t;
     x_balance := x_balance t; x_charges := x_charges t |}.
Definition set_balance (t : txn) (a : oamount) : txn :=
  {| x_date := x_date t; x_edate := x_edate t; x_code := x_code t; x_payee := x_payee t;
     x_comments := x_comments t; x_dest := x_dest t; x_clear := x_clear t;
     x_transferred := x_transferred t; x_amount := x_amount t; x_rates := x_rates t;
     x_balance := Some a; x_charges := x_charges t |}.
Definition push_charge (t : txn) (c : charge) : txn :=
  {| x_date := x_date t; x_edate := x_edate t; x_code := x_code t; x_payee := x_payee t;
     x_comments := x_comments t; x_dest := x_dest t; x_clear := x_clear t;
     x_transferred := x_transferred t; x_amount := x_amount t; x_rates := x_rates t;
     x_balance := x_balance t; x_charges := x_charges t ++ [c] |}.
Definition set_rates (t : txn) (r : list (str * oamount)) : txn :=
  {| x_date := x_date t; x_edate := x_edate t; x_code := x_code t; x_payee := x_payee t;
     x_comments := x_comments t; x_dest := x_dest t; x_clear := x_clear t;
     x_transferred := x_transferred t; x_amount := x_amount t; x_rates := r;
     x_balance := x_balance t; x_charges := x_charges t |}.

Inductive ierr :=
| ESameCommodityRate          (* "cannot handle rate with the same commodity" *)
| ETwoRates                   (* "given commodity has two distinct rates" *)
| EChargeCommodity            (* "different commodity charge not supported" *)
| ETransferredSet             (* "already set transferred_amount isn't supported" *)
| ENoOperator.                (* "config should have operator to have charge" *)

Fixpoint rates_get (k : str) (m : list (str * oamount)) : option oamount :=
  match m with
  | [] => None
  | (k', v) :: r => if str_eqb k' k then Some v else rates_get k r
  end.
Fixpoint rates_set (k : str) (v : oamount) (m : list (str * oamount)) : list (str * oamount) :=
  match m with
  | [] => [(k, v)]
  | (k', v') :: r => if str_eqb k' k then (k, v) :: r else (k', v') :: rates_set k v r
  end.

(* add_rate(CommodityPair{source, target}, rate): the map is updated before the clash is reported *)
Definition add_rate (t : txn) (source target : str) (rate : pdec) : txn + ierr :=
  if str_eqb source target then inr ESameCommodityRate else
  let v := {| oa_value := rate; oa_comm := source |} in
  match rates_get target (x_rates t) with
  | Some ex =>
      if str_eqb (oa_comm ex) source && d_eqb (oa_value ex) rate
      then inl (set_rates t (rates_set target v (x_rates t)))
      else inr ETwoRates
  | None => inl (set_rates t (rates_set target v (x_rates t)))
  end.

Definition try_add_charge_not_included (t : txn) (payee : str) (a : oamount) : txn + ierr :=
  if negb (str_eqb (oa_comm a) (oa_comm (x_amount t))) then inr EChargeCommodity else
  match x_transferred t with
  | Some _ => inr ETransferredSet
  | None =>
      let t1 := set_transferred t {| oa_value := d_add (oa_value (x_amount t)) (oa_value a); oa_comm := oa_comm a |} in
      inl (push_charge t1 {| ch_payee := payee; ch_amount := a |})
  end.
Definition add_charge (t : txn) (payee : str) (a : oamount) : txn :=
  push_charge t {| ch_payee := payee; ch_amount := a |}.

(* ---- to_double_entry ---- *)
Definition as_syntax_amount (a : oamount) : samount := {| sa_value := oa_value a; sa_comm := oa_comm a |}.
Definition rate_of (t : txn) (target : str) : option samount :=
  option_map as_syntax_amount (rates_get target (x_rates t)).
Definition to_posting_amount (t : txn) (a : oamount) : pamount :=
  {| pa_amount := as_syntax_amount a; pa_cost := rate_of t (oa_comm a) |}.
(* amount_with_sign(amount, sign): sign bit of `sign` copied onto the amount *)
Definition amount_with_sign (a : oamount) (sign : pdec) : oamount :=
  {| oa_value := d_set_sign_positive (oa_value a) (d_sign_positive sign); oa_comm := oa_comm a |}.
Definition dest_amount (t : txn) : pamount :=
  match x_transferred t with
  | Some tr => to_posting_amount t (amount_with_sign tr (d_neg (oa_value (x_amount t))))
  | None => to_posting_amount t (oa_neg (x_amount t))
  end.

(* "Expenses:Commissions", "Payee", "Income:Unknown", "Expenses:Unknown" *)
Definition s_expenses_commissions : str :=
  [69;120;112;101;110;115;101;115;58;67;111;109;109;105;115;115;105;111;110;115].
Definition s_payee_key : str := [80;97;121;101;101].
Definition s_income_unknown : str := [73;110;99;111;109;101;58;85;110;107;110;111;119;110].
Definition s_expenses_unknown : str := [69;120;112;101;110;115;101;115;58;85;110;107;110;111;119;110].

Definition charge_posting (t : txn) (c : charge) : sposting :=
  {| sp_account := s_expenses_commissions; sp_clear := Uncleared;
     sp_amount := Some (to_posting_amount t (ch_amount c)); sp_balance := None;
     sp_meta := [MKeyValue s_payee_key (ch_payee c)] |}.

Definition post_clear (t : txn) : clear :=
  match x_clear t with
  | Some c => c
  | None => match x_dest t with Some _ => Uncleared | None => Pending end
  end.

Definition src_posting (t : txn) (src : str) : sposting :=
  {| sp_account := src; sp_clear := Uncleared; sp_amount := Some (to_posting_amount t (x_amount t));
     sp_balance := option_map as_syntax_amount (x_balance t); sp_meta := [] |}.
Definition dest_posting (t : txn) (default : str) : sposting :=
  {| sp_account := match x_dest t with Some a => a | None => default end; sp_clear := post_clear t;
     sp_amount := Some (dest_amount t); sp_balance := None; sp_meta := [] |}.

(* is_sign_positive / is_sign_negative are complementary tests of the sign bit, so the source's
   third arm (Err "credit and debit both zero") cannot be reached; a zero amount goes by its
   sign bit like any other. *)
Definition to_double_entry (t : txn) (src : str) : stxn :=
  let posts :=
    if d_sign_positive (oa_value (x_amount t))
    then src_posting t src :: map (charge_posting t) (x_charges t) ++ [dest_posting t s_income_unknown]
    else dest_posting t s_expenses_unknown :: map (charge_posting t) (x_charges t) ++ [src_posting t src] in
  {| tr_date := x_date t; tr_edate := x_edate t; tr_clear := Cleared; tr_code := x_code t;
     tr_payee := x_payee t; tr_meta := map MComment (x_comments t); tr_posts := posts |}.
