#!/bin/sh
# usage: lib/merge_branch.sh <branch> — merge a slice branch, resolving the registry files by union
b="$1"
cd /verif
git merge "$b" -m "merge $b" >/tmp/merge.log 2>&1 || true
for f in $(git diff --name-only --diff-filter=U); do
  case "$f" in
    harness/src/main.rs) python3 lib/merge_union.py "$f" ;;
    known_findings.json) python3 lib/merge_known.py ;;
    MANIFEST.json) git checkout --ours MANIFEST.json ;;
    evidence/*) git checkout --theirs "$f" ;;
    harness/Cargo.toml) python3 lib/merge_union.py "$f" ;;
    *) echo "UNRESOLVED $f" ;;
  esac
done
python3 lib/gen_manifest.py
git diff --name-only --diff-filter=U
