(* Model of the part of the `glob` crate (0.3.2) that okane's loader uses: Pattern::new and
   Pattern::matches_with for literal characters, `?`, `*` and character classes `[...]` /
   `[!...]`, under
   MatchOptions { case_sensitive: true, require_literal_separator: true,
                  require_literal_leading_dot: true }   (core/src/load.rs glob_match_options).
   `**` (two or more stars in a row: the recursive wildcard, or a PatternError) is outside the
   model: parse_pattern answers Recursive for it.
   Strings are lists of Unicode scalar values (Pattern works on chars).  Definitions only. *)
From Coq Require Import List NArith Bool.
Import ListNotations.
Open Scope N_scope.

Definition str := list N.

Definition SLASH : N := 47.   (* path::is_separator on unix *)
Definition DOT : N := 46.
Definition STAR : N := 42.
Definition QUESTION : N := 63.
Definition LBRACKET : N := 91.
Definition RBRACKET : N := 93.
Definition BANG : N := 33.
Definition DASH : N := 45.

Definition is_sep (c : N) : bool := c =? SLASH.

(* enum CharSpecifier *)
Inductive cspec := SingleChar (c : N) | CharRange (lo hi : N).

Inductive token :=
| Char (c : N) | AnyChar | AnySequence
| AnyWithin (cs : list cspec) | AnyExcept (cs : list cspec).

(* parse_char_specifiers: `a-b` (three characters, the middle one a dash) is a range, taken
   greedily from the left; anything else is a single character (so a dash that is first, last,
   or right after a range stands for itself) *)
Fixpoint char_specifiers (s : str) : list cspec :=
  match s with
  | [] => []
  | a :: t =>
      match t with
      | d :: b :: r => if d =? DASH then CharRange a b :: char_specifiers r
                       else SingleChar a :: char_specifiers t
      | _ => SingleChar a :: char_specifiers t
      end
  end.

(* in_char_specifiers with case_sensitive = true: chars_eq is ==, a range is start <= c <= end
   on scalar values (an empty range when start > end) *)
Fixpoint in_specs (cs : list cspec) (c : N) : bool :=
  match cs with
  | [] => false
  | SingleChar a :: r => (c =? a) || in_specs r c
  | CharRange lo hi :: r => ((lo <=? c) && (c <=? hi)) || in_specs r c
  end.

(* Result<Pattern, PatternError>, plus the way out of the model *)
Inductive parsed :=
| Tokens (ts : list token)
| PatternError          (* ERROR_INVALID_RANGE: a `[` without its `]` *)
| Recursive.            (* `**`...: outside the model *)

Definition push (t : token) (p : parsed) : parsed :=
  match p with Tokens ts => Tokens (t :: ts) | e => e end.

(* Pattern::new.  `?` -> AnyChar; a single `*` -> AnySequence; any other character but `[` -> Char.
   `[`: when the next character is `!` (and at least two more follow) the class body starts
   after the `!`, otherwise right after the `[`; its first character is taken as it is (so a
   `]` there is a member of the class) and the body runs up to the next `]`; the characters
   between are read by parse_char_specifiers; when there is no such `]` the pattern is
   invalid — whatever follows.  (`[]`, `[!]`, `[!` and `[` at the end are invalid for the same
   reason: the search for `]` starts after the first body character.)
   The inner fix is chars[..].iter().position(|x| *x == ']') with the body read so far. *)
Fixpoint parse_pattern (s : str) : parsed :=
  match s with
  | [] => Tokens []
  | c :: r =>
      if c =? QUESTION then push AnyChar (parse_pattern r)
      else if c =? STAR then
        match r with
        | d :: _ => if d =? STAR then Recursive else push AnySequence (parse_pattern r)
        | [] => Tokens [AnySequence]
        end
      else if c =? LBRACKET then
        match r with
        | [] => PatternError
        | y :: r2 =>
            if y =? BANG then
              match r2 with
              | [] => PatternError
              | x :: r3 =>
                  (fix scan (acc : str) (l : str) : parsed :=
                     match l with
                     | [] => PatternError
                     | d :: l' =>
                         if d =? RBRACKET
                         then push (AnyExcept (char_specifiers (x :: rev acc))) (parse_pattern l')
                         else scan (d :: acc) l'
                     end) [] r3
              end
            else
              (fix scan (acc : str) (l : str) : parsed :=
                 match l with
                 | [] => PatternError
                 | d :: l' =>
                     if d =? RBRACKET
                     then push (AnyWithin (char_specifiers (y :: rev acc))) (parse_pattern l')
                     else scan (d :: acc) l'
                 end) [] r2
        end
      else push (Char c) (parse_pattern r)
  end.

Inductive mresult := Match | SubPatternDoesntMatch | EntirePatternDoesntMatch.

(* Pattern::matches_from(follows_separator, file, i, options), by recursion on tokens[i..].
   The AnySequence arm: first the empty match; then the while loop consuming one character at
   a time (a leading dot after a separator, or a separator, ends the attempt); when the loop
   runs out of characters the enclosing for loop goes on with the remaining tokens.
   AnyChar, AnyWithin and AnyExcept share the guard: a separator, or a dot right after a
   separator, is never matched by them — before the class is even looked at. *)
Fixpoint matches_from (ts : list token) : bool -> str -> mresult :=
  match ts with
  | [] => fun _ file => match file with [] => Match | _ => SubPatternDoesntMatch end
  | Char c2 :: rest => fun _ file =>
      match file with
      | [] => EntirePatternDoesntMatch
      | c :: file' => if c =? c2 then matches_from rest (is_sep c) file' else SubPatternDoesntMatch
      end
  | AnyChar :: rest => fun follows file =>
      match file with
      | [] => EntirePatternDoesntMatch
      | c :: file' =>
          if is_sep c || (follows && (c =? DOT)) then SubPatternDoesntMatch
          else matches_from rest (is_sep c) file'
      end
  | AnyWithin cs :: rest => fun follows file =>
      match file with
      | [] => EntirePatternDoesntMatch
      | c :: file' =>
          if is_sep c || (follows && (c =? DOT)) then SubPatternDoesntMatch
          else if in_specs cs c then matches_from rest (is_sep c) file'
          else SubPatternDoesntMatch
      end
  | AnyExcept cs :: rest => fun follows file =>
      match file with
      | [] => EntirePatternDoesntMatch
      | c :: file' =>
          if is_sep c || (follows && (c =? DOT)) then SubPatternDoesntMatch
          else if negb (in_specs cs c) then matches_from rest (is_sep c) file'
          else SubPatternDoesntMatch
      end
  | AnySequence :: rest => fun follows file =>
      match matches_from rest follows file with
      | SubPatternDoesntMatch =>
          (fix loop (follows : bool) (file : str) : mresult :=
             match file with
             | [] => matches_from rest follows []
             | c :: file' =>
                 if follows && (c =? DOT) then SubPatternDoesntMatch
                 else if is_sep c then SubPatternDoesntMatch
                 else match matches_from rest (is_sep c) file' with
                      | SubPatternDoesntMatch => loop (is_sep c) file'
                      | m => m
                      end
             end) follows file
      | m => m
      end
  end.

(* Pattern::matches_with(str, options) *)
Definition matches_with (ts : list token) (s : str) : bool :=
  match matches_from ts true s with Match => true | _ => false end.

(* Pattern::new(p)?.matches_with(s): None = invalid pattern or pattern outside the model *)
Definition glob_match (pattern s : str) : option bool :=
  match parse_pattern pattern with
  | Tokens ts => Some (matches_with ts s)
  | _ => None
  end.
