(* C09 — commodity conversion uses the right price. *)
From Coq Require Import List NArith ZArith Bool QArith Qcanon.
From Okv Require Import Base.Maps Base.Dec Model.Amount Model.Book Model.PriceDb Model.PriceSpec Proofs.PriceProofs.
Import ListNotations.

(* converting into the commodity the value already has is the identity; no price is looked up *)
Theorem C09_identity : forall fuel choose recs c v date,
  convert_single fuel choose recs c v c date = COk (c, v).
Proof. exact convert_single_identity. Qed.
Print Assumptions C09_identity.
