(* Declarative vocabulary of C02 (assertions) and C04 (reports): sums of stored postings,
   the state invariant, file-order running balances, the known class C02-K1. *)
From Coq Require Import List NArith ZArith Bool QArith Qcanon.
From Okv Require Import Base.Maps Base.Dec Model.Amount Model.Book Model.Query.
Import ListNotations.
Open Scope Qc_scope.

(* ---- well-formed amounts and balances ---- *)
Definition nozero (a : amount) : Prop := forall c v, In (c, v) a -> v <> 0.
Definition amt_wf (a : amount) : Prop := NoDup (keys a) /\ nozero a.
Definition bal_wf (b : balance) : Prop := NoDup (keys b) /\ forall a x, In (a, x) b -> amt_wf x.
Definition posts_wf (ps : list oposting) : Prop := Forall (fun p => NoDup (keys (o_amount p))) ps.

(* ---- sums of stored postings ---- *)
(* what one stored posting adds to (account a, commodity c) *)
Definition contrib (a : aid) (c : cid) (o : oposting) : Qc :=
  if (o_account o =? a)%N then a_get (o_amount o) c else 0.
Definition sum_posts (ps : list oposting) (a : aid) (c : cid) : Qc :=
  fold_right (fun o acc => contrib a c o + acc) 0 ps.
(* all accounts together *)
Definition sum_all (ps : list oposting) (c : cid) : Qc :=
  fold_right (fun o acc => a_get (o_amount o) c + acc) 0 ps.

(* ---- reachable states ---- *)
Definition reachable (s : bstate) : Prop := exists es n, process es = (Ok s, n).

(* the state invariant of C01-C04 (DESIGN.md Appendix B) *)
Record Inv (s : bstate) : Prop := {
  inv_bal : bal_wf (s_bal s);
  inv_posts : posts_wf (all_postings s);
  inv_cover : forall p, In p (all_postings s) -> In (o_account p) (keys (s_bal s));
  inv_sum : forall a c, a_get (bal_get (s_bal s) a) c = sum_posts (all_postings s) a c
}.

(* ---- assertions ---- *)
Definition is_omitted (p : posting) : bool :=
  match p_amount p, p_balance p with None, None => true | _, _ => false end.

(* is there an omitted-amount posting on account a among the first i postings? *)
Fixpoint omitted_before (a : aid) (i : nat) (ps : list posting) : bool :=
  match ps, i with
  | [], _ => false
  | _, O => false
  | p :: r, S k => ((p_account p =? a)%N && is_omitted p) || omitted_before a k r
  end.

(* known finding C02-K1: posting i of t sits after an omitted-amount posting on its own account *)
Definition known_class (t : txn) (i : nat) : bool :=
  match nth_error (t_posts t) i with
  | Some p => omitted_before (p_account p) i (t_posts t)
  | None => false
  end.

(* `= X` is true of a balance given as a function of the commodity *)
Definition holds (expected : posting_amount) (bal : cid -> Qc) : Prop :=
  match expected with
  | PZero => forall c, bal c = 0
  | PSingle c v => bal c = v
  end.

(* the `diff` reported with a failed assertion *)
Definition assert_diff (expected : posting_amount) (cur : amount) : amount :=
  match expected with
  | PZero => a_neg cur
  | PSingle c v => a_single c (v - a_get cur c)
  end.

(* cost and lot of an explicit-amount posting, evaluated as process_posting does *)
Definition eval_cost_lot (amt : posting_amount) (p : posting) : outcome (option xchg * option xchg) :=
  do cost <- (match p_cost p with Some x => do r <- xchg_from_syntax amt x; Ok (Some r) | None => Ok None end);
  do lot <- (match p_lot p with Some x => do r <- xchg_from_syntax amt x; Ok (Some r) | None => Ok None end);
  Ok (cost, lot).

(* ---- the posting loop, stopped after k postings ---- *)
Definition loop_init (s : bstate) : loop_st :=
  {| l_bal := s_bal s; l_posts := []; l_unfilled := None; l_residual := a_zero; l_events := [] |}.
Definition loop_upto (s : bstate) (t : txn) (k : nat) : outcome loop_st :=
  fold_left (loop_step (t_date t)) (firstn k (enumerate 0 (t_posts t))) (Ok (loop_init s)).

(* ---- running balances in file order ---- *)
(* `before`: stored postings of all earlier transactions; `this`: stored postings of this one.
   Balance of (a, c) after posting i of this transaction and everything before it in file order. *)
Definition running (before this : list oposting) (i : nat) (a : aid) (c : cid) : Qc :=
  sum_posts before a c + sum_posts (firstn (S i) this) a c.

(* the same without the omitted-amount postings of this transaction (filled in only after the loop):
   what the implementation's live balance holds when posting i's assertion is checked *)
Fixpoint sum_live (syn : list posting) (this : list oposting) (n : nat) (a : aid) (c : cid) : Qc :=
  match n, syn, this with
  | S k, p :: pr, o :: or_ => (if is_omitted p then 0 else contrib a c o) + sum_live pr or_ k a c
  | _, _, _ => 0
  end.
Definition running_live (before : list oposting) (syn : list posting) (this : list oposting)
           (i : nat) (a : aid) (c : cid) : Qc :=
  sum_posts before a c + sum_live syn this (S i) a c.

Definition count_txns (es : list entry) : nat :=
  length (filter (fun e => match e with ETxn _ => true | _ => false end) es).

(* ---- reports ---- *)
Definition range_sum (txns : list otxn) (st en : option Z) (a : aid) (c : cid) : Qc :=
  fold_right (fun t acc => (if range_contains st en (o_date t) then sum_posts (o_posts t) a c else 0) + acc) 0 txns.

(* sum of the amounts the register lists for account a *)
Definition reg_sum (lines : list (aid * amount * amount)) (a : aid) (c : cid) : Qc :=
  fold_right (fun l acc => (if (fst (fst l) =? a)%N then a_get (snd (fst l)) c else 0) + acc) 0 lines.
(* the running total printed on the last line of the register (empty register: 0) *)
Definition last_total (lines : list (aid * amount * amount)) : amount :=
  snd (last lines (0%N, [], [])).
(* all accounts of a balance report added up *)
Definition bal_total (b : balance) (c : cid) : Qc :=
  fold_right (fun p acc => a_get (snd p) c + acc) 0 b.
