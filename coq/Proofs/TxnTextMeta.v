(* C15 round trip, metadata lines: `    ; comment` and `    ; key: value` read back as printed. *)
From Coq Require Import List NArith ZArith Bool Lia ZifyBool ZifyN ZifyNat.
From Okv Require Import Model.Lit Model.SingleEntry2 Model.TxnText Model.TxnTextSpec.
From Okv Require Import Proofs.TxnTextLines.
Import ListNotations.
Open Scope N_scope.

Local Arguments N.add : simpl never.
Local Arguments N.mul : simpl never.
Local Arguments N.sub : simpl never.
Local Arguments N.leb : simpl never.
Local Arguments N.ltb : simpl never.
Local Arguments N.eqb : simpl never.

Ltac step := cbv beta iota zeta delta [orb andb negb fst snd].

(* the part of read_meta after the line's CR handling *)
Definition rm_body (body : str) : option metadata :=
  match body with
  | c :: r =>
      if c =? 58 then
        match read_tag_list (length r) r with
        | ((_ :: _) as ts, rest) => if at_eol (drop_sp rest) then Some (MWordTags ts) else None
        | ([], _) => Some (MComment (trim_end body))
        end
      else
        let '(k, r1) := span is_tag_char body in
        match k with
        | [] => Some (MComment (trim_end body))
        | _ =>
            match drop_sp r1 with
            | c1 :: c2 :: v => if (c1 =? 58) && (c2 =? 58) then Some (MKeyExpr k (trim v))
                               else if c1 =? 58 then Some (MKeyValue k (trim (c2 :: v)))
                               else Some (MComment (trim_end body))
            | [c1] => if c1 =? 58 then Some (MKeyValue k []) else Some (MComment (trim_end body))
            | [] => Some (MComment (trim_end body))
            end
        end
  | [] => Some (MComment [])
  end.

Lemma read_meta_eq : forall l,
  read_meta l = let body := strip_cr (drop_sp l) in if has_char 13 body then None else rm_body body.
Proof. reflexivity. Qed.

Lemma read_meta_sp : forall x, stops is_sp x -> has_char 13 x = false -> read_meta (32 :: x) = rm_body x.
Proof.
  intros x Hs H13. rewrite read_meta_eq. cbv zeta.
  rewrite drop_sp_32, drop_sp_stop by exact Hs. rewrite strip_cr_id by exact H13. rewrite H13. reflexivity.
Qed.

Lemma rm_body_comment : forall c, no_outer_white c = true -> looks_like_meta c = false ->
  rm_body c = Some (MComment c).
Proof.
  intros c Hw Hl. unfold looks_like_meta in Hl. apply orb_false_iff in Hl. destruct Hl as [L1 L2].
  pose proof (trim_end_id c Hw) as Ht.
  destruct c as [|x r]; [reflexivity|].
  cbn [starts_with] in L1. unfold rm_body. rewrite L1.
  destruct (span is_tag_char (x :: r)) as [k r1].
  destruct k as [|k0 k]; [rewrite Ht; reflexivity|].
  destruct (drop_sp r1) as [|c1 [|c2 v]]; cbn [starts_with] in L2.
  - rewrite Ht. reflexivity.
  - rewrite L2, Ht. reflexivity.
  - rewrite L2. cbn [andb]. rewrite Ht. reflexivity.
Qed.

Lemma read_meta_comment : forall c, clean_comment c = true -> read_meta (32 :: c) = Some (MComment c).
Proof.
  intros c H. unfold clean_comment in H.
  apply andb_true_iff in H. destruct H as [H H3].
  apply andb_true_iff in H. destruct H as [H1 H2].
  rewrite read_meta_sp; [|apply now_stops_sp; exact H2|apply one_line_no13; exact H1].
  apply rm_body_comment; [exact H2|]. destruct (looks_like_meta c); [discriminate|reflexivity].
Qed.

Lemma tag_not13 : forall k, forallb is_tag_char k = true -> forallb (fun c => negb (c =? 13)) k = true.
Proof. intros k. apply forallb_imp. intros c H. chr. Qed.

Lemma tag_not10 : forall k, forallb is_tag_char k = true -> nolf k = true.
Proof. intros k. apply forallb_imp. intros c H. chr. Qed.

Lemma rm_body_kv : forall k v, clean_key k = true -> no_outer_white v = true ->
  rm_body (k ++ 58 :: 32 :: v) = Some (MKeyValue k v).
Proof.
  intros k v Hk Hv. unfold clean_key in Hk. destruct k as [|k0 k]; [discriminate|].
  pose proof (forallb_hd _ _ _ Hk) as Hk0.
  unfold rm_body. cbn [app].
  assert (E : (k0 =? 58) = false) by chr. rewrite E.
  change (k0 :: k ++ 58 :: 32 :: v) with ((k0 :: k) ++ 58 :: 32 :: v).
  rewrite span_app by (exact Hk || reflexivity). step.
  rewrite drop_sp_stop by reflexivity. step. ev_lit. step.
  unfold trim. rewrite trim_start_32.
  rewrite trim_start_stop by (apply now_stops_start; exact Hv).
  rewrite trim_end_id by exact Hv. reflexivity.
Qed.

Lemma read_meta_kv : forall k v, clean_key k = true -> one_line v = true -> no_outer_white v = true ->
  read_meta (32 :: k ++ [58;32] ++ v) = Some (MKeyValue k v).
Proof.
  intros k v Hk H1 H2. cbn [app].
  assert (Hk' : forallb is_tag_char k = true /\ k <> []).
  { unfold clean_key in Hk. destruct k; [discriminate|]. split; [exact Hk|discriminate]. }
  destruct Hk' as [Hk1 Hk2].
  rewrite read_meta_sp.
  - apply rm_body_kv; assumption.
  - destruct k as [|k0 k]; [congruence|]. cbn [app stops]. apply forallb_hd in Hk1. chr.
  - apply forallb_has_char. apply forallb_app_true; [apply tag_not13; exact Hk1|].
    change (58 :: 32 :: v) with ([58;32] ++ v). apply forallb_app_true; [reflexivity|].
    apply has_char_false. apply one_line_no13. exact H1.
Qed.

Theorem read_meta_text : forall m, clean_meta m = true -> read_meta (32 :: meta_text m) = Some m.
Proof.
  intros m H. destruct m as [c|k v|k v|ts]; cbn [clean_meta] in H; try discriminate.
  - apply read_meta_comment. exact H.
  - apply andb_true_iff in H. destruct H as [H H3]. apply andb_true_iff in H. destruct H as [H1 H2].
    cbn [meta_text]. apply read_meta_kv; assumption.
Qed.

(* ---------------- the metadata line ---------------- *)
Definition meta_lb (m : metadata) : str := s_indent ++ [59;32] ++ meta_text m.

Lemma meta_line_eq : forall m, meta_line m = meta_lb m ++ [10].
Proof. intros m. unfold meta_line, meta_lb. repeat rewrite <- app_assoc. reflexivity. Qed.

Lemma read_indented_meta : forall r,
  read_indented (59 :: r) = match read_meta r with Some m => LMeta m | None => LErr end.
Proof. reflexivity. Qed.

Lemma meta_line_reads : forall m, clean_meta m = true ->
  starts_indented (meta_lb m) = true /\ at_eol (drop_sp (meta_lb m)) = false /\
  read_indented (drop_sp (meta_lb m)) = LMeta m.
Proof.
  intros m H. unfold meta_lb, s_indent. cbn [app].
  rewrite !drop_sp_32. rewrite drop_sp_stop by reflexivity.
  split; [reflexivity|]. split; [reflexivity|].
  rewrite read_indented_meta, read_meta_text by exact H. reflexivity.
Qed.

Lemma meta_text_nolf : forall m, clean_meta m = true -> nolf (meta_text m) = true.
Proof.
  intros m H. destruct m as [c|k v|k v|ts]; cbn [clean_meta] in H; try discriminate; cbn [meta_text].
  - unfold clean_comment in H. apply andb_true_iff in H. destruct H as [H _].
    apply andb_true_iff in H. destruct H as [H _]. apply one_line_nolf. exact H.
  - apply andb_true_iff in H. destruct H as [H H3]. apply andb_true_iff in H. destruct H as [H1 H2].
    apply nolf_app.
    + unfold clean_key in H1. destruct k; [discriminate|]. apply tag_not10. exact H1.
    + apply nolf_app; [reflexivity|apply one_line_nolf; exact H2].
Qed.

Lemma meta_lb_nolf : forall m, clean_meta m = true -> nolf (meta_lb m) = true.
Proof.
  intros m H. unfold meta_lb. apply nolf_app; [reflexivity|].
  apply nolf_app; [reflexivity|apply meta_text_nolf; exact H].
Qed.
