//! C18: Camt053 import conserves the statement.  Implementation under test:
//! okane::import::import(Format::IsoCamt053) + Txn::to_double_entry, printed as ImportCmd does,
//! then report::process over a funding transaction + the printed output.
use crate::camtgen::{self, Bias, Case};
use crate::coq::{self, Shards, Stats};
use crate::imptree::{self, ImportRun};
use crate::ledger::{self, ErrObs, Names, Obs, Rendered};
use crate::prng::Rng;
use crate::Opts;
use serde_json::json;

const HEADER: &str = "From Coq Require Import List NArith ZArith QArith Qcanon.\nFrom Okv Require Import Model.Lit Model.SingleEntry2 Model.Camt Run.Classify_C18.\nImport ListNotations.\nOpen Scope N_scope.";

pub enum ProcObs {
    Accepted(Vec<(String, rust_decimal::Decimal)>),
    Rejected(u8, usize, String),
    Panic(String),
}

/// funding transaction (when the first statement has an opening balance) + the printed transactions
pub fn ledger_text(case: &Case, printed: &[String]) -> (String, Vec<usize>) {
    let mut text = String::new();
    let mut entry_line = Vec::new();
    let mut line = 1usize;
    if let Some(ob) = case.stmts.first().and_then(|s| s.balances.iter().find(|b| b.opening)) {
        let mut v = ob.amt.v.clone();
        v.bare_dot = false;
        let pos = v.text();
        let (a, b) = if ob.credit { (pos.clone(), format!("-{}", pos)) } else { (format!("-{}", pos), pos.clone()) };
        // a minus sign in front of a negative literal cannot occur: XML amounts of balances are generated non-negative
        entry_line.push(line);
        text.push_str(&format!("2000/01/01 funding\n    {}  {} {}\n    Equity:Funding  {} {}\n\n", case.cfg.account, a, ob.amt.ccy, b, ob.amt.ccy));
        line += 4;
    }
    for p in printed {
        entry_line.push(line);
        text.push_str(p);
        line += p.matches('\n').count();
    }
    (text, entry_line)
}

pub fn run_ledger(text: &str, entry_line: Vec<usize>, account: &str, txs: &[imptree::TxObs], funding_ccy: Option<&str>) -> ProcObs {
    // every account / commodity is looked up by position in these lists
    let mut accounts: Vec<String> = vec![account.to_string(), "Equity:Funding".to_string()];
    let mut comms: Vec<String> = Vec::new();
    let add = |v: &mut Vec<String>, s: &str| {
        if !v.iter().any(|x| x == s) {
            v.push(s.to_string());
        }
    };
    if let Some(c) = funding_ccy {
        add(&mut comms, c);
    }
    for t in txs {
        for p in &t.posts {
            add(&mut accounts, &p.account);
            if let Some((a, c)) = &p.amount {
                add(&mut comms, &a.comm);
                if let Some(c) = c {
                    add(&mut comms, &c.comm);
                }
            }
            if let Some(b) = &p.balance {
                add(&mut comms, &b.comm);
            }
        }
    }
    let names = Names { accounts: accounts.clone(), commodities: comms.clone() };
    let n_entries = entry_line.len();
    let r = Rendered { text: text.to_string(), entry_line, entry_last_line: Vec::new(), posting_off: vec![Vec::new(); n_entries], posting_span: Vec::new() };
    match ledger::run_process(&[("/main.ledger".to_string(), text.to_string())], &names, Some(&r)) {
        Obs::Ok { balance, .. } => {
            let idx = accounts.iter().position(|a| a == account);
            let mut out = Vec::new();
            for (a, am) in balance {
                if Some(a) == idx {
                    for (c, v) in am {
                        out.push((comms.get(c).cloned().unwrap_or_else(|| "?".into()), v));
                    }
                }
            }
            ProcObs::Accepted(out)
        }
        Obs::Err { entry, err, text } => {
            let k = match err {
                ErrObs::Eval(_) => 1,
                ErrObs::BalanceFailure => 2,
                ErrObs::Undeducible(..) => 3,
                ErrObs::Unbalanced(_) => 4,
                ErrObs::Assertion { .. } => 5,
                ErrObs::ZeroAmountWithExchange => 6,
                ErrObs::ZeroExchangeRate => 7,
                ErrObs::ExchangeWithAmountCommodity => 8,
                _ => 9,
            };
            ProcObs::Rejected(k, entry, text)
        }
        Obs::Panic(m) => ProcObs::Panic(m),
    }
}

fn import_err_kind(display: &str) -> u8 {
    if display.contains("cannot handle rate with the same commodity") {
        1
    } else if display.contains("two distinct rates") {
        2
    } else if display.contains("different commodity charge not supported") {
        3
    } else if display.contains("already set transferred_amount") {
        4
    } else if display.contains("config should have operator") {
        5
    } else {
        9
    }
}

fn dec_term(d: &rust_decimal::Decimal) -> String {
    format!("(mkd {} {} {})", coq::bool_(d.is_sign_negative()), d.mantissa().unsigned_abs(), d.scale())
}

pub fn emit(sh: &mut Shards, st: &mut Stats, case: &Case, source: &str) {
    let xml = camtgen::xml(&case.stmts);
    let yaml = camtgen::yaml(case);
    let run = imptree::run_import(xml.as_bytes(), &yaml, "stmt.xml", okane::import::Format::IsoCamt053);
    let (entries, batches, charges, details) = camtgen::shape(case);
    st.eval(&(&xml, &yaml), entries >= 2 && (batches >= 1 || charges >= 1));
    st.count(&format!("gen:{}", source));
    st.count(&format!("kind:{}", case.tag));
    st.add("shape:entries", entries as u64);
    st.add("shape:batches", batches as u64);
    st.add("shape:details", details as u64);
    st.add("shape:nonzero_charges", charges as u64);
    st.add("shape:statements", case.stmts.len() as u64);
    for s in &case.stmts {
        for b in &s.balances {
            if b.amt.v.m == 0 && !s.entries.is_empty() {
                st.count(if b.opening { "shape:zero_opening_balance_with_entries" } else { "shape:zero_closing_balance_with_entries" });
            }
        }
    }
    for s in &case.stmts {
        for e in &s.entries {
            if let Some(d) = chrono::NaiveDate::from_ymd_opt(e.booking.y, e.booking.m, e.booking.d) {
                st.count(&format!("date:booking:{}", crate::caldate::class_of(d)));
            }
            if let Some(d) = e.value.as_ref().and_then(|v| chrono::NaiveDate::from_ymd_opt(v.y, v.m, v.d)) {
                st.count(&format!("date:value:{}", crate::caldate::class_of(d)));
            }
            if !e.details.is_empty() {
                let multi = if e.details.len() >= 2 { "batch of 2+ TxDtls" } else { "single TxDtls" };
                st.count(&match &e.batch {
                    camtgen::BatchHdr::Consistent => format!("btch_header:{}:NbOfTxs = number of TxDtls", multi),
                    camtgen::BatchHdr::Absent => format!("btch_header:{}:no Btch element", multi),
                    camtgen::BatchHdr::Count(n) if *n < e.details.len() => format!("btch_header:{}:NbOfTxs smaller than the number of TxDtls", multi),
                    camtgen::BatchHdr::Count(_) => format!("btch_header:{}:NbOfTxs larger than the number of TxDtls", multi),
                });
            }
        }
    }
    for s in &case.stmts {
        for e in &s.entries {
            st.count(match e.reversal {
                Some(true) => "rvsl_ind:entry:true",
                Some(false) => "rvsl_ind:entry:false",
                None => "rvsl_ind:entry:absent",
            });
            for d in &e.details {
                st.count(match (d.reversal, e.details.len() >= 2) {
                    (Some(true), true) => "rvsl_ind:detail in a batch:true",
                    (Some(true), false) => "rvsl_ind:single detail:true",
                    (Some(false), _) => "rvsl_ind:detail:false",
                    (None, _) => "rvsl_ind:detail:absent",
                });
            }
        }
    }
    if case.stmts.iter().any(|s| s.entries.iter().any(|e| e.reversal == Some(true) || e.details.iter().any(|d| d.reversal == Some(true)))) {
        st.count("rvsl_ind:cases with a reversal entry or detail");
    }
    {
        let (chrgs, zero_chrgs) = camtgen::charge_elements(case);
        let nz = camtgen::nonzero_charges(case);
        let what = if chrgs == 0 {
            "no Chrgs element"
        } else if nz == 0 {
            "only Chrgs that book nothing (zero total / zero-amount records)"
        } else {
            "a non-zero charge record"
        };
        st.count(&format!("operator:{}:{}", if case.cfg.operator.is_some() { "configured" } else { "absent" }, what));
        st.add("shape:chrgs_elements", chrgs as u64);
        st.add("shape:chrgs_elements_booking_nothing", zero_chrgs as u64);
    }
    if case.cfg.new_to_old {
        st.count("row_order:new_to_old");
    } else {
        st.count("row_order:old_to_new");
    }
    let (obs_term, obs_json, ledger) = match run {
        ImportRun::BadConfig(m) => {
            st.count("impl:bad_config");
            (format!("(OErr 9)"), json!({ "bad_config": m }), None)
        }
        ImportRun::Panic(m) => {
            st.count("impl:panic");
            ("OPanic".to_string(), json!({ "panic": m }), None)
        }
        ImportRun::Err(disp, dbg) => {
            let k = import_err_kind(&disp);
            st.count(&format!("impl:import_err:{}", k));
            (format!("(OErr {})", k), json!({"import_error": disp, "debug": dbg}), None)
        }
        ImportRun::Ok(imp) => {
            let mut bad = None;
            let mut txs = Vec::new();
            let mut printed = Vec::new();
            for (t, text) in &imp.txns {
                match t {
                    Ok(t) => txs.push(t.clone()),
                    Err(m) => bad = Some(m.clone()),
                }
                printed.push(text.clone());
            }
            if let Some(m) = bad {
                st.count("impl:tree_outside_shape");
                ("(OErr 9)".to_string(), json!({ "tree_outside_import_shape": m }), None)
            } else {
                let (text, entry_line) = ledger_text(case, &printed);
                let fccy = case.stmts.first().and_then(|s| s.balances.iter().find(|b| b.opening)).map(|b| b.amt.ccy.clone());
                let p = run_ledger(&text, entry_line, &imp.account, &txs, fccy.as_deref());
                let (pt, pj) = match &p {
                    ProcObs::Accepted(f) => {
                        st.count("impl:process:accepted");
                        (
                            format!("(PAccepted {})", coq::list(f.iter().map(|(c, v)| format!("({}, {})", imptree::str_term(c), dec_term(v))))),
                            json!({"accepted": {"final_balance": f.iter().map(|(c, v)| format!("{} {}", v, c)).collect::<Vec<_>>()}}),
                        )
                    }
                    ProcObs::Rejected(k, e, m) => {
                        st.count(&format!("impl:process:rejected:{}", k));
                        (format!("(PRejected {} {})", k, e), json!({"rejected": m, "entry": e}))
                    }
                    ProcObs::Panic(m) => {
                        st.count("impl:process:panic");
                        ("PPanic".to_string(), json!({ "panic": m }))
                    }
                };
                (
                    format!("(OOk {} {})", coq::list(txs.iter().map(imptree::tx_term)), pt),
                    json!({"transactions": txs.iter().map(imptree::tx_json).collect::<Vec<_>>(), "process": pj}),
                    Some(text),
                )
            }
        }
    };
    let rep = json!({"property": "C18", "case": serde_json::to_value(case).unwrap(), "xml": xml, "config_yaml": yaml,
        "ledger_processed": ledger, "impl": obs_json,
        "reproduce": "write `xml` to stmt.xml and `config_yaml` to cfg.yml; okane import --config cfg.yml stmt.xml"});
    if st.samples.len() < 2 || (st.samples.len() < 4 && entries >= 2 && charges >= 1 && xml.len() < 9000) {
        st.sample(rep.clone(), 4);
    }
    let term = format!(
        "C {} {} {} {}",
        camtgen::cfg_term(&case.cfg),
        imptree::str_term(&case.cfg.account),
        camtgen::doc_term(&case.stmts),
        obs_term
    );
    sh.push(term, vec![rep]);
}

fn corpus_cases(dir: &std::path::Path, extra: &[String]) -> (Vec<Case>, bool) {
    let mut files: Vec<std::path::PathBuf> = Vec::new();
    let mut replay = false;
    if let Some(i) = extra.iter().position(|a| a == "--replay") {
        replay = true;
        if let Some(p) = extra.get(i + 1) {
            files.push(p.into());
        }
    } else if let Ok(rd) = std::fs::read_dir(dir) {
        files = rd.filter_map(|e| e.ok()).map(|e| e.path()).collect();
        files.sort();
    }
    let mut out = Vec::new();
    for p in files {
        if let Ok(text) = std::fs::read_to_string(&p) {
            if let Ok(v) = serde_json::from_str::<serde_json::Value>(&text) {
                if let Some(c) = v.get("case") {
                    if let Ok(c) = serde_json::from_value::<Case>(c.clone()) {
                        out.push(c);
                    }
                }
            }
        }
    }
    (out, replay)
}

/// the statement of cli/tests/testdata/import/iso_camt.xml reduced to the generator's vocabulary
fn seed_cases() -> Vec<Case> {
    use camtgen::*;
    let chf = |m: i64, s: u32| XAmt { v: Dec::new(m, s), ccy: "CHF".into() };
    let d = |day: u32| XDate { y: 2021, m: 10, d: day, dttm: None };
    let cfg = Cfg { account: "Assets:Okane Bank".into(), operator: Some("Okane Bank (fee)".into()), new_to_old: false, commodity: "CHF".into(), precisions: vec![("CHF".into(), 2), ("EUR".into(), 2)] };
    let plain = |m: i64, s: u32, credit: bool, bk: u32, vd: Option<u32>, k: u32| Entry {
        amt: chf(m, s), credit, booking: d(bk), value: vd.map(d), charges: None, dtls_element: true, details: vec![], info: format!("N{}", k), frag: Frag::default(), batch: BatchHdr::Consistent, reversal: Some(false), charges_total: None,
    };
    let det = |m: i64, s: u32, credit: bool, k: &str| Detail { reference: Some(format!("20211031/{}", k)), amt: chf(m, s), credit, details: None, charges: None, info: Some(format!("T{}", k)), frag: Frag { payee: Some("Jiro Okane".into()), account: Some("Expenses:House".into()), pending: false }, parties: None, reversal: None, charges_total: None };
    let mut e3 = plain(2000, 0, false, 3, Some(3), 3);
    e3.details = vec![det(1880, 0, false, "3/1"), det(120, 0, false, "3/2")];
    let mut e7 = plain(52, 0, false, 8, Some(7), 7);
    e7.charges = Some(vec![ChargeRec { amt: chf(2, 0), credit: false, included: Some(true) }]);
    let mut d7 = det(52, 0, false, "7/1");
    d7.details = Some(AmtDetails { instd: chf(50, 0), tx: chf(50, 0), exchange: None });
    e7.details = vec![d7];
    let mut e9 = plain(10000, 0, true, 20, Some(20), 9);
    let mut d9 = det(10000, 0, true, "9/1");
    d9.charges = Some(vec![ChargeRec { amt: chf(0, 0), credit: true, included: None }, ChargeRec { amt: chf(14, 0), credit: false, included: None }]);
    e9.details = vec![d9];
    let entries = vec![plain(6000, 0, true, 2, Some(2), 2), e3, plain(101, 1, false, 5, Some(4), 4), e7, plain(5, 2, true, 19, None, 8), e9];
    // 100 + 6000 - 2000 - 10.1 - 52 + 0.05 + 10000 = 14037.95
    let st = Statement { balances: vec![Balance { opening: true, amt: chf(100, 0), credit: true }, Balance { opening: false, amt: chf(1403795, 2), credit: true }], entries };
    let base = Case { cfg, stmts: vec![st], tag: "seed".into() };
    let mut rev = base.clone();
    rev.cfg.new_to_old = true;
    let mut empty = base.clone();
    empty.stmts[0].entries.clear();
    empty.stmts[0].balances[1].amt = chf(100, 0);
    let mut neg = base.clone();
    neg.stmts[0].balances[0].credit = false; // opening balance -100: closing is off by 200 -> rejected
    // a new account: opening balance exactly 0 (the Initial Balance transaction asserting `= 0 CHF` is still due)
    let mut zero_open = base.clone();
    zero_open.stmts[0].balances[0].amt = chf(0, 2);
    zero_open.stmts[0].balances[1].amt = chf(1393795, 2);
    // ... and a statement that ends at exactly 0: 100 + 6000 - 6100
    let mut zero_close = base.clone();
    zero_close.stmts[0].entries = vec![plain(6000, 0, true, 2, Some(2), 2), plain(6100, 0, false, 5, Some(4), 4)];
    zero_close.stmts[0].balances[1].amt = chf(0, 2);
    // a returned payment: the entries flagged as reversals (plain, single detail, batch; the flag
    // repeated inside the TxDtls) keep the direction their CdtDbtInd states
    let mut rvsl = base.clone();
    for (i, e) in rvsl.stmts[0].entries.iter_mut().enumerate() {
        e.reversal = if i % 2 == 0 { Some(true) } else { None };
        for d in e.details.iter_mut() {
            d.reversal = Some(i % 2 == 1);
        }
    }
    // no `operator`: the zero-amount charge record and a Chrgs element with only a zero total book
    // nothing and need none; the 14 CHF charge of the last entry does
    let mut noop = base.clone();
    noop.cfg.operator = None;
    noop.stmts[0].entries[0].charges = Some(vec![]);
    noop.stmts[0].entries[0].charges_total = Some(chf(0, 2));
    noop.stmts[0].entries[3].charges = Some(vec![ChargeRec { amt: chf(0, 2), credit: false, included: Some(true) }]);
    noop.stmts[0].entries[3].details[0].details = None;
    noop.stmts[0].entries[3].details[0].charges = Some(vec![ChargeRec { amt: chf(0, 0), credit: true, included: None }]);
    noop.stmts[0].entries[3].details[0].charges_total = Some(chf(0, 2));
    let mut noop_fail = noop.clone();
    noop.stmts[0].entries[5].details[0].charges = Some(vec![ChargeRec { amt: chf(0, 0), credit: true, included: None }]);
    noop_fail.tag = "error".into();
    vec![base, rev, empty, neg, zero_open, zero_close, rvsl, noop, noop_fail]
}

pub fn run(o: &Opts) {
    let mut st = Stats::new();
    // smaller files in the thorough tier: coqc memory grows with the size of the case literal
    let mut sh = Shards::new(&o.out, if o.thorough { o.shards * 6 } else { o.shards }, HEADER);
    st.rule = "Camt053 XML generated from statement data (1-2 statements of 0-8 entries; credits and debits; entries without details, with one detail, batches of 2-4 details summing to the entry, whose NtryDtls has a Btch header with NbOfTxs = the number of TxDtls (half), no Btch element at all (a quarter), or an NbOfTxs that is smaller (possibly 0) or larger than the number of TxDtls (the importer does not read the field: every TxDtls is a record); included / not-included / zero / credit charge records on entries and details with TxAmt explaining included charges; entries starting up to 8 days before a calendar boundary drawn on purpose (the days around New Year whose ISO week belongs to the neighbouring year, 1 January / 31 December, leap days, 28 February / 1 March of 1900 and 2100, month ends, years 1900-2100) and running across it; value date absent / equal / up to two days earlier, Dt and DtTm with offsets from -12:00 to +14:00; both row orders; OPBD/CLBD in either order; opening balance of exactly 0 and closing balance of exactly 0 in about 1/8 of the statements each; per-record rewrite rules giving payee / account / pending; RvslInd true / false / absent on entries (1/6, 2/3, 1/6) and true / false / absent inside TxDtls of single details and batches (1/8, 1/8, 3/4) - CdtDbtInd is the real direction of a reversal, so the element must change nothing; one configuration in five without `operator`, its statements with no Chrgs element, with Chrgs that book nothing (a zero TtlChrgsAndTaxAmt and no record, zero-amount records) or with real charges, which must fail with the invalid-configuration error; TtlChrgsAndTaxAmt absent or the sum of the records) plus inconsistent variants (wrong closing balance, batch not summing, unexplained charge, missing balance), foreign-currency details with exchange rates and error variants; run through import(Format::IsoCamt053) + to_double_entry, printed as ImportCmd does and fed with a funding transaction to report::process; non-trivial = at least 2 entries and at least one batch or non-zero charge; distinct by XML + configuration".into();
    st.assumptions.push("quick-xml/serde deserialisation is an oracle: the model starts from the statement data the XML was written from (xmlnode is a private module)".into());
    st.assumptions.push("amount mantissas below 10^7 with scale <= 4: every Decimal sum is exact; no negative-zero amount text in the XML".into());
    st.assumptions.push("the rewrite-rule extractor is an oracle here (C17): each record's fragment is fixed by one anchored rule on its additional info".into());
    let (corpus, replay) = corpus_cases(&o.corpus, &o.extra);
    for c in &corpus {
        emit(&mut sh, &mut st, c, "corpus");
    }
    if !replay {
        for c in seed_cases() {
            emit(&mut sh, &mut st, &c, "seed");
        }
        let mut r = Rng::new(o.seed, 1801);
        let n = if o.thorough { 20000 } else { 1500 };
        let b = Bias { inconsistent_pct: 25, two_stmt_pct: 12, foreign_pct: 8, error_pct: 5 };
        for _ in 0..n {
            let c = camtgen::gen_case(&mut r, &b);
            emit(&mut sh, &mut st, &c, "random");
        }
    }
    sh.finish(&st);
}
