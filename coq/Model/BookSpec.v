(* Declarative vocabulary the C01 / C03 theorems are stated with.  Definitions only. *)
From Coq Require Import List NArith ZArith Bool QArith Qcanon.
From Okv Require Import Base.Maps.
From Okv Require Import Base.Dec.
From Okv Require Import Model.Amount.
From Okv Require Import Model.Book.
Import ListNotations.
Open Scope Qc_scope.

(* ---- the balance condition of check_balance (C01) ---- *)

(* every entry of the amount is zero (an empty amount included) *)
Definition all_zero (a : amount) : Prop := forall c v, In (c, v) a -> v = 0.

(* once the zero entries are dropped exactly two entries remain, one negative and one
   positive.  Stated without reference to the order of the list. *)
Definition two_opposite (a : amount) : Prop :=
  length (a_remove_zeros a) = 2%nat /\
  exists c1 v1 c2 v2, In (c1, v1) a /\ In (c2, v2) a /\ v1 < 0 /\ 0 < v2.

(* residual r balances under the declared precisions f *)
Definition balanced (f : formats) (r : amount) : Prop :=
  all_zero (a_round f r) \/ two_opposite (a_round f r).

(* ---- postings ---- *)

(* neither an amount nor a balance: the amount is to be deduced *)
Definition unconstrained (p : posting) : Prop := p_amount p = None /\ p_balance p = None.
Definition unconstrainedb (p : posting) : bool :=
  match p_amount p, p_balance p with None, None => true | _, _ => false end.
(* `Account = X` *)
Definition assignment (p : posting) (bc : vexpr) : Prop := p_amount p = None /\ p_balance p = Some bc.

(* the transaction cut after its first n postings *)
Definition txn_prefix (t : txn) (n : nat) : txn :=
  {| t_date := t_date t; t_posts := firstn n (t_posts t) |}.

(* b is the running balance just before posting number i of t is processed, from state s *)
Definition bal_before (s : bstate) (t : txn) (i : nat) (b : balance) : Prop :=
  exists st, txn_loop s (txn_prefix t i) = Ok st /\ l_bal st = b.

(* the posting record the loop stores for posting p, given what process_posting returned for
   it (None: the omitted posting's placeholder) *)
Definition stored_posting (p : posting) (ep : option evaluated_posting) : oposting :=
  match ep with
  | Some e => {| o_account := p_account p; o_amount := pa_to_amount (ep_amount e);
                 o_converted := ep_converted e |}
  | None => {| o_account := p_account p; o_amount := a_zero; o_converted := None |}
  end.

(* ---- balancing value (C01 statement: lot price, else cost, else the amount itself) ---- *)

(* a cost / lot annotation evaluates to one commodity and a number *)
Definition eval_single (e : vexpr) : option (cid * Qc) :=
  match eval_v e with
  | inl v => match ev_to_single v with inl s => Some s | inr _ => None end
  | inr _ => None
  end.

(* Rate r |-> r * q in r's commodity;  Total t |-> |t| carrying the sign of q *)
Definition spec_exchange (x : exchange) (q : Qc) : option posting_amount :=
  match x with
  | XRate e => match eval_single e with
               | Some (c, r) => Some (PSingle c (r * q))
               | None => None
               end
  | XTotal e => match eval_single e with
                | Some (c, t) => Some (PSingle c (if Qclt_le_dec q 0 then - Qcabs.Qcabs t else Qcabs.Qcabs t))
                | None => None
                end
  end.

(* balancing value of a posting whose written amount evaluated to amt *)
Definition spec_bv (p : posting) (amt : posting_amount) : option posting_amount :=
  match p_lot p, p_cost p with
  | Some x, _ | None, Some x =>
      match amt with PSingle _ q => spec_exchange x q | PZero => None end
  | None, None => Some amt
  end.

(* what posting p contributes to the transaction's residual when the running balance is b:
   None for the omitted posting, X - current for an assignment, spec_bv otherwise *)
Inductive posting_bv (b : balance) (p : posting) : option posting_amount -> Prop :=
| bv_omitted : unconstrained p -> posting_bv b p None
| bv_assign_single bc c v :
    assignment p bc -> eval_pa bc = Ok (PSingle c v) ->
    posting_bv b p (Some (PSingle c (v - a_get (bal_get b (p_account p)) c)))
| bv_assign_zero bc cur :
    assignment p bc -> eval_pa bc = Ok PZero ->
    amount_to_pa (bal_get b (p_account p)) = inl cur ->
    posting_bv b p (Some (pa_neg cur))
| bv_explicit e amt v :
    p_amount p = Some e -> eval_pa e = Ok amt -> spec_bv p amt = Some v ->
    posting_bv b p (Some v).

Definition add_bv (a : amount) (o : option posting_amount) : amount :=
  match o with Some v => a_add_pa a v | None => a end.
Definition sum_bvs (bvs : list (option posting_amount)) : amount := fold_left add_bv bvs a_zero.

(* pointwise reading of a posting amount *)
Definition pa_get (p : posting_amount) (c : cid) : Qc :=
  match p with PZero => 0 | PSingle c' v => if (c' =? c)%N then v else 0 end.
Definition bv_get (o : option posting_amount) (c : cid) : Qc :=
  match o with Some p => pa_get p c | None => 0 end.
Fixpoint qc_sum (l : list Qc) : Qc := match l with [] => 0 | x :: r => x + qc_sum r end.

(* ---- state well-formedness: every account's amount has distinct commodities ---- *)
Definition bal_wf (b : balance) : Prop := forall a, NoDup (keys (bal_get b a)).

(* index of the first unconstrained posting, counting from i *)
Fixpoint first_unconstrained (i : nat) (ps : list posting) : option nat :=
  match ps with
  | [] => None
  | p :: r => if unconstrainedb p then Some i else first_unconstrained (S i) r
  end.
