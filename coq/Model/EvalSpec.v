(* Declarative meaning of value expressions (property C08): ordinary arithmetic on
   "a bare number" or "a finitely supported function commodity -> Q".  No association lists,
   no iteration order: the evaluator model (Model/Amount.v, a transcription of
   report::eval) is proved to compute exactly this in Proofs/EvalProofs.v. *)
From Coq Require Import List NArith ZArith Bool QArith Qcanon.
From Okv Require Import Base.Maps Base.Dec Model.Amount.
Import ListNotations.
Open Scope Qc_scope.

(* DCom ks f: the commodities that were mentioned (ks, a duplicate-free list standing for a
   set: `0 USD` is not nothing) and the quantity of every commodity (f, zero outside ks). *)
Inductive dval := DNum (q : Qc) | DCom (ks : list cid) (f : cid -> Qc).

Definition d_mem (c : cid) (ks : list cid) : bool := existsb (N.eqb c) ks.
Definition d_union (k1 k2 : list cid) : list cid := k1 ++ filter (fun c => negb (d_mem c k1)) k2.

Definition d_unit (c : cid) (q : Qc) : cid -> Qc := fun c' => if (c' =? c)%N then q else 0.

Definition d_neg (d : dval) : dval :=
  match d with DNum q => DNum (- q) | DCom ks f => DCom ks (fun c => - f c) end.

(* + and -: numbers with numbers, amounts with amounts, pointwise *)
Definition d_add (l r : dval) : dval + eval_err :=
  match l, r with
  | DNum a, DNum b => inl (DNum (a + b))
  | DCom k1 f1, DCom k2 f2 => inl (DCom (d_union k1 k2) (fun c => f1 c + f2 c))
  | _, _ => inr UnmatchingOperation
  end.
Definition d_sub (l r : dval) : dval + eval_err :=
  match l, r with
  | DNum a, DNum b => inl (DNum (a - b))
  | DCom k1 f1, DCom k2 f2 => inl (DCom (d_union k1 k2) (fun c => f1 c - f2 c))
  | _, _ => inr UnmatchingOperation
  end.
(* x: a scalar on either side *)
Definition d_mul (l r : dval) : dval + eval_err :=
  match l, r with
  | DNum a, DNum b => inl (DNum (a * b))
  | DCom k f, DNum b => inl (DCom k (fun c => f c * b))
  | DNum a, DCom k f => inl (DCom k (fun c => f c * a))
  | DCom _ _, DCom _ _ => inr UnmatchingOperation
  end.
Definition d_is_zero (d : dval) : bool :=
  match d with DNum q => qc_zero q | DCom ks f => forallb (fun c => qc_zero (f c)) ks end.
(* /: by a non-zero number; a number may be divided by an amount of exactly one commodity *)
Definition d_div (l r : dval) : dval + eval_err :=
  if d_is_zero r then inr DivideByZero else
  match l, r with
  | DNum a, DNum b => inl (DNum (a / b))
  | DCom k f, DNum b => inl (DCom k (fun c => f c / b))
  | DNum a, DCom [c] f => inl (DCom [c] (d_unit c (a / f c)))
  | DNum a, DCom _ _ => inr SingleAmountRequired
  | DCom _ _, DCom _ _ => inr UnmatchingOperation
  end.

Definition d_binop (op : binop) : dval -> dval -> dval + eval_err :=
  match op with OAdd => d_add | OSub => d_sub | OMul => d_mul | ODiv => d_div end.

Fixpoint den_v (v : vexpr) : dval + eval_err :=
  match v with
  | VParen e => den_e e
  | VAmt q None => inl (DNum q)
  | VAmt q (Some c) => inl (DCom [c] (d_unit c q))
  end
with den_e (e : expr) : dval + eval_err :=
  match e with
  | EUnaryNeg x => match den_e x with inl d => inl (d_neg d) | inr er => inr er end
  | EBin op l r =>
      match den_e l with
      | inr er => inr er
      | inl a => match den_e r with inr er => inr er | inl b => d_binop op a b end
      end
  | EVal v => den_v v
  end.

(* where a particular kind of value is required *)
Definition d_to_amount (d : dval) : (list cid * (cid -> Qc)) + eval_err :=
  match d with
  | DCom ks f => inl (ks, f)
  | DNum q => if qc_zero q then inl ([], fun _ => 0) else inr AmountRequired
  end.
(* posting amount: nothing, or one commodity *)
Definition d_to_pa (d : dval) : option (cid * Qc) + eval_err :=
  match d_to_amount d with
  | inr e => inr e
  | inl ([], _) => inl None
  | inl ([c], f) => inl (Some (c, f c))
  | inl _ => inr PostingAmountRequired
  end.
(* cost, lot price, divisor: exactly one commodity *)
Definition d_to_single (d : dval) : (cid * Qc) + eval_err :=
  match d_to_amount d with
  | inr e => inr e
  | inl ([c], f) => inl (c, f c)
  | inl _ => inr SingleAmountRequired
  end.

(* ---- what it means for the evaluator's value to denote a dval ---- *)
Definition denotes (v : evaluated) (d : dval) : Prop :=
  match v, d with
  | ENum q, DNum q' => q = q'
  | ECom a, DCom ks f =>
      NoDup (keys a) /\ (forall c, In c (keys a) <-> In c ks) /\ (forall c, a_get a c = f c)
  | _, _ => False
  end.

Definition wf_dval (d : dval) : Prop :=
  match d with DNum _ => True | DCom ks f => NoDup ks /\ (forall c, ~ In c ks -> f c = 0) end.

(* evaluator result versus denotation, errors included *)
Definition agrees (r : evaluated + eval_err) (d : dval + eval_err) : Prop :=
  match r, d with
  | inl v, inl x => denotes v x
  | inr e, inr e' => e = e'
  | _, _ => False
  end.
