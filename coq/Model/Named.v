(* Ledgers whose accounts and commodities are WRITTEN NAMES, and how report::process turns
   them into identities: ReportContext {accounts, commodities} (context.rs, commodity.rs),
   the Account / Commodity declaration branches of ProcessAccumulator::process, and the
   `ensure` calls of add_transaction / Evaluated::from_expr_amount_mut (book_keeping.rs,
   eval/evaluated.rs).  A named transaction reuses Model/Book.v's syntax with name ids in the
   place of account / commodity ids; resolving it yields the entry that Model/Book.v processes.

   Order of evaluation is kept only as far as it can be observed: `ensure` never depends on
   the book-keeping state, so all names of a transaction are resolved first (in source
   order) and the resolved transaction is then handed to process_entry; when that fails the
   run stops and the stores are never looked at again. *)
From Coq Require Import List NArith ZArith Bool QArith Qcanon.
From Okv Require Import Base.Maps Base.Dec Model.Amount Model.Book Model.Intern.
Import ListNotations.

Inductive nentry :=
| NAccount (name : N) (aliases : list N)                       (* account NAME / alias A ... *)
| NCommodity (name : N) (aliases : list N) (fmt : option nat)  (* commodity NAME / alias A ... / format *)
| NTxn (t : txn)
| NNop.

Inductive nerr :=
| NBook (e : bk_err)
| NInvalidAccount (e : intern_err)
| NInvalidCommodity (e : intern_err).

Inductive nres (A : Type) := NOk (a : A) | NErr (e : nerr) | NPanic.
Arguments NOk {A} a. Arguments NErr {A} e. Arguments NPanic {A}.

Record nstate := { n_acc : store; n_com : store; n_book : bstate }.
Definition nstate0 : nstate := {| n_acc := store0; n_com := store0; n_book := bstate0 |}.

(* ---- commodities inside expressions, as the evaluator meets them (left to right) ---- *)
Fixpoint res_v (s : store) (v : vexpr) : store * vexpr :=
  match v with
  | VParen e => let '(s', e') := res_e s e in (s', VParen e')
  | VAmt q None => (s, VAmt q None)
  | VAmt q (Some c) => let '(s', c') := ensure s c in (s', VAmt q (Some c'))
  end
with res_e (s : store) (e : expr) : store * expr :=
  match e with
  | EUnaryNeg x => let '(s', x') := res_e s x in (s', EUnaryNeg x')
  | EBin op l r =>
      let '(s1, l') := res_e s l in
      let '(s2, r') := res_e s1 r in
      (s2, EBin op l' r')
  | EVal v => let '(s', v') := res_v s v in (s', EVal v')
  end.

Definition res_ov (s : store) (o : option vexpr) : store * option vexpr :=
  match o with
  | None => (s, None)
  | Some v => let '(s', v') := res_v s v in (s', Some v')
  end.
Definition res_ox (s : store) (o : option exchange) : store * option exchange :=
  match o with
  | None => (s, None)
  | Some (XTotal v) => let '(s', v') := res_v s v in (s', Some (XTotal v'))
  | Some (XRate v) => let '(s', v') := res_v s v in (s', Some (XRate v'))
  end.

(* one posting: the account, then amount, cost, lot price, balance expression *)
Definition res_posting (sa sc : store) (p : posting) : store * store * posting :=
  let '(sa', a) := ensure sa (p_account p) in
  let '(s1, amt) := res_ov sc (p_amount p) in
  let '(s2, cost) := res_ox s1 (p_cost p) in
  let '(s3, lot) := res_ox s2 (p_lot p) in
  let '(s4, bal) := res_ov s3 (p_balance p) in
  (sa', s4, {| p_account := a; p_amount := amt; p_cost := cost; p_lot := lot; p_balance := bal |}).

Fixpoint res_posts (sa sc : store) (ps : list posting) : store * store * list posting :=
  match ps with
  | [] => (sa, sc, [])
  | p :: r =>
      let '(sa1, sc1, p') := res_posting sa sc p in
      let '(sa2, sc2, r') := res_posts sa1 sc1 r in
      (sa2, sc2, p' :: r')
  end.

Definition res_txn (sa sc : store) (t : txn) : store * store * txn :=
  let '(sa', sc', ps) := res_posts sa sc (t_posts t) in
  (sa', sc', {| t_date := t_date t; t_posts := ps |}).

(* ---- declarations ---- *)
Fixpoint insert_aliases (s : store) (aliases : list N) (canonical : N) : store + intern_err :=
  match aliases with
  | [] => inl s
  | a :: r =>
      match insert_alias s a canonical with
      | inl s' => insert_aliases s' r canonical
      | inr e => inr e
      end
  end.

Definition declare (s : store) (name : N) (aliases : list N) : (store * N) + intern_err :=
  match insert_canonical s name with
  | inr e => inr e
  | inl (s1, c) =>
      match insert_aliases s1 aliases c with
      | inr e => inr e
      | inl s2 => inl (s2, c)
      end
  end.

Definition lift_book {A} (o : outcome A) : nres A :=
  match o with Ok a => NOk a | Err e => NErr (NBook e) | Panic => NPanic end.

Definition process_named_entry (st : nstate) (e : nentry) : nres nstate :=
  match e with
  | NAccount name aliases =>
      match declare (n_acc st) name aliases with
      | inr e => NErr (NInvalidAccount e)
      | inl (sa, _) => NOk {| n_acc := sa; n_com := n_com st; n_book := n_book st |}
      end
  | NCommodity name aliases fmt =>
      match declare (n_com st) name aliases with
      | inr e => NErr (NInvalidCommodity e)
      | inl (sc, c) =>
          (* set_format is keyed by the canonical commodity *)
          match fmt with
          | None => NOk {| n_acc := n_acc st; n_com := sc; n_book := n_book st |}
          | Some dp =>
              match lift_book (process_entry (n_book st) (EFormat c dp)) with
              | NOk b => NOk {| n_acc := n_acc st; n_com := sc; n_book := b |}
              | NErr x => NErr x
              | NPanic => NPanic
              end
          end
      end
  | NTxn t =>
      let '(sa, sc, t') := res_txn (n_acc st) (n_com st) t in
      match lift_book (process_entry (n_book st) (ETxn t')) with
      | NOk b => NOk {| n_acc := sa; n_com := sc; n_book := b |}
      | NErr x => NErr x
      | NPanic => NPanic
      end
  | NNop => NOk st
  end.

(* the first failing entry aborts the run; its index is reported *)
Fixpoint process_named_from (i : nat) (st : nstate) (es : list nentry) : nres nstate * nat :=
  match es with
  | [] => (NOk st, i)
  | e :: r =>
      match process_named_entry st e with
      | NOk st' => process_named_from (S i) st' r
      | NErr x => (NErr x, i)
      | NPanic => (NPanic, i)
      end
  end.
Definition process_named (es : list nentry) : nres nstate * nat := process_named_from 0 nstate0 es.

(* what a run shows: balances, stored transactions, or the error and where *)
Inductive nshown :=
| ShownOk (bal : balance) (txns : list otxn)
| ShownErr (e : nerr) (entry : nat)
| ShownPanic (entry : nat).
Definition shown (r : nres nstate * nat) : nshown :=
  match r with
  | (NOk st, _) => ShownOk (s_bal (n_book st)) (s_txns (n_book st))
  | (NErr e, i) => ShownErr e i
  | (NPanic, i) => ShownPanic i
  end.
