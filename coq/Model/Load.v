(* Model of core/src/load.rs: Loader::load_impl over an abstract file system.  Definitions only.

   A path is the list of its components after the root ("/a/b/c.ledger" = [a; b; c.ledger]);
   before canonicalisation it may hold ".." components.  A file system is an association list
   from canonical paths to contents (FakeFileSystem's HashMap<PathBuf, Vec<u8>>; on the real
   file system: the regular files below the scratch root).  A content is the sequence of its
   parsed entries, abstracted to `Inc written_path` (an include directive) or `Ent id` (any
   other entry, identified by a number).  Names and written paths are strings of Unicode scalar
   values.  `loadc` is load_impl as it is (with the stack of files being loaded that repaired F6:
   an include cycle is LoadError::IncludeCycle); `load` is the same without that check, the
   cycle-free core most lemmas are stated about (Proofs/LoadCycle.v: the two agree on every
   load that ends normally).  Both recurse on explicit fuel and answer OutOfFuel when it runs out. *)
From Coq Require Import List NArith Bool.
From Okv Require Import Model.Glob.
Import ListNotations.
Open Scope N_scope.

Definition name := str.
Definition path := list name.

Inductive entry := Inc (written : str) | Ent (id : N).
Definition fsys := list (path * list entry).

(* ---------- paths ---------- *)

Fixpoint str_eqb (a b : str) : bool :=
  match a, b with
  | [], [] => true
  | x :: a', y :: b' => (x =? y) && str_eqb a' b'
  | _, _ => false
  end.

Fixpoint path_eqb (a b : path) : bool :=
  match a, b with
  | [], [] => true
  | x :: a', y :: b' => str_eqb x y && path_eqb a' b'
  | _, _ => false
  end.

(* split on '/' : the current component is accumulated in reverse *)
Fixpoint split_slash_acc (s : str) (cur : str) : list str :=
  match s with
  | [] => [rev cur]
  | c :: r => if is_sep c then rev cur :: split_slash_acc r [] else split_slash_acc r (c :: cur)
  end.
Definition split_slash (s : str) : list str := split_slash_acc s [].

Definition is_dot (c : str) : bool := str_eqb c [DOT].
Definition is_dotdot (c : str) : bool := str_eqb c [DOT; DOT].

(* Path::components of an absolute path, or of a relative path about to be pushed onto one:
   empty components (repeated or trailing separators) and "." components disappear *)
Definition components (s : str) : path :=
  filter (fun c => negb (match c with [] => true | _ => false end) && negb (is_dot c)) (split_slash s).

Definition is_absolute (s : str) : bool :=
  match s with c :: _ => is_sep c | [] => false end.

(* PathBuf::join: an absolute argument replaces the receiver *)
Definition join (dir : path) (written : str) : path :=
  if is_absolute written then components written else dir ++ components written.

(* FakeFileSystem::canonicalize_path: "." dropped, ".." pops (at the root: stays), else push.
   (ProdFileSystem: std::fs::canonicalize; the same function when there are no symlinks.) *)
Fixpoint canon_acc (p : path) (acc : path) : path :=   (* acc: reversed *)
  match p with
  | [] => rev acc
  | c :: r =>
      if is_dot c then canon_acc r acc
      else if is_dotdot c then canon_acc r (match acc with [] => [] | _ :: a => a end)
      else canon_acc r (c :: acc)
  end.
Definition canonicalize (p : path) : path := canon_acc p [].

(* Path::parent of a canonical absolute path: None for the root *)
Definition parent (p : path) : option path :=
  match p with [] => None | _ => Some (removelast p) end.

(* the path as a string: "/" for the root, else "/" before every component *)
Definition path_string (p : path) : str :=
  match p with [] => [SLASH] | _ => flat_map (fun c => SLASH :: c) p end.

(* ---------- PathBuf ordering: component-wise, components by bytes (= by scalar value) ---------- *)

Fixpoint str_cmp (a b : str) : comparison :=
  match a, b with
  | [], [] => Eq
  | [], _ :: _ => Lt
  | _ :: _, [] => Gt
  | x :: a', y :: b' => match x ?= y with Eq => str_cmp a' b' | c => c end
  end.

Fixpoint path_cmp (a b : path) : comparison :=
  match a, b with
  | [], [] => Eq
  | [], _ :: _ => Lt
  | _ :: _, [] => Gt
  | x :: a', y :: b' => match str_cmp x y with Eq => path_cmp a' b' | c => c end
  end.

Definition path_leb (a b : path) : bool := match path_cmp a b with Gt => false | _ => true end.

(* paths.sort_unstable(): no two equal paths occur (HashMap keys), so stability is immaterial *)
Fixpoint insert_path (x : path) (l : list path) : list path :=
  match l with
  | [] => [x]
  | y :: r => if path_leb x y then x :: l else y :: insert_path x r
  end.
Definition sort_paths (l : list path) : list path := fold_right insert_path [] l.

(* ---------- the loader ---------- *)

Fixpoint lookup (p : path) (fs : fsys) : option (list entry) :=
  match fs with
  | [] => None
  | (k, c) :: r => if path_eqb k p then Some c else lookup p r
  end.

Inductive lerr :=
| IONotFound          (* LoadError::IO(kind NotFound): missing file, or a glob that hits nothing *)
| RootLoadingPath     (* the including path has no parent *)
| IncludeCycle        (* the file is already being loaded *)
| InvalidIncludeGlob  (* LoadError::InvalidIncludeGlob(PatternError): a `[` that is never closed *)
| Unsupported.        (* pattern outside the model (a recursive wildcard) *)

Inductive status := Done | Failed (e : lerr) | OutOfFuel.

(* what the callback saw, in order, and how the load ended *)
Definition run := (list (path * N) * status)%type.

Definition then_ (a b : run) : run :=
  match snd a with
  | Done => (fst a ++ fst b, snd b)
  | _ => a
  end.

(* FileSystem::glob on the canonical pattern, then the loader's sort *)
Definition glob_keys (fs : fsys) (ts : list token) : list path :=
  filter (fun k => matches_with ts (path_string k)) (map fst fs).

(* the include arm up to the recursive calls: which files, in which order *)
Definition include_targets (fs : fsys) (cp : path) (written : str) : lerr + list path :=
  match parent cp with
  | None => inl RootLoadingPath
  | Some dir =>
      match parse_pattern (path_string (canonicalize (join dir written))) with
      | Recursive => inl Unsupported
      | PatternError => inl InvalidIncludeGlob      (* self.filesystem.glob(&target)? *)
      | Tokens ts =>
          match sort_paths (glob_keys fs ts) with
          | [] => inl IONotFound
          | ps => inr ps
          end
      end
  end.

Definition load_all (ld : path -> run) (ps : list path) : run :=
  fold_right (fun p acc => then_ (ld p) acc) ([], Done) ps.

(* the for loop over the parsed entries of the file at canonical path cp; ld = the recursive call *)
Fixpoint load_entries (ld : path -> run) (fs : fsys) (cp : path) (es : list entry) : run :=
  match es with
  | [] => ([], Done)
  | Ent id :: r => then_ ([(cp, id)], Done) (load_entries ld fs cp r)
  | Inc w :: r =>
      match include_targets fs cp w with
      | inl e => ([], Failed e)
      | inr ps => then_ (load_all ld ps) (load_entries ld fs cp r)
      end
  end.

Fixpoint load (fuel : nat) (fs : fsys) (p : path) : run :=
  match fuel with
  | O => ([], OutOfFuel)
  | S f =>
      let cp := canonicalize p in
      match lookup cp fs with
      | None => ([], Failed IONotFound)
      | Some content => load_entries (load f fs) fs cp content
      end
  end.

(* load_impl with `loading`, the canonical paths of the files being loaded (root first in the
   Rust Vec; a list here, only membership matters) *)
Fixpoint loadc (fuel : nat) (fs : fsys) (loading : list path) (p : path) : run :=
  match fuel with
  | O => ([], OutOfFuel)
  | S f =>
      let cp := canonicalize p in
      if existsb (path_eqb cp) loading then ([], Failed IncludeCycle)
      else
        match lookup cp fs with
        | None => ([], Failed IONotFound)
        | Some content => load_entries (loadc f fs (cp :: loading)) fs cp content
        end
  end.
