(* Model of core/src/parse/character.rs, primitive.rs and expr.rs (as repaired by the F7
   "fix:" commit: nesting depth of parenthesised expressions is bounded by MAX_EXPR_DEPTH, and
   by the C06-F23 "fix:" commit: the height of the syntax tree is bounded by MAX_EXPR_HEIGHT,
   which also bounds the length of a chain of operators).  Definitions only. *)
From Coq Require Import List NArith ZArith Bool.
From Okv Require Import Model.Lit Model.Syntax Model.Comb.
Import ListNotations.
Open Scope N_scope.

(* ---- character.rs ---- *)
Definition line_ending : parser (list N) := alt (literal [10]) (literal [13; 10]).
Definition line_ending_or_semi : parser (list N) := alt line_ending (literal [59]).
Definition line_ending_or_eof : parser unit := alt (void line_ending) eof.

(* ascii::till_line_ending: everything up to the first \r or \n (or the end); a \r that is
   not followed by \n is an error reported AT that \r *)
Definition till_line_ending : parser (list N) :=
  fun i => let (a, b) := span_while (fun c => negb (is_nl c)) i in
           match b with
           | 13 :: 10 :: _ => POk a b
           | 13 :: _ => PErr false 0 b
           | _ => POk a b
           end.

Definition paren {A} (p : parser A) : parser A := delimited (chr 40) p (chr 41).
Definition paren_str : parser (list N) := paren (take_till0 (N.eqb 41)).

(* ---- primitive.rs ---- *)
Definition is_decimal_char (c : N) : bool := is_digit c || (c =? 44) || (c =? 46).

(* the number token: an optional leading minus, then the maximal run of [0-9,.]; not empty *)
Definition decimal_token : parser (list N) :=
  try_map (taken (opt (chr 45) ;;; take_while0 is_decimal_char))
          (fun s => match s with [] => None | _ => Some s end).

Definition pretty_decimal : parser pdec :=
  try_map decimal_token
          (fun s => match scan s with SOk d => Some d | SErr _ => None end).

(* b" \t\r\n0123456789.,;:?!-+*/^&|=<>[](){}@" *)
Definition non_commodity_chars : list N :=
  [32; 9; 13; 10; 48; 49; 50; 51; 52; 53; 54; 55; 56; 57; 46; 44; 59; 58; 63; 33; 45; 43; 42; 47;
   94; 38; 124; 61; 60; 62; 91; 93; 40; 41; 123; 125; 64].
Definition is_non_commodity (c : N) : bool := mem c non_commodity_chars.
Definition commodity : parser (list N) := take_till0 is_non_commodity.

(* digits (ASCII) to a number *)
Definition digits_val (s : list N) : N := fold_left (fun acc c => acc * 10 + (c - 48)) s 0.

Definition is_leap (y : N) : bool :=
  ((y mod 4 =? 0) && negb (y mod 100 =? 0)) || (y mod 400 =? 0).
Definition days_in_month (y m : N) : N :=
  match m with
  | 1 | 3 | 5 | 7 | 8 | 10 | 12 => 31
  | 4 | 6 | 9 | 11 => 30
  | 2 => if is_leap y then 29 else 28
  | _ => 0
  end.

(* NaiveDate::parse_from_str(s, "%Y/%m/%d" | "%F") on  digit+ sep digit+ sep digit+ :
   %Y without sign takes at most 4 digits, %m and %d at most 2, then the separator (resp. the
   end of the text) must follow; month 1..12, day valid in the proleptic Gregorian calendar *)
Definition chrono_date (y m d : list N) : option date :=
  if ((length y <=? 4) && (length m <=? 2) && (length d <=? 2))%nat then
    let yv := digits_val y in let mv := digits_val m in let dv := digits_val d in
    if (1 <=? mv) && (mv <=? 12) && (1 <=? dv) && (dv <=? days_in_month yv mv)
    then Some {| d_year := Z.of_N yv; d_month := mv; d_day := dv |}
    else None
  else None.

Definition date_with (sep : N) : parser (list N * list N * list N) :=
  y <- digit1 ;; chr sep ;;; m <- digit1 ;; chr sep ;;; d <- digit1 ;; ret (y, m, d).
Definition date : parser date :=
  try_map (alt (date_with 47) (date_with 45))
          (fun t => match t with (y, m, d) => chrono_date y m d end).

(* ---- expr.rs ---- *)
Definition amount : parser s_amount :=
  v <- terminated pretty_decimal space0 ;; c <- commodity ;;
  ret {| sa_value := v; sa_commodity := c |}.

Definition add_op : parser s_binop :=
  alt (chr 43 ;;; ret SAdd) (chr 45 ;;; ret SSub).
Definition mul_op : parser s_binop :=
  alt (chr 42 ;;; ret SMul) (chr 47 ;;; ret SDiv).

(* MAX_EXPR_DEPTH, MAX_EXPR_HEIGHT of expr.rs *)
Definition max_expr_depth : nat := 100.
Definition max_expr_height : nat := 256.

(* taller(height): the height of a tree with a child of that height, None when such a tree
   would be taller than MAX_EXPR_HEIGHT *)
Definition taller (height : nat) : option nat :=
  if (height <? max_expr_height)%nat then Some (S height) else None.

(* The parsers of expressions return the tree WITH the height of the tree (usize in expr.rs;
   it is at most MAX_EXPR_HEIGHT, so it never wraps). *)

(* infixl: the loop written out in expr.rs (it replaced winnow's separated_foldl1).  After
   the first operand: read  space0 operator space0  and one more operand; a Backtrack of
   either ends the chain in front of the separator (reset to `start`); when the folded tree
   would be too tall, reset to `start` and fail there with a Backtrack error without a label
   (ParserError::from_input).  No "must consume" assertion: it is not in the code. *)
Fixpoint infixl_loop (fuel : nat) (op : parser s_binop) (operand : parser (s_expr * nat))
         (lhs : s_expr) (height : nat) (i : list N) : presult (s_expr * nat) :=
  match delimited space0 op space0 i with
  | PErr false _ _ => POk (lhs, height) i
  | PErr true l r => PErr true l r
  | PPanic w => PPanic w
  | PFuel => PFuel
  | POk o r =>
      match operand r with
      | PErr false _ _ => POk (lhs, height) i
      | PErr true l r' => PErr true l r'
      | PPanic w => PPanic w
      | PFuel => PFuel
      | POk (rhs, rhs_height) r' =>
          match taller (Nat.max height rhs_height) with
          | None => PErr false 0 i
          | Some h =>
              match fuel with
              | O => PFuel
              | S n => infixl_loop n op operand (SBinary o lhs rhs) h r'
              end
          end
      end
  end.
Definition infixl (fuel : nat) (op : parser s_binop) (operand : parser (s_expr * nat))
  : parser (s_expr * nat) :=
  fun i => match operand i with
           | POk (lhs, height) r => infixl_loop fuel op operand lhs height r
           | x => x
           end.

(* negate_expr / unary_expr over a given nested_value_expr; `verify_map` = try_map: when the
   negation would be too tall the stream is reset to the minus sign *)
Definition negate_expr (ve : parser (s_vexpr * nat)) : parser (s_expr * nat) :=
  try_map (preceded (chr 45) ve)
          (fun vh => match taller (snd vh) with
                     | Some h => Some (SUnaryNeg (SValue (fst vh)), h)
                     | None => None
                     end).
Definition unary_expr (ve : parser (s_vexpr * nat)) : parser (s_expr * nat) :=
  fun i => match i with
           | [] => PErr false 0 i
           | c :: _ => if c =? 45 then negate_expr ve i
                       else pmap (fun vh => (SValue (fst vh), snd vh)) ve i
           end.

(* nested_value_expr with d levels of parentheses still allowed (expr.rs counts the depth
   upwards from 0 to MAX_EXPR_DEPTH); paren_expr: `verify_map` resets to the "(" when the
   parenthesised tree would be too tall *)
Fixpoint nested_value_expr (fuel : nat) (d : nat) : parser (s_vexpr * nat) :=
  fun i =>
    match i with
    | [] => PErr false 0 i
    | c :: _ =>
        if c =? 40 then
          match d with
          | O => PErr false 0 i
          | S d' =>
              let add := infixl fuel add_op
                           (infixl fuel mul_op (unary_expr (nested_value_expr fuel d'))) in
              try_map (paren (delimited space0 add space0))
                      (fun eh => match taller (snd eh) with
                                 | Some h => Some (SParen (fst eh), h)
                                 | None => None
                                 end) i
          end
        else pmap (fun a => (SAmount a, 1%nat)) amount i
    end.

(* value_expr: nested_value_expr(input, 0).map(|(ve, _height)| ve) *)
Definition value_expr (fuel : nat) : parser s_vexpr := pmap fst (nested_value_expr fuel max_expr_depth).

(* nesting depth actually used by a parsed expression *)
Fixpoint vexpr_depth (v : s_vexpr) : nat :=
  match v with
  | SParen e => S (expr_depth e)
  | SAmount _ => O
  end
with expr_depth (e : s_expr) : nat :=
  match e with
  | SUnaryNeg e => expr_depth e
  | SBinary _ l r => Nat.max (expr_depth l) (expr_depth r)
  | SValue v => vexpr_depth v
  end.

(* height of the syntax tree, as expr.rs counts it: an amount is 1; parentheses, a negation
   and an operator add 1 to their tallest operand.  The recursion depth of evaluation
   (report/eval.rs), printing (syntax/display.rs) and Drop is proportional to it. *)
Fixpoint vexpr_height (v : s_vexpr) : nat :=
  match v with
  | SParen e => S (expr_height e)
  | SAmount _ => 1
  end
with expr_height (e : s_expr) : nat :=
  match e with
  | SUnaryNeg e => S (expr_height e)
  | SBinary _ l r => S (Nat.max (expr_height l) (expr_height r))
  | SValue v => vexpr_height v
  end.
