//! Observation of okane_core::parse::parse_ledger (Tracking decoration, so that tracked spans
//! are observed too) and FormatOptions::format, serialised as Coq terms over Model/Syntax.v
//! and Model/ParseLedger.v.
use crate::coq;
use okane_core::parse::{parse_ledger, ParseOptions};
use okane_core::syntax::decoration::AsUndecorated;
use okane_core::syntax::pretty_decimal::{Format, PrettyDecimal};
use okane_core::syntax::tracked::{Tracked, Tracking};
use okane_core::syntax::{self, expr};
use serde_json::{json, Value};

/// text as code points: `(mk_text len [words])`
pub fn text(s: &str) -> String {
    if s.is_empty() {
        return "[]".to_string();
    }
    coq::packed(s.as_bytes()).replacen("mk_packed", "mk_text", 1)
}

fn span_of<T>(t: &Tracked<T>) -> (usize, usize) {
    // TrackedSpan's range is crate-private; its Debug form is `TrackedSpan(a..b)`
    let d = format!("{:?}", t.span());
    let inner = d.trim_start_matches("TrackedSpan(").trim_end_matches(')');
    let mut it = inner.split("..");
    let a = it.next().unwrap().parse().unwrap();
    let b = it.next().unwrap().parse().unwrap();
    (a, b)
}

fn sp(s: (usize, usize)) -> String {
    format!("({},{})", s.0, s.1)
}
fn osp(s: Option<(usize, usize)>) -> String {
    match s {
        Some(s) => format!("(Some {})", sp(s)),
        None => "None".into(),
    }
}

pub fn pdec(p: &PrettyDecimal) -> String {
    let v = p.value;
    format!(
        "{{| neg := {}; mant := {}; scale := {}%nat; pfmt := {} |}}",
        coq::bool_(v.is_sign_negative()),
        v.mantissa().unsigned_abs(),
        v.scale(),
        match p.format {
            None => "None",
            Some(Format::Plain) => "Some Plain",
            Some(Format::Comma3Dot) => "Some Comma3Dot",
            #[allow(unreachable_patterns)]
            Some(_) => "None",
        }
    )
}

fn date(d: &chrono::NaiveDate) -> String {
    use chrono::Datelike;
    format!("{{| d_year := {}; d_month := {}; d_day := {} |}}", coq::z(d.year() as i128), d.month(), d.day())
}

fn amount(a: &expr::Amount) -> String {
    format!("{{| sa_value := {}; sa_commodity := {} |}}", pdec(&a.value), text(&a.commodity))
}

fn vexpr(v: &expr::ValueExpr) -> String {
    match v {
        expr::ValueExpr::Paren(e) => format!("(SParen {})", ex(e)),
        expr::ValueExpr::Amount(a) => format!("(SAmount {})", amount(a)),
    }
}

fn ex(e: &expr::Expr) -> String {
    match e {
        expr::Expr::Unary(u) => format!("(SUnaryNeg {})", ex(&u.expr)),
        expr::Expr::Binary(b) => format!(
            "(SBinary {} {} {})",
            match b.op {
                expr::BinaryOp::Add => "SAdd",
                expr::BinaryOp::Sub => "SSub",
                expr::BinaryOp::Mul => "SMul",
                expr::BinaryOp::Div => "SDiv",
            },
            ex(&b.lhs),
            ex(&b.rhs)
        ),
        expr::Expr::Value(v) => format!("(SValue {})", vexpr(v)),
    }
}

fn exchange(x: &syntax::Exchange) -> String {
    match x {
        syntax::Exchange::Total(v) => format!("(STotal {})", vexpr(v)),
        syntax::Exchange::Rate(v) => format!("(SRate {})", vexpr(v)),
    }
}

fn clear(c: &syntax::ClearState) -> &'static str {
    match c {
        syntax::ClearState::Uncleared => "Uncleared",
        syntax::ClearState::Cleared => "Cleared",
        syntax::ClearState::Pending => "Pending",
    }
}

fn meta_value(v: &syntax::MetadataValue) -> String {
    match v {
        syntax::MetadataValue::Text(s) => format!("(MText {})", text(s)),
        syntax::MetadataValue::Expr(s) => format!("(MExpr {})", text(s)),
    }
}

fn metadata(m: &syntax::Metadata) -> String {
    match m {
        syntax::Metadata::Comment(s) => format!("(MComment {})", text(s)),
        syntax::Metadata::WordTags(ts) => format!("(MWordTags {})", coq::list(ts.iter().map(|t| text(t)))),
        syntax::Metadata::KeyValueTag { key, value } => format!("(MKeyValue {} {})", text(key), meta_value(value)),
    }
}

fn posting(p: &Tracked<syntax::tracked::Posting>) -> (String, String) {
    let ps = span_of(p);
    let p: &syntax::tracked::Posting = p.as_undecorated();
    let acc: &std::borrow::Cow<str> = p.account.as_undecorated();
    let mut am_s = None;
    let mut cost_s = None;
    let mut lp_s = None;
    let am = match &p.amount {
        None => "None".to_string(),
        Some(a) => {
            am_s = Some(span_of(&a.amount));
            let v: &expr::ValueExpr = a.amount.as_undecorated();
            let cost = match &a.cost {
                None => "None".to_string(),
                Some(c) => {
                    cost_s = Some(span_of(c));
                    let x: &syntax::Exchange = c.as_undecorated();
                    format!("(Some {})", exchange(x))
                }
            };
            let lp = match &a.lot.price {
                None => "None".to_string(),
                Some(c) => {
                    lp_s = Some(span_of(c));
                    let x: &syntax::Exchange = c.as_undecorated();
                    format!("(Some {})", exchange(x))
                }
            };
            format!(
                "(Some {{| pa_amount := {}; pa_cost := {}; pa_lot := {{| lot_price := {}; lot_date := {}; lot_note := {} |}} |}})",
                vexpr(v),
                cost,
                lp,
                coq::opt(a.lot.date.as_ref().map(date)),
                coq::opt(a.lot.note.as_ref().map(|n| text(n)))
            )
        }
    };
    let mut bal_s = None;
    let bal = match &p.balance {
        None => "None".to_string(),
        Some(b) => {
            bal_s = Some(span_of(b));
            let v: &expr::ValueExpr = b.as_undecorated();
            format!("(Some {})", vexpr(v))
        }
    };
    let term = format!(
        "{{| sp_account := {}; sp_clear := {}; sp_amount := {}; sp_balance := {}; sp_metadata := {} |}}",
        text(acc),
        clear(&p.clear_state),
        am,
        bal,
        coq::list(p.metadata.iter().map(metadata))
    );
    let spans = format!(
        "{{| a_posting := {}; a_account := {}; a_amount := {}; a_cost := {}; a_lot_price := {}; a_balance := {} |}}",
        sp(ps),
        sp(span_of(&p.account)),
        osp(am_s),
        osp(cost_s),
        osp(lp_s),
        osp(bal_s)
    );
    (term, spans)
}

/// (entry term, tracked spans term, kind tag)
fn entry(e: &syntax::tracked::LedgerEntry) -> (String, String, &'static str) {
    match e {
        syntax::LedgerEntry::Txn(t) => {
            let ps: Vec<(String, String)> = t.posts.iter().map(posting).collect();
            let term = format!(
                "(STxn {{| st_date := {}; st_edate := {}; st_clear := {}; st_code := {}; st_payee := {}; st_posts := {}; st_metadata := {} |}})",
                date(&t.date),
                coq::opt(t.effective_date.as_ref().map(date)),
                clear(&t.clear_state),
                coq::opt(t.code.as_ref().map(|c| text(c))),
                text(&t.payee),
                coq::list(ps.iter().map(|p| p.0.clone())),
                coq::list(t.metadata.iter().map(metadata))
            );
            (term, coq::list(ps.iter().map(|p| p.1.clone())), "txn")
        }
        syntax::LedgerEntry::Comment(c) => (format!("(SComment {})", text(&c.0)), "[]".into(), "comment"),
        syntax::LedgerEntry::ApplyTag(a) => (
            format!("(SApplyTag {} {})", text(&a.key), coq::opt(a.value.as_ref().map(meta_value))),
            "[]".into(),
            "apply_tag",
        ),
        syntax::LedgerEntry::EndApplyTag => ("SEndApplyTag".into(), "[]".into(), "end_apply_tag"),
        syntax::LedgerEntry::Include(p) => (format!("(SInclude {})", text(&p.0)), "[]".into(), "include"),
        syntax::LedgerEntry::Account(a) => (
            format!(
                "(SAccount {} {})",
                text(&a.name),
                coq::list(a.details.iter().map(|d| match d {
                    syntax::AccountDetail::Comment(s) => format!("(ADComment {})", text(s)),
                    syntax::AccountDetail::Note(s) => format!("(ADNote {})", text(s)),
                    syntax::AccountDetail::Alias(s) => format!("(ADAlias {})", text(s)),
                }))
            ),
            "[]".into(),
            "account",
        ),
        syntax::LedgerEntry::Commodity(c) => (
            format!(
                "(SCommodity {} {})",
                text(&c.name),
                coq::list(c.details.iter().map(|d| match d {
                    syntax::CommodityDetail::Comment(s) => format!("(CDComment {})", text(s)),
                    syntax::CommodityDetail::Note(s) => format!("(CDNote {})", text(s)),
                    syntax::CommodityDetail::Alias(s) => format!("(CDAlias {})", text(s)),
                    syntax::CommodityDetail::Format(a) => format!("(CDFormat {})", amount(a)),
                }))
            ),
            "[]".into(),
            "commodity",
        ),
    }
}

#[derive(Clone, Debug)]
pub struct ErrInfo {
    pub line_start: usize,
    pub text_start: usize,
    pub span: (usize, usize),
    pub label: u32,
    pub rendered: String,
}

#[derive(Clone, Debug)]
pub struct ParseObs {
    /// Coq terms of the entries yielded before the end / the error
    pub entries: Vec<String>,
    pub kinds: Vec<&'static str>,
    pub spans: Vec<(usize, usize, usize)>, // start, end, line_start
    pub err: Option<ErrInfo>,
    /// every tracked span resolves (ParsedSpan::resolve) inside its entry
    pub resolve_ok: bool,
}

pub const LABELS: [&str; 10] = [
    "transaction date",
    "account of the posting",
    "amount of the posting",
    "balance of the posting",
    "metadata section of the posting",
    "posting of the transaction",
    "no matching syntax",
    "lot price duplicated",
    "lot date duplicated",
    "lot note duplicated",
];

fn first_int_after(s: &str, pat: &str, last: bool) -> Option<(usize, usize)> {
    let pos = if last { s.rfind(pat)? } else { s.find(pat)? };
    let rest = &s[pos + pat.len()..];
    let digits: String = rest.chars().take_while(|c| c.is_ascii_digit()).collect();
    Some((digits.parse().ok()?, pos + pat.len() + digits.len()))
}

/// parse with the real parser, stopping at the first error (as every caller does)
pub fn observe_parse(input: &str) -> ParseObs {
    let mut o = ParseObs { entries: vec![], kinds: vec![], spans: vec![], err: None, resolve_ok: true };
    let mut prev_end = 0usize;
    for r in parse_ledger::<Tracking>(&ParseOptions::default(), input) {
        match r {
            Ok((ctx, e)) => {
                let s = ctx.as_str();
                let start = s.as_ptr() as usize - input.as_ptr() as usize;
                let end = start + s.len();
                let line = ctx.compute_line_start();
                let (term, spans, kind) = entry(&e);
                // ParsedSpan::resolve on every tracked span (must not panic, must stay inside)
                if let syntax::LedgerEntry::Txn(t) = &e {
                    for p in &t.posts {
                        let r = ctx.span().resolve(&p.span());
                        if r.start > r.end || r.end > s.len() {
                            o.resolve_ok = false;
                        }
                    }
                }
                o.entries.push(format!(
                    "{{| e_span := ({},{}); e_line_start := {}; e_entry := {}; e_spans := {} |}}",
                    start, end, line, term, spans
                ));
                o.kinds.push(kind);
                o.spans.push((start, end, line));
                prev_end = end;
            }
            Err(e) => {
                let d = format!("{:?}", e);
                let (a, p) = first_int_after(&d, "error_span: ", false).unwrap_or((usize::MAX, 0));
                let b = first_int_after(&d[p..], "..", false).map(|x| x.0).unwrap_or(usize::MAX);
                let line = first_int_after(&d, "line_start: ", true).map(|x| x.0).unwrap_or(usize::MAX);
                let rendered = e.to_string();
                let first = rendered.lines().next().unwrap_or("");
                let label = LABELS
                    .iter()
                    .position(|l| first == format!("error: invalid {}", l))
                    .map(|k| k as u32 + 1)
                    .unwrap_or(0);
                o.err = Some(ErrInfo { line_start: line, text_start: prev_end, span: (a, b), label, rendered });
                break;
            }
        }
    }
    o
}

pub fn entries_term(o: &ParseObs) -> String {
    coq::list(o.entries.iter().cloned())
}

pub fn obs_term(o: &ParseObs) -> String {
    match &o.err {
        None => format!("(OOk {})", entries_term(o)),
        Some(e) => format!(
            "(OErr {} {} {} {} {} {})",
            entries_term(o),
            e.line_start,
            e.text_start,
            e.span.0,
            e.span.1,
            e.label
        ),
    }
}

pub fn obs_json(o: &ParseObs) -> Value {
    match &o.err {
        None => json!({"ok": {"entries": o.kinds, "spans": o.spans}}),
        Some(e) => json!({"err": {"entries_before": o.kinds, "line_start": e.line_start, "text_start": e.text_start,
                                   "error_span": [e.span.0, e.span.1], "rendered": e.rendered}}),
    }
}

/// FormatOptions::new().format
pub fn format(input: &str) -> Result<String, String> {
    let mut out: Vec<u8> = Vec::new();
    let mut r = input.as_bytes();
    match okane_core::format::FormatOptions::new().format(&mut r, &mut out) {
        Ok(()) => Ok(String::from_utf8_lossy(&out).into_owned()),
        Err(e) => Err(format!("{}", e)),
    }
}
