(* C13: `balance -X` with every early-exit walk in key order (Model/CanonState.v
   balance_query_keyed - what the code does since 170c38c and 0b7772d, and what the C13
   correspondence compares a failing run with).  For two states that differ only in the
   iteration order of their maps the result is the same printed report, or the SAME error:
   which missing rate is named is a function of the contents and of the file order. *)
From Coq Require Import List NArith ZArith Bool QArith Qcanon.
From Okv Require Import Base.Maps Base.Dec Model.Amount Model.Book Model.Query Model.Render
     Model.PriceDb Model.Convert Model.OrderSpec Model.CanonState
     Proofs.MapsSort Proofs.RenderProofs Proofs.OrderMaps Proofs.OrderAmount Proofs.OrderBook Proofs.OrderReports Proofs.OrderConvert.
Import ListNotations.

Lemma canon_bal_equiv b b' : bal_equiv b b' -> canon_bal b = canon_bal b'.
Proof. exact (canon_balance_equiv b b'). Qed.

Lemma canon_posting_equiv p p' : op_equiv p p' -> canon_posting p = canon_posting p'.
Proof.
  intros [Ha [Hm Hc]]. unfold canon_posting. rewrite Ha, Hc, (sort_keys_canonical _ _ Hm). reflexivity.
Qed.

Lemma canon_txns_equiv ts ts' : Forall2 otxn_equiv ts ts' -> canon_txns ts = canon_txns ts'.
Proof.
  induction 1 as [|t t' r r' [Hd Hp] _ IH]; [reflexivity|].
  unfold canon_txns in *. cbn [map]. rewrite IH. f_equal.
  unfold canon_txn. rewrite Hd. f_equal.
  clear -Hp. induction Hp as [|p p' l l' H _ IH]; [reflexivity|].
  cbn [map]. rewrite IH, (canon_posting_equiv _ _ H). reflexivity.
Qed.

Section Keyed.
  Variables (fuel : nat) (choose : chooser) (recs : records).

  (* without a conversion the re-fold cannot fail *)
  Lemma refold_posts_plain date ps b :
    exists b', refold_posts fuel choose recs None date ps b = COk b'.
  Proof.
    revert b. induction ps as [|p r IH]; intros b; cbn [refold_posts cbind]; [eauto|apply IH].
  Qed.
  Lemma refold_txns_plain st en ts b :
    exists b', refold_txns fuel choose recs None st en ts b = COk b'.
  Proof.
    revert b. induction ts as [|t r IH]; intros b; cbn [refold_txns]; [eauto|].
    destruct (range_contains st en (o_date t)); [|apply IH].
    destruct (refold_posts_plain (o_date t) (o_posts t) b) as [b1 E]. rewrite E. cbn [cbind]. apply IH.
  Qed.

  Theorem balance_query_keyed_deterministic s s' cv st en : st_equiv s s' ->
    conv_printed (balance_query_keyed fuel choose recs s cv st en) =
    conv_printed (balance_query_keyed fuel choose recs s' cv st en).
  Proof.
    intros [Hb Hf He Ht].
    assert (Hfmt : sort_keys (s_fmt s) = sort_keys (s_fmt s')) by (apply sort_keys_canonical, Hf).
    assert (Hbal : canon_bal (s_bal s) = canon_bal (s_bal s')) by (apply canon_bal_equiv, Hb).
    assert (Htx : canon_txns (s_txns s) = canon_txns (s_txns s')) by (apply canon_txns_equiv, Ht).
    assert (Hgen : forall cv0, balance_query fuel choose recs (canon_state s) cv0 st en =
                               balance_query fuel choose recs (canon_state s') cv0 st en).
    { intros cv0. unfold balance_query, canon_state. cbn [s_bal s_fmt s_txns].
      rewrite Hfmt, Hbal, Htx. reflexivity. }
    unfold balance_query_keyed.
    destruct cv as [[[|now] target]|]; try (rewrite Hgen; reflexivity).
    (* up-to-date: the balance that is converted, then the accounts in key order *)
    set (cv := Some {| cv_strategy := UpToDate now; cv_target := target |}).
    assert (Hfirst : exists b b',
      (if negb (require_recompute cv st en) then COk (s_bal s)
       else refold_txns fuel choose recs None st en (s_txns s) []) = COk b /\
      (if negb (require_recompute cv st en) then COk (s_bal s')
       else refold_txns fuel choose recs None st en (s_txns s') []) = COk b' /\
      bal_equiv b b').
    { destruct (negb (require_recompute cv st en)); [eauto|].
      destruct (refold_txns_plain st en (s_txns s) []) as [b E].
      destruct (refold_txns_plain st en (s_txns s') []) as [b' E'].
      exists b, b'. split; [exact E|]. split; [exact E'|].
      pose proof (refold_txns_equiv fuel fuel choose choose recs recs (fun _ _ _ _ => eq_refl)
                    None st en (s_txns s) (s_txns s') Ht [] [] bal_equiv_nil) as HR.
      rewrite E, E' in HR. exact HR. }
    destruct Hfirst as (b & b' & E & E' & Hbb). rewrite E, E'. cbn [cbind].
    rewrite (canon_bal_equiv _ _ Hbb).
    destruct (convert_accounts fuel choose recs target now (canon_bal b') []) as [x| |];
      cbn [cbind conv_printed]; try reflexivity.
    (* the same converted balance, rounded with formats that differ only in order *)
    f_equal. f_equal. unfold bal_round. apply map_ext. intros p. f_equal.
    apply a_round_fmt. intros k. apply (map_equiv_get _ _ k Hf).
  Qed.
End Keyed.

(* two orders of the same state: three accounts hold commodities without a rate into 9.  Walking
   the maps as they come names different missing rates; walking them in key order names the
   same one (account 0, commodity 3) *)
Module KeyedExample.
  Open Scope Qc_scope.
  Definition one : Qc := of_dec 1 0.
  Definition s1 : bstate :=
    {| s_bal := [(1%N, [(2%N, one); (1%N, one)]); (0%N, [(4%N, one); (3%N, one)]); (5%N, [(7%N, one)])];
       s_fmt := []; s_events := []; s_txns := [] |}.
  Definition s2 : bstate :=
    {| s_bal := [(5%N, [(7%N, one)]); (0%N, [(3%N, one); (4%N, one)]); (1%N, [(1%N, one); (2%N, one)])];
       s_fmt := []; s_events := []; s_txns := [] |}.
  Definition cv := Some {| cv_strategy := UpToDate 5; cv_target := 9%N |}.
  Definition recs := repository [] [].

  Example unkeyed_differs :
    balance_query 8 choose_max recs s1 cv None None = CErr (RateNotFound 2 one 9 5) /\
    balance_query 8 choose_max recs s2 cv None None = CErr (RateNotFound 7 one 9 5).
  Proof. split; vm_compute; reflexivity. Qed.

  Example keyed_same :
    balance_query_keyed 8 choose_max recs s1 cv None None = CErr (RateNotFound 3 one 9 5) /\
    balance_query_keyed 8 choose_max recs s2 cv None None = CErr (RateNotFound 3 one 9 5).
  Proof. split; vm_compute; reflexivity. Qed.
End KeyedExample.
