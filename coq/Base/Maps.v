(* Finite maps with an unspecified iteration order: duplicate-free association lists over
   N keys.  The list order is the iteration order of the Rust HashMap it stands for. *)
From Coq Require Import List NArith Bool.
Import ListNotations.
Open Scope N_scope.

Section Maps.
  Context {V : Type}.
  Definition amap := list (N * V).

  Fixpoint get (k : N) (m : amap) : option V :=
    match m with
    | [] => None
    | (k', v) :: r => if k' =? k then Some v else get k r
    end.

  (* replace in place when present, append otherwise *)
  Fixpoint set (k : N) (v : V) (m : amap) : amap :=
    match m with
    | [] => [(k, v)]
    | (k', v') :: r => if k' =? k then (k, v) :: r else (k', v') :: set k v r
    end.

  Fixpoint remove (k : N) (m : amap) : amap :=
    match m with
    | [] => []
    | (k', v') :: r => if k' =? k then r else (k', v') :: remove k r
    end.

  Definition keys (m : amap) : list N := map fst m.
  Definition mem (k : N) (m : amap) : bool := match get k m with Some _ => true | None => false end.
End Maps.
Arguments amap V : clear implicits.

(* insertion sort by key: the canonical presentation used when comparing with the implementation *)
Section Sort.
  Context {V : Type}.
  Fixpoint insert_sorted (k : N) (v : V) (m : amap V) : amap V :=
    match m with
    | [] => [(k, v)]
    | (k', v') :: r => if k <=? k' then (k, v) :: m else (k', v') :: insert_sorted k v r
    end.
  Definition sort_keys (m : amap V) : amap V :=
    fold_right (fun p acc => insert_sorted (fst p) (snd p) acc) [] m.
End Sort.
