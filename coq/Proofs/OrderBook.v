(* C13: the book-keeping run is a function of the map contents.  A simulation: equivalent states
   (Model/OrderSpec.v) are taken by every function of Model/Book.v to equivalent results. *)
From Coq Require Import List NArith ZArith Bool QArith Qcanon Lia Permutation.
From Okv Require Import Base.Maps Base.Dec Model.Amount Model.Book Model.Query Model.Render Model.OrderSpec
     Proofs.MapsSort Proofs.RenderProofs Proofs.BookA_Maps Proofs.BookA_Amount Proofs.OrderMaps Proofs.OrderAmount.
Import ListNotations.
Open Scope Qc_scope.

(* ---- Forall2 helpers ---- *)
Lemma Forall2_refl_in {A} (R : A -> A -> Prop) l : (forall x, In x l -> R x x) -> Forall2 R l l.
Proof. induction l; intros H; constructor; [apply H; left; reflexivity|apply IHl; intros; apply H; right; assumption]. Qed.

Lemma Forall2_sym {A} (R : A -> A -> Prop) l l' :
  (forall x y, R x y -> R y x) -> Forall2 R l l' -> Forall2 R l' l.
Proof. intros HS. induction 1; constructor; auto. Qed.

Lemma Forall2_trans {A} (R : A -> A -> Prop) l1 l2 l3 :
  (forall x y z, R x y -> R y z -> R x z) -> Forall2 R l1 l2 -> Forall2 R l2 l3 -> Forall2 R l1 l3.
Proof.
  intros HT H. revert l3. induction H; intros l3 H3; inversion H3; subst; constructor; eauto.
Qed.

Lemma Forall2_rev {A B} (R : A -> B -> Prop) l l' : Forall2 R l l' -> Forall2 R (rev l) (rev l').
Proof.
  induction 1; cbn [rev]; [constructor|]. apply Forall2_app; [assumption|]. constructor; [assumption|constructor].
Qed.

Lemma Forall2_map2 {A B C D} (R : A -> B -> Prop) (S : C -> D -> Prop) f g l l' :
  (forall x y, R x y -> S (f x) (g y)) -> Forall2 R l l' -> Forall2 S (map f l) (map g l').
Proof. intros H. induction 1; cbn [map]; constructor; auto. Qed.

Lemma Forall2_set_nth {A} (R : A -> A -> Prop) f g : (forall x y, R x y -> R (f x) (g y)) ->
  forall l l' u, Forall2 R l l' -> Forall2 R (set_nth u f l) (set_nth u g l').
Proof.
  intros H l l' u HF. revert u. induction HF; intros u; destruct u; cbn [set_nth]; constructor; auto.
Qed.

Lemma Forall2_nth_error {A B} (R : A -> B -> Prop) l l' u : Forall2 R l l' ->
  match nth_error l u, nth_error l' u with
  | Some x, Some y => R x y
  | None, None => True
  | _, _ => False
  end.
Proof.
  intros HF. revert u. induction HF; intros [|u]; cbn [nth_error]; auto.
  apply IHHF.
Qed.

Lemma Forall2_flat_map {A B C D} (R : A -> B -> Prop) (S : C -> D -> Prop) f g l l' :
  (forall x y, R x y -> Forall2 S (f x) (g y)) -> Forall2 R l l' -> Forall2 S (flat_map f l) (flat_map g l').
Proof. intros H. induction 1; cbn [flat_map]; [constructor|]. apply Forall2_app; auto. Qed.

Lemma Forall2_filter {A B} (R : A -> B -> Prop) f g l l' :
  (forall x y, R x y -> f x = g y) -> Forall2 R l l' -> Forall2 R (filter f l) (filter g l').
Proof.
  intros H. induction 1; cbn [filter]; [constructor|].
  rewrite (H _ _ H0). destruct (g y); [constructor|]; assumption.
Qed.

Lemma fold_left_rel {A A' B B'} (P : A -> A' -> Prop) (R : B -> B' -> Prop) f f' l l' :
  (forall a a' x x', P a a' -> R x x' -> P (f a x) (f' a' x')) ->
  Forall2 R l l' -> forall a a', P a a' -> P (fold_left f l a) (fold_left f' l' a').
Proof. intros H. induction 1; intros a a' HP; cbn [fold_left]; auto. Qed.

(* ---- equivalences ---- *)
Lemma op_equiv_sym p p' : op_equiv p p' -> op_equiv p' p.
Proof. intros [A [B C]]. split; [auto|split; [apply map_equiv_sym, B|auto]]. Qed.
Lemma op_equiv_trans p q r : op_equiv p q -> op_equiv q r -> op_equiv p r.
Proof.
  intros [A [B C]] [A' [B' C']]. split; [congruence|split; [eapply map_equiv_trans; eauto|congruence]].
Qed.
Lemma op_equiv_refl p : NoDup (keys (o_amount p)) -> op_equiv p p.
Proof. intros H. split; [reflexivity|split; [apply map_equiv_refl, H|reflexivity]]. Qed.

Lemma otxn_equiv_sym t t' : otxn_equiv t t' -> otxn_equiv t' t.
Proof. intros [A B]. split; [auto|]. apply Forall2_sym; [apply op_equiv_sym|exact B]. Qed.
Lemma otxn_equiv_trans t u v : otxn_equiv t u -> otxn_equiv u v -> otxn_equiv t v.
Proof.
  intros [A B] [A' B']. split; [congruence|]. eapply Forall2_trans; [apply op_equiv_trans| |]; eauto.
Qed.

Lemma ev_swap_invol e : ev_swap (ev_swap e) = e.
Proof. destruct e; reflexivity. Qed.
Lemma ev_equiv_refl e : ev_equiv e e.
Proof. left; reflexivity. Qed.
Lemma ev_equiv_sym e e' : ev_equiv e e' -> ev_equiv e' e.
Proof.
  intros [->|[-> H]]; [left; reflexivity|right]. rewrite ev_swap_invol. split; [reflexivity|].
  destruct e; cbn in *. auto.
Qed.
Lemma ev_equiv_trans a b c : ev_equiv a b -> ev_equiv b c -> ev_equiv a c.
Proof.
  intros [->|[-> H]] [->|[-> H']]; [left; reflexivity|right; auto|right; auto|left].
  rewrite ev_swap_invol. reflexivity.
Qed.
Lemma evs_equiv_refl l : Forall2 ev_equiv l l.
Proof. apply Forall2_refl_in. intros; apply ev_equiv_refl. Qed.

Lemma bal_equiv_sym b b' : bal_equiv b b' -> bal_equiv b' b.
Proof.
  intros [A [B C]]. split; [exact B|split; [exact A|]]. intros a. specialize (C a).
  destruct (get a b), (get a b'); try contradiction; [apply map_equiv_sym, C|exact I].
Qed.
Lemma bal_equiv_trans b1 b2 b3 : bal_equiv b1 b2 -> bal_equiv b2 b3 -> bal_equiv b1 b3.
Proof.
  intros [A [_ C]] [_ [B D]]. split; [exact A|split; [exact B|]]. intros a. specialize (C a). specialize (D a).
  destruct (get a b1), (get a b2), (get a b3); try contradiction; [eapply map_equiv_trans; eauto|exact I].
Qed.
Lemma bal_equiv_nil : bal_equiv [] [].
Proof. split; [constructor|split; [constructor|]]. intros a. exact I. Qed.

Lemma st_equiv_sym s s' : st_equiv s s' -> st_equiv s' s.
Proof.
  intros [A B C D]. constructor.
  - apply bal_equiv_sym, A.
  - apply map_equiv_sym, B.
  - apply Forall2_sym; [apply ev_equiv_sym|exact C].
  - apply Forall2_sym; [apply otxn_equiv_sym|exact D].
Qed.
Lemma st_equiv_trans s1 s2 s3 : st_equiv s1 s2 -> st_equiv s2 s3 -> st_equiv s1 s3.
Proof.
  intros [A B C D] [A' B' C' D']. constructor.
  - eapply bal_equiv_trans; eauto.
  - eapply map_equiv_trans; eauto.
  - eapply Forall2_trans; [apply ev_equiv_trans| |]; eauto.
  - eapply Forall2_trans; [apply otxn_equiv_trans| |]; eauto.
Qed.
Lemma st_equiv_init : st_equiv bstate0 bstate0.
Proof. constructor; cbn; [apply bal_equiv_nil|apply map_equiv_nil|constructor|constructor]. Qed.

(* ---- errors and outcomes ---- *)
Lemma render_err_equiv e e' : err_equiv e e' -> render_err e = render_err e'.
Proof.
  destruct e, e'; cbn [err_equiv render_err]; intros H; try discriminate H; try (injection H; intros; subst); try reflexivity.
  - f_equal. apply render_amount_equiv, H.
  - destruct H as [-> [H1 H2]]. f_equal; apply render_amount_equiv; assumption.
Qed.

(* an error that carries no amount is related to itself *)
Definition plain {A} (x : outcome A) : Prop := match x with Err e => err_equiv e e | _ => True end.

Lemma out_equiv_bind {A A' B B'} (R : A -> A' -> Prop) (S : B -> B' -> Prop) x y f g :
  out_equiv R x y -> (forall a a', R a a' -> out_equiv S (f a) (g a')) ->
  out_equiv S (bind x f) (bind y g).
Proof. destruct x, y; cbn [out_equiv bind]; intros H HF; try contradiction; auto. Qed.

Lemma out_equiv_same {A B B'} (S : B -> B' -> Prop) (x : outcome A) f g :
  plain x -> (forall a, out_equiv S (f a) (g a)) -> out_equiv S (bind x f) (bind x g).
Proof. destruct x; cbn [plain out_equiv bind]; auto. Qed.

Lemma plain_lift_eval {A} (x : A + eval_err) : plain (lift_eval x).
Proof. destruct x; cbn; auto. Qed.

Lemma plain_eval_pa e : plain (eval_pa e).
Proof. apply plain_lift_eval. Qed.

Lemma plain_bind {A B} (x : outcome A) (f : A -> outcome B) : plain x -> (forall a, plain (f a)) -> plain (bind x f).
Proof. destruct x; cbn [plain bind]; auto. Qed.

Lemma plain_xchg amt x : plain (xchg_from_syntax amt x).
Proof.
  unfold xchg_from_syntax. apply plain_bind.
  - destruct x; (apply plain_bind; [apply plain_lift_eval|intros; exact I]).
  - intros r. destruct r as [c v|c v]; (destruct (qc_zero v); [reflexivity|]);
      (destruct amt as [|c' v']; [reflexivity|]); destruct (c' =? c)%N; cbn; auto.
Qed.

Lemma plain_oxchg amt (o : option exchange) :
  plain (match o with Some x => do r <- xchg_from_syntax amt x; Ok (Some r) | None => Ok None end).
Proof. destruct o; [|exact I]. apply plain_bind; [apply plain_xchg|intros; exact I]. Qed.

Lemma plain_pa_to_single p : plain (pa_to_single p).
Proof. destruct p; cbn; auto. Qed.

Lemma plain_balance_amount c : plain (balance_amount c).
Proof.
  unfold balance_amount. destruct (option_or _ _); [|exact I].
  apply plain_bind; [apply plain_pa_to_single|intros; exact I].
Qed.

Lemma plain_converted_amount c : plain (converted_amount c).
Proof.
  unfold converted_amount. destruct (option_or _ _); [|exact I].
  apply plain_bind; [apply plain_pa_to_single|intros; exact I].
Qed.

Lemma plain_price_event d c : plain (posting_price_event d c).
Proof.
  unfold posting_price_event. destruct (option_or _ _) as [x|]; [|exact I].
  destruct (c_amount c); [exact I|]. destruct x; exact I.
Qed.

(* ---- Balance ---- *)
Lemma bal_get_equiv b b' a : bal_equiv b b' -> map_equiv (bal_get b a) (bal_get b' a).
Proof.
  intros [_ [_ H]]. specialize (H a). unfold bal_get.
  destruct (get a b), (get a b'); try contradiction; [exact H|apply map_equiv_nil].
Qed.

Lemma bal_set_equiv b b' a x x' : bal_equiv b b' -> map_equiv x x' -> bal_equiv (set a x b) (set a x' b').
Proof.
  intros [A [B C]] Hx. split; [apply NoDup_keys_set, A|split; [apply NoDup_keys_set, B|]].
  intros k. rewrite !get_set. destruct (a =? k)%N; [exact Hx|apply C].
Qed.

Lemma bal_add_pa_equiv b b' a p : bal_equiv b b' ->
  bal_equiv (fst (bal_add_pa b a p)) (fst (bal_add_pa b' a p)) /\
  map_equiv (snd (bal_add_pa b a p)) (snd (bal_add_pa b' a p)).
Proof.
  intros H. unfold bal_add_pa. cbn [fst snd].
  assert (map_equiv (a_remove_zeros (a_add_pa (bal_get b a) p)) (a_remove_zeros (a_add_pa (bal_get b' a) p))) as E
    by (apply a_remove_zeros_equiv, a_add_pa_equiv, bal_get_equiv, H).
  split; [apply bal_set_equiv; assumption|exact E].
Qed.

Lemma bal_add_amount_equiv b b' a x x' :
  bal_equiv b b' -> map_equiv x x' -> bal_equiv (bal_add_amount b a x) (bal_add_amount b' a x').
Proof.
  intros H Hx. unfold bal_add_amount. apply bal_set_equiv; [exact H|].
  apply a_remove_zeros_equiv, a_add_equiv; [apply bal_get_equiv, H|exact Hx].
Qed.

Definition sp_equiv (r r' : balance * posting_amount) : Prop := bal_equiv (fst r) (fst r') /\ snd r = snd r'.

Lemma bal_set_partial_equiv b b' a p : bal_equiv b b' ->
  out_equiv sp_equiv (bal_set_partial b a p) (bal_set_partial b' a p).
Proof.
  intros H. pose proof (bal_get_equiv _ _ a H) as HG. destruct p as [|c v]; cbn [bal_set_partial].
  - rewrite (amount_to_pa_equiv _ _ HG). destruct (amount_to_pa (bal_get b' a)); cbn [out_equiv]; [|reflexivity].
    split; cbn [fst snd]; [apply bal_set_equiv; [exact H|apply map_equiv_nil]|reflexivity].
  - destruct (a_set_partial_equiv _ _ c v HG) as [E1 E2].
    destruct (a_set_partial (bal_get b a) c v) as [cur prev], (a_set_partial (bal_get b' a) c v) as [cur' prev'].
    cbn [fst snd] in *. cbn [out_equiv]. split; cbn [fst snd]; [apply bal_set_equiv; assumption|congruence].
Qed.

(* ---- process_posting ---- *)
Lemma process_posting_equiv b b' date i p : bal_equiv b b' ->
  out_equiv pp_equiv (process_posting b date i p) (process_posting b' date i p).
Proof.
  intros H. unfold process_posting. destruct (p_amount p) as [sa|], (p_balance p) as [bc|].
  - (* amount and assertion *)
    apply out_equiv_same; [apply plain_eval_pa|intros amt].
    apply out_equiv_same; [apply plain_oxchg|intros cost].
    apply out_equiv_same; [apply plain_oxchg|intros lot].
    destruct (bal_add_pa_equiv _ _ (p_account p) amt H) as [E1 E2].
    destruct (bal_add_pa b (p_account p) amt) as [b1 cur], (bal_add_pa b' (p_account p) amt) as [b1' cur'].
    cbn [fst snd] in E1, E2.
    apply (out_equiv_bind (fun _ _ : unit => True)).
    + apply out_equiv_same; [apply plain_eval_pa|intros expected].
      pose proof (assert_balance_equiv _ _ expected E2) as ED.
      rewrite (a_is_absolute_zero_equiv _ _ ED).
      destruct (a_is_absolute_zero (assert_balance cur' expected)); cbn [out_equiv err_equiv]; auto.
    + intros _ _ _.
      apply out_equiv_same; [apply plain_balance_amount|intros delta].
      apply out_equiv_same; [apply plain_converted_amount|intros conv].
      apply out_equiv_same; [apply plain_price_event|intros ev].
      cbn [out_equiv]. split; [exact E1|split; reflexivity].
  - (* amount only *)
    apply out_equiv_same; [apply plain_eval_pa|intros amt].
    apply out_equiv_same; [apply plain_oxchg|intros cost].
    apply out_equiv_same; [apply plain_oxchg|intros lot].
    destruct (bal_add_pa_equiv _ _ (p_account p) amt H) as [E1 E2].
    destruct (bal_add_pa b (p_account p) amt) as [b1 cur], (bal_add_pa b' (p_account p) amt) as [b1' cur'].
    cbn [fst snd] in E1, E2. cbn [bind].
    apply out_equiv_same; [apply plain_balance_amount|intros delta].
    apply out_equiv_same; [apply plain_converted_amount|intros conv].
    apply out_equiv_same; [apply plain_price_event|intros ev].
    cbn [out_equiv]. split; [exact E1|split; reflexivity].
  - (* balance assignment *)
    apply out_equiv_same; [apply plain_eval_pa|intros current].
    apply (out_equiv_bind sp_equiv); [apply bal_set_partial_equiv, H|].
    intros [b1 prev] [b1' prev'] [E1 E2]. cbn [fst snd] in E1, E2. subst prev'.
    apply out_equiv_same; [apply plain_lift_eval|intros amt].
    cbn [out_equiv]. split; [exact E1|split; reflexivity].
  - cbn [out_equiv]. split; [exact H|split; reflexivity].
Qed.

(* ---- the posting loop ---- *)
Lemma loop_step_equiv date acc acc' ip :
  out_equiv loop_equiv acc acc' -> out_equiv loop_equiv (loop_step date acc ip) (loop_step date acc' ip).
Proof.
  intros H. unfold loop_step. apply (out_equiv_bind loop_equiv); [exact H|].
  intros st st' [Eb [Ep [Eu [Er Ee]]]]. destruct ip as [i p].
  apply (out_equiv_bind pp_equiv); [apply process_posting_equiv, Eb|].
  intros [[b1 ep] ev] [[b1' ep'] ev'] [E1 [E2 E3]]. cbn [fst snd] in E1, E2, E3. subst ep' ev'.
  rewrite <- Ee, <- Eu. destruct ep as [e|].
  - cbn [out_equiv]. unfold loop_equiv. cbn [l_bal l_posts l_unfilled l_residual l_events].
    split; [exact E1|]. split; [|split; [reflexivity|split; [apply a_add_pa_equiv, Er|reflexivity]]].
    constructor; [|exact Ep]. split; [reflexivity|split; [apply pa_to_amount_equiv|reflexivity]].
  - destruct (l_unfilled st); cbn [out_equiv err_equiv]; [reflexivity|].
    unfold loop_equiv. cbn [l_bal l_posts l_unfilled l_residual l_events].
    split; [exact E1|]. split; [|split; [reflexivity|split; [exact Er|reflexivity]]].
    constructor; [|exact Ep]. split; [reflexivity|split; [apply map_equiv_nil|reflexivity]].
Qed.

Lemma loop_fold_equiv date l : forall acc acc',
  out_equiv loop_equiv acc acc' ->
  out_equiv loop_equiv (fold_left (loop_step date) l acc) (fold_left (loop_step date) l acc').
Proof.
  induction l as [|ip r IH]; intros acc acc' H; cbn [fold_left]; [exact H|].
  apply IH, loop_step_equiv, H.
Qed.

Lemma txn_loop_equiv s s' t : bal_equiv (s_bal s) (s_bal s') ->
  out_equiv loop_equiv (txn_loop s t) (txn_loop s' t).
Proof.
  intros H. unfold txn_loop. apply loop_fold_equiv. cbn [out_equiv].
  unfold loop_equiv. cbn [l_bal l_posts l_unfilled l_residual l_events].
  split; [exact H|]. split; [constructor|split; [reflexivity|split; [apply map_equiv_nil|reflexivity]]].
Qed.

(* ---- check_balance ---- *)
Lemma fill_converted_equiv c1 v1 c2 v2 p p' : op_equiv p p' ->
  op_equiv (fill_converted c1 v1 c2 v2 p) (fill_converted c1 v1 c2 v2 p').
Proof.
  intros [A [B C]]. unfold fill_converted. rewrite (amount_to_single_equiv _ _ B).
  destruct (amount_to_single (o_amount p')) as [[c v]|]; [|split; auto].
  destruct (c1 =? c)%N; [split; cbn; auto|]. destruct (c2 =? c)%N; split; cbn; auto.
Qed.

Lemma fill_converted_swap_equiv c1 v1 c2 v2 p p' : c1 <> c2 -> op_equiv p p' ->
  op_equiv (fill_converted c1 v1 c2 v2 p) (fill_converted c2 v2 c1 v1 p').
Proof.
  intros Hne [A [B C]]. unfold fill_converted. rewrite (amount_to_single_equiv _ _ B).
  destruct (amount_to_single (o_amount p')) as [[c v]|]; [|split; auto].
  destruct (N.eqb_spec c1 c) as [E1|E1], (N.eqb_spec c2 c) as [E2|E2]; try congruence; split; cbn; auto.
Qed.

Lemma check_balance_equiv f f' d posts posts' r r' :
  map_equiv f f' -> Forall2 op_equiv posts posts' -> map_equiv r r' ->
  out_equiv cb_equiv (check_balance f d posts r) (check_balance f' d posts' r').
Proof.
  intros Hf Hp Hr. unfold check_balance.
  pose proof (a_round_equiv _ _ _ _ Hf Hr) as HR. rewrite (a_is_zero_equiv _ _ HR).
  destruct (a_is_zero (a_round f' r')); [cbn [out_equiv]; split; [exact Hp|exact I]|].
  pose proof (a_remove_zeros_equiv _ _ HR) as HZ.
  remember (a_remove_zeros (a_round f r)) as z eqn:Ez. remember (a_remove_zeros (a_round f' r')) as z' eqn:Ez'.
  clear Ez Ez' HR.
  destruct z as [|[c1 v1] [|[c2 v2] [|x rest]]].
  - rewrite (map_equiv_nil_l _ HZ). cbn [out_equiv err_equiv]. apply map_equiv_nil.
  - rewrite (map_equiv_single _ _ _ HZ). cbn [out_equiv err_equiv]. rewrite <- (map_equiv_single _ _ _ HZ) at 2. exact HZ.
  - assert (c1 <> c2) as Hne.
    { pose proof (map_equiv_nodup_l _ _ HZ) as ND. cbn in ND. inversion ND as [|? ? Hni _]; subst.
      intros ->. apply Hni. left. reflexivity. }
    destruct (map_equiv_two _ _ _ _ _ HZ) as [->| ->].
    + destruct (negb (Bool.eqb (sign_positive v1) (sign_positive v2))); [|cbn [out_equiv err_equiv]; exact HZ].
      destruct (qc_zero v1 || qc_zero v2); [exact I|]. cbn [out_equiv]. split; cbn [fst snd].
      * eapply Forall2_map2; [|exact Hp]. intros; apply fill_converted_equiv; assumption.
      * left; reflexivity.
    + replace (Bool.eqb (sign_positive v2) (sign_positive v1)) with (Bool.eqb (sign_positive v1) (sign_positive v2))
        by (destruct (sign_positive v1), (sign_positive v2); reflexivity).
      rewrite (orb_comm (qc_zero v2)).
      destruct (negb (Bool.eqb (sign_positive v1) (sign_positive v2))); [|cbn [out_equiv err_equiv]; exact HZ].
      destruct (qc_zero v1 || qc_zero v2); [exact I|]. cbn [out_equiv]. split; cbn [fst snd].
      * eapply Forall2_map2; [|exact Hp]. intros; apply fill_converted_swap_equiv; assumption.
      * right. split; [reflexivity|exact Hne].
  - pose proof (map_equiv_length _ _ HZ) as HL.
    destruct z' as [|[d1 w1] [|[d2 w2] [|y rest']]]; try discriminate HL.
    cbn [out_equiv err_equiv]. exact HZ.
Qed.

(* ---- add_transaction ---- *)
Lemma add_transaction_equiv s s' t : st_equiv s s' ->
  out_equiv st_equiv (add_transaction s t) (add_transaction s' t).
Proof.
  intros [Hb Hf He Ht]. unfold add_transaction.
  apply (out_equiv_bind loop_equiv); [apply (txn_loop_equiv s s' t), Hb|].
  intros st st' [Eb [Ep [Eu [Er Ee]]]]. rewrite <- Ee, <- Eu.
  pose proof (Forall2_rev _ _ _ Ep) as Eq.
  destruct (l_unfilled st) as [u|].
  - pose proof (a_neg_equiv _ _ Er) as Ed. cbn [out_equiv]. constructor; cbn [s_bal s_fmt s_events s_txns].
    + pose proof (Forall2_nth_error _ _ _ u Eq) as Hn.
      destruct (nth_error (rev (l_posts st)) u) as [x|], (nth_error (rev (l_posts st')) u) as [y|]; try contradiction.
      * destruct Hn as [-> _]. apply bal_add_amount_equiv; assumption.
      * apply bal_add_amount_equiv; assumption.
    + exact Hf.
    + apply Forall2_app; [exact He|apply evs_equiv_refl].
    + apply Forall2_app; [exact Ht|]. constructor; [|constructor]. split; [reflexivity|]. cbn [o_posts].
      apply Forall2_set_nth; [|exact Eq]. intros x y [A [_ C]]. split; cbn; auto.
  - apply (out_equiv_bind cb_equiv); [apply check_balance_equiv; assumption|].
    intros [ps ev] [ps' ev'] [E1 E2]. cbn [fst snd] in E1, E2. cbn [out_equiv].
    constructor; cbn [s_bal s_fmt s_events s_txns]; auto.
    + apply Forall2_app; [exact He|]. apply Forall2_app; [apply evs_equiv_refl|].
      destruct ev, ev'; cbn [oev_equiv] in E2; try contradiction; constructor; [exact E2|constructor].
    + apply Forall2_app; [exact Ht|]. constructor; [|constructor]. split; [reflexivity|exact E1].
Qed.

Lemma process_entry_equiv s s' e : st_equiv s s' ->
  out_equiv st_equiv (process_entry s e) (process_entry s' e).
Proof.
  intros H. destruct e as [t|c dp|]; cbn [process_entry].
  - apply add_transaction_equiv, H.
  - destruct H as [A B C D]. cbn [out_equiv]. constructor; cbn; auto. apply map_equiv_set, B.
  - exact H.
Qed.

Lemma process_from_equiv es : forall i s s', st_equiv s s' ->
  run_equiv (process_from i s es) (process_from i s' es).
Proof.
  induction es as [|e r IH]; intros i s s' H; cbn [process_from].
  - split; [reflexivity|exact H].
  - pose proof (process_entry_equiv _ _ e H) as HE.
    destruct (process_entry s e), (process_entry s' e); cbn [out_equiv] in HE; try contradiction.
    + apply IH, HE.
    + split; [reflexivity|exact HE].
    + split; [reflexivity|exact I].
Qed.

(* every state the model reaches is related to itself: all its maps are duplicate-free *)
Lemma process_from_self es i s : st_equiv s s ->
  match fst (process_from i s es) with Ok s' => st_equiv s' s' | _ => True end.
Proof.
  intros H. pose proof (process_from_equiv es i s s H) as [_ HE].
  destruct (fst (process_from i s es)); cbn [out_equiv] in HE; auto.
Qed.

Lemma processed_self es s n : process es = (Ok s, n) -> st_equiv s s.
Proof.
  intros H. pose proof (process_from_self es 0 bstate0 st_equiv_init) as HS.
  unfold process in H. rewrite H in HS. exact HS.
Qed.

(* ---- runs with arbitrary re-ordering between entries ---- *)
Lemma run_any_order_det es : forall i s s' r r', st_equiv s s' ->
  run_any_order i s es r -> run_any_order i s' es r' -> run_equiv r r'.
Proof.
  induction es as [|e es IH]; intros i s s' r r' H R R'.
  - inversion R; inversion R'; subst. split; [reflexivity|exact H].
  - pose proof (process_entry_equiv _ _ e H) as HE.
    inversion R as [| ? ? ? ? s1 s2 ? P1 Q1 T1 | ? ? ? ? x P1 | ? ? ? ? P1]; subst;
    inversion R' as [| ? ? ? ? s1' s2' ? P2 Q2 T2 | ? ? ? ? x' P2 | ? ? ? ? P2]; subst;
    rewrite P1, P2 in HE; cbn [out_equiv] in HE; try contradiction.
    + eapply IH; [|exact T1|exact T2].
      eapply st_equiv_trans; [apply st_equiv_sym, Q1|]. eapply st_equiv_trans; [exact HE|exact Q2].
    + split; [reflexivity|exact HE].
    + split; [reflexivity|exact I].
Qed.

(* the model's own run is one of them *)
Lemma process_from_is_run es : forall i s, st_equiv s s -> run_any_order i s es (process_from i s es).
Proof.
  induction es as [|e es IH]; intros i s H; cbn [process_from]; [constructor|].
  pose proof (process_entry_equiv _ _ e H) as HE.
  destruct (process_entry s e) as [s1| |] eqn:E; cbn [out_equiv] in HE.
  - eapply rao_step; [exact E|exact HE|apply IH, HE].
  - apply rao_err, E.
  - apply rao_panic, E.
Qed.

(* ---- bundled for Props/C13.v ---- *)
Theorem balance_ops_respect_equiv b b' a p x x' :
  bal_equiv b b' -> map_equiv x x' ->
  map_equiv (bal_get b a) (bal_get b' a) /\
  bal_equiv (fst (bal_add_pa b a p)) (fst (bal_add_pa b' a p)) /\
  map_equiv (snd (bal_add_pa b a p)) (snd (bal_add_pa b' a p)) /\
  bal_equiv (bal_add_amount b a x) (bal_add_amount b' a x') /\
  out_equiv sp_equiv (bal_set_partial b a p) (bal_set_partial b' a p).
Proof.
  intros H Hx. split; [apply bal_get_equiv, H|]. split; [apply bal_add_pa_equiv, H|].
  split; [apply bal_add_pa_equiv, H|]. split; [apply bal_add_amount_equiv; assumption|apply bal_set_partial_equiv, H].
Qed.
