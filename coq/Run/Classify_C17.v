(* C17 classifier: 0 Agree | 1 ModelMismatch | 2 PropertyFail |
   9 harness error (a Camt053 rule list outside the model: bank-transaction-code matchers).
   Four kinds of case: K (CSV records), KC (Camt053 records), KV (Viseca records) - each with what
   ConfigSet::select returned for the path and what import::import made of the records under
   the selected entry - and KM: a run of the `okane import --config CFG SOURCE` command in a
   fresh process, where only the SOURCE string as given on the command line, the documents, the
   records and what the command printed (read back into transactions) are known: the
   configuration in force must be the merge for that very string.
   A case is a list of configuration documents, a file path, what ConfigSet::select returned,
   and either the CSV records fed to import::import under the selected configuration (with the
   column layout the harness used) or the records of a Camt053 statement (the texts of the fields
   a rule can look at), and the transactions that came out.
   The property is re-derived from the observation: the selected entry against the declarative
   merge (Model/ImpConfigSpec.v), and payee / code / counter account / pending mark of every
   transaction against the rules that hit its record (Model/ImpExtractSpec.v). *)
From Coq Require Import List NArith ZArith Bool QArith Qcanon.
From Okv Require Import Base.Dec Model.ImpConfig Model.ImpConfigSpec Model.ImpExtract
     Model.ImpExtractSpec Model.ImpSingleEntry Model.ImpCsv Model.ImpCamtMatch Model.ImpVisecaMatch
     Run.ImpPattern Run.ImpCase.
Import ListNotations.

Inductive sel_obs := SelNone | SelErr (code : N) | SelOk (e : entry pat) | SelPanic.

Record csv_case := { k_docs : list (doc pat); k_path : str; k_sel : sel_obs;
                     k_fmt : format_spec;           (* layout used for the import run *)
                     k_header : list str; k_rows : list row; k_imp : imp_obs }.

(* a Camt053 run: the entries of the statement in file order, each the list of its records (the
   entry itself when it has no TxDtls, else one per TxDtls) *)
Record camt_case := { kc_docs : list (doc pat); kc_path : str; kc_sel : sel_obs;
                      kc_entries : list (list camt_entity); kc_imp : imp_obs }.

(* CE: the fields by RewriteField code, AcctSvcrRef, debit *)
Definition CE (fields : list (N * str)) (reference : option str) (debit : bool) : camt_entity :=
  {| ce_texts := map (fun kv => (RF (fst kv), snd kv)) fields; ce_reference := reference; ce_debit := debit |}.

Definition cfg_err_code (e : cfg_err) : N :=
  match e with NoEncoding => 1 | NoAccount => 2 | NoAccountType => 3 | NoCommodity => 4 end%N.

Definition sel_agrees (o : sel_obs) (m : option (entry pat + cfg_err)) : bool :=
  match o, m with
  | SelNone, None => true
  | SelErr k, Some (inr e) => (k =? cfg_err_code e)%N
  | SelOk a, Some (inl b) => entry_eqb a b
  | _, _ => false
  end.

(* ---- the property on the selected entry ---- *)
Definition spec_select (docs : list (doc pat)) (fp : str) (o : sel_obs) : bool :=
  match o with
  | SelPanic => false
  | _ => sel_agrees o (option_map to_entry (spec_merged docs fp))
  end.

(* ---- the property on the imported transactions ---- *)
Definition first_post (t : stxn) : option sposting := hd_error (st_posts t).
Definition last_post (t : stxn) : option sposting := hd_error (rev (st_posts t)).

Definition spec_txn (e : entry pat) (fm : field_map) (r : row) (t : stxn) : bool :=
  let rec := row_fields r in
  match fm_extract fm FPayee rec, fm_extract fm FCategory rec, fm_extract fm FSecondaryCommodity rec,
        fm_amount fm (e_account_type e) rec with
  | IOk (Some payee0), IOk cat, IOk sc, IOk amount =>
      let hs := hits (csv_matches re_captures) frag0 (compile (e_rewrite e))
                     {| rc_payee := payee0; rc_category := cat; rc_secondary_commodity := sc |} in
      let counter := if d_neg amount then first_post t else last_post t in
      (* the transaction carries the text on one line without outer white space (one_line, the
         C15 repair); the rules themselves see the captured text as it is, e.g. " coop" *)
      str_eqb (st_payee t) (one_line (match spec_payee hs with Some p => p | None => payee0 end))
      && ostr_eqb (st_code t) (option_map one_line (spec_code hs))
      && match counter with
         | None => false
         | Some p =>
             str_eqb (sp_account p)
                     (match spec_account hs with
                      | Some a => a
                      | None => if d_neg amount then expenses_unknown else income_unknown
                      end)
             && clear_eqb (sp_clear p) (if spec_cleared hs then Uncleared else Pending)
         end
  | _, _, _, _ => false
  end.

Fixpoint spec_txns (e : entry pat) (fm : field_map) (rows : list row) (ts : list stxn) : bool :=
  match rows, ts with
  | [], [] => true
  | r :: rr, t :: tr => spec_txn e fm r t && spec_txns e fm rr tr
  | _, _ => false
  end.

Definition is_err {A} (x : ires A) : bool := match x with IErr _ => true | _ => false end.

Definition spec_import (e : entry pat) (header : list str) (rows : list row) (o : imp_obs)
           (m : ires (list stxn)) : bool :=
  match o with
  | ImpPanic => false
  | ImpNotRun => false
  | ImpErr _ => is_err m          (* a refusal is in order only where the model refuses too *)
  | ImpOk ts =>
      match fieldmap_new (fs_fields (e_format e)) header with
      | IOk fm =>
          (* rows with an empty date produce nothing; output is reversed under new_to_old *)
          let live := filter (fun r => match fm_extract fm FDate (row_fields r) with
                                       | IOk (Some []) => false | _ => true end) rows in
          let ordered := match fs_row_order (e_format e) with OldToNew => live | NewToOld => rev live end in
          spec_txns e fm ordered ts
      | _ => false
      end
  end.

Definition classify_csv (c : csv_case) : N :=
  let msel := select (k_docs c) (k_path c) in
  let sel_spec := spec_select (k_docs c) (k_path c) (k_sel c) in
  let sel_same := sel_agrees (k_sel c) msel in
  match k_sel c with
  | SelOk e =>
      let e' := with_format e (k_fmt c) in
      let m := model_import e' (k_header c) (k_rows c) in
      if negb (sel_spec && spec_import e' (k_header c) (k_rows c) (k_imp c) m) then 2%N
      else if sel_same && imp_agrees (k_imp c) m then 0%N else 1%N
  | _ =>
      if negb sel_spec then 2%N
      else if sel_same && match k_imp c with ImpNotRun => true | _ => false end then 0%N else 1%N
  end.

(* ---- Camt053 records ---- *)
Definition camt_hits (e : entry pat) (r : camt_entity) : list (hit pat) :=
  hits (camt_matches re_captures) frag0 (compile (e_rewrite e)) r.

(* the property on one transaction: payee, counter account and pending mark as the rules that hit
   the record say; the code is the one a hit captured when there is one, otherwise the statement's
   reference (C17-K1, fixed in /repo d2eb1b8: the Camt053 importer used to ignore a captured code) *)
Definition spec_camt_txn (e : entry pat) (r : camt_entity) (t : stxn) : bool :=
  let hs := camt_hits e r in
  let counter := if ce_debit r then first_post t else last_post t in
  str_eqb (st_payee t) (one_line (match spec_payee hs with Some p => p | None => unknown_payee end))
  && ostr_eqb (st_code t)
              (option_map one_line (option_or (spec_code hs) (ce_reference r)))
  && match counter with
     | None => false
     | Some p =>
         str_eqb (sp_account p)
                 (match spec_account hs with
                  | Some a => a
                  | None => if ce_debit r then expenses_unknown else income_unknown
                  end)
         && clear_eqb (sp_clear p) (if spec_cleared hs then Uncleared else Pending)
     end.

Fixpoint spec_camt_txns (e : entry pat) (rs : list camt_entity) (ts : list stxn) : bool :=
  match rs, ts with
  | [], [] => true
  | r :: rr, t :: tr => spec_camt_txn e r t && spec_camt_txns e rr tr
  | _, _ => false
  end.

(* one transaction per record; entries reversed under new_to_old, the details of an entry not *)
Definition camt_records (e : entry pat) (entries : list (list camt_entity)) : list camt_entity :=
  concat (match fs_row_order (e_format e) with OldToNew => entries | NewToOld => rev entries end).

(* the Extractor is built before the statement is read: a rule list with a matcher that does not
   convert (invalid regex, a CSV-only field, an empty AND-list) is refused *)
Definition camt_rules_ok (e : entry pat) : bool := rules_ok (camt_valid re_valid) (e_rewrite e).

Definition spec_camt (e : entry pat) (entries : list (list camt_entity)) (o : imp_obs) : bool :=
  match o with
  | ImpPanic | ImpNotRun => false
  | ImpErr _ => negb (camt_rules_ok e)
  | ImpOk ts => camt_rules_ok e && spec_camt_txns e (camt_records e entries) ts
  end.

(* the model's transactions, seen through the same four observables *)
Definition view_agrees (r : camt_entity) (v : camt_view) (t : stxn) : bool :=
  let counter := if ce_debit r then first_post t else last_post t in
  str_eqb (st_payee t) (cv_payee v) && ostr_eqb (st_code t) (cv_code v)
  && match counter with
     | None => false
     | Some p =>
         str_eqb (sp_account p) (match cv_dest v with
                                 | Some a => a
                                 | None => if ce_debit r then expenses_unknown else income_unknown
                                 end)
         && clear_eqb (sp_clear p) (if cv_pending v then Pending else Uncleared)
     end.
Fixpoint views_agree (e : entry pat) (rs : list camt_entity) (ts : list stxn) : bool :=
  match rs, ts with
  | [], [] => true
  | r :: rr, t :: tr => view_agrees r (camt_record_view re_captures (e_rewrite e) r) t && views_agree e rr tr
  | _, _ => false
  end.
Definition camt_model_agrees (e : entry pat) (entries : list (list camt_entity)) (o : imp_obs) : bool :=
  match o with
  | ImpErr _ => negb (camt_rules_ok e)
  | ImpOk ts => camt_rules_ok e && views_agree e (camt_records e entries) ts
  | _ => false
  end.

Definition classify_camt (c : camt_case) : N :=
  let msel := select (kc_docs c) (kc_path c) in
  let sel_spec := spec_select (kc_docs c) (kc_path c) (kc_sel c) in
  let sel_same := sel_agrees (kc_sel c) msel in
  match kc_sel c with
  | SelOk e =>
      if negb (camt_in_model (e_rewrite e)) then 9%N
      else if negb sel_spec then 2%N
      else if negb (spec_camt e (kc_entries c) (kc_imp c)) then 2%N
      else if sel_same && camt_model_agrees e (kc_entries c) (kc_imp c) then 0%N else 1%N
  | _ =>
      if negb sel_spec then 2%N
      else if sel_same && match kc_imp c with ImpNotRun => true | _ => false end then 0%N else 1%N
  end.

(* ---- Viseca records ---- *)
Record vis_case := { kv_docs : list (doc pat); kv_path : str; kv_sel : sel_obs;
                     kv_recs : list viseca_entity; kv_imp : imp_obs }.
Definition VE (payee category : str) (debit fee : bool) : viseca_entity :=
  {| ve_payee := payee; ve_category := category; ve_debit := debit; ve_fee := fee |}.

Definition vis_hits (e : entry pat) (r : viseca_entity) : list (hit pat) :=
  hits (viseca_matches re_captures) frag0 (compile (e_rewrite e)) r.

(* the property on one transaction: payee and code of the last hit that set / captured one (the
   statement's payee and no code otherwise), counter account and pending mark as the hits say *)
Definition spec_vis_txn (e : entry pat) (r : viseca_entity) (t : stxn) : bool :=
  let hs := vis_hits e r in
  let counter := if ve_debit r then first_post t else last_post t in
  str_eqb (st_payee t) (one_line (match spec_payee hs with Some p => p | None => ve_payee r end))
  && ostr_eqb (st_code t) (option_map one_line (spec_code hs))
  && match counter with
     | None => false
     | Some p =>
         str_eqb (sp_account p)
                 (match spec_account hs with
                  | Some a => a
                  | None => if ve_debit r then expenses_unknown else income_unknown
                  end)
         && clear_eqb (sp_clear p) (if spec_cleared hs then Uncleared else Pending)
     end.
Fixpoint spec_vis_txns (e : entry pat) (rs : list viseca_entity) (ts : list stxn) : bool :=
  match rs, ts with
  | [], [] => true
  | r :: rr, t :: tr => spec_vis_txn e r t && spec_vis_txns e rr tr
  | _, _ => false
  end.
Definition vis_accepts (e : entry pat) (rs : list viseca_entity) : bool :=
  viseca_accepts re_valid (e_rewrite e) (e_operator e) rs.
(* one transaction per record, in statement order (row_order is a CSV / Camt053 matter) *)
Definition spec_vis (e : entry pat) (rs : list viseca_entity) (o : imp_obs) : bool :=
  match o with
  | ImpPanic | ImpNotRun => false
  | ImpErr _ => negb (vis_accepts e rs)
  | ImpOk ts => vis_accepts e rs && spec_vis_txns e rs ts
  end.

Definition vview_agrees (r : viseca_entity) (v : viseca_view) (t : stxn) : bool :=
  let counter := if ve_debit r then first_post t else last_post t in
  str_eqb (st_payee t) (vv_payee v) && ostr_eqb (st_code t) (vv_code v)
  && match counter with
     | None => false
     | Some p =>
         str_eqb (sp_account p) (match vv_dest v with
                                 | Some a => a
                                 | None => if ve_debit r then expenses_unknown else income_unknown
                                 end)
         && clear_eqb (sp_clear p) (if vv_pending v then Pending else Uncleared)
     end.
Fixpoint vviews_agree (e : entry pat) (rs : list viseca_entity) (ts : list stxn) : bool :=
  match rs, ts with
  | [], [] => true
  | r :: rr, t :: tr => vview_agrees r (viseca_record_view re_captures (e_rewrite e) r) t && vviews_agree e rr tr
  | _, _ => false
  end.
Definition vis_model_agrees (e : entry pat) (rs : list viseca_entity) (o : imp_obs) : bool :=
  match o with
  | ImpErr _ => negb (vis_accepts e rs)
  | ImpOk ts => vis_accepts e rs && vviews_agree e rs ts
  | _ => false
  end.

Definition classify_vis (c : vis_case) : N :=
  let msel := select (kv_docs c) (kv_path c) in
  let sel_spec := spec_select (kv_docs c) (kv_path c) (kv_sel c) in
  let sel_same := sel_agrees (kv_sel c) msel in
  match kv_sel c with
  | SelOk e =>
      if negb sel_spec then 2%N
      else if negb (spec_vis e (kv_recs c) (kv_imp c)) then 2%N
      else if sel_same && vis_model_agrees e (kv_recs c) (kv_imp c) then 0%N else 1%N
  | _ =>
      if negb sel_spec then 2%N
      else if sel_same && match kv_imp c with ImpNotRun => true | _ => false end then 0%N else 1%N
  end.

(* ---- the command: `okane import --config CFG SOURCE` in a fresh process ---- *)
Inductive records :=
| RecCsv (header : list str) (rows : list row)
| RecCamt (entries : list (list camt_entity))
| RecVis (recs : list viseca_entity).
(* what the process did: "config matching ... not found" | the invalid-config error of the merged
   documents | import ran (transactions read back from the printed ledger, or its refusal;
   ImpPanic = exit status 101 or a signal) | anything else (harness trouble) *)
Inductive cmd_obs := CmdNoConfig | CmdBadConfig (k : N) | CmdRan (o : imp_obs) | CmdOther.
Record cmd_case := { m_docs : list (doc pat); m_given : str; m_recs : records; m_obs : cmd_obs }.

(* the configured account is on the other side of every transaction *)
Definition src_account_ok (e : entry pat) (o : imp_obs) : bool :=
  match o with
  | ImpOk ts => forallb (fun t => match first_post t, last_post t with
                                  | Some a, Some b => str_eqb (sp_account a) (e_account e)
                                                      || str_eqb (sp_account b) (e_account e)
                                  | _, _ => false
                                  end) ts
  | _ => true
  end.

Definition spec_records (e : entry pat) (rc : records) (o : imp_obs) : bool :=
  src_account_ok e o &&
  match rc with
  | RecCsv header rows => spec_import e header rows o (model_import e header rows)
  | RecCamt entries => camt_in_model (e_rewrite e) && spec_camt e entries o
  | RecVis recs => spec_vis e recs o
  end.
Definition model_records (e : entry pat) (rc : records) (o : imp_obs) : bool :=
  match rc with
  | RecCsv header rows => imp_agrees o (model_import e header rows)
  | RecCamt entries => camt_model_agrees e entries o
  | RecVis recs => vis_model_agrees e recs o
  end.

(* the observation against a configuration in force (none / invalid / an entry) *)
Definition cmd_under (x : option (entry pat + cfg_err)) (o : cmd_obs) (ran : entry pat -> imp_obs -> bool) : bool :=
  match x, o with
  | None, CmdNoConfig => true
  | Some (inr er), CmdBadConfig k => (k =? cfg_err_code er)%N
  | Some (inl e), CmdRan io => ran e io
  | _, _ => false
  end.

(* property: the transactions printed are the ones the rules of the declarative merge for the
   string given on the command line produce (Model/ImpConfigSpec.v spec_merged: every document
   whose path occurs in that string, shortest first) *)
Definition classify_cmd (c : cmd_case) : N :=
  let sp := option_map to_entry (spec_merged (m_docs c) (m_given c)) in
  let md := select (m_docs c) (m_given c) in
  match m_obs c with
  | CmdOther => 9%N
  | o =>
      if negb (cmd_under sp o (fun e io => spec_records e (m_recs c) io)) then 2%N
      else if cmd_under md o (fun e io => model_records e (m_recs c) io) then 0%N else 1%N
  end.

Inductive case := KCsv (c : csv_case) | KCamt (c : camt_case) | KVis (c : vis_case) | KCmd (c : cmd_case).
Definition K docs path sel fmt header rows imp : case :=
  KCsv {| k_docs := docs; k_path := path; k_sel := sel; k_fmt := fmt; k_header := header; k_rows := rows;
          k_imp := imp |}.
Definition KC docs path sel entries imp : case :=
  KCamt {| kc_docs := docs; kc_path := path; kc_sel := sel; kc_entries := entries; kc_imp := imp |}.
Definition KV docs path sel recs imp : case :=
  KVis {| kv_docs := docs; kv_path := path; kv_sel := sel; kv_recs := recs; kv_imp := imp |}.
Definition KM docs given recs obs : case :=
  KCmd {| m_docs := docs; m_given := given; m_recs := recs; m_obs := obs |}.

Definition classify (c : case) : N :=
  match c with
  | KCsv c => classify_csv c | KCamt c => classify_camt c | KVis c => classify_vis c
  | KCmd c => classify_cmd c
  end.

Definition verdicts (cs : list case) : list N := map classify cs.
