(* `clean`: the explicit conditions on the text fields of an imported transaction under which
   the printed text reads back as the same transaction (property C15).  Each condition names a
   way in which ledger text has no escape syntax (or, for line breaks and outer white space, what
   the importers now remove themselves).  Executable; definitions only. *)
From Coq Require Import List NArith ZArith Bool.
From Okv Require Import Model.Lit Model.SingleEntry2 Model.TxnText.
Import ListNotations.
Open Scope N_scope.

Definition no_char (x : N) (l : str) : bool := negb (has_char x l).
Definition starts_with (x : N) (l : str) : bool := match l with c :: _ => c =? x | [] => false end.
(* no line break *)
Definition one_line (l : str) : bool := no_char 10 l && no_char 13 l.
(* no white space (Unicode White_Space) at either end *)
Definition no_outer_white (l : str) : bool :=
  match l with
  | [] => true
  | c :: _ => negb (is_white c) && negb (is_white (last l 0))
  end.

(* payee: one line, no `;`, no outer white space, does not start with `(`; and does not start with
   `*` or `!` unless a clear mark is printed before it (importers always print `* `) *)
Definition clean_payee (cl : clear) (s : str) : bool :=
  one_line s && no_char 59 s && no_outer_white s && negb (starts_with 40 s)
  && (match cl with Uncleared => negb (starts_with 42 s || starts_with 33 s) | _ => true end).

(* code: one line, no `)` *)
Definition clean_code (c : str) : bool := one_line c && no_char 41 c.

(* a comment must not look like `:tags:` or `key: value` *)
Definition looks_like_meta (c : str) : bool :=
  starts_with 58 c
  || (let '(k, r) := span is_tag_char c in
      match k with [] => false | _ => starts_with 58 (drop_sp r) end).
Definition clean_comment (c : str) : bool := one_line c && no_outer_white c && negb (looks_like_meta c).

(* `key: value` metadata (the payee of a charge posting) *)
Definition clean_key (k : str) : bool :=
  match k with [] => false | _ => forallb is_tag_char k end.
Definition clean_meta (m : metadata) : bool :=
  match m with
  | MComment c => clean_comment c
  | MKeyValue k v => clean_key k && one_line v && no_outer_white v
  | _ => false
  end.

(* account: words of account characters separated by single spaces; does not start with a clear mark *)
Fixpoint no_double_space (l : str) : bool :=
  match l with
  | a :: ((b :: _) as r) => negb ((a =? 32) && (b =? 32)) && no_double_space r
  | _ => true
  end.
Definition clean_account (a : str) : bool :=
  match a with
  | [] => false
  | c :: _ =>
      forallb (fun x => is_word_char x || (x =? 32)) a
      && negb (c =? 32) && negb (last a 0 =? 32) && no_double_space a
      && negb ((c =? 42) || (c =? 33))
  end.

(* commodity over the commodity alphabet (possibly empty) *)
Definition clean_commodity (c : str) : bool := forallb (fun x => negb (non_commodity x)) c.
(* a Decimal: 96-bit mantissa, scale at most 28 *)
Definition clean_dec (d : pdec) : bool := (mant d <=? max96N) && (scale d <=? 28)%nat.
Definition clean_amount (a : samount) : bool :=
  clean_commodity (sa_comm a) && clean_dec (sa_value a)
  && match pfmt (sa_value a) with Some Comma3Dot => false | _ => true end.   (* importers never group digits *)

Definition clean_posting (p : sposting) : bool :=
  clean_account (sp_account p)
  && (match sp_amount p with
      | Some pa => clean_amount (pa_amount pa)
                   && match pa_cost pa with Some c => clean_amount c | None => true end
      | None => false                                  (* importers always give an amount *)
      end)
  && (match sp_balance p with Some b => clean_amount b | None => true end)
  && forallb clean_meta (sp_meta p).

Definition clean_date (d : date) : bool := valid_date d.

Definition clean (t : stxn) : bool :=
  clean_date (tr_date t)
  && (match tr_edate t with Some e => clean_date e | None => true end)
  && (match tr_code t with Some c => clean_code c | None => true end)
  && clean_payee (tr_clear t) (tr_payee t)
  && forallb clean_meta (tr_meta t)
  && forallb clean_posting (tr_posts t).

(* ---- known findings of property C15: text for which the ledger language has no escape syntax.
   `known_class t = Some k` is the executable class of finding C15-Kk (known_findings.json). ---- *)
(* K0: a payee containing `;` (the rest of the line is read as a comment) *)
Definition k_payee_semicolon (t : stxn) : bool := has_char 59 (tr_payee t).
(* K1: a payee starting with `(` (read as a code up to the next `)`) *)
Definition k_payee_paren (t : stxn) : bool := starts_with 40 (tr_payee t).
(* K2: a code containing `)` *)
Definition k_code_paren (t : stxn) : bool :=
  match tr_code t with Some c => has_char 41 c | None => false end.
(* K3: a comment whose text reads as `:tag:` or `key: value` metadata *)
Definition comment_reads_as_meta (c : str) : bool :=
  negb (has_char 13 c) && negb (has_char 10 c) &&
  match read_meta (32 :: c) with Some (MComment _) => false | _ => true end.
Definition k_comment_meta (t : stxn) : bool :=
  existsb (fun m => match m with MComment c => comment_reads_as_meta c | _ => false end) (tr_meta t).
(* K4: a commodity with a character outside the commodity alphabet *)
Definition bad_commodity (a : samount) : bool := existsb non_commodity (sa_comm a).
Definition k_commodity (t : stxn) : bool :=
  existsb (fun p =>
    (match sp_amount p with
     | Some pa => bad_commodity (pa_amount pa) || match pa_cost pa with Some c => bad_commodity c | None => false end
     | None => false end)
    || match sp_balance p with Some b => bad_commodity b | None => false end) (tr_posts t).

Definition known_class (t : stxn) : option N :=
  if k_payee_semicolon t then Some 0
  else if k_payee_paren t then Some 1
  else if k_code_paren t then Some 2
  else if k_comment_meta t then Some 3
  else if k_commodity t then Some 4
  else None.

