(* The loader on texts (Model/Pipeline.v `loadt`, files parsed when they are visited) against
   the loader on abstract contents (Model/Load.v `loadc`) over `parse_fs` (every file parsed
   up front): the two agree up to the first syntax error met.  Hence: fuel bound, stability in
   the fuel, what is delivered (which file, which entry of it), where a syntax error comes
   from, and cut_text_of |- the load delivers exactly the entries. *)
From Coq Require Import List Arith NArith Bool Lia Sorting.Sorted.
From Okv Require Import Model.Syntax Model.Glob Model.GlobSpec Model.Load Model.LoadSpec Model.ParseLedger
     Model.Pipeline Model.PipelineSpec
     Proofs.PathOrder Proofs.LoadProofs Proofs.LoadSplit Proofs.LoadCycle Proofs.TotalLoad Proofs.ParseTotal Proofs.ParseLines.
Import ListNotations.
Open Scope N_scope.

(* ---------- keys ---------- *)

Lemma parse_fs_keys : forall fs, map fst (parse_fs fs) = map fst fs.
Proof. intro fs. unfold parse_fs. rewrite map_map. apply map_ext. intros [k t]. reflexivity. Qed.

Lemma keys_fs_keys : forall fs, map fst (keys_fs fs) = map fst fs.
Proof. intro fs. unfold keys_fs. rewrite map_map. apply map_ext. intros [k t]. reflexivity. Qed.

Lemma parse_fs_length : forall fs, length (parse_fs fs) = length fs.
Proof. intro fs. unfold parse_fs. apply map_length. Qed.

Lemma include_targets_keys : forall (a b : fsys) cp w,
  map fst a = map fst b -> include_targets a cp w = include_targets b cp w.
Proof. intros a b cp w H. unfold include_targets, glob_keys. rewrite H. reflexivity. Qed.

Lemma targets_keys_parse : forall fs cp w,
  include_targets (keys_fs fs) cp w = include_targets (parse_fs fs) cp w.
Proof. intros. apply include_targets_keys. rewrite keys_fs_keys, parse_fs_keys. reflexivity. Qed.

Lemma include_set_keys : forall (a b : fsys) cp w ps,
  map fst a = map fst b -> include_set a cp w ps -> include_set b cp w ps.
Proof.
  intros a b cp w ps H [Ne [S E]]. split; [exact Ne|]. split; [exact S|].
  intro k. rewrite (E k). unfold matching. rewrite H. reflexivity.
Qed.

Lemma wf_parse_fs : forall fs, wf_tfs fs -> wf_fs (parse_fs fs).
Proof. intros fs W. unfold wf_fs. rewrite parse_fs_keys. exact W. Qed.

Lemma wf_keys_fs : forall fs, wf_tfs fs -> wf_fs (keys_fs fs).
Proof. intros fs W. unfold wf_fs. rewrite keys_fs_keys. exact W. Qed.

Lemma lookup_parse_fs : forall fs p,
  lookup p (parse_fs fs) = option_map (fun t => abs_entries 0 (parsed_of t)) (tlookup p fs).
Proof.
  induction fs as [|[k t] r IH]; intro p; [reflexivity|].
  cbn [parse_fs map fst snd lookup tlookup]. destruct (path_eqb k p); [reflexivity|]. apply IH.
Qed.

Lemma tlookup_in : forall fs p t, tlookup p fs = Some t -> In (p, t) fs.
Proof.
  induction fs as [|[k t0] r IH]; intros p t H; cbn in H; [discriminate|].
  destruct (path_eqb k p) eqn:E.
  - inversion H; subst. left. apply path_eqb_eq in E. subst. reflexivity.
  - right. apply IH. exact H.
Qed.

Lemma in_tlookup : forall fs p t, wf_tfs fs -> In (p, t) fs -> tlookup p fs = Some t.
Proof.
  induction fs as [|[k t0] r IH]; intros p t W H; [destruct H|].
  unfold wf_tfs in W. cbn in W. inversion W as [|? ? Hn Hd]; subst. cbn.
  destruct H as [H|H].
  - inversion H; subst. rewrite path_eqb_refl. reflexivity.
  - destruct (path_eqb k p) eqn:E.
    + apply path_eqb_eq in E. subst k. exfalso. apply Hn. apply in_map_iff. exists (p, t). split; [reflexivity|exact H].
    + apply IH; assumption.
Qed.

(* ---------- tthen ---------- *)

Lemma tthen_in : forall a b x, In x (fst (tthen a b)) -> In x (fst a) \/ In x (fst b).
Proof.
  intros [o1 s1] [o2 s2] x H. unfold tthen in H. cbn [fst snd] in *.
  destruct s1; cbn [fst] in H; auto. apply in_app_or in H. exact H.
Qed.

Lemma tthen_status : forall a b, snd (tthen a b) = snd a \/ snd (tthen a b) = snd b.
Proof. intros [o1 s1] [o2 s2]. unfold tthen. cbn [fst snd]. destruct s1; cbn [snd]; auto. Qed.

(* ---------- the simulation ---------- *)

Definition proj (l : loaded) : path * N := (l_path l, l_index l).

Definition emb (s : status) : tstatus :=
  match s with Done => TDone | Failed e => TFailed e | OutOfFuel => TOutOfFuel end.

(* the load ended at the text of a file: a syntax error, or a hazard value of the parser *)
Definition bad (s : tstatus) : Prop :=
  match s with TParse _ _ | THazard _ => True | _ => False end.

(* t is a exactly, or t stopped at a bad text after delivering some of what a delivers *)
Definition sim (t : trun) (a : run) : Prop :=
  (map proj (fst t) = fst a /\ snd t = emb (snd a)) \/
  (bad (snd t) /\ exists k, map proj (fst t) = firstn k (fst a)).

Lemma firstn_min_app : forall (A : Type) k (l l' : list A),
  firstn k l = firstn (Nat.min k (length l)) (l ++ l').
Proof.
  intros A k l l'. rewrite firstn_app.
  replace (Nat.min k (length l) - length l)%nat with O by lia. cbn [firstn]. rewrite app_nil_r.
  destruct (Nat.le_gt_cases k (length l)) as [H|H].
  - rewrite Nat.min_l by exact H. reflexivity.
  - rewrite Nat.min_r by lia. rewrite firstn_all. apply firstn_all2. lia.
Qed.

Lemma sim_then : forall t1 a1 t2 a2, sim t1 a1 -> sim t2 a2 -> sim (tthen t1 t2) (then_ a1 a2).
Proof.
  intros [o1 s1] [p1 r1] [o2 s2] [p2 r2] H1 H2. unfold sim in *. cbn [fst snd] in *.
  destruct H1 as [[M1 E1]|[B1 [k1 K1]]].
  - subst s1. destruct r1 as [|e|]; unfold tthen, then_; cbn [emb fst snd].
    + destruct H2 as [[M2 E2]|[B2 [k2 K2]]].
      * left. split; [rewrite map_app, M1, M2; reflexivity|exact E2].
      * right. split; [exact B2|]. exists (length p1 + k2)%nat.
        rewrite map_app, M1, K2. symmetry. apply firstn_app_2.
    + left. split; [exact M1|reflexivity].
    + left. split; [exact M1|reflexivity].
  - right. assert (T : tthen (o1, s1) (o2, s2) = (o1, s1)).
    { unfold tthen. cbn [fst snd]. destruct s1; try reflexivity. destruct B1. }
    rewrite T. cbn [fst snd]. split; [exact B1|].
    unfold then_. cbn [fst snd]. destruct r1; cbn [fst].
    + exists (Nat.min k1 (length p1)). rewrite K1. apply firstn_min_app.
    + exists k1. exact K1.
    + exists k1. exact K1.
Qed.

Lemma sim_nil_done : sim ([], TDone) ([], Done).
Proof. left. split; reflexivity. Qed.

Lemma sim_load_all : forall (ldt : path -> trun) (ld : path -> run),
  (forall k, sim (ldt k) (ld k)) -> forall ps, sim (tload_all ldt ps) (load_all ld ps).
Proof.
  intros ldt ld H. induction ps as [|k ps IH]; [exact sim_nil_done|].
  cbn [tload_all load_all fold_right]. fold (tload_all ldt ps). fold (load_all ld ps).
  apply sim_then; [apply H|exact IH].
Qed.

Lemma abs_entries_cons_ent : forall i e r,
  is_include (e_entry e) = false -> abs_entries i (e :: r) = Ent i :: abs_entries (i + 1) r.
Proof. intros i e r H. cbn [abs_entries]. destruct (e_entry e); try reflexivity. discriminate. Qed.

Lemma tload_entries_cons_ent : forall ld keys cp i e r last,
  is_include (e_entry e) = false ->
  tload_entries ld keys cp i (e :: r) last =
  tthen ([{| l_path := cp; l_index := i; l_parsed := e |}], TDone) (tload_entries ld keys cp (i + 1) r last).
Proof. intros ld keys cp i e r last H. cbn [tload_entries]. destruct (e_entry e); try reflexivity. discriminate. Qed.

Lemma is_include_cases : forall e, (exists w, e = SInclude w) \/ is_include e = false.
Proof. intros [t|s|k v| |w|n d|n d]; try (right; reflexivity). left. exists w. reflexivity. Qed.

Lemma sim_entries : forall fs (ldt : path -> trun) (ld : path -> run) cp last,
  (forall k, sim (ldt k) (ld k)) -> last = TDone \/ bad last ->
  forall es i, sim (tload_entries ldt (keys_fs fs) cp i es last)
                   (load_entries ld (parse_fs fs) cp (abs_entries i es)).
Proof.
  intros fs ldt ld cp last H L. induction es as [|e r IH]; intro i.
  - cbn [tload_entries abs_entries load_entries]. destruct L as [->|B].
    + exact sim_nil_done.
    + right. split; [exact B|]. exists O. reflexivity.
  - destruct (is_include_cases (e_entry e)) as [[w E]|E].
    + cbn [tload_entries abs_entries load_entries]. rewrite E. rewrite targets_keys_parse.
      destruct (include_targets (parse_fs fs) cp w) as [x|ps].
      * left. split; reflexivity.
      * apply sim_then; [apply sim_load_all; exact H|apply IH].
    + rewrite (tload_entries_cons_ent _ _ _ _ _ _ _ E), (abs_entries_cons_ent _ _ _ E).
      cbn [load_entries]. apply sim_then; [left; split; reflexivity|apply IH].
Qed.

Theorem sim_loadt : forall fs f st p, sim (loadt f fs st p) (loadc f (parse_fs fs) st p).
Proof.
  intro fs. induction f as [|f IH]; intros st p.
  - left. split; reflexivity.
  - cbn [loadt loadc]. destruct (existsb (path_eqb (canonicalize p)) st); [left; split; reflexivity|].
    rewrite lookup_parse_fs. destruct (tlookup (canonicalize p) fs) as [text|]; cbn [option_map];
      [|left; split; reflexivity].
    unfold parsed_of. destruct (parse_ledger text) as [es|es e|k|k|].
    + apply sim_entries; [intro k; apply IH|left; reflexivity].
    + apply sim_entries; [intro k; apply IH|right; exact I].
    + right. split; [exact I|]. exists O. reflexivity.
    + right. split; [exact I|]. exists O. reflexivity.
    + right. split; [exact I|]. exists O. reflexivity.
Qed.

(* when the load on texts does not stop at a bad text it IS the abstract load *)
Corollary loadt_exact : forall fs f st p,
  ~ bad (snd (loadt f fs st p)) ->
  map proj (fst (loadt f fs st p)) = fst (loadc f (parse_fs fs) st p) /\
  snd (loadt f fs st p) = emb (snd (loadc f (parse_fs fs) st p)).
Proof.
  intros fs f st p NB. destruct (sim_loadt fs f st p) as [H|[B _]]; [exact H|contradiction].
Qed.

(* in any case what it delivers is an initial part of what the abstract load delivers *)
Corollary loadt_prefix : forall fs f st p,
  exists k, map proj (fst (loadt f fs st p)) = firstn k (fst (loadc f (parse_fs fs) st p)).
Proof.
  intros fs f st p. destruct (sim_loadt fs f st p) as [[H _]|[_ H]]; [|exact H].
  exists (length (fst (loadc f (parse_fs fs) st p))). rewrite firstn_all. exact H.
Qed.

(* ---------- fuel ---------- *)

Lemma loadt_fuel : forall fs fuel st p,
  stack_ok (parse_fs fs) st -> (length fs < fuel + length st)%nat ->
  snd (loadt fuel fs st p) <> TOutOfFuel.
Proof.
  intros fs fuel st p S B E. destruct (sim_loadt fs fuel st p) as [[_ H]|[Bd _]].
  - rewrite E in H. apply (loadc_fuel (parse_fs fs) fuel st p S); [rewrite parse_fs_length; exact B|].
    destruct (snd (loadc fuel (parse_fs fs) st p)); cbn in H; try discriminate. reflexivity.
  - rewrite E in Bd. exact Bd.
Qed.

Theorem load_texts_fuel : forall fs root fuel,
  (length fs < fuel)%nat -> snd (load_texts fuel fs root) <> TOutOfFuel.
Proof.
  intros fs root fuel B. apply loadt_fuel; [split; [constructor|intros q []]|cbn [length]; lia].
Qed.

Lemma tload_all_ext : forall (ld ld' : path -> trun), (forall k, ld k = ld' k) ->
  forall ps, tload_all ld ps = tload_all ld' ps.
Proof.
  intros ld ld' H. induction ps as [|k ps IH]; [reflexivity|].
  cbn [tload_all fold_right]. fold (tload_all ld ps). fold (tload_all ld' ps). rewrite H, IH. reflexivity.
Qed.

Lemma tload_entries_ext : forall (ld ld' : path -> trun) keys cp last, (forall k, ld k = ld' k) ->
  forall es i, tload_entries ld keys cp i es last = tload_entries ld' keys cp i es last.
Proof.
  intros ld ld' keys cp last H. induction es as [|e es IH]; intro i; [reflexivity|].
  cbn [tload_entries]. rewrite (IH (i + 1)).
  destruct (e_entry e); try reflexivity.
  destruct (include_targets keys cp path) as [err|ps]; [reflexivity|].
  rewrite (tload_all_ext ld ld' H). reflexivity.
Qed.

Lemma loadt_fuel_irrelevant : forall fs f1 f2 st p,
  stack_ok (parse_fs fs) st -> (length fs < f1 + length st)%nat -> (length fs < f2 + length st)%nat ->
  loadt f1 fs st p = loadt f2 fs st p.
Proof.
  intros fs. induction f1 as [|f1 IH]; intros f2 st p S B1 B2.
  - pose proof (stack_depth_bounded _ st S) as D. rewrite parse_fs_length in D. lia.
  - destruct f2 as [|f2]; [pose proof (stack_depth_bounded _ st S) as D; rewrite parse_fs_length in D; lia|].
    cbn [loadt]. destruct (existsb (path_eqb (canonicalize p)) st) eqn:E; [reflexivity|].
    destruct (tlookup (canonicalize p) fs) as [text|] eqn:L; [|reflexivity].
    assert (X : forall k, loadt f1 fs (canonicalize p :: st) k = loadt f2 fs (canonicalize p :: st) k).
    { intro k. apply IH.
      - eapply stack_push_ok; [exact S|exact E|]. rewrite lookup_parse_fs, L. reflexivity.
      - cbn [length]. lia.
      - cbn [length]. lia. }
    destruct (parse_ledger text); try reflexivity; apply tload_entries_ext; exact X.
Qed.

Theorem load_texts_stable : forall fs root f1 f2,
  (length fs < f1)%nat -> (length fs < f2)%nat -> load_texts f1 fs root = load_texts f2 fs root.
Proof.
  intros. apply loadt_fuel_irrelevant; [split; [constructor|intros q []]|cbn [length]; lia|cbn [length]; lia].
Qed.

(* ---------- what is delivered, and where a bad status comes from ---------- *)

(* the entry is the l_index-th entry the parser yields on the text of the file l_path, and not
   an include *)
Definition delivered_ok (fs : tfs) (l : loaded) : Prop :=
  exists text, tlookup (l_path l) fs = Some text /\
    nth_error (parsed_of text) (N.to_nat (l_index l)) = Some (l_parsed l) /\
    is_include (e_entry (l_parsed l)) = false.

Lemma tload_all_delivered : forall fs (ld : path -> trun) ps x,
  (forall p y, In y (fst (ld p)) -> delivered_ok fs y) ->
  In x (fst (tload_all ld ps)) -> delivered_ok fs x.
Proof.
  intros fs ld ps x H. induction ps as [|k ps IH]; intro Hx; [destruct Hx|].
  cbn [tload_all fold_right] in Hx. fold (tload_all ld ps) in Hx.
  apply tthen_in in Hx. destruct Hx as [Hx|Hx]; [eapply H; exact Hx|apply IH; exact Hx].
Qed.

Lemma tload_entries_delivered : forall fs (ld : path -> trun) keys cp text last x,
  (forall p y, In y (fst (ld p)) -> delivered_ok fs y) ->
  tlookup cp fs = Some text ->
  forall es pre, parsed_of text = pre ++ es ->
    In x (fst (tload_entries ld keys cp (N.of_nat (length pre)) es last)) -> delivered_ok fs x.
Proof.
  intros fs ld keys cp text last x H L. induction es as [|e r IH]; intros pre P Hx; [destruct Hx|].
  assert (Nx : N.of_nat (length pre) + 1 = N.of_nat (length (pre ++ [e]))).
  { rewrite app_length. cbn [length]. lia. }
  assert (P' : parsed_of text = (pre ++ [e]) ++ r) by (rewrite <- app_assoc; exact P).
  destruct (is_include_cases (e_entry e)) as [[w E]|E].
  - cbn [tload_entries] in Hx. rewrite E in Hx.
    destruct (include_targets keys cp w) as [err|ps]; [destruct Hx|].
    apply tthen_in in Hx. destruct Hx as [Hx|Hx].
    + eapply tload_all_delivered; [exact H|exact Hx].
    + rewrite Nx in Hx. apply (IH _ P' Hx).
  - rewrite (tload_entries_cons_ent _ _ _ _ _ _ _ E) in Hx. apply tthen_in in Hx. destruct Hx as [Hx|Hx].
    + cbn [fst] in Hx. destruct Hx as [<-|[]]. exists text. cbn [l_path l_index l_parsed].
      split; [exact L|]. split; [|exact E].
      rewrite Nat2N.id, P. rewrite nth_error_app2 by lia. rewrite Nat.sub_diag. reflexivity.
    + rewrite Nx in Hx. apply (IH _ P' Hx).
Qed.

Theorem loadt_delivered : forall fs f st p x, In x (fst (loadt f fs st p)) -> delivered_ok fs x.
Proof.
  intro fs. induction f as [|f IH]; intros st p x H; [destruct H|].
  cbn [loadt] in H. destruct (existsb (path_eqb (canonicalize p)) st); [destruct H|].
  destruct (tlookup (canonicalize p) fs) as [text|] eqn:L; [|destruct H].
  assert (P : forall es, parsed_of text = es -> parsed_of text = [] ++ es) by (intros; assumption).
  unfold parsed_of in P.
  destruct (parse_ledger text) as [es|es e|k|k|] eqn:R; try (destruct H; fail).
  - eapply (tload_entries_delivered fs _ _ _ text _ x (fun q y => IH _ q y) L es []); [|exact H].
    unfold parsed_of. rewrite R. reflexivity.
  - eapply (tload_entries_delivered fs _ _ _ text _ x (fun q y => IH _ q y) L es []); [|exact H].
    unfold parsed_of. rewrite R. reflexivity.
Qed.

(* a syntax error is the error of parsing the text of the file it names; a hazard status
   would be a hazard value of the parser *)
Definition status_ok (fs : tfs) (s : tstatus) : Prop :=
  match s with
  | TParse q e => exists text es, tlookup q fs = Some text /\ parse_ledger text = LErr es e
  | THazard q => exists text, tlookup q fs = Some text /\ ~ no_hazard (parse_ledger text)
  | _ => True
  end.

Lemma tload_all_status : forall fs (ld : path -> trun) ps,
  (forall p, status_ok fs (snd (ld p))) -> status_ok fs (snd (tload_all ld ps)).
Proof.
  intros fs ld ps H. induction ps as [|k ps IH]; [exact I|].
  cbn [tload_all fold_right]. fold (tload_all ld ps).
  destruct (tthen_status (ld k) (tload_all ld ps)) as [E|E]; rewrite E; [apply H|exact IH].
Qed.

Lemma tload_entries_status : forall fs (ld : path -> trun) keys cp last,
  (forall p, status_ok fs (snd (ld p))) -> status_ok fs last ->
  forall es i, status_ok fs (snd (tload_entries ld keys cp i es last)).
Proof.
  intros fs ld keys cp last H L. induction es as [|e r IH]; intro i; [exact L|].
  destruct (is_include_cases (e_entry e)) as [[w E]|E].
  - cbn [tload_entries]. rewrite E. destruct (include_targets keys cp w) as [err|ps]; [exact I|].
    match goal with |- status_ok _ (snd (tthen ?a ?b)) => destruct (tthen_status a b) as [X|X]; rewrite X end.
    + apply tload_all_status. exact H.
    + apply IH.
  - rewrite (tload_entries_cons_ent _ _ _ _ _ _ _ E).
    match goal with |- status_ok _ (snd (tthen ?a ?b)) => destruct (tthen_status a b) as [X|X]; rewrite X end.
    + exact I.
    + apply IH.
Qed.

Theorem loadt_status : forall fs f st p, status_ok fs (snd (loadt f fs st p)).
Proof.
  intro fs. induction f as [|f IH]; intros st p; [exact I|].
  cbn [loadt]. destruct (existsb (path_eqb (canonicalize p)) st); [exact I|].
  destruct (tlookup (canonicalize p) fs) as [text|] eqn:L; [|exact I].
  destruct (parse_ledger text) as [es|es e|k|k|] eqn:R.
  - apply tload_entries_status; [intro q; apply IH|exact I].
  - apply tload_entries_status; [intro q; apply IH|]. exists text, es. split; [exact L|exact R].
  - exists text. split; [exact L|]. rewrite R. intro X; exact X.
  - exists text. split; [exact L|]. rewrite R. intro X; exact X.
  - exists text. split; [exact L|]. rewrite R. intro X; exact X.
Qed.

(* the parser has no hazard value on any text (C06_parse_total), so neither has the load *)
Theorem loadt_no_hazard : forall fs f st p q, snd (loadt f fs st p) <> THazard q.
Proof.
  intros fs f st p q E. pose proof (loadt_status fs f st p) as S. rewrite E in S.
  destruct S as [text [_ H]]. apply H. apply parse_total.
Qed.

(* ---------- loads that meet no bad text ---------- *)

(* G is a set of files whose texts parse and whose includes stay inside G *)
Definition good_closed (fs : tfs) (G : path -> Prop) : Prop :=
  forall cp, G cp ->
    exists text pes, tlookup cp fs = Some text /\ parse_ledger text = LOk pes /\
      forall w ps k, In (SInclude w) (map e_entry pes) ->
        include_targets (keys_fs fs) cp w = inr ps -> In k ps -> G (canonicalize k).

Lemma tthen_not_bad : forall a b, ~ bad (snd a) -> ~ bad (snd b) -> ~ bad (snd (tthen a b)).
Proof. intros a b Ha Hb. destruct (tthen_status a b) as [E|E]; rewrite E; assumption. Qed.

Lemma tload_all_not_bad : forall (ld : path -> trun) ps,
  (forall k, In k ps -> ~ bad (snd (ld k))) -> ~ bad (snd (tload_all ld ps)).
Proof.
  intros ld. induction ps as [|k ps IH]; intro H; [intros []|].
  cbn [tload_all fold_right]. fold (tload_all ld ps). apply tthen_not_bad.
  - apply H. left. reflexivity.
  - apply IH. intros q Hq. apply H. right. exact Hq.
Qed.

Lemma tload_entries_not_bad : forall (ld : path -> trun) keys cp last,
  ~ bad last ->
  forall es i,
    (forall w ps k, In (SInclude w) (map e_entry es) -> include_targets keys cp w = inr ps -> In k ps ->
                    ~ bad (snd (ld k))) ->
    ~ bad (snd (tload_entries ld keys cp i es last)).
Proof.
  intros ld keys cp last L. induction es as [|e r IH]; intros i H; [exact L|].
  assert (Hr : forall w ps k, In (SInclude w) (map e_entry r) -> include_targets keys cp w = inr ps -> In k ps ->
                              ~ bad (snd (ld k))).
  { intros w ps k Hw. apply H. right. exact Hw. }
  destruct (is_include_cases (e_entry e)) as [[w E]|E].
  - cbn [tload_entries]. rewrite E. destruct (include_targets keys cp w) as [err|ps] eqn:T; [intros []|].
    apply tthen_not_bad.
    + apply tload_all_not_bad. intros k Hk. apply (H w ps k); [left; exact E|exact T|exact Hk].
    + apply IH. exact Hr.
  - rewrite (tload_entries_cons_ent _ _ _ _ _ _ _ E). apply tthen_not_bad; [intros []|]. apply IH. exact Hr.
Qed.

Theorem good_not_bad : forall fs G, good_closed fs G ->
  forall f st p, G (canonicalize p) -> ~ bad (snd (loadt f fs st p)).
Proof.
  intros fs G C. induction f as [|f IH]; intros st p Gp; [intros []|].
  cbn [loadt]. destruct (existsb (path_eqb (canonicalize p)) st); [intros []|].
  destruct (C _ Gp) as [text [pes [L [R Inc]]]]. rewrite L, R.
  apply tload_entries_not_bad; [intros []|].
  intros w ps k Hw T Hk. apply IH. eapply Inc; eassumption.
Qed.

(* ---------- a cut of texts loads back to the entries ---------- *)

Lemma cut_text_list_in : forall fs ps L, cut_text_list fs ps L ->
  forall k, In k ps -> exists L', cut_text_of fs k L'.
Proof.
  intros fs ps L H. induction H as [|p ps L1 L2 Hp Hl IH]; intros k Hk; [destruct Hk|].
  destruct Hk as [<-|Hk]; [exists L1; exact Hp|apply IH; exact Hk].
Qed.

Lemma cut_text_entries_children : forall fs, wf_tfs fs ->
  forall cp es L, cut_text_entries fs cp es L ->
  forall w ps k, In (SInclude w) es -> include_targets (keys_fs fs) cp w = inr ps -> In k ps ->
    exists L', cut_text_of fs k L'.
Proof.
  intros fs W cp es L H. induction H as [cp|cp e r L Ne Hr IH|cp w0 r ps0 L1 L2 S Hl Hr IH]; intros w ps k Hw T Hk.
  - destruct Hw.
  - destruct Hw as [->|Hw]; [discriminate|]. eapply IH; eassumption.
  - destruct Hw as [Hw|Hw].
    + inversion Hw; subst w0. pose proof (targets_complete _ _ _ _ (wf_keys_fs fs W) S) as T'.
      rewrite T in T'. inversion T'; subst ps0. eapply cut_text_list_in; eassumption.
    + eapply IH; eassumption.
Qed.

Lemma cut_text_good : forall fs, wf_tfs fs ->
  good_closed fs (fun q => exists p L, canonicalize p = q /\ cut_text_of fs p L).
Proof.
  intros fs W cp [p [L [<- H]]]. inversion H as [p0 text pes L0 Hin R Hc]; subst.
  exists text, pes. split; [apply in_tlookup; assumption|]. split; [exact R|].
  intros w ps k Hw T Hk.
  destruct (cut_text_entries_children fs W _ _ _ Hc w ps k Hw T Hk) as [L' H'].
  exists k, L'. split; [reflexivity|exact H'].
Qed.

(* an abstract delivery (path, index) resolved against the texts *)
Definition resolves (fs : tfs) (x : path * N) (e : s_entry) : Prop :=
  option_map e_entry (entry_at fs x) = Some e.

Lemma map_eq_cons_inv : forall (A B : Type) (f : A -> B) l y ys,
  map f l = y :: ys -> exists x xs, l = x :: xs /\ f x = y /\ map f xs = ys.
Proof. intros A B f [|x xs] y ys H; [discriminate|]. inversion H. exists x, xs. auto. Qed.

Lemma cut_text_expands_mut : forall fs, wf_tfs fs ->
  (forall p L, cut_text_of fs p L ->
     exists out, expands (parse_fs fs) p out /\ Forall2 (resolves fs) out L) /\
  (forall cp es L, cut_text_entries fs cp es L ->
     forall text pre pes, tlookup cp fs = Some text -> parsed_of text = pre ++ pes -> es = map e_entry pes ->
     exists out, expands_entries (parse_fs fs) cp (abs_entries (N.of_nat (length pre)) pes) out /\
                 Forall2 (resolves fs) out L) /\
  (forall ps L, cut_text_list fs ps L ->
     exists out, expands_list (parse_fs fs) ps out /\ Forall2 (resolves fs) out L).
Proof.
  intros fs W. apply cut_text_mutind.
  - intros p text pes L Hin R _ IH.
    pose proof (in_tlookup fs _ _ W Hin) as Lk.
    assert (P : parsed_of text = [] ++ pes) by (unfold parsed_of; rewrite R; reflexivity).
    destruct (IH text [] pes Lk P eq_refl) as [out [E F]].
    exists out. split; [|exact F].
    apply Ex_file with (content := abs_entries 0 (parsed_of text)).
    + unfold parse_fs. apply in_map_iff. exists (canonicalize p, text). split; [reflexivity|exact Hin].
    + rewrite P. exact E.
  - intros cp text pre pes _ _ Hm. symmetry in Hm. apply map_eq_nil in Hm. subst pes.
    exists []. split; [constructor|constructor].
  - intros cp e r L Ne _ IH text pre pes Lk P Hm.
    symmetry in Hm. apply map_eq_cons_inv in Hm. destruct Hm as [pe [pes' [-> [He Hm]]]]. subst e.
    assert (P' : parsed_of text = (pre ++ [pe]) ++ pes') by (rewrite <- app_assoc; exact P).
    destruct (IH text (pre ++ [pe]) pes' Lk P' (eq_sym Hm)) as [out [E F]].
    exists ((cp, N.of_nat (length pre)) :: out). split.
    + rewrite (abs_entries_cons_ent _ _ _ Ne). constructor.
      replace (N.of_nat (length pre) + 1) with (N.of_nat (length (pre ++ [pe])));
        [exact E|rewrite app_length; cbn [length]; lia].
    + constructor; [|exact F]. unfold resolves, entry_at. cbn [fst snd]. rewrite Lk, Nat2N.id, P.
      rewrite nth_error_app2 by lia. rewrite Nat.sub_diag. reflexivity.
  - intros cp w r ps L1 L2 S _ [o1 [E1 F1]] _ IH text pre pes Lk P Hm.
    symmetry in Hm. apply map_eq_cons_inv in Hm. destruct Hm as [pe [pes' [-> [He Hm]]]].
    assert (P' : parsed_of text = (pre ++ [pe]) ++ pes') by (rewrite <- app_assoc; exact P).
    destruct (IH text (pre ++ [pe]) pes' Lk P' (eq_sym Hm)) as [o2 [E2 F2]].
    exists (o1 ++ o2). split; [|apply Forall2_app; assumption].
    cbn [abs_entries]. rewrite He. apply EE_inc with (ps := ps).
    + eapply include_set_keys; [|exact S]. rewrite keys_fs_keys, parse_fs_keys. reflexivity.
    + exact E1.
    + replace (N.of_nat (length pre) + 1) with (N.of_nat (length (pre ++ [pe])));
        [exact E2|rewrite app_length; cbn [length]; lia].
  - exists []. split; constructor.
  - intros p ps L1 L2 _ [o1 [E1 F1]] _ [o2 [E2 F2]].
    exists (o1 ++ o2). split; [constructor; assumption|apply Forall2_app; assumption].
Qed.

Lemma resolved_entries : forall fs out' out L,
  map proj out' = out -> (forall l, In l out' -> delivered_ok fs l) -> Forall2 (resolves fs) out L ->
  loaded_entries out' = L.
Proof.
  intros fs. induction out' as [|l r IH]; intros out L M D F.
  - cbn in M. subst out. inversion F. reflexivity.
  - cbn [map] in M. subst out. inversion F as [|x e xs es Hx Hr]; subst.
    cbn [loaded_entries map]. fold (loaded_entries r). f_equal.
    + destruct (D l (or_introl eq_refl)) as [text [Lk [Nth _]]].
      unfold resolves, entry_at, proj in Hx. cbn [fst snd] in Hx. rewrite Lk, Nth in Hx.
      cbn [option_map] in Hx. inversion Hx. reflexivity.
    + apply (IH (map proj r) es eq_refl); [intros y Hy; apply D; right; exact Hy|exact Hr].
Qed.

(* every way of cutting the entries into text files loads back to exactly the entries, in
   order, with any fuel beyond the number of files *)
Theorem cut_text_loads : forall fs root L,
  wf_tfs fs -> cut_text_of fs root L ->
  forall f, (length fs < f)%nat ->
    exists out, load_texts f fs root = (out, TDone) /\ loaded_entries out = L.
Proof.
  intros fs root L W C f B.
  destruct (proj1 (cut_text_expands_mut fs W) root L C) as [out [E F]].
  destruct (loadc_complete (parse_fs fs) (wf_parse_fs fs W) root out E) as [n Hn].
  assert (LC : loadc f (parse_fs fs) [] root = (out, Done)).
  { rewrite (load_result_stable (parse_fs fs) root f (Nat.max n f)).
    - apply Hn. lia.
    - rewrite parse_fs_length. exact B.
    - rewrite parse_fs_length. lia. }
  assert (NB : ~ bad (snd (loadt f fs [] root))).
  { apply (good_not_bad fs _ (cut_text_good fs W)). exists root, L. split; [reflexivity|exact C]. }
  destruct (loadt_exact fs f [] root NB) as [M S]. rewrite LC in M, S. cbn [fst snd emb] in M, S.
  unfold load_texts. destruct (loadt f fs [] root) as [out' s] eqn:R. cbn [fst snd] in *. subst s.
  exists out'. split; [reflexivity|].
  apply (resolved_entries fs out' out L M); [|exact F].
  intros l Hl. apply (loadt_delivered fs f [] root). rewrite R. exact Hl.
Qed.

(* conversely a load that ends normally is a cut of what it delivered *)
Lemma tthen_done_inv : forall a b out, tthen a b = (out, TDone) ->
  exists o1 o2, a = (o1, TDone) /\ b = (o2, TDone) /\ out = o1 ++ o2.
Proof.
  intros [o1 s1] [o2 s2] out H. unfold tthen in H. cbn [fst snd] in H.
  destruct s1; try (inversion H; fail). inversion H; subst. exists o1, o2. auto.
Qed.

Lemma tload_all_cut : forall fs (ld : path -> trun),
  (forall k o, ld k = (o, TDone) -> cut_text_of fs k (loaded_entries o)) ->
  forall ps out, tload_all ld ps = (out, TDone) -> cut_text_list fs ps (loaded_entries out).
Proof.
  intros fs ld H. induction ps as [|k ps IH]; intros out E.
  - cbn in E. inversion E. constructor.
  - cbn [tload_all fold_right] in E. fold (tload_all ld ps) in E.
    apply tthen_done_inv in E. destruct E as [o1 [o2 [E1 [E2 ->]]]].
    unfold loaded_entries. rewrite map_app. constructor; [apply H; exact E1|apply IH; exact E2].
Qed.

Lemma tload_entries_cut : forall fs (ld : path -> trun) cp, wf_tfs fs ->
  (forall k o, ld k = (o, TDone) -> cut_text_of fs k (loaded_entries o)) ->
  forall es i out, tload_entries ld (keys_fs fs) cp i es TDone = (out, TDone) ->
    cut_text_entries fs cp (map e_entry es) (loaded_entries out).
Proof.
  intros fs ld cp W H. induction es as [|e r IH]; intros i out E.
  - cbn in E. inversion E. constructor.
  - destruct (is_include_cases (e_entry e)) as [[w Ew]|Ne].
    + cbn [tload_entries] in E. rewrite Ew in E.
      destruct (include_targets (keys_fs fs) cp w) as [err|ps] eqn:T; [inversion E|].
      apply tthen_done_inv in E. destruct E as [o1 [o2 [E1 [E2 ->]]]].
      cbn [map]. rewrite Ew. unfold loaded_entries. rewrite map_app.
      apply CTE_inc with (ps := ps).
      * apply targets_sound; [apply wf_keys_fs; exact W|exact T].
      * apply (tload_all_cut fs ld H). exact E1.
      * apply (IH _ _ E2).
    + rewrite (tload_entries_cons_ent _ _ _ _ _ _ _ Ne) in E.
      apply tthen_done_inv in E. destruct E as [o1 [o2 [E1 [E2 ->]]]]. inversion E1; subst o1.
      cbn [map app]. unfold loaded_entries. cbn [map l_parsed]. apply CTE_ent; [exact Ne|].
      apply (IH _ _ E2).
Qed.

Lemma tload_entries_last_not_done : forall (ld : path -> trun) keys cp last, last <> TDone ->
  forall es i out, tload_entries ld keys cp i es last = (out, TDone) -> False.
Proof.
  intros ld keys cp last NL. induction es as [|x r IHr]; intros i out E; [inversion E; contradiction|].
  destruct (is_include_cases (e_entry x)) as [[w Ew]|Ne].
  - cbn [tload_entries] in E. rewrite Ew in E.
    destruct (include_targets keys cp w); [inversion E|].
    apply tthen_done_inv in E. destruct E as [o1 [o2 [_ [E2 _]]]]. eapply IHr; exact E2.
  - rewrite (tload_entries_cons_ent _ _ _ _ _ _ _ Ne) in E.
    apply tthen_done_inv in E. destruct E as [o1 [o2 [_ [E2 _]]]]. eapply IHr; exact E2.
Qed.

Theorem loaded_text_is_cut : forall fs, wf_tfs fs ->
  forall f st p out, loadt f fs st p = (out, TDone) -> cut_text_of fs p (loaded_entries out).
Proof.
  intros fs W. induction f as [|f IH]; intros st p out E; [inversion E|].
  cbn [loadt] in E. destruct (existsb (path_eqb (canonicalize p)) st); [inversion E|].
  destruct (tlookup (canonicalize p) fs) as [text|] eqn:L; [|inversion E].
  destruct (parse_ledger text) as [es|es e|k|k|] eqn:R; try (inversion E; fail).
  - apply CT_file with (text := text) (pes := es); [apply tlookup_in; exact L|exact R|].
    eapply tload_entries_cut; [exact W| |exact E]. intros k o. apply IH.
  - exfalso. eapply tload_entries_last_not_done; [|exact E]. discriminate.
Qed.
