(* Model of cli/src/import/single_entry.rs (Txn, to_double_entry) and import/amount.rs, and of
   the syntax transaction an importer hands to the printer.  Definitions only.

   A rust_decimal::Decimal is sign bit + magnitude: zero has a sign (is_sign_positive decides
   the posting order) and negation flips the bit.  Magnitudes are exact rationals. *)
From Coq Require Import List NArith ZArith Bool QArith Qcanon.
From Okv Require Import Base.Dec Model.ImpConfig Model.ImpExtract.
Import ListNotations.
Open Scope Qc_scope.

Record dec := { d_neg : bool; d_mag : Qc }.        (* d_mag >= 0 *)
Definition dec_value (d : dec) : Qc := if d_neg d then - d_mag d else d_mag d.
Definition dec_zero : dec := {| d_neg := false; d_mag := 0 |}.       (* Decimal::ZERO *)
Definition dec_is_zero (d : dec) : bool := qc_zero (d_mag d).
Definition dec_opp (d : dec) : dec := {| d_neg := negb (d_neg d); d_mag := d_mag d |}.
(* set_sign_positive(b) *)
Definition dec_set_positive (d : dec) (b : bool) : dec := {| d_neg := negb b; d_mag := d_mag d |}.
(* Decimal `*`: a zero operand gives Decimal::ZERO *)
Definition dec_mul (a b : dec) : dec :=
  if dec_is_zero a || dec_is_zero b then dec_zero
  else {| d_neg := xorb (d_neg a) (d_neg b); d_mag := d_mag a * d_mag b |}.
(* Decimal `/`: panics on a zero divisor (None); a zero dividend gives Decimal::ZERO *)
Definition dec_div (a b : dec) : option dec :=
  if dec_is_zero b then None
  else if dec_is_zero a then Some dec_zero
  else Some {| d_neg := xorb (d_neg a) (d_neg b); d_mag := d_mag a / d_mag b |}.

(* OwnedAmount *)
Record oamount := { oa_value : dec; oa_commodity : str }.
Definition oa_opp (a : oamount) : oamount := {| oa_value := dec_opp (oa_value a); oa_commodity := oa_commodity a |}.

Inductive clear_state := Uncleared | Cleared | Pending.

(* single_entry::Txn *)
Record txn := { t_date : Z; t_edate : option Z; t_code : option str; t_payee : str;
                t_comments : list str; t_dest : option str; t_clear : option clear_state;
                t_transferred : option oamount; t_amount : oamount;
                t_rates : list (str * oamount);         (* HashMap target commodity -> rate *)
                t_balance : option oamount; t_charges : list (str * oamount) }.

(* one_line (the repair recorded as C15 in known_findings.json): line breaks become spaces and
   the text is trimmed; str::trim on text whose white space is ASCII *)
Definition is_ws (c : N) : bool := (c =? 32)%N || ((9 <=? c)%N && (c <=? 13)%N).
Fixpoint trim_start (s : str) : str :=
  match s with
  | c :: r => if is_ws c then trim_start r else s
  | [] => []
  end.
Definition trim (s : str) : str := rev (trim_start (rev (trim_start s))).
Definition one_line (s : str) : str :=
  trim (map (fun c => if (c =? 13)%N || (c =? 10)%N then 32%N else c) s).

Definition txn_new (date : Z) (payee : str) (a : oamount) : txn :=
  {| t_date := date; t_edate := None; t_code := None; t_payee := one_line payee; t_comments := [];
     t_dest := None; t_clear := None; t_transferred := None; t_amount := a; t_rates := [];
     t_balance := None; t_charges := [] |}.

Fixpoint sget {V} (k : str) (m : list (str * V)) : option V :=
  match m with
  | [] => None
  | (k', v) :: r => if str_eqb k' k then Some v else sget k r
  end.

(* what every importer does with the extracted Fragment: code_option, dest_account_option,
   clear_state(Pending) unless cleared *)
Definition apply_fragment (f : frag) (t : txn) : txn :=
  {| t_date := t_date t; t_edate := t_edate t; t_code := option_map one_line (g_code f); t_payee := t_payee t;
     t_comments := t_comments t; t_dest := g_account f;
     t_clear := if g_cleared f then t_clear t else Some Pending;
     t_transferred := t_transferred t; t_amount := t_amount t; t_rates := t_rates t;
     t_balance := t_balance t; t_charges := t_charges t |}.

(* ---- the syntax transaction handed to the printer ---- *)
Record sposting := { sp_account : str; sp_clear : clear_state; sp_amount : oamount;
                     sp_cost : option oamount;          (* Exchange::Rate *)
                     sp_balance : option oamount;
                     sp_payee : option str }.           (* `Payee: ...` metadata of a charge *)
Record stxn := { st_date : Z; st_edate : option Z; st_clear : clear_state; st_code : option str;
                 st_payee : str; st_comments : list str; st_posts : list sposting }.

Definition income_unknown : str := [73;110;99;111;109;101;58;85;110;107;110;111;119;110]%N.
Definition expenses_unknown : str := [69;120;112;101;110;115;101;115;58;85;110;107;110;111;119;110]%N.
Definition expenses_commissions : str :=
  [69;120;112;101;110;115;101;115;58;67;111;109;109;105;115;115;105;111;110;115]%N.

(* Txn::to_posting_amount: the cost is the rate registered for the amount's commodity *)
Definition posting_cost (t : txn) (a : oamount) : option oamount := sget (oa_commodity a) (t_rates t).

(* Txn::dest_amount *)
Definition dest_amount (t : txn) : oamount :=
  match t_transferred t with
  | Some tr =>
      (* amount_with_sign(transferred, -self.amount.value) *)
      {| oa_value := dec_set_positive (oa_value tr) (negb (d_neg (dec_opp (oa_value (t_amount t)))));
         oa_commodity := oa_commodity tr |}
  | None => oa_opp (t_amount t)
  end.

Definition post_clear (t : txn) : clear_state :=
  match t_clear t with
  | Some c => c
  | None => match t_dest t with Some _ => Uncleared | None => Pending end
  end.

Definition src_posting (t : txn) (src : str) : sposting :=
  {| sp_account := src; sp_clear := Uncleared; sp_amount := t_amount t;
     sp_cost := posting_cost t (t_amount t); sp_balance := t_balance t; sp_payee := None |}.
Definition dest_posting (t : txn) (dflt : str) : sposting :=
  {| sp_account := match t_dest t with Some a => a | None => dflt end; sp_clear := post_clear t;
     sp_amount := dest_amount t; sp_cost := posting_cost t (dest_amount t); sp_balance := None;
     sp_payee := None |}.
Definition charge_posting (t : txn) (c : str * oamount) : sposting :=
  {| sp_account := expenses_commissions; sp_clear := Uncleared; sp_amount := snd c;
     sp_cost := posting_cost t (snd c); sp_balance := None; sp_payee := Some (fst c) |}.

(* the posting on the other side of the configured account *)
Definition counter_posting (t : txn) : sposting :=
  dest_posting t (if d_neg (oa_value (t_amount t)) then expenses_unknown else income_unknown).

(* Txn::to_double_entry; the sign *bit* decides (is_sign_positive / is_sign_negative are
   complementary, so the error branch of the source is unreachable) *)
Definition to_double_entry (t : txn) (src : str) : stxn :=
  let charges := map (charge_posting t) (t_charges t) in
  let posts :=
    if negb (d_neg (oa_value (t_amount t)))
    then src_posting t src :: charges ++ [dest_posting t income_unknown]
    else dest_posting t expenses_unknown :: charges ++ [src_posting t src] in
  {| st_date := t_date t; st_edate := t_edate t; st_clear := Cleared; st_code := t_code t;
     st_payee := t_payee t; st_comments := t_comments t; st_posts := posts |}.

(* Txn::add_rate: None = the "same commodity" / "two distinct rates" errors *)
Definition dec_eqb (a b : dec) : bool := Bool.eqb (d_neg a) (d_neg b) && Qc_eq_bool (d_mag a) (d_mag b).
Definition add_rate (t : txn) (source target : str) (rate : dec) : option txn :=
  if str_eqb source target then None else
  match sget target (t_rates t) with
  | Some ex => if str_eqb (oa_commodity ex) source && Qc_eq_bool (dec_value (oa_value ex)) (dec_value rate)
               then Some t else None
  | None =>
      Some {| t_date := t_date t; t_edate := t_edate t; t_code := t_code t; t_payee := t_payee t;
              t_comments := t_comments t; t_dest := t_dest t; t_clear := t_clear t;
              t_transferred := t_transferred t; t_amount := t_amount t;
              t_rates := (target, {| oa_value := rate; oa_commodity := source |}) :: t_rates t;
              t_balance := t_balance t; t_charges := t_charges t |}
  end.
