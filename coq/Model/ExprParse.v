(* Token-level model of the value-expression parser (core/src/parse/expr.rs) and the
   textbook grammar it is proved equivalent to (Proofs/ExprParseProofs.v).

   expr.rs:  value_expr = dispatch{'(' => paren(add_expr), _ => amount}
             add_expr   = infixl(add_op, mul_expr)      add_op = '+' | '-'
             mul_expr   = infixl(mul_op, unary_expr)    mul_op = '*' | '/'
             unary_expr = dispatch{'-' => '-' value_expr, _ => value_expr}
             infixl(op, x) = the loop of separated_foldl1(x, space0 op space0, Binary)
   Since fix ac8b801 value_expr carries the number of enclosing parentheses and refuses to
   nest deeper than MAX_EXPR_DEPTH = 100, and since fix 5c35bc3 (C06-F23) every parser of
   expr.rs returns the height of its tree and refuses to build a tree taller than
   MAX_EXPR_HEIGHT = 256 (infixl became a loop of its own that stops at the operator which
   would make the tree too tall); the model has neither bound (token lists of the
   correspondence run stay far below them; the bounds themselves belong to C06 and to the
   text-level model Model/ParseExpr.v).
   Every failure inside is a backtracking one (there is no cut_err), so one PFail suffices.
   Characters and blanks are the business of the text-level parser (property C05); the
   correspondence run lexes the generated text and checks this model against the real parser. *)
From Coq Require Import List NArith ZArith Bool QArith Qcanon.
From Okv Require Import Base.Maps Base.Dec Model.Amount.
Import ListNotations.

Inductive token :=
| TNum (q : Qc) (c : option cid)      (* number with optional commodity *)
| TLP | TRP | TPlus | TMinus | TStar | TSlash.

Inductive presult (A : Type) := POk (a : A) | PFail | POutOfFuel.
Arguments POk {A} a. Arguments PFail {A}. Arguments POutOfFuel {A}.

Definition add_op (t : token) : option binop :=
  match t with TPlus => Some OAdd | TMinus => Some OSub | _ => None end.
Definition mul_op (t : token) : option binop :=
  match t with TStar => Some OMul | TSlash => Some ODiv | _ => None end.

Section Infixl.
  Variable is_op : token -> option binop.
  Variable operand : list token -> presult (expr * list token).

  (* the loop of winnow's separated_foldl1: after the first operand, while a separator and
     another operand follow, fold to the LEFT; when the separator or the operand after it
     fails, reset to the checkpoint taken before the separator and return what we have *)
  Fixpoint foldl_loop (n : nat) (acc : expr) (ts : list token) : presult (expr * list token) :=
    match n with
    | O => POutOfFuel
    | S n' =>
        match ts with
        | t :: r =>
            match is_op t with
            | Some op =>
                match operand r with
                | POk (e, k) => foldl_loop n' (EBin op acc e) k
                | PFail => POk (acc, ts)
                | POutOfFuel => POutOfFuel
                end
            | None => POk (acc, ts)
            end
        | [] => POk (acc, ts)
        end
    end.

  Definition infixl (n : nat) (ts : list token) : presult (expr * list token) :=
    match operand ts with
    | POk (e, k) => foldl_loop n e k
    | PFail => PFail
    | POutOfFuel => POutOfFuel
    end.
End Infixl.

Section Levels.
  (* the three expression levels above a given value parser *)
  Variable pv : list token -> presult (vexpr * list token).

  Definition unary_of (ts : list token) : presult (expr * list token) :=
    match ts with
    | TMinus :: r =>
        match pv r with
        | POk (v, k) => POk (EUnaryNeg (EVal v), k)
        | PFail => PFail
        | POutOfFuel => POutOfFuel
        end
    | _ =>
        match pv ts with
        | POk (v, k) => POk (EVal v, k)
        | PFail => PFail
        | POutOfFuel => POutOfFuel
        end
    end.
  Definition mul_of (n : nat) : list token -> presult (expr * list token) := infixl mul_op unary_of n.
  Definition add_of (n : nat) : list token -> presult (expr * list token) := infixl add_op (mul_of n) n.
End Levels.

Fixpoint parse_value (fuel : nat) (ts : list token) : presult (vexpr * list token) :=
  match fuel with
  | O => POutOfFuel
  | S f =>
      match ts with
      | TLP :: r =>
          match add_of (parse_value f) f r with
          | POk (e, TRP :: k) => POk (VParen e, k)
          | POk (_, _) => PFail
          | PFail => PFail
          | POutOfFuel => POutOfFuel
          end
      | TNum q c :: r => POk (VAmt q c, r)
      | _ => PFail
      end
  end.

Definition parse_unary (fuel : nat) := unary_of (parse_value fuel).
Definition parse_mul (fuel : nat) := mul_of (parse_value fuel) fuel.
Definition parse_add (fuel : nat) := add_of (parse_value fuel) fuel.

(* fuel = token count (+1); Proofs/ExprParseProofs.v: never POutOfFuel *)
Definition parse_value_expr (ts : list token) : presult (vexpr * list token) :=
  parse_value (S (length ts)) ts.

(* ---- the grammar, as one reads it in a textbook ----
     add   ::= add (+|-) mul   | mul
     mul   ::= mul ( * | / ) unary | unary
     unary ::= - value | value
     value ::= amount | "(" add ")"
   `g_x ts t k`: the token list ts is a phrase of x with tree t followed by k. *)
Inductive g_value : list token -> vexpr -> list token -> Prop :=
| GV_amount q c k : g_value (TNum q c :: k) (VAmt q c) k
| GV_paren ts e k : g_add ts e (TRP :: k) -> g_value (TLP :: ts) (VParen e) k
with g_unary : list token -> expr -> list token -> Prop :=
| GU_neg ts v k : g_value ts v k -> g_unary (TMinus :: ts) (EUnaryNeg (EVal v)) k
| GU_value ts v k : g_value ts v k -> g_unary ts (EVal v) k
with g_mul : list token -> expr -> list token -> Prop :=
| GM_unary ts e k : g_unary ts e k -> g_mul ts e k
| GM_bin ts l t op k1 r k :
    g_mul ts l (t :: k1) -> mul_op t = Some op -> g_unary k1 r k -> g_mul ts (EBin op l r) k
with g_add : list token -> expr -> list token -> Prop :=
| GA_mul ts e k : g_mul ts e k -> g_add ts e k
| GA_bin ts l t op k1 r k :
    g_add ts l (t :: k1) -> add_op t = Some op -> g_mul k1 r k -> g_add ts (EBin op l r) k.

(* a phrase is complete when what follows cannot continue it *)
Definition no_mul_head (k : list token) : Prop :=
  match k with t :: _ => mul_op t = None | [] => True end.
Definition no_add_head (k : list token) : Prop :=
  match k with t :: _ => add_op t = None /\ mul_op t = None | [] => True end.

Definition derives (ts : list token) (t : vexpr) (k : list token) : Prop := g_value ts t k.
