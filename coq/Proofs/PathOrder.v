(* PathBuf ordering (component-wise lexicographic) is a strict total order; the loader's sort
   returns the strictly increasing arrangement of a duplicate-free list, which is unique. *)
From Coq Require Import List NArith Bool Lia Sorting.Sorted Sorting.Permutation.
From Okv Require Import Model.Glob Model.Load Model.LoadSpec.
Import ListNotations.
Open Scope N_scope.

Section Lex.
  Variable A : Type.
  Variable cmp : A -> A -> comparison.
  Hypothesis cmp_eq : forall a b, cmp a b = Eq <-> a = b.
  Hypothesis cmp_antisym : forall a b, cmp b a = CompOpp (cmp a b).
  Hypothesis cmp_trans : forall a b c, cmp a b = Lt -> cmp b c = Lt -> cmp a c = Lt.

  Fixpoint lex (a b : list A) : comparison :=
    match a, b with
    | [], [] => Eq
    | [], _ :: _ => Lt
    | _ :: _, [] => Gt
    | x :: a', y :: b' => match cmp x y with Eq => lex a' b' | c => c end
    end.

  Lemma lex_eq : forall a b, lex a b = Eq <-> a = b.
  Proof.
    induction a as [|x a IH]; destruct b as [|y b]; cbn; split; intro H; try reflexivity; try discriminate.
    - destruct (cmp x y) eqn:E; try discriminate. apply cmp_eq in E. apply IH in H. subst. reflexivity.
    - injection H as H1 H2. subst. assert (E : cmp y y = Eq) by (apply cmp_eq; reflexivity).
      rewrite E. apply IH. reflexivity.
  Qed.

  Lemma lex_antisym : forall a b, lex b a = CompOpp (lex a b).
  Proof.
    induction a as [|x a IH]; destruct b as [|y b]; cbn; try reflexivity.
    rewrite (cmp_antisym x y). destruct (cmp x y); cbn; auto.
  Qed.

  Lemma lex_trans : forall a b c, lex a b = Lt -> lex b c = Lt -> lex a c = Lt.
  Proof.
    induction a as [|x a IH]; destruct b as [|y b]; destruct c as [|z c]; cbn; intros H1 H2;
      try reflexivity; try discriminate.
    destruct (cmp x y) eqn:E1; try discriminate; destruct (cmp y z) eqn:E2; try discriminate.
    - apply cmp_eq in E1. apply cmp_eq in E2. subst.
      assert (E : cmp z z = Eq) by (apply cmp_eq; reflexivity). rewrite E. eapply IH; eauto.
    - apply cmp_eq in E1. subst. rewrite E2. reflexivity.
    - apply cmp_eq in E2. subst. rewrite E1. reflexivity.
    - rewrite (cmp_trans _ _ _ E1 E2). reflexivity.
  Qed.
End Lex.

Lemma str_cmp_lex : forall a b, str_cmp a b = lex N N.compare a b.
Proof. induction a; destruct b; cbn; auto; try (rewrite IHa; reflexivity). Qed.

Lemma N_cmp_trans : forall a b c : N, (a ?= b) = Lt -> (b ?= c) = Lt -> (a ?= c) = Lt.
Proof. intros a b c H1 H2. rewrite N.compare_lt_iff in *. lia. Qed.

Lemma str_cmp_eq : forall a b, str_cmp a b = Eq <-> a = b.
Proof. intros. rewrite str_cmp_lex. apply lex_eq. apply N.compare_eq_iff. Qed.

Lemma str_cmp_antisym : forall a b, str_cmp b a = CompOpp (str_cmp a b).
Proof. intros. rewrite !str_cmp_lex. apply lex_antisym. intros x y. apply N.compare_antisym. Qed.

Lemma str_cmp_trans : forall a b c, str_cmp a b = Lt -> str_cmp b c = Lt -> str_cmp a c = Lt.
Proof.
  intros a b c. rewrite !str_cmp_lex. apply lex_trans.
  - apply N.compare_eq_iff.
  - exact N_cmp_trans.
Qed.

Lemma path_cmp_lex : forall a b, path_cmp a b = lex str str_cmp a b.
Proof. induction a; destruct b; cbn; auto; try (rewrite IHa; reflexivity). Qed.

Lemma path_cmp_eq : forall a b, path_cmp a b = Eq <-> a = b.
Proof. intros. rewrite path_cmp_lex. apply lex_eq. apply str_cmp_eq. Qed.

Lemma path_cmp_antisym : forall a b, path_cmp b a = CompOpp (path_cmp a b).
Proof. intros. rewrite !path_cmp_lex. apply lex_antisym. apply str_cmp_antisym. Qed.

Lemma path_cmp_trans : forall a b c, path_cmp a b = Lt -> path_cmp b c = Lt -> path_cmp a c = Lt.
Proof.
  intros a b c. rewrite !path_cmp_lex. apply lex_trans.
  - apply str_cmp_eq.
  - apply str_cmp_trans.
Qed.

Lemma path_lt_irrefl : forall a, ~ path_lt a a.
Proof. intros a H. unfold path_lt in H. assert (E : path_cmp a a = Eq) by (apply path_cmp_eq; reflexivity). congruence. Qed.

Lemma path_lt_trans : forall a b c, path_lt a b -> path_lt b c -> path_lt a c.
Proof. exact path_cmp_trans. Qed.

Lemma path_lt_asym : forall a b, path_lt a b -> ~ path_lt b a.
Proof. intros a b H1 H2. exact (path_lt_irrefl a (path_lt_trans _ _ _ H1 H2)). Qed.

Lemma path_lt_total : forall a b, path_lt a b \/ a = b \/ path_lt b a.
Proof.
  intros a b. unfold path_lt. destruct (path_cmp a b) eqn:E.
  - right. left. apply path_cmp_eq. exact E.
  - left. reflexivity.
  - right. right. rewrite path_cmp_antisym, E. reflexivity.
Qed.

Lemma path_leb_false : forall x y, path_leb x y = false -> path_lt y x.
Proof.
  intros x y H. unfold path_leb in H. unfold path_lt. rewrite path_cmp_antisym.
  destruct (path_cmp x y); try discriminate. reflexivity.
Qed.

Lemma path_leb_true : forall x y, path_leb x y = true -> path_lt x y \/ x = y.
Proof.
  intros x y H. unfold path_leb in H. unfold path_lt. destruct (path_cmp x y) eqn:E; try discriminate.
  - right. apply path_cmp_eq. exact E.
  - left. reflexivity.
Qed.

(* comparisons agree with equality tests of the model *)
Lemma str_eqb_eq : forall a b, str_eqb a b = true <-> a = b.
Proof.
  induction a as [|x a IH]; destruct b as [|y b]; cbn; split; intro H; try reflexivity; try discriminate.
  - apply andb_true_iff in H. destruct H as [H1 H2]. apply N.eqb_eq in H1. apply IH in H2. subst. reflexivity.
  - injection H as H1 H2. subst. rewrite N.eqb_refl. apply IH. reflexivity.
Qed.

Lemma path_eqb_eq : forall a b, path_eqb a b = true <-> a = b.
Proof.
  induction a as [|x a IH]; destruct b as [|y b]; cbn; split; intro H; try reflexivity; try discriminate.
  - apply andb_true_iff in H. destruct H as [H1 H2]. apply str_eqb_eq in H1. apply IH in H2. subst. reflexivity.
  - injection H as H1 H2. subst. apply andb_true_iff. split; [apply str_eqb_eq|apply IH]; reflexivity.
Qed.

(* ---------- the sort ---------- *)

Lemma insert_perm : forall x l, Permutation (insert_path x l) (x :: l).
Proof.
  induction l as [|y r IH]; cbn; [apply Permutation_refl|].
  destruct (path_leb x y); [apply Permutation_refl|].
  eapply Permutation_trans; [apply perm_skip; exact IH|apply perm_swap].
Qed.

Lemma sort_cons : forall x l, sort_paths (x :: l) = insert_path x (sort_paths l).
Proof. reflexivity. Qed.

Lemma sort_perm : forall l, Permutation (sort_paths l) l.
Proof.
  induction l as [|x l IH]; [constructor|]. rewrite sort_cons.
  eapply Permutation_trans; [apply insert_perm|apply perm_skip; exact IH].
Qed.

Lemma sort_in : forall l k, In k (sort_paths l) <-> In k l.
Proof.
  intros l k. split; intro H.
  - eapply Permutation_in; [apply sort_perm|exact H].
  - eapply Permutation_in; [apply Permutation_sym; apply sort_perm|exact H].
Qed.

Lemma sort_nodup : forall l, NoDup l -> NoDup (sort_paths l).
Proof. intros l H. eapply Permutation_NoDup; [apply Permutation_sym; apply sort_perm|exact H]. Qed.

Lemma insert_sorted : forall x l,
  ~ In x l -> StronglySorted path_lt l -> StronglySorted path_lt (insert_path x l).
Proof.
  induction l as [|y r IH]; intros Hn Hs; cbn.
  - constructor; constructor.
  - inversion Hs as [|? ? Hr Hf]; subst.
    destruct (path_leb x y) eqn:E.
    + apply path_leb_true in E. destruct E as [E|E]; [|subst; exfalso; apply Hn; left; reflexivity].
      constructor; [exact Hs|]. constructor; [exact E|].
      eapply Forall_impl; [|exact Hf]. intros a Ha. eapply path_lt_trans; eauto.
    + apply path_leb_false in E. constructor.
      * apply IH; [intro H; apply Hn; right; exact H|exact Hr].
      * apply Forall_forall. intros a Ha.
        eapply Permutation_in in Ha; [|apply insert_perm]. destruct Ha as [Ha|Ha]; [subst; exact E|].
        rewrite Forall_forall in Hf. apply Hf. exact Ha.
Qed.

Lemma sort_sorted : forall l, NoDup l -> StronglySorted path_lt (sort_paths l).
Proof.
  induction l as [|x l IH]; intro H; [constructor|]. rewrite sort_cons.
  inversion H as [|? ? Hn Hd]; subst. apply insert_sorted; [|apply IH; exact Hd].
  intro Hi. apply (proj1 (sort_in _ _)) in Hi. exact (Hn Hi).
Qed.

(* a strictly increasing list is determined by its elements *)
Lemma sorted_unique : forall l1 l2,
  StronglySorted path_lt l1 -> StronglySorted path_lt l2 ->
  (forall k, In k l1 <-> In k l2) -> l1 = l2.
Proof.
  induction l1 as [|x l1 IH]; intros l2 H1 H2 He.
  - destruct l2 as [|y l2]; [reflexivity|]. exfalso. apply (He y). left. reflexivity.
  - destruct l2 as [|y l2]; [exfalso; apply (He x); left; reflexivity|].
    inversion H1 as [|? ? S1 F1]; subst. inversion H2 as [|? ? S2 F2]; subst.
    rewrite Forall_forall in F1, F2.
    assert (x = y).
    { destruct (proj1 (He x) (or_introl eq_refl)) as [E|E]; [auto|].
      destruct (proj2 (He y) (or_introl eq_refl)) as [E'|E']; [auto|].
      exfalso. exact (path_lt_asym _ _ (F2 _ E) (F1 _ E')). }
    subst y. f_equal. apply IH; auto.
    intro k. split; intro Hk.
    + destruct (proj1 (He k) (or_intror Hk)) as [E|E]; [|exact E].
      subst k. exfalso. exact (path_lt_irrefl _ (F1 _ Hk)).
    + destruct (proj2 (He k) (or_intror Hk)) as [E|E]; [|exact E].
      subst k. exfalso. exact (path_lt_irrefl _ (F2 _ Hk)).
Qed.

(* component order is not the byte order of the joined string: "a/b" < "a.x" *)
Example component_order_vs_string_order :
  path_cmp [[97]; [98]] [[97; 46; 120]] = Lt /\
  str_cmp (path_string [[97]; [98]]) (path_string [[97; 46; 120]]) = Gt.
Proof. split; reflexivity. Qed.
