#!/usr/bin/env python3
"""During a conflicted merge: known_findings.json := union (by id, ours first) of both sides."""
import json, subprocess
def side(n):
    return json.loads(subprocess.check_output(["git", "show", ":%d:known_findings.json" % n]))
ours, theirs = side(2), side(3)
ids = {e["id"] for e in ours}
merged = ours + [e for e in theirs if e["id"] not in ids]
json.dump(merged, open("known_findings.json", "w"), indent=1)
print(len(ours), len(theirs), "->", len(merged))
