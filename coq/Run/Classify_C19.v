(* Correspondence classifier for C19.  A case is a list of syntax trees (one tree printed by the
   real Display, kind 0; or the trees the real parser returned for a text, kind 1, printed by
   FormatOptions::format), the display-width oracle entries for the measured strings that are
   not printable ASCII, and the text the implementation wrote.
   Verdicts: 0 Agree | 1 ModelMismatch | 2 PropertyFail | 9 harness error.
   The property is evaluated on the implementation's text: lines are cut out of it, columns are
   measured on them with the oracle; only then is the whole text compared with the model. *)
From Coq Require Import List NArith ZArith Bool Arith.
From Okv Require Import Model.Lit Model.Syntax Model.Display Model.DisplaySpec Run.Unpack.
Import ListNotations.
Open Scope N_scope.

Inductive obs :=
| OText (len : N) (bytes : list N)    (* UTF-8 bytes of the output *)
| OPanic.

Inductive case := Case (kind : N) (entries : list s_entry) (widths : list (str * nat)) (out : obs).

(* ---- the oracle ---- *)
Fixpoint str_eqb (a b : str) : bool :=
  match a, b with
  | [], [] => true
  | x :: a', y :: b' => (x =? y) && str_eqb a' b'
  | _, _ => false
  end.

Fixpoint lookup (ws : list (str * nat)) (s : str) : option nat :=
  match ws with
  | [] => None
  | (k, v) :: r => if str_eqb k s then Some v else lookup r s
  end.

(* width_cjk as observed by the harness; printable ASCII strings are their length *)
Definition oracle (ws : list (str * nat)) (s : str) : nat :=
  match lookup ws s with
  | Some n => n
  | None => if printable_ascii s then length s else 0%nat
  end.

(* ---- cutting the text ---- *)
Fixpoint split_on_nl (s : str) : list str :=
  match s with
  | [] => [[]]
  | c :: r =>
      if c =? 10 then [] :: split_on_nl r
      else match split_on_nl r with
           | l :: t => (c :: l) :: t
           | [] => [[c]]
           end
  end.

(* the lines of a text in which every line is ended by "\n"; None if the last one is not *)
Definition lines_of (s : str) : option (list str) :=
  match rev (split_on_nl s) with
  | [] :: r => Some (rev r)
  | _ => None
  end.

Fixpoint strip_prefix (pre l : str) : option str :=
  match pre with
  | [] => Some l
  | a :: p => match l with
              | b :: r => if a =? b then strip_prefix p r else None
              | [] => None
              end
  end.

Definition is_prefix (pre l : str) : bool :=
  match strip_prefix pre l with Some _ => true | None => false end.

Fixpoint span_spaces (l : str) : nat * str :=
  match l with
  | c :: r => if c =? 32 then let p := span_spaces r in (S (fst p), snd p) else (0%nat, l)
  | [] => (0%nat, [])
  end.

Definition is_nil {A} (l : list A) : bool := match l with [] => true | _ => false end.

(* ---- the property on one posting line of the output ---- *)
Definition check_posting_line (w : str -> nat) (p : s_posting) (L : str) : bool :=
  match strip_prefix (spaces 4) L with
  | None => false
  | Some r0 =>
      (* four spaces, then something that is not a space *)
      match r0 with [] => false | c :: _ => negb (c =? 32) end &&
      match strip_prefix (print_clear_state (sp_clear p) ++ sp_account p) r0 with
      | None => false
      | Some rest =>
          let k := fst (span_spaces rest) in
          let rest' := snd (span_spaces rest) in
          let aw := (w (sp_account p) + length (print_clear_state (sp_clear p)))%nat in
          match sp_amount p, sp_balance p with
          | Some pa, _ =>
              let pre := vexpr_align_prefix (pa_amount pa) in
              (2 <=? k)%nat && is_prefix pre rest' &&
              (if (aw + length pre + 2 <? 48)%nat then (4 + aw + k + length pre =? 52)%nat else true)
          | None, Some b =>
              (2 <=? k)%nat &&
              match strip_prefix [61; 32] rest' with
              | None => false
              | Some bal =>
                  let trailing := (w bal - length (vexpr_align_prefix b))%nat in
                  if (aw + 3 <? 50 + trailing)%nat then (4 + aw + k + 1 =? 54 + trailing)%nat else true
              end
          | None, None => is_nil rest
          end
      end
  end.

Definition is_meta_line (L : str) : bool := is_prefix [32; 32; 32; 32; 59] L.

(* the lines after the header: transaction metadata, then every posting with its metadata *)
Fixpoint take_meta (n : nat) (ls : list str) : option (list str) :=
  match n with
  | O => Some ls
  | S k => match ls with
           | L :: r => if is_meta_line L then take_meta k r else None
           | [] => None
           end
  end.

Fixpoint check_postings (w : str -> nat) (ps : list s_posting) (ls : list str) : bool :=
  match ps with
  | [] => is_nil ls
  | p :: ps' =>
      match ls with
      | L :: r =>
          check_posting_line w p L &&
          match take_meta (length (sp_metadata p)) r with
          | Some r' => check_postings w ps' r'
          | None => false
          end
      | [] => false
      end
  end.

(* one entry against the block of lines the implementation wrote for it *)
Definition check_entry (w : str -> nat) (e : s_entry) (ls : list str) : bool :=
  forallb (fun l => negb (is_nil l)) ls && negb (is_nil ls) &&
  match e with
  | STxn t =>
      match ls with
      | _ :: r => match take_meta (length (st_metadata t)) r with
                  | Some r' => check_postings w (st_posts t) r'
                  | None => false
                  end
      | [] => false
      end
  | _ => true
  end.

(* blocks of non-empty lines, each closed by one empty line *)
Fixpoint blocks (cur : list str) (ls : list str) : list (list str) :=
  match ls with
  | [] => match cur with [] => [] | _ => [rev cur] end   (* unterminated tail *)
  | l :: r => if is_nil l then rev cur :: blocks [] r else blocks (l :: cur) r
  end.

Fixpoint check_blocks (w : str -> nat) (es : list s_entry) (bs : list (list str)) : bool :=
  match es, bs with
  | [], [] => true
  | e :: es', b :: bs' => check_entry w e b && check_blocks w es' bs'
  | _, _ => false
  end.

(* the domain of the property: trees whose single-line fields are single lines *)
Definition in_domain (es : list s_entry) : bool := forallb entry_ok es.

Definition spec_holds (kind : N) (w : str -> nat) (es : list s_entry) (text : str) : bool :=
  match lines_of text with
  | None => is_nil text && is_nil es
  | Some ls =>
      if kind =? 0 then
        match es with
        | [e] => check_entry w e ls
        | _ => false
        end
      else
        (* every entry is followed by exactly one empty line: the text ends in one, and the
           blocks between empty lines are the entries, in order *)
        match rev ls with
        | [] :: _ => check_blocks w es (blocks [] ls)
        | _ => false
        end
  end.

Definition model_text (kind : N) (w : str -> nat) (es : list s_entry) : str :=
  if kind =? 0 then match es with [e] => print_entry w e | _ => [] end
  else format_entries w es.

Definition classify (c : case) : N :=
  match c with
  | Case kind es ws out =>
      let w := oracle ws in
      match out with
      | OPanic => 2
      | OText len bytes =>
          if negb (N.of_nat (length bytes) =? len) then 9
          else
            let text := unpack_text bytes in
            if in_domain es && negb (spec_holds kind w es text) then 2
            else if existsb (entry_hazard w) es then 1
            else if str_eqb text (model_text kind w es) then 0 else 1
      end
  end.

Definition verdicts (cs : list case) : list N := map classify cs.
