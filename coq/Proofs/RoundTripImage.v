(* C05: the parser only returns well-formed entries (the image of parse_ledger is inside
   wf_entry), except for the non-local corner `entry_open_paren`.  With it the well-formedness
   hypothesis of the round trip is discharged for texts that were actually parsed. *)
From Coq Require Import List NArith ZArith Bool Lia Arith.
From Okv Require Import Model.Lit Model.Syntax Model.Comb Model.ParseExpr Model.ParseMeta
  Model.ParsePosting Model.ParseTxn Model.ParseDirective Model.ParseLedger Model.Display
  Model.RoundTripSpec
  Proofs.CombSpec Proofs.RoundTripBase Proofs.RoundTripMeta Proofs.RoundTripSame Proofs.RoundTripLedger
  Proofs.RoundTripImageExpr Proofs.RoundTripImageDirective Proofs.RoundTripImageTxn.
Import ListNotations.
Open Scope N_scope.

Definition entry_ok (e : s_entry) : Prop := entry_open_paren e = false -> wf_entry e = true.

Lemma pmap_inv : forall A B (f : A -> B) (p : parser A) i b r,
  pmap f p i = POk b r -> exists a, p i = POk a r /\ b = f a.
Proof.
  intros A B f p i b r H. unfold pmap, bind, ret in H. destruct (p i) as [a r0 | | |]; try discriminate.
  inversion H; subst. eauto.
Qed.

Lemma preceded_peek_cut_inv : forall A (kw : list N) (p : parser A) i a r,
  preceded (peek (literal kw)) (cut_err p) i = POk a r -> p i = POk a r.
Proof.
  intros A kw p i a r H. unfold preceded, bind, peek in H.
  destruct (literal kw i) as [x r0 | | |]; try discriminate.
  unfold cut_err in H. destruct (p i) as [y r1 | | |]; try discriminate. exact H.
Qed.

Theorem parse_ledger_entry_wf : forall fuel i e sps r,
  parse_ledger_entry fuel i = POk (e, sps) r -> entry_ok e.
Proof.
  intros fuel i e sps r H Q. unfold parse_ledger_entry in H. destruct i as [| c t]; [discriminate |].
  destruct (c =? 97).
  { apply alt_inv in H. destruct H as [H | H]; apply preceded_peek_cut_inv in H;
      apply pmap_inv in H; destruct H as (e0 & H & Ee); inversion Ee; subst.
    - eapply account_declaration_wf; eauto.
    - eapply apply_tag_wf; eauto. }
  destruct (c =? 99).
  { apply pmap_inv in H. destruct H as (e0 & H & Ee). inversion Ee; subst.
    eapply (commodity_declaration_wf amount_wf); eauto. }
  destruct (c =? 101).
  { apply pmap_inv in H. destruct H as (e0 & H & Ee). inversion Ee; subst. eapply end_apply_tag_wf; eauto. }
  destruct (c =? 105).
  { apply pmap_inv in H. destruct H as (e0 & H & Ee). inversion Ee; subst. eapply include_wf; eauto. }
  destruct (is_comment_prefix c).
  { apply pmap_inv in H. destruct H as (e0 & H & Ee). inversion Ee; subst. eapply top_comment_wf; eauto. }
  destruct (Comb.is_digit c); [| discriminate].
  apply pmap_inv in H. destruct H as ([t0 sps0] & H & Ee). inversion Ee; subst. cbn [fst] in *.
  cbn [wf_entry]. eapply (transaction_wf value_expr_wf posting_amount_wf date_wf); eauto.
Qed.

Lemma entries_loop_wf : forall fuel n bs total i acc es,
  entries_loop fuel n bs total i acc = LOk es ->
  Forall entry_ok (map e_entry acc) -> Forall entry_ok (map e_entry es).
Proof.
  intros fuel. induction n as [| n IH]; intros bs total i acc es H Hacc; [discriminate |].
  cbn [entries_loop] in H.
  destruct (vertical_space fuel i) as [u r | c l st | w |]; try discriminate.
  - destruct r as [| c0 r0].
    + inversion H; subst. rewrite map_rev. apply Forall_rev. exact Hacc.
    + unfold with_span in H.
      destruct (parse_ledger_entry fuel (c0 :: r0)) as [[e sps] r' | c l st | w |] eqn:E; try discriminate.
      * cbn [abs_span fst snd] in H.
        destruct (compute_line_number bs (total - utf8_len (c0 :: r0))) as [ln |]; [| discriminate].
        destruct (consumed (c0 :: r0) r'); [| discriminate].
        eapply IH; [exact H |]. cbn [map e_entry]. constructor; [| exact Hacc].
        eapply parse_ledger_entry_wf. exact E.
      * destruct (parse_error_new bs total i st c l); discriminate.
  - destruct (parse_error_new bs total i st c l); discriminate.
Qed.

Theorem parser_image_wf : forall s es, parse_ledger s = LOk es -> Forall entry_ok (map e_entry es).
Proof.
  intros s es H. unfold parse_ledger in H. eapply entries_loop_wf; [exact H | constructor].
Qed.

Lemma entry_ok_all : forall es,
  Forall entry_ok es -> forallb (fun e => negb (entry_open_paren e)) es = true ->
  forallb wf_entry es = true.
Proof.
  induction es as [| e es IH]; intros H Q; [reflexivity |]. inversion H; subst.
  cbn [forallb] in *. apply andb_true_iff in Q. destruct Q as [Q1 Q2]. apply negb_true_iff in Q1.
  rewrite (H2 Q1). apply IH; assumption.
Qed.

(* ---- formatting a parsed text ---- *)
Definition no_open_paren (es : list parsed_entry) : bool :=
  forallb (fun e => negb (entry_open_paren (e_entry e))) es.

Lemma no_open_paren_map : forall es,
  no_open_paren es = forallb (fun e => negb (entry_open_paren e)) (map e_entry es).
Proof.
  intros. unfold no_open_paren. induction es as [| e es IH]; [reflexivity |].
  cbn [forallb map]. rewrite IH. reflexivity.
Qed.

Theorem format_preserves_parsed : forall w s es,
  parse_ledger s = LOk es -> no_open_paren es = true ->
  exists es', parse_ledger (format_entries w (map e_entry es)) = LOk es' /\
              same_meaning (map e_entry es) (map e_entry es').
Proof.
  intros w s es H Q. apply format_roundtrip. apply entry_ok_all.
  - eapply parser_image_wf; eauto.
  - rewrite <- no_open_paren_map. exact Q.
Qed.

Theorem format_idempotent_parsed : forall w s t,
  format_text w s = Some t ->
  (forall es, parse_ledger s = LOk es -> no_open_paren es = true) ->
  format_text w t = Some t.
Proof.
  intros w s t H Q. eapply format_idempotent; [exact H |]. intros es E.
  apply entry_ok_all; [eapply parser_image_wf; eauto |]. rewrite <- no_open_paren_map. auto.
Qed.
