(* C13 — same input, same output: everything printed from a map is a function of the map,
   not of its iteration order.  Theorems only. *)
From Coq Require Import List NArith ZArith QArith Qcanon Permutation.
From Okv Require Import Base.Maps Base.Dec Model.Amount Model.Book Model.Query Model.Render Model.OrderSpec
     Model.PriceDb Model.PriceSpec Model.Convert
     Proofs.MapsSort Proofs.RenderProofs Proofs.OrderMaps Proofs.OrderAmount Proofs.OrderBook Proofs.OrderReports
     Proofs.PriceTable Proofs.OrderPrice Proofs.OrderConvert.
From Okv Require Import Model.CanonState Proofs.OrderKeyed.
From Okv Require Model.ImpConfig Model.ImpExtract Model.OrderImpSpec Proofs.OrderImport.
Import ListNotations.

(* the canonical (sorted) presentation of a duplicate-free map depends only on its contents *)
Theorem C13_sorted_presentation_canonical : forall (V : Type) (m m' : amap V),
  map_equiv m m' -> sort_keys m = sort_keys m'.
Proof. exact @sort_keys_canonical. Qed.
Print Assumptions C13_sorted_presentation_canonical.

(* an amount prints the same whatever order its HashMap iterates in *)
Theorem C13_amount_print_order_independent : forall a a' : amount,
  NoDup (keys a) -> Permutation a a' -> render_amount a = render_amount a'.
Proof. exact render_amount_perm. Qed.
Print Assumptions C13_amount_print_order_independent.

(* the balance report prints the same for any iteration order of accounts and of commodities *)
Theorem C13_balance_print_order_independent : forall b b' : balance,
  bal_equiv b b' -> render_balance b = render_balance b'.
Proof. exact render_balance_equiv. Qed.
Print Assumptions C13_balance_print_order_independent.

(* ------------------------------------------------------------------------------------------
   The book-keeping run itself.  Vocabulary: Model/OrderSpec.v.  `map_equiv m m'`: both
   association lists are duplicate-free and agree through `get` (the same HashMap iterated in two
   orders); `bal_equiv`: the same for the map of maps; `st_equiv`: balances, formats, stored
   transactions (position by position, amounts up to map_equiv) and recorded price events (up to the
   orientation of an implied exchange) are the same.  None of the theorems below assumes
   reachability: `st_equiv s s'` already says every map involved is duplicate-free.
   ------------------------------------------------------------------------------------------ *)

(* map_equiv is exactly "same canonical (sorted) presentation", and the same as a permutation *)
Theorem C13_map_equiv_iff_same_sorted_presentation : forall (V : Type) (m m' : amap V),
  map_equiv m m' <-> NoDup (keys m) /\ NoDup (keys m') /\ sort_keys m = sort_keys m'.
Proof. exact @map_equiv_iff_sorted. Qed.
Print Assumptions C13_map_equiv_iff_same_sorted_presentation.

Theorem C13_map_equiv_iff_permutation : forall (V : Type) (m m' : amap V),
  map_equiv m m' <-> NoDup (keys m) /\ Permutation m m'.
Proof. exact @map_equiv_iff_perm. Qed.
Print Assumptions C13_map_equiv_iff_permutation.

(* (2) every operation of Amount maps equivalent arguments to equivalent (or equal) results *)
Theorem C13_amount_ops_respect_equiv : forall (a a' b b' : amount) (f f' : formats) k p c v,
  map_equiv a a' -> map_equiv b b' -> map_equiv f f' ->
  map_equiv (a_add a b) (a_add a' b') /\
  map_equiv (a_sub a b) (a_sub a' b') /\
  map_equiv (a_neg a) (a_neg a') /\
  map_equiv (a_scale a k) (a_scale a' k) /\
  map_equiv (a_div a k) (a_div a' k) /\
  map_equiv (a_round f a) (a_round f' a') /\
  map_equiv (a_remove_zeros a) (a_remove_zeros a') /\
  map_equiv (a_add_pa a p) (a_add_pa a' p) /\
  map_equiv (assert_balance a p) (assert_balance a' p) /\
  map_equiv (fst (a_set_partial a c v)) (fst (a_set_partial a' c v)) /\
  snd (a_set_partial a c v) = snd (a_set_partial a' c v) /\
  a_get a c = a_get a' c /\
  a_is_zero a = a_is_zero a' /\
  a_is_absolute_zero a = a_is_absolute_zero a' /\
  amount_to_pa a = amount_to_pa a' /\
  amount_to_single a = amount_to_single a'.
Proof. exact amount_ops_respect_equiv. Qed.
Print Assumptions C13_amount_ops_respect_equiv.

(* the evaluator: eval_e is a function of the expression alone and every amount it builds is a
   duplicate-free map (related to itself); every operator and every conversion out of `Evaluated`
   (to Amount, PostingAmount, SingleAmount: what `primitive eval`, posting amounts, costs and balance
   assertions use) gives equal or equivalent results on equivalent values *)
Theorem C13_eval_order_independent :
  (forall e, res_equiv val_equiv (eval_e e) (eval_e e)) /\
  (forall x x' y y', val_equiv x x' -> val_equiv y y' ->
     res_equiv val_equiv (ev_add x y) (ev_add x' y') /\
     res_equiv val_equiv (ev_sub x y) (ev_sub x' y') /\
     res_equiv val_equiv (ev_mul x y) (ev_mul x' y') /\
     res_equiv val_equiv (ev_div x y) (ev_div x' y')) /\
  (forall x x', val_equiv x x' ->
     val_equiv (ev_negate x) (ev_negate x') /\
     ev_is_zero x = ev_is_zero x' /\
     res_equiv map_equiv (ev_to_amount x) (ev_to_amount x') /\
     ev_to_pa x = ev_to_pa x' /\
     ev_to_single x = ev_to_single x').
Proof. exact eval_order_independent. Qed.
Print Assumptions C13_eval_order_independent.

(* (3) check_balance: same verdict; accepted: postings filled in the same way, implied exchange the
   same up to orientation; rejected: the same residual, printed identically; Panic only together *)
Theorem C13_check_balance_respects_equiv : forall f f' d posts posts' r r',
  map_equiv f f' -> Forall2 op_equiv posts posts' -> map_equiv r r' ->
  out_equiv cb_equiv (check_balance f d posts r) (check_balance f' d posts' r') /\
  (forall e e', check_balance f d posts r = Err e -> check_balance f' d posts' r' = Err e' ->
                render_unbalanced e = render_unbalanced e' /\ render_err e = render_err e').
Proof. exact check_balance_respects_equiv. Qed.
Print Assumptions C13_check_balance_respects_equiv.

(* (4) the simulation, function by function *)
Theorem C13_balance_ops_respect_equiv : forall b b' a p x x',
  bal_equiv b b' -> map_equiv x x' ->
  map_equiv (bal_get b a) (bal_get b' a) /\
  bal_equiv (fst (bal_add_pa b a p)) (fst (bal_add_pa b' a p)) /\
  map_equiv (snd (bal_add_pa b a p)) (snd (bal_add_pa b' a p)) /\
  bal_equiv (bal_add_amount b a x) (bal_add_amount b' a x') /\
  out_equiv sp_equiv (bal_set_partial b a p) (bal_set_partial b' a p).
Proof. exact balance_ops_respect_equiv. Qed.
Print Assumptions C13_balance_ops_respect_equiv.

Theorem C13_process_posting_respects_equiv : forall b b' date i p,
  bal_equiv b b' -> out_equiv pp_equiv (process_posting b date i p) (process_posting b' date i p).
Proof. exact process_posting_equiv. Qed.
Print Assumptions C13_process_posting_respects_equiv.

Theorem C13_loop_step_respects_equiv : forall date acc acc' ip,
  out_equiv loop_equiv acc acc' -> out_equiv loop_equiv (loop_step date acc ip) (loop_step date acc' ip).
Proof. exact loop_step_equiv. Qed.
Print Assumptions C13_loop_step_respects_equiv.

Theorem C13_add_transaction_respects_equiv : forall s s' t,
  st_equiv s s' -> out_equiv st_equiv (add_transaction s t) (add_transaction s' t).
Proof. exact add_transaction_equiv. Qed.
Print Assumptions C13_add_transaction_respects_equiv.

(* both runs fail with the same error (same kind, same indices, amount payloads equivalent, hence the
   same text: C13_error_text_order_independent), or both panic, or both succeed in equivalent states *)
Theorem C13_process_entry_respects_equiv : forall s s' e,
  st_equiv s s' -> out_equiv st_equiv (process_entry s e) (process_entry s' e).
Proof. exact process_entry_equiv. Qed.
Print Assumptions C13_process_entry_respects_equiv.

(* ... and so for any list of entries: same index of the failing entry, equivalent outcome *)
Theorem C13_process_order_independent : forall es i s s',
  st_equiv s s' -> run_equiv (process_from i s es) (process_from i s' es).
Proof. exact process_from_equiv. Qed.
Print Assumptions C13_process_order_independent.

(* the iteration orders may change after every entry (run_any_order replaces the state by an
   arbitrary equivalent one each time): all such runs over the same entries are equivalent, and
   the model's own run `process_from` is one of them *)
Theorem C13_run_any_order_deterministic : forall es i s s' r r',
  st_equiv s s' -> run_any_order i s es r -> run_any_order i s' es r' -> run_equiv r r'.
Proof. exact run_any_order_det. Qed.
Print Assumptions C13_run_any_order_deterministic.

Theorem C13_model_run_is_a_run : forall es i s,
  st_equiv s s -> run_any_order i s es (process_from i s es).
Proof. exact process_from_is_run. Qed.
Print Assumptions C13_model_run_is_a_run.

(* st_equiv is symmetric and transitive, holds of the initial state, and of every reachable state
   with itself (all maps of a reachable state are duplicate-free) *)
Theorem C13_state_equivalence :
  (forall s s', st_equiv s s' -> st_equiv s' s) /\
  (forall s1 s2 s3, st_equiv s1 s2 -> st_equiv s2 s3 -> st_equiv s1 s3) /\
  st_equiv bstate0 bstate0 /\
  (forall es s n, process es = (Ok s, n) -> st_equiv s s).
Proof. exact st_equiv_equivalence. Qed.
Print Assumptions C13_state_equivalence.

(* stdout of `balance` (any date range) and `register` (any account filter) *)
Theorem C13_reports_order_independent : forall s s', st_equiv s s' ->
  (forall st en, render_balance (balance_report s st en) = render_balance (balance_report s' st en)) /\
  render_register (all_postings s) = render_register (all_postings s') /\
  (forall flt, render_register (postings_of s flt) = render_register (postings_of s' flt)).
Proof. exact reports_order_independent. Qed.
Print Assumptions C13_reports_order_independent.

(* the text of an error, and of a failing run (printed error + index of the entry) *)
Theorem C13_error_text_order_independent :
  (forall e e', err_equiv e e' -> render_err e = render_err e' /\ render_unbalanced e = render_unbalanced e') /\
  (forall r r', run_equiv r r' -> stderr_of r = stderr_of r').
Proof. exact error_text_order_independent. Qed.
Print Assumptions C13_error_text_order_independent.

(* composed: any two runs over the same entries, whatever the iteration orders were along the way,
   stop at the same entry with the same printed error, or end in states printing the same reports *)
Theorem C13_run_deterministic : forall es i s s' r r',
  st_equiv s s' -> run_any_order i s es r -> run_any_order i s' es r' ->
  snd r = snd r' /\ stderr_of r = stderr_of r' /\
  match fst r, fst r' with
  | Ok f, Ok f' => st_equiv f f' /\
                   (forall st en, stdout_balance f st en = stdout_balance f' st en) /\
                   (forall flt, stdout_register f flt = stdout_register f' flt)
  | Err _, Err _ => True
  | Panic, Panic => True
  | _, _ => False
  end.
Proof. exact runs_print_the_same. Qed.
Print Assumptions C13_run_deterministic.

(* the hypotheses are satisfiable non-trivially: a reachable state s and a differently ordered s'
   (s <> s') that are equivalent; one more transaction leads to different, equivalent states *)
Theorem C13_equivalent_states_that_differ_exist :
  exists es s s' f f' n,
    process es = (Ok s, n) /\ s <> s' /\ st_equiv s s' /\
    (exists e, process_from n s [e] = (Ok f, S n) /\ process_from n s' [e] = (Ok f', S n)) /\
    f <> f' /\ st_equiv f f'.
Proof. exact examples_exist. Qed.
Print Assumptions C13_equivalent_states_that_differ_exist.

(* ------------------------------------------------------------------------------------------
   (5) conversion rates.  `rec_equiv recs recs'`: the two-level record map of the price repository
   in two iteration orders.  `choose` is the pop order of the BinaryHeap (any function), `fuel` the
   iteration bound.  best_rates (Model/PriceSpec.v) lists the rates of all optimal chains (least
   Distance); tie_free says they all agree.  A genuine tie (two optimal chains, different rates) is
   the one case where the answer depended on iteration order (F19, fixed in /repo 3ba7cad by
   visiting neighbours in commodity order); outside it the answer never depended on any order.
   ------------------------------------------------------------------------------------------ *)
Theorem C13_price_table_rate_determined_without_ties :
  forall recs recs' date target c r0 choose choose' fuel fuel' t t',
  rec_equiv recs recs' -> c <> target ->
  best_rates (out_edges recs date) (length (rec_comms recs)) target c = [r0] ->
  price_table fuel choose recs target date = PTDone t ->
  price_table fuel' choose' recs' target date = PTDone t' ->
  exists d, get c t = Some (d, r0) /\ get c t' = Some (d, r0).
Proof. exact table_rate_singleton. Qed.
Print Assumptions C13_price_table_rate_determined_without_ties.

(* more generally: same label (distance and rate), or no label in both *)
Theorem C13_price_table_label_determined_unless_tied :
  forall recs recs' date target c choose choose' fuel fuel' t t',
  rec_equiv recs recs' -> c <> target -> tie_free recs date target c ->
  price_table fuel choose recs target date = PTDone t ->
  price_table fuel' choose' recs' target date = PTDone t' ->
  get c t = get c t'.
Proof. exact table_determined_without_ties. Qed.
Print Assumptions C13_price_table_label_determined_unless_tied.

(* so converting one commodity gives the same value, or the same RateNotFound *)
Theorem C13_convert_single_determined_unless_tied :
  forall recs recs' date target c v choose choose' fuel fuel' t t',
  rec_equiv recs recs' -> (c <> target -> tie_free recs date target c) ->
  price_table fuel choose recs target date = PTDone t ->
  price_table fuel' choose' recs' target date = PTDone t' ->
  convert_single fuel choose recs c v target date = convert_single fuel' choose' recs' c v target date.
Proof. exact convert_single_determined. Qed.
Print Assumptions C13_convert_single_determined_unless_tied.

(* the repositories built from equivalent event lists (an implied exchange recorded as (x, y) or as
   (y, x)) and the same price DB hold the same records *)
Theorem C13_repository_order_independent : forall evs evs' db,
  Forall2 ev_equiv evs evs' -> rec_equiv (repository evs db) (repository evs' db).
Proof. exact repository_equiv. Qed.
Print Assumptions C13_repository_order_independent.

(* `balance -X` / `balance --historical -X` / date ranges (Ledger::balance, Model/Convert.v) when the
   two sides convert single commodities alike: both fail, or both succeed with equivalent balances
   (conv_rel).  Which missing rate a failure names is NOT determined: see the two _refuted theorems *)
Theorem C13_balance_query_respects_equiv :
  forall fuel fuel' choose choose' recs recs',
  (forall c v target date,
     convert_single fuel choose recs c v target date = convert_single fuel' choose' recs' c v target date) ->
  forall s s' cv st en, st_equiv s s' ->
  conv_rel bal_equiv (balance_query fuel choose recs s cv st en) (balance_query fuel' choose' recs' s' cv st en).
Proof. exact balance_query_equiv. Qed.
Print Assumptions C13_balance_query_respects_equiv.

(* Ledger::eval with an exchange commodity *)
Theorem C13_eval_exchange_respects_equiv :
  forall fuel fuel' choose choose' recs recs',
  (forall c v target date,
     convert_single fuel choose recs c v target date = convert_single fuel' choose' recs' c v target date) ->
  forall a a' exchange date, map_equiv a a' ->
  conv_rel map_equiv (eval_exchange fuel choose recs a exchange date) (eval_exchange fuel' choose' recs' a' exchange date).
Proof. exact eval_exchange_equiv. Qed.
Print Assumptions C13_eval_exchange_respects_equiv.

(* end to end: equivalent book-keeping states, each with the repository built from its own events,
   any heap orders, sufficient fuel, no tied chains: the converted report succeeds in both or in
   neither, and prints the same lines *)
Theorem C13_balance_exchange_order_independent_unless_tied :
  forall s s' db fuel fuel' choose choose' cv st en,
  st_equiv s s' ->
  (forall c target date, c <> target -> tie_free (repository (s_events s) db) date target c) ->
  (forall target date, exists t, price_table fuel choose (repository (s_events s) db) target date = PTDone t) ->
  (forall target date, exists t, price_table fuel' choose' (repository (s_events s') db) target date = PTDone t) ->
  conv_rel bal_equiv (balance_query fuel choose (repository (s_events s) db) s cv st en)
                     (balance_query fuel' choose' (repository (s_events s') db) s' cv st en).
Proof. exact balance_exchange_equiv. Qed.
Print Assumptions C13_balance_exchange_order_independent_unless_tied.

Theorem C13_balance_exchange_stdout_order_independent_unless_tied :
  forall s s' db fuel fuel' choose choose' cv st en b b',
  st_equiv s s' ->
  (forall c target date, c <> target -> tie_free (repository (s_events s) db) date target c) ->
  (forall target date, exists t, price_table fuel choose (repository (s_events s) db) target date = PTDone t) ->
  (forall target date, exists t, price_table fuel' choose' (repository (s_events s') db) target date = PTDone t) ->
  balance_query fuel choose (repository (s_events s) db) s cv st en = COk b ->
  balance_query fuel' choose' (repository (s_events s') db) s' cv st en = COk b' ->
  render_balance b = render_balance b'.
Proof. exact balance_exchange_stdout. Qed.
Print Assumptions C13_balance_exchange_stdout_order_independent_unless_tied.

(* REFUTED (finding F21, reproduced on the okane binary: `balance -X USD` over a ledger with several
   accounts holding unconvertible commodities prints a different "commodity rate .. not found" from
   run to run): Ledger::balance converts the accounts in HashMap order (query.rs
   `for (account, original_amount) in balance.iter()`) and stops at the first failure, so the error
   of convert_accounts is not a function of the balance's contents *)
Theorem C13_convert_accounts_error_order_independent_refuted :
  exists fuel choose recs target now b b',
    bal_equiv b b' /\
    convert_accounts fuel choose recs target now b [] <> convert_accounts fuel choose recs target now b' [].
Proof. exact F21.convert_accounts_error_order_dependent. Qed.
Print Assumptions C13_convert_accounts_error_order_independent_refuted.

(* the same inside one amount (F20).  The code was repaired (/repo 170c38c converts in commodity
   order); Model/PriceDb.v convert_amount still iterates in list order, so for the model the claim
   is refuted; the repaired behaviour is `convert_amount` after `sort_keys`, below *)
Theorem C13_convert_amount_error_order_independent_refuted_in_model :
  exists fuel choose recs target date a a',
    map_equiv a a' /\
    convert_amount fuel choose recs a target date <> convert_amount fuel choose recs a' target date.
Proof. exact F21.convert_amount_error_order_dependent. Qed.
Print Assumptions C13_convert_amount_error_order_independent_refuted_in_model.

(* iterating in key order makes both a function of the contents, errors included: what 170c38c does
   for an amount, and what sorting the accounts in Ledger::balance would do for F21 *)
Theorem C13_convert_in_key_order_deterministic : forall fuel choose recs,
  (forall a a' target date, map_equiv a a' ->
     convert_amount fuel choose recs (sort_keys a) target date = convert_amount fuel choose recs (sort_keys a') target date) /\
  (forall b b' target now acc, bal_equiv b b' ->
     convert_accounts fuel choose recs target now (canon_balance b) acc =
     convert_accounts fuel choose recs target now (canon_balance b') acc).
Proof. exact convert_sorted_deterministic. Qed.
Print Assumptions C13_convert_in_key_order_deterministic.

(* the whole of `balance -X T [--historical] [--start/--end]` as the code walks it since 170c38c and
   0b7772d (Model/CanonState.v balance_query_keyed: stored postings in file order, the accounts of
   the balance that is converted - stored, or re-folded for a date range - by name, every amount by
   commodity): for states that differ only in the iteration order of their maps the outcome is the
   same printed report or the SAME error, i.e. the missing rate that is named (amount, commodity,
   target, date) does not depend on any iteration order.  The C13 correspondence compares what a
   failing `okane balance -X` names with this function. *)
Theorem C13_balance_keyed_deterministic : forall fuel choose recs s s' cv st en,
  st_equiv s s' ->
  conv_printed (balance_query_keyed fuel choose recs s cv st en) =
  conv_printed (balance_query_keyed fuel choose recs s' cv st en).
Proof. exact balance_query_keyed_deterministic. Qed.
Print Assumptions C13_balance_keyed_deterministic.

(* (5) import rules.  The entries of a FieldMatcher (a HashMap from field to pattern, so the fields
   are distinct) are applied in list order, each seeing the fragment left by the previous ones.  For
   matchers that behave like CsvMatcher (csv_like, Model/OrderImpSpec.v: only the payee matcher reads
   or writes the fragment) every order gives the same result.  For the other importers the order
   matters (Proofs/OrderImport.v, order_matters_without_csv_like), which is why the code now sorts
   the fields (/repo cce0c70). *)
Theorem C13_and_matcher_order_independent_csv :
  forall (P R : Type)
         (matches : ImpConfig.rewrite_field * P -> R -> ImpExtract.frag -> option ImpExtract.captures),
  OrderImpSpec.csv_like matches ->
  forall ms ms', Permutation ms ms' -> NoDup (map fst ms) ->
  forall f e, ImpExtract.and_extract matches ms f e = ImpExtract.and_extract matches ms' f e.
Proof. exact @OrderImport.and_extract_perm. Qed.
Print Assumptions C13_and_matcher_order_independent_csv.
