//! C16: CSV import books each row with the right sign, amount and balance.
//! One YAML document + a generated CSV statement -> load_from_yaml / select -> import::import ->
//! to_double_entry -> printed as ImportCmd does -> report::process over funding + that text.
use crate::caldate;
use crate::coq::{self, Shards, Stats};
use crate::impgen::*;
use crate::prng::Rng;
use crate::Opts;
use okane_core::{load, report};
use rust_decimal::Decimal;
use serde::{Deserialize, Serialize};
use serde_json::json;
use std::collections::{BTreeMap, HashMap};
use std::fmt::Write as _;
use std::path::PathBuf;
use std::str::FromStr;

#[derive(Clone, Debug, Serialize, Deserialize)]
pub struct Case16 {
    pub doc: Doc,
    pub path: String,
    pub csv: String,
    /// column of the date (for chrono's reading of each record's date)
    pub date_col: usize,
    /// opening balance of the account per commodity (decimal text)
    pub opening: Vec<(String, String)>,
    /// which optional columns the layout uses (statistics)
    pub optional: Vec<String>,
    /// how negative cells were written (statistics)
    #[serde(default)]
    pub shapes: Vec<String>,
    /// numeric cells written in a notation okane does not know (statistics): "<column>:<notation>"
    #[serde(default)]
    pub junk: Vec<String>,
}

// ---------------------------------------------------------------- the csv / chrono oracles

/// the header and records the csv crate yields, configured as csv::import configures it
pub fn tokenise(text: &str, delimiter: &str, skip: i32) -> Option<(Vec<String>, Vec<Vec<String>>)> {
    use std::io::BufRead;
    let mut br = std::io::BufReader::new(text.as_bytes());
    for _ in 0..skip.max(0) {
        let mut s = String::new();
        br.read_line(&mut s).ok()?;
    }
    let mut rb = csv::ReaderBuilder::new();
    rb.flexible(true);
    if !delimiter.is_empty() {
        rb.delimiter(delimiter.as_bytes()[0]);
    }
    let mut rdr = rb.from_reader(br);
    let header: Vec<String> = rdr.headers().ok()?.iter().map(|s| s.to_string()).collect();
    let mut rows = Vec::new();
    for rec in rdr.records() {
        rows.push(rec.ok()?.iter().map(|s| s.to_string()).collect());
    }
    Some((header, rows))
}

// ---------------------------------------------------------------- process leg

pub enum ProcObs {
    NotRun,
    Accepted(Vec<(String, Decimal)>),
    Rejected(u8, String),
    Panic(String),
}

pub fn run_process(text: &str, account: &str) -> ProcObs {
    let res = std::panic::catch_unwind(|| {
        let arena = bumpalo::Bump::new();
        let mut ctx = report::ReportContext::new(&arena);
        let mut map: HashMap<PathBuf, Vec<u8>> = HashMap::new();
        map.insert(PathBuf::from("/main.ledger"), text.as_bytes().to_vec());
        let loader = load::Loader::new(PathBuf::from("/main.ledger"), load::FakeFileSystem::from(map)).with_error_renderer(annotate_snippets::Renderer::plain());
        let obs = match report::process(&mut ctx, loader, &report::ProcessOptions::default()) {
            Ok(mut ledger) => {
                let bal = ledger.balance(&ctx, &report::query::BalanceQuery::default()).map(|b| b.into_owned().into_vec()).unwrap_or_default();
                let mut fin: Vec<(String, Decimal)> = Vec::new();
                for (a, am) in bal.iter() {
                    if a.as_str() == account {
                        for (c, v) in am.clone().into_values() {
                            if !v.is_zero() {
                                fin.push((c.as_str().to_string(), v));
                            }
                        }
                    }
                }
                fin.sort();
                ProcObs::Accepted(fin)
            }
            Err(report::ReportError::BookKeep(b, _)) => {
                let dbg = format!("{:?}", b);
                let k = if dbg.starts_with("UnbalancedPostings") {
                    1
                } else if dbg.starts_with("BalanceAssertionFailure") {
                    2
                } else {
                    3
                };
                ProcObs::Rejected(k, dbg)
            }
            Err(other) => ProcObs::Rejected(9, format!("{:?}", other)),
        };
        obs
    });
    match res {
        Ok(o) => o,
        Err(p) => ProcObs::Panic(p.downcast_ref::<String>().cloned().or_else(|| p.downcast_ref::<&str>().map(|s| s.to_string())).unwrap_or_default()),
    }
}

fn proc_term(p: &ProcObs) -> String {
    match p {
        ProcObs::NotRun => "PNotRun".into(),
        ProcObs::Accepted(f) => format!("(PAccepted {})", coq::list(f.iter().map(|(c, v)| format!("({}, {})", s_term(c), dec_term(v))))),
        ProcObs::Rejected(k, _) => format!("(PRejected {})", k),
        ProcObs::Panic(_) => "PPanic".into(),
    }
}

fn funding_text(account: &str, opening: &[(String, String)]) -> String {
    let mut o = String::new();
    for (c, v) in opening {
        let neg = if let Some(x) = v.strip_prefix('-') { x.to_string() } else { format!("-{}", v) };
        writeln!(o, "2019/12/31 * Opening balance\n    {}    {} {}\n    Equity:Opening    {} {}\n", account, v, c, neg, c).unwrap();
    }
    o
}

// ---------------------------------------------------------------- generator

const RATES: [&str; 10] = ["0.8", "1.25", "1.6", "4", "0.125", "100", "0.0064", "2", "0.5", "2.5"];
const LABELS: [&str; 13] = ["Date", "摘要", "Action", "Description", "Amount", "預け入れ額", "引き出し額", "残高", "通貨", "Price", "Quantity", "Symbol", "Fees & Comm"];
const DATE_FORMATS: [&str; 4] = ["%Y-%m-%d", "%Y/%m/%d", "%d.%m.%Y", "%m/%d/%Y"];

#[derive(Clone, Copy, PartialEq)]
enum NumStyle {
    Plain,
    Grouped,
    /// "$" in front of the number
    Prefix,
    Suffix,
    /// the commodity code in front of the number: "USD 5", "USD5"
    CodePrefix,
}

fn group3(int: &str) -> String {
    let b = int.as_bytes();
    let mut o = String::new();
    for (i, ch) in b.iter().enumerate() {
        if i > 0 && (b.len() - i) % 3 == 0 {
            o.push(',');
        }
        o.push(*ch as char);
    }
    o
}

fn grouped_text(a: &str) -> String {
    let (i, f) = match a.split_once('.') {
        Some((i, f)) => (i.to_string(), Some(f.to_string())),
        None => (a.to_string(), None),
    };
    match f {
        Some(f) => format!("{}.{}", group3(&i), f),
        None => group3(&i),
    }
}

/// text of a decimal in the statement's style (v >= 0 or with a leading minus)
fn num_text(v: &Decimal, style: NumStyle, comm: &str) -> String {
    let neg = v.is_sign_negative() && !v.is_zero();
    let a = v.abs().to_string();
    let body = match style {
        NumStyle::Grouped => grouped_text(&a),
        _ => a,
    };
    match style {
        NumStyle::Prefix => format!("{}${}", if neg { "-" } else { "" }, body),
        NumStyle::CodePrefix => format!("{}{} {}", if neg { "-" } else { "" }, if comm.is_empty() { "$" } else { comm }, body),
        NumStyle::Suffix => format!("{}{} {}", if neg { "-" } else { "" }, body, comm),
        _ => format!("{}{}", if neg { "-" } else { "" }, body),
    }
}

/// One amount / credit / debit / balance / charge / secondary-amount cell.  Under the prefix styles
/// the minus sign is written before the prefix ("-$1.46", "-USD 5") or after it ("$-1,950.25",
/// "USD -5", "USD-5"), with or without grouping commas; `stats` counts the negative shapes written.
fn cell_text(r: &mut Rng, v: &Decimal, style: NumStyle, comm: &str, shapes: &mut Vec<&'static str>) -> String {
    let neg = v.is_sign_negative() && !v.is_zero();
    match style {
        NumStyle::Prefix | NumStyle::CodePrefix => {
            let a = v.abs().to_string();
            let body = if r.chance(1, 2) { grouped_text(&a) } else { a };
            let sym = if style == NumStyle::Prefix || comm.is_empty() { "$".to_string() } else { comm.to_string() };
            let sp = if style == NumStyle::CodePrefix && r.chance(3, 4) { " " } else { "" };
            if !neg {
                return format!("{}{}{}", sym, sp, body);
            }
            if r.chance(1, 2) {
                shapes.push(if style == NumStyle::Prefix { "negative_cell:-$n" } else { "negative_cell:-CCY n" });
                format!("-{}{}{}", sym, sp, body)
            } else {
                shapes.push(if style == NumStyle::Prefix { "negative_cell:$-n" } else { "negative_cell:CCY -n" });
                format!("{}{}-{}", sym, sp, body)
            }
        }
        _ => {
            if neg {
                shapes.push("negative_cell:plain_or_suffix");
            }
            num_text(v, style, comm)
        }
    }
}

/// a secondary-amount cell: statements write it unsigned or with the sign of the row
fn sec_text(r: &mut Rng, v: &Decimal, style: NumStyle, sec_comm: &str, row_negative: bool, shapes: &mut Vec<&'static str>) -> String {
    match style {
        NumStyle::Prefix | NumStyle::CodePrefix => {
            let signed = if row_negative && r.chance(1, 2) { -*v } else { *v };
            cell_text(r, &signed, style, sec_comm, shapes)
        }
        _ => num_text(v, NumStyle::Plain, ""),
    }
}

fn d(s: &str) -> Decimal {
    Decimal::from_str(s).unwrap()
}

fn gen_amount(r: &mut Rng) -> Decimal {
    let scale = *r.pick(&[0u32, 2, 2, 2, 1]);
    let big = r.chance(1, 5);
    let m = if r.chance(1, 12) { 0 } else { 1 + r.below(if big { 5_000_000 } else { 50_000 }) as i64 };
    Decimal::new(m, scale)
}

pub fn gen_case(r: &mut Rng) -> Case16 {
    let liability = r.chance(1, 3);
    let account = if liability { "Liabilities:Okane Card" } else { *r.pick(&["Assets:Okane Bank", "Assets:Brokers:Schrank"]) }.to_string();
    let primary = (*r.pick(&["JPY", "USD", "CHF"])).to_string();
    let simple = r.chance(2, 5); // no conversion, no charge: every row balances
    let credit_debit = r.chance(1, 2);
    let mut keys: Vec<usize> = vec![K_DATE];
    if credit_debit {
        keys.push(K_CREDIT);
        keys.push(K_DEBIT);
    } else {
        keys.push(K_AMOUNT);
    }
    let mut optional: Vec<usize> = Vec::new();
    for (k, pct) in [(K_CATEGORY, 50u64), (K_NOTE, 40), (K_BALANCE, 65), (K_COMMODITY, 30)] {
        if r.below(100) < pct {
            optional.push(k);
        }
    }
    let conv_cols = !simple && r.chance(3, 4);
    if conv_cols {
        optional.push(K_RATE);
        if r.chance(5, 6) {
            optional.push(K_SECONDARY_AMOUNT);
        }
        if r.chance(5, 6) {
            optional.push(K_SECONDARY_COMMODITY);
        }
    }
    if !simple && r.chance(2, 5) {
        optional.push(K_CHARGE);
    }
    // payee: its own column, or a template over other columns
    let payee_template = (optional.contains(&K_CATEGORY) || optional.contains(&K_NOTE)) && r.chance(1, 3);
    if !payee_template {
        keys.push(K_PAYEE);
    }
    keys.extend(optional.iter().copied());
    // physical columns: the keys in random order plus junk columns
    let mut cols: Vec<Option<usize>> = keys.iter().map(|k| Some(*k)).collect();
    for _ in 0..r.below(3) {
        cols.push(None);
    }
    r.shuffle(&mut cols);
    let col_of = |k: usize| cols.iter().position(|c| *c == Some(k));
    let mut header: Vec<String> = cols
        .iter()
        .enumerate()
        .map(|(i, c)| match c {
            Some(k) => LABELS[*k].to_string(),
            None => format!("x{}", i),
        })
        .collect();
    // a junk column carrying the label of a later real column: the later one wins
    if r.chance(1, 15) {
        if let Some(j) = cols.iter().position(|c| c.is_none()) {
            if let Some(real) = cols.iter().enumerate().skip(j + 1).find(|(_, c)| c.is_some()) {
                header[j] = header[real.0].clone();
            }
        }
    }
    let pos_mode = r.below(3); // 0 index, 1 label, 2 mixed
    let mut fields: Vec<(usize, Pos)> = Vec::new();
    for k in &keys {
        let i = col_of(*k).unwrap();
        let by_label = match pos_mode {
            0 => false,
            1 => true,
            _ => r.chance(1, 2),
        };
        fields.push((*k, if by_label { Pos::Label(header[i].clone()) } else { Pos::Index(i) }));
    }
    if payee_template {
        let mut segs = Vec::new();
        if optional.contains(&K_CATEGORY) {
            segs.push(if r.chance(1, 3) { Seg::Indexed(col_of(K_CATEGORY).unwrap()) } else { Seg::Named(K_CATEGORY) });
        }
        if optional.contains(&K_NOTE) {
            if !segs.is_empty() {
                segs.push(Seg::Lit(" - ".into()));
            }
            segs.push(Seg::Named(K_NOTE));
        }
        if r.chance(1, 4) {
            segs.insert(0, Seg::Lit("tx ".into()));
        }
        fields.push((K_PAYEE, Pos::Template(segs)));
    }
    fields.sort_by_key(|x| x.0);
    let date_fmt = (*r.pick(&DATE_FORMATS)).to_string();
    let delimiter = (*r.pick(&["", ",", ";", "\t"])).to_string();
    let delim_ch = delimiter.chars().next().unwrap_or(',');
    let skip = *r.pick(&[0i32, 0, 1, 2]);
    let new_to_old = r.chance(2, 5);
    let style = match r.below(8) {
        0 => NumStyle::Grouped,
        1 | 2 => NumStyle::Prefix,
        3 => NumStyle::Suffix,
        4 => NumStyle::CodePrefix,
        _ => NumStyle::Plain,
    };
    let mut shapes: Vec<&'static str> = Vec::new();
    let default_conv = if conv_cols && r.chance(1, 2) { Some(Conv { disabled: false, commodity: if r.chance(1, 3) { Some("EUR".into()) } else { None }, ..gen_conv(r) }) } else { None };
    let eff_default = default_conv.clone().unwrap_or_else(Conv::default_conv);
    // rules: destinations, pending flags, and (in the non-simple statements) conversions
    let n_rules = *r.pick(&[0u64, 1, 2, 3, 4]);
    let rewrite: Vec<Rule> = (0..n_rules).map(|_| gen_rule(r, if simple { 0 } else { 12 })).collect();
    let format = Format {
        date: date_fmt.clone(),
        precisions: if r.chance(1, 3) { vec![("EUR".to_string(), 2), ("CHF".to_string(), 2)] } else { vec![] },
        fields,
        delimiter: delimiter.clone(),
        skip,
        new_to_old,
    };
    let has_charge = optional.contains(&K_CHARGE);
    let doc = Doc {
        path: "okane".into(),
        encoding: Some(0),
        account: Some(account.clone()),
        liability: Some(liability),
        operator: if !has_charge && r.chance(1, 2) || has_charge && r.chance(1, 12) { None } else { Some("Okane Bank (fee)".into()) },
        commodity: Some(match &default_conv {
            Some(cv) => Commodity::Spec(primary.clone(), cv.clone()),
            None => Commodity::Primary(primary.clone()),
        }),
        format: Some(format),
        rewrite,
    };
    // ---- rows, chronological, with a running balance per commodity in the statement's own terms
    let other_comm = (*r.pick(&["EUR", "USD", "CHF", "JPY"])).to_string();
    let mut balances: BTreeMap<String, Decimal> = BTreeMap::new();
    let mut opening: Vec<(String, String)> = Vec::new();
    let n_rows = 1 + r.below(8);
    // the rows start a few days before a calendar boundary drawn on purpose (New Year incl. the
    // days whose ISO week belongs to the other year, leap day, month end, 1900 / 2100) and run across it
    let start = caldate::gen_anchor(r, caldate::YEAR_LO, caldate::YEAR_HI, 12, 250);
    let mut day = 0i64;
    let wrong_balance_at = if r.chance(1, 14) { Some(r.below(n_rows)) } else { None };
    // one numeric cell of one row in a notation okane's number grammar does not know, or with
    // trailing junk: the statement must be refused (or that very figure booked), never another figure
    let junk_at: Option<(u64, usize)> = if r.chance(1, 6) {
        let numeric: Vec<usize> = keys.iter().copied().filter(|k| [K_AMOUNT, K_CREDIT, K_DEBIT, K_BALANCE, K_RATE, K_SECONDARY_AMOUNT, K_CHARGE].contains(k)).collect();
        Some((r.below(n_rows), *r.pick(&numeric)))
    } else {
        None
    };
    let mut junk: Vec<String> = Vec::new();
    let mut rows: Vec<Vec<String>> = Vec::new();
    for i in 0..n_rows {
        day += *r.pick(&[0i64, 0, 1, 1, 2, 5, 30]);
        let date = start + chrono::Duration::days(day);
        shapes.push(match caldate::class_of(date) {
            "iso_week_year_differs" => "date:iso_week_year_differs",
            "year_first_last" => "date:year_first_last",
            "leap_day" => "date:leap_day",
            "month_end" => "date:month_end",
            "month_start" => "date:month_start",
            _ => "date:ordinary",
        });
        let comm = if optional.contains(&K_COMMODITY) && r.chance(1, 2) { other_comm.clone() } else { primary.clone() };
        if !balances.contains_key(&comm) {
            let b0 = if r.chance(1, 4) { Decimal::ZERO } else { Decimal::new(r.below(2_000_000) as i64, 2) };
            balances.insert(comm.clone(), b0);
            opening.push((comm.clone(), b0.to_string()));
        }
        let mut amount = gen_amount(r);
        let negative = r.chance(3, 5);
        let mut rate_t = String::new();
        let mut sec_amt_t = String::new();
        let mut sec_comm_t = String::new();
        let mut charge_t = String::new();
        let mut charge = Decimal::ZERO;
        if has_charge && r.chance(1, 2) {
            charge = Decimal::new(r.below(500) as i64, 2);
            if r.chance(1, 6) {
                charge = -charge; // a refunded fee
            }
            charge_t = if r.chance(1, 8) { "0".into() } else { cell_text(r, &charge, style, &comm, &mut shapes) };
            if charge_t == "0" {
                charge = Decimal::ZERO;
            }
        }
        if conv_cols && r.chance(3, 5) {
            // one row in five states a rate of exactly one: a fund at 1.00 a share, a pegged currency
            let rate = if r.chance(1, 5) { d(*r.pick(&["1", "1.0", "1.00", "1.000"])) } else { d(*r.pick(&RATES)) };
            if rate == Decimal::ONE {
                shapes.push("rate_cell:exactly one (1, 1.0, 1.00, $1.00)");
            }
            rate_t = if r.chance(1, 40) { "0".into() } else { num_text(&rate, if style == NumStyle::Grouped { NumStyle::Plain } else { style }, &comm) };
            let sec = Decimal::new(1 + r.below(20000) as i64, *r.pick(&[0u32, 2, 4]));
            sec_comm_t = if r.chance(1, 10) { String::new() } else { (*r.pick(&["VYM", "EUR", "JPY"])).to_string() };
            if r.chance(3, 4) {
                // consistent with the commodity-level default conversion: the row balances
                if eff_default.price_of_primary {
                    // 1 commodity = rate secondary: amount * rate = sec
                    let a = Decimal::new(1 + r.below(20000) as i64, 2);
                    amount = a;
                    sec_amt_t = sec_text(r, &(a * rate), style, &sec_comm_t, negative, &mut shapes);
                } else {
                    // 1 secondary = rate commodity: sec * rate (+/- charge) = amount
                    let base = sec * rate;
                    amount = if negative { base + charge } else { base - charge };
                    if amount.is_sign_negative() {
                        amount = base;
                    }
                    sec_amt_t = sec_text(r, &sec, style, &sec_comm_t, negative, &mut shapes);
                }
            } else if r.chance(2, 3) {
                sec_amt_t = sec_text(r, &sec, style, &sec_comm_t, negative, &mut shapes);
            }
        }
        let signed = if negative { -amount } else { amount };
        // the statement's balance moves by the signed amount
        let nb = balances[&comm] + signed;
        balances.insert(comm.clone(), nb);
        let mut bal_t = if r.chance(4, 5) { cell_text(r, &nb, style, &comm, &mut shapes) } else { String::new() };
        if wrong_balance_at == Some(i) && !bal_t.is_empty() {
            bal_t = cell_text(r, &(nb + Decimal::new(1, 2)), style, &comm, &mut shapes);
        }
        // credit / debit columns: now and then the movement is written as a negative number in the
        // other column (a reversal): credit "-5" books -5, debit "-5" books +5
        let reversal = credit_debit && !amount.is_zero() && r.chance(1, 8);
        let payee = gen_payee_text(r);
        let cat = if r.chance(3, 4) { r.pick(&CATEGORIES).to_string() } else { String::new() };
        let note = match r.below(5) {
            0 => String::new(),
            1 => "  ".to_string(),
            _ => format!("ref {}", r.below(1000)),
        };
        let mut rec: Vec<String> = Vec::new();
        for (ci, c) in cols.iter().enumerate() {
            rec.push(match c {
                None => format!("j{}", ci),
                Some(k) => match *k {
                    K_DATE => {
                        if date_fmt == "%Y-%m-%d" && r.chance(1, 4) {
                            // chrono accepts unpadded fields
                            use chrono::Datelike;
                            format!("{}-{}-{}", date.year(), date.month(), date.day())
                        } else {
                            date.format(&date_fmt).to_string()
                        }
                    }
                    K_PAYEE => payee.clone(),
                    K_CATEGORY => cat.clone(),
                    K_NOTE => note.clone(),
                    K_AMOUNT => {
                        if amount.is_zero() && r.chance(1, 3) {
                            if r.chance(1, 2) { String::new() } else { "-0.00".into() }
                        } else {
                            cell_text(r, &signed, style, &comm, &mut shapes)
                        }
                    }
                    K_CREDIT => {
                        if reversal {
                            if negative { cell_text(r, &signed, style, &comm, &mut shapes) } else { String::new() }
                        } else if negative {
                            String::new()
                        } else {
                            cell_text(r, &amount, style, &comm, &mut shapes)
                        }
                    }
                    K_DEBIT => {
                        if reversal {
                            if negative { String::new() } else { cell_text(r, &(-amount), style, &comm, &mut shapes) }
                        } else if negative {
                            cell_text(r, &amount, style, &comm, &mut shapes)
                        } else if r.chance(1, 6) {
                            "0".into()
                        } else {
                            String::new()
                        }
                    }
                    K_BALANCE => bal_t.clone(),
                    K_COMMODITY => comm.clone(),
                    K_RATE => rate_t.clone(),
                    K_SECONDARY_AMOUNT => sec_amt_t.clone(),
                    K_SECONDARY_COMMODITY => sec_comm_t.clone(),
                    K_CHARGE => charge_t.clone(),
                    _ => String::new(),
                },
            });
        }
        // free-text cells (payee, category, note, ignored columns) beginning with a character some
        // CSV dialect or spreadsheet treats specially; the cell of the first column more often, as
        // that is where a comment mark would take the whole record away
        for (ci, c) in cols.iter().enumerate() {
            let texty = matches!(c, None | Some(K_PAYEE) | Some(K_CATEGORY) | Some(K_NOTE));
            if texty && r.chance(if ci == 0 { 3 } else { 1 }, 8) {
                let lead = *r.pick(&["#", "#", "# ", "\"", "'", ";", "=", "+", "-", "@", " ", "\t", "\u{feff}", "//", "%", "|", ","]);
                rec[ci] = format!("{}{}", lead, rec[ci]);
                shapes.push(if ci == 0 { "first_cell:special_start" } else { "text_cell:special_start" });
                if ci == 0 && lead.starts_with('#') {
                    shapes.push("first_cell:starts_with_#");
                }
            }
        }
        if let Some((ji, jk)) = junk_at {
            if ji == i {
                let mut k = jk;
                if (k == K_CREDIT || k == K_DEBIT) && rec[col_of(k).unwrap()].is_empty() {
                    k = if k == K_CREDIT { K_DEBIT } else { K_CREDIT };
                }
                let ci = col_of(k).unwrap();
                let old = rec[ci].clone();
                let digits: String = old.chars().filter(|c| c.is_ascii_digit() || *c == '.').collect();
                let v = if digits.is_empty() || old.is_empty() {
                    if k == K_CREDIT || k == K_DEBIT || k == K_AMOUNT { None } else { Some(Decimal::new(1 + r.below(900_000) as i64, 2)) }
                } else {
                    Decimal::from_str(&digits).ok()
                };
                if let Some(v) = v {
                    let (t, tag, _) = foreign_number(r, old.contains('-'), v.mantissa().unsigned_abs() as u64, v.scale());
                    rec[ci] = t;
                    junk.push(format!("{}:{}", FKEYS[k], tag));
                }
            }
        }
        rows.push(rec);
    }
    if r.chance(1, 25) {
        // a trailer record with an empty date is skipped
        rows.push(cols.iter().map(|_| String::new()).collect());
    }
    if r.chance(1, 40) && !rows.is_empty() {
        // a record shorter than the largest referenced column
        let k = r.below(rows.len() as u64) as usize;
        rows[k].truncate(1);
    }
    if r.chance(1, 30) && !rows.is_empty() {
        let k = r.below(rows.len() as u64) as usize;
        let dc = col_of(K_DATE).unwrap();
        if rows[k].len() > dc {
            rows[k][dc] = "31/31/2021".into();
        }
    }
    // written in the declared order (occasionally not)
    if new_to_old {
        rows.reverse();
    }
    if r.chance(1, 20) {
        r.shuffle(&mut rows);
    }
    let head_lines: Vec<String> = (0..skip).map(|i| if i == 0 { "Statement of account; \"exported\", 2021".to_string() } else { String::new() }).collect();
    let row_structs: Vec<Row> = rows.iter().map(|f| Row { fields: f.clone(), date_text: String::new() }).collect();
    let csv = csv_text(&head_lines, &header, &row_structs, delim_ch, r.chance(1, 4));
    let mut optional_names: Vec<String> = optional.iter().map(|k| FKEYS[*k].to_string()).collect();
    if payee_template {
        optional_names.push("payee_template".into());
    }
    Case16 { doc, path: "data/okane/2021.csv".into(), csv, date_col: col_of(K_DATE).unwrap(), opening, optional: optional_names, shapes: shapes.iter().map(|s| s.to_string()).collect(), junk }
}

// ---------------------------------------------------------------- emit

pub fn emit(sh: &mut Shards, st: &mut Stats, c: &Case16, tag: &str) {
    let yaml = c.doc.yaml();
    let sel = run_select(&yaml, &c.path);
    let fmt = c.doc.format.clone().unwrap();
    let entry = match &sel {
        SelObs::Ok(e) => e.clone(),
        other => {
            let msg = match other {
                SelObs::Err(_, t) | SelObs::Panic(t) | SelObs::Load(t) => t.clone(),
                _ => "no match".into(),
            };
            eprintln!("c16: configuration did not select: {}\n{}", msg, yaml);
            st.count("harness:select_failed");
            return;
        }
    };
    let (header, recs) = match tokenise(&c.csv, &fmt.delimiter, fmt.skip) {
        Some(x) => x,
        None => {
            st.count("harness:csv_untokenisable");
            return;
        }
    };
    let rows: Vec<Row> = recs
        .iter()
        .map(|f| Row { fields: f.clone(), date_text: f.get(c.date_col).cloned().unwrap_or_default() })
        .collect();
    let imp = run_import(&c.csv, &entry);
    let account = entry.account.clone();
    let (proc_, ledger) = match &imp {
        ImpObs::Ok(_, text) => {
            let ledger = format!("{}{}", funding_text(&account, &c.opening), text);
            (run_process(&ledger, &account), ledger)
        }
        _ => (ProcObs::NotRun, String::new()),
    };
    let nonzero = recs.iter().any(|f| f.iter().any(|x| x.chars().any(|ch| ('1'..='9').contains(&ch))));
    let nontrivial = matches!(imp, ImpObs::Ok(..)) && !c.optional.is_empty() && nonzero;
    st.eval(&(yaml.clone(), c.csv.clone()), nontrivial);
    st.count(&format!("gen:{}", tag));
    st.count(&match &imp {
        ImpObs::NotRun => "import:not_run".to_string(),
        ImpObs::Err(k, _) => format!("import:err{}", k),
        ImpObs::Panic(_) => "import:panic".to_string(),
        ImpObs::Ok(..) => "import:ok".to_string(),
    });
    st.count(&match &proc_ {
        ProcObs::NotRun => "process:not_run".to_string(),
        ProcObs::Accepted(_) => "process:accepted".to_string(),
        ProcObs::Rejected(k, _) => format!("process:rejected{}", k),
        ProcObs::Panic(_) => "process:panic".to_string(),
    });
    st.count(if c.doc.liability == Some(true) { "account:liability" } else { "account:asset" });
    st.count(if fmt.new_to_old { "row_order:new_to_old" } else { "row_order:old_to_new" });
    st.count(&format!("delimiter:{:?}", fmt.delimiter));
    st.count(&format!("skip_head:{}", fmt.skip));
    st.count(&format!("date_format:{}", fmt.date));
    for o in &c.optional {
        st.count(&format!("column:{}", o));
    }
    for sh in &c.shapes {
        st.count(sh);
    }
    for j in &c.junk {
        st.count(&format!("junk_cell:{}", j));
        st.count(&format!("junk_cell outcome:{}", match &imp { ImpObs::Ok(..) => "imported".to_string(), ImpObs::Err(k, _) => format!("refused (error kind {})", k), _ => "other".to_string() }));
    }
    for (_, p) in &fmt.fields {
        st.count(match p {
            Pos::Index(_) => "field:index",
            Pos::Label(_) => "field:label",
            Pos::Template(_) => "field:template",
        });
    }
    st.add("shape:records", recs.len() as u64);
    st.add("shape:rules", c.doc.rewrite.len() as u64);
    let rep = json!({
        "property": "C16",
        "config_yaml": yaml,
        "path": c.path,
        "csv": c.csv,
        "import": imp_json(&imp),
        "ledger_given_to_process": ledger,
        "process": match &proc_ {
            ProcObs::NotRun => json!("not run"),
            ProcObs::Accepted(f) => json!({"accepted_final_balance": f.iter().map(|(c, v)| format!("{} {}", v, c)).collect::<Vec<_>>()}),
            ProcObs::Rejected(_, t) => json!({"rejected": t}),
            ProcObs::Panic(t) => json!({"panic": t}),
        },
        "case": serde_json::to_value(c).unwrap(),
        "reproduce": "write config_yaml and csv to files (csv under `path`) and run: okane import --config <yaml> <path>; then okane balance on funding + output",
    });
    if st.samples.len() < 2 || (st.samples.len() < 5 && nontrivial && matches!(proc_, ProcObs::Accepted(_))) {
        st.sample(rep.clone(), 5);
    }
    let opening = coq::list(c.opening.iter().map(|(cm, v)| format!("({}, {})", s_term(cm), dec_term(&Decimal::from_str(v).unwrap()))));
    let term = format!(
        "Q ({}) {} {} {} {} {} {}",
        c.doc.term(),
        s_term(&c.path),
        coq::list(header.iter().map(|h| s_term(h))),
        coq::list(rows.iter().map(|r| row_term(r, &fmt.date))),
        imp_term(&imp),
        opening,
        proc_term(&proc_)
    );
    sh.push(term, vec![rep]);
}

fn corpus_cases(o: &Opts) -> (Vec<Case16>, bool) {
    let mut files: Vec<PathBuf> = Vec::new();
    let mut replay = false;
    if let Some(i) = o.extra.iter().position(|a| a == "--replay") {
        replay = true;
        if let Some(p) = o.extra.get(i + 1) {
            files.push(p.into());
        }
    } else if let Ok(rd) = std::fs::read_dir(&o.corpus) {
        files = rd.filter_map(|e| e.ok()).map(|e| e.path()).collect();
        files.sort();
    }
    let mut out = Vec::new();
    for p in files {
        if let Ok(t) = std::fs::read_to_string(&p) {
            if let Ok(v) = serde_json::from_str::<serde_json::Value>(&t) {
                if let Some(c) = v.get("case") {
                    if let Ok(c) = serde_json::from_value::<Case16>(c.clone()) {
                        out.push(c);
                    }
                }
            }
        }
    }
    (out, replay)
}

pub fn run(o: &Opts) {
    let mut st = Stats::new();
    let mut sh = Shards::new(&o.out, if o.thorough { o.shards * 6 } else { o.shards }, &format!("{} Run.Classify_C16.\nImport ListNotations.\nOpen Scope N_scope.", crate::c17::HEADER));
    st.rule = "CSV statements generated from 1-8 chronological rows (starting up to 12 days before a calendar boundary drawn on purpose - the days around New Year whose ISO week belongs to the neighbouring year, 1 January / 31 December, leap days, 28 February / 1 March of 1900 and 2100, month ends, years 1900-2100 - and running across it) with a running balance per commodity, free-text cells (payee, category, note, ignored columns; 3 in 8 for the cell of the first column, 1 in 8 elsewhere) beginning with # \" ' ; = + - @ space tab U+FEFF // % | or a comma, written under a random layout (columns shuffled with junk columns; fields by index / label / template; delimiter default , ; tab; 0-2 skipped head lines; four date formats; amount or credit/debit columns; optional category, note, balance, commodity, rate, secondary amount, secondary commodity, charge columns; plain / grouped / `$`-prefixed / commodity-code-prefixed / commodity-suffixed numbers; under the prefixed styles amount, credit, debit, balance, charge and secondary-amount cells carry the minus sign before the prefix (-$1.46, -USD 5) or after it ($-1,950.25, USD -5, USD-5), with or without grouping commas; occasional reversals written as a negative credit / debit and refunded (negative) charges; one row in five of those with a conversion states a rate of exactly one (1, 1.0, 1.00, 1.000, $1.00) under every conversion mode; one statement in six has one amount / credit / debit / balance / rate / secondary-amount / charge cell in a notation okane's number grammar does not know or with trailing junk: 6'540.35, 1 234.56 (space or no-break space), 12.50-, (12.50), +12.50, 1.234,56, 12,50, 1,23,456.78, 12..5, 12.50*, 12.50 EUR*, 5 USD EUR, --5, 1.5e0, 12.5x - which must be refused with the number error or booked as exactly that figure) x asset/liability x both row orders, with 0-4 rewrite rules; through load_from_yaml, select, import::import(Csv), to_double_entry, the printing of ImportCmd and report::process over funding + printed text; non-trivial = import succeeded, some amount is non-zero and at least one optional column is used; distinct by YAML + CSV".into();
    st.assumptions.push("numbers have at most 9 significant digits and scale <= 4; rates come from a pool of products of powers of 2 and 5 so that Decimal division is exact".into());
    st.assumptions.push("the csv crate's tokenisation (after skip.head, with the configured delimiter) and chrono's date parsing are oracles: the model receives the records and the day numbers they produce".into());
    st.assumptions.push("white space in note fields is ASCII".into());
    let (corpus, replay) = corpus_cases(o);
    for c in &corpus {
        emit(&mut sh, &mut st, c, "corpus");
    }
    if !replay {
        let mut r = Rng::new(o.seed, 1601);
        let n = if o.thorough { 12000 } else { 2000 };
        for _ in 0..n {
            let c = gen_case(&mut r);
            emit(&mut sh, &mut st, &c, "random");
        }
    }
    sh.finish(&st);
}
