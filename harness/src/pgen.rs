//! Grammar-directed generator of ledger text over doc/syntax.md, plus mutations.
//! `doc` stays true while only documented productions (as transcribed in
//! coq/Model/DocGrammar.v, doubtful rules resolved toward the smaller language) are used; any
//! extension the parser is known to accept as well (negative literals outside parentheses,
//! one-digit months, `format` sub-directives, blanks before a line end, ...) clears it.
use crate::prng::Rng;

pub struct Gen<'a> {
    pub r: &'a mut Rng,
    pub doc: bool,
    /// 0 = LF, 1 = CRLF, 2 = mixed
    pub eol_mode: u8,
    pub unicode: bool,
    pub tags: Vec<&'static str>,
    /// probability (per mille) of using an extension where one exists
    pub ext: u64,
}

const ACCOUNTS: [&str; 14] = [
    "Assets:Bank",
    "Expenses:Grocery",
    "Liabilities:Credit Card",
    "Equity",
    "A",
    "Income:Salary:Base Pay",
    "資産:銀行",
    "負債:クレカ",
    "Dépenses:Épicerie",
    "Активы:Банк",
    "Assets:Broker=1",
    "Expenses:Food and Drink",
    "X:y:z",
    "Assets:\u{1F4B0}",
];
const COMMODITIES: [&str; 12] = ["USD", "EUR", "JPY", "CHF", "$", "€", "£", "円", "₿", "SPINX", "米ドル", "x"];
const PAYEES: [&str; 12] = [
    "Migros",
    "Coop  Pronto",
    "スーパー マーケット",
    "Café «Zürich»",
    "x",
    "Opening Balance",
    "My Grocery #12",
    "a\tb",
    "Bäckerei, Konditorei & Co.",
    "100% = all",
    "ООО Ромашка",
    "\u{1F600} shop",
];
const WORDS: [&str; 12] = ["note", "initial", "balance", "メモ", "commission", "x", "tax-2024", "(paid)", "50%", "a=b", "être", "ok!"];
const TAGS: [&str; 8] = ["Payee", "Date", "tag1", "取引", "financial", "k", "Étiquette", "a-b_c"];

impl<'a> Gen<'a> {
    pub fn new(r: &'a mut Rng, ext: u64) -> Self {
        let eol_mode = match r.below(10) {
            0..=5 => 0,
            6..=7 => 1,
            _ => 2,
        };
        let unicode = r.chance(2, 3);
        Gen { r, doc: true, eol_mode, unicode, tags: Vec::new(), ext }
    }

    fn tag(&mut self, t: &'static str) {
        if !self.tags.contains(&t) {
            self.tags.push(t);
        }
    }
    /// take an extension (clears `doc`)?
    fn extend(&mut self, t: &'static str) -> bool {
        if self.r.below(1000) < self.ext {
            self.doc = false;
            self.tag(t);
            true
        } else {
            false
        }
    }

    fn sp_char(&mut self) -> char {
        if self.r.chance(1, 5) {
            '\t'
        } else {
            ' '
        }
    }
    /// sp*
    fn sp0(&mut self) -> String {
        let n = match self.r.below(10) {
            0..=5 => 0,
            6..=7 => 1,
            8 => 2,
            _ => 3,
        };
        (0..n).map(|_| self.sp_char()).collect()
    }
    /// sp+
    fn sp1(&mut self) -> String {
        let n = match self.r.below(10) {
            0..=5 => 1,
            6..=7 => 2,
            8 => 4,
            _ => 3,
        };
        (0..n).map(|_| self.sp_char()).collect()
    }
    fn nl(&mut self) -> &'static str {
        match self.eol_mode {
            0 => "\n",
            1 => "\r\n",
            _ => {
                if self.r.chance(1, 2) {
                    "\n"
                } else {
                    "\r\n"
                }
            }
        }
    }

    fn pick<'b>(&mut self, xs: &'b [&'b str]) -> &'b str {
        loop {
            let x = xs[self.r.below(xs.len() as u64) as usize];
            if self.unicode || x.is_ascii() {
                return x;
            }
        }
    }

    /// a random character that is allowed by `ok`, from assorted Unicode ranges
    fn rand_char(&mut self, ok: &dyn Fn(char) -> bool) -> char {
        loop {
            let c = if !self.unicode {
                (0x21 + self.r.below(0x5e)) as u32
            } else {
                match self.r.below(12) {
                    0..=4 => (0x21 + self.r.below(0x5e)) as u32,
                    5 => (0xa1 + self.r.below(0x15f)) as u32,
                    6 => (0x391 + self.r.below(0x39)) as u32,
                    7 => (0x410 + self.r.below(0x40)) as u32,
                    8 => (0x3041 + self.r.below(0x56)) as u32,
                    9 => (0x4e00 + self.r.below(0x2000)) as u32,
                    10 => (0x1f600 + self.r.below(0x40)) as u32,
                    _ => *self.r.pick(&[0xa0u32, 0x3000, 0x2003, 0x85, 0x200b, 0xfeff, 0x0b, 0x0c, 0x2028, 0x7f, 0x1, 0xad]),
                }
            };
            if let Some(ch) = char::from_u32(c) {
                if ok(ch) {
                    return ch;
                }
            }
        }
    }
    fn rand_word(&mut self, ok: &dyn Fn(char) -> bool, maxlen: u64) -> String {
        let n = 1 + self.r.below(maxlen);
        (0..n).map(|_| self.rand_char(ok)).collect()
    }

    // ---- primitives ----
    fn digits(&mut self, n: usize) -> String {
        (0..n).map(|_| (b'0' + self.r.below(10) as u8) as char).collect()
    }

    /// comma-decimal ::= comma-integer ("." decimal-number*)?
    pub fn comma_decimal(&mut self) -> String {
        let mut s = String::new();
        let ilen = match self.r.below(10) {
            0..=3 => 1,
            4..=5 => 2,
            6 => 3,
            7 => 4,
            8 => 5 + self.r.below(4) as usize,
            _ => {
                if self.r.chance(1, 4) {
                    // beyond 64 bits, still inside Decimal's 96-bit mantissa (with the fraction below)
                    self.tag("long-number");
                    19 + self.r.below(4) as usize
                } else {
                    1 + self.r.below(12) as usize
                }
            }
        };
        let mut ip = self.digits(ilen);
        if ilen >= 19 {
            // keep the leading digit small so that integer + fraction digits stay below 2^96
            ip.replace_range(0..1, "1");
        }
        if self.r.chance(1, 3) {
            // number{1-3} ("," number{3})*
            let first = ((ilen - 1) % 3) + 1;
            s.push_str(&ip[..first]);
            let mut k = first;
            while k < ilen {
                s.push(',');
                s.push_str(&ip[k..k + 3]);
                k += 3;
            }
        } else {
            s.push_str(&ip);
        }
        if self.r.chance(1, 2) {
            s.push('.');
            let f = match self.r.below(8) {
                0 => 0,
                1..=4 => 2,
                5 => 1,
                6 => 3,
                _ => 4 + self.r.below(5) as usize,
            };
            let f = if ilen >= 19 { f.min(28 - ilen) } else { f };
            s.push_str(&self.digits(f));
        }
        s
    }

    fn is_commodity_char(c: char) -> bool {
        !" \t\r\n0123456789.,;:?!-+*/^&|=<>[](){}@".contains(c)
    }

    pub fn commodity(&mut self) -> String {
        if self.r.chance(1, 8) {
            let ok = |c: char| Self::is_commodity_char(c) && !c.is_control();
            self.tag("random-commodity");
            self.rand_word(&ok, 4)
        } else {
            self.pick(&COMMODITIES).to_string()
        }
    }

    /// amount-expr ::= comma-decimal sp* commodity?
    pub fn amount_expr(&mut self, allow_neg_ext: bool) -> String {
        let mut s = String::new();
        if allow_neg_ext && self.r.chance(1, 3) && self.extend("negative-literal") {
            s.push('-');
        }
        s.push_str(&self.comma_decimal());
        if self.r.chance(5, 6) {
            s.push_str(&self.sp0());
            s.push_str(&self.commodity());
        }
        s
    }

    pub fn value_expr(&mut self, depth: u32) -> String {
        if depth < 3 && self.r.chance(1, 6) {
            self.tag("paren-expr");
            format!("({}{}{})", self.sp0(), self.add_expr(depth + 1), self.sp0())
        } else {
            self.amount_expr(true)
        }
    }
    fn add_expr(&mut self, depth: u32) -> String {
        let mut s = self.mul_expr(depth);
        while self.r.chance(1, 3) {
            let op = if self.r.chance(1, 2) { '+' } else { '-' };
            // the number token of the parser is the maximal run of [0-9,.-]: keep a blank or a
            // commodity between a number and a following `-`
            let l = self.sp0();
            if op == '-' && l.is_empty() && s.ends_with(|c: char| c.is_ascii_digit() || c == '.' || c == ',') {
                self.tag("minus-right-after-number");
            }
            s.push_str(&l);
            s.push(op);
            s.push_str(&self.sp0());
            s.push_str(&self.mul_expr(depth));
        }
        s
    }
    fn mul_expr(&mut self, depth: u32) -> String {
        let mut s = self.unary_expr(depth);
        while self.r.chance(1, 4) {
            let op = if self.r.chance(1, 2) { '*' } else { '/' };
            s.push_str(&self.sp0());
            s.push(op);
            s.push_str(&self.sp0());
            s.push_str(&self.unary_expr(depth));
        }
        s
    }
    fn unary_expr(&mut self, depth: u32) -> String {
        if self.r.chance(1, 4) {
            // "-" value-expr ; inside parentheses a literal may not be negative itself after the minus
            let v = if depth < 3 && self.r.chance(1, 3) {
                format!("({}{}{})", self.sp0(), self.add_expr(depth + 1), self.sp0())
            } else {
                self.amount_expr(false)
            };
            format!("-{}", v)
        } else if depth < 3 && self.r.chance(1, 8) {
            format!("({}{}{})", self.sp0(), self.add_expr(depth + 1), self.sp0())
        } else {
            self.amount_expr(false)
        }
    }

    fn days_in_month(y: u32, m: u32) -> u32 {
        match m {
            1 | 3 | 5 | 7 | 8 | 10 | 12 => 31,
            4 | 6 | 9 | 11 => 30,
            _ => {
                if (y % 4 == 0 && y % 100 != 0) || y % 400 == 0 {
                    29
                } else {
                    28
                }
            }
        }
    }

    /// date ::= <yyyy/mm/dd> | <yyyy-mm-dd>
    pub fn date(&mut self) -> String {
        // one date in five lies on a calendar boundary drawn on purpose (caldate.rs): the days
        // around New Year whose ISO week belongs to the neighbouring year, 1 January / 31 December,
        // leap days and the 28 February / 1 March of 1900 and 2100, month ends, 1900-2100
        let (y, m, d) = if self.r.chance(1, 5) {
            use chrono::Datelike;
            let dt = crate::caldate::gen(self.r);
            self.tag(match crate::caldate::class_of(dt) {
                "iso_week_year_differs" => "date-iso-week-year-differs",
                "year_first_last" => "date-first-or-last-day-of-year",
                "leap_day" => "date-leap-day",
                "month_end" => "date-month-end",
                "month_start" => "date-month-start",
                _ => "date-drawn-from-calendar",
            });
            (dt.year() as u32, dt.month(), dt.day())
        } else {
            let y = match self.r.below(8) {
                0 => *self.r.pick(&[2000u32, 1900, 2100, 2024, 2400, 1996]),
                1 => self.r.below(10000) as u32,
                _ => 1990 + self.r.below(60) as u32,
            };
            let m = 1 + self.r.below(12) as u32;
            let dim = Self::days_in_month(y, m);
            let d = if self.r.chance(1, 5) { dim } else { 1 + self.r.below(dim as u64) as u32 };
            (y, m, d)
        };
        let sep = if self.r.chance(2, 3) { '/' } else { '-' };
        let short = (m < 10 || d < 10) && self.r.chance(1, 3) && self.extend("short-month-day");
        let short_year = y < 1000 && self.r.chance(1, 2) && self.extend("short-year");
        let ys = if short_year { format!("{}", y) } else { format!("{:04}", y) };
        if short {
            format!("{}{}{}{}{}", ys, sep, m, sep, d)
        } else {
            format!("{}{}{:02}{}{:02}", ys, sep, m, sep, d)
        }
    }

    // ---- names ----
    /// account ::= no-sp (no-sp | " " no-sp)*   (no `;`; first character not `*` or `!`)
    pub fn account(&mut self) -> String {
        if self.r.chance(1, 8) {
            self.tag("random-account");
            let ok = |c: char| !" \t\r\n;".contains(c) && !c.is_control();
            let first_ok = |c: char| !" \t\r\n;*!".contains(c) && !c.is_control() && !c.is_whitespace();
            let mut s = String::new();
            s.push(self.rand_char(&first_ok));
            let words = 1 + self.r.below(3);
            for w in 0..words {
                if w > 0 {
                    s.push(' ');
                }
                s.push_str(&self.rand_word(&ok, 6));
            }
            s
        } else if self.r.chance(1, 6) {
            // display widths around the alignment column (48 - 2) and the balance column (50)
            self.tag("boundary-width-account");
            let w = 36 + self.r.below(18) as usize;
            let mut s = String::from("Assets:");
            let wide = self.r.chance(1, 4);
            while unicode_width::UnicodeWidthStr::width_cjk(s.as_str()) + if wide { 2 } else { 1 } <= w {
                s.push(if wide && s.len() % 5 == 0 { '銀' } else { 'w' });
            }
            s
        } else {
            self.pick(&ACCOUNTS).to_string()
        }
    }

    fn comment_text(&mut self) -> String {
        // no-new-line*; first word without `:` and not followed by `:` (else it is a tag form)
        let n = self.r.below(5);
        let mut s = String::new();
        for i in 0..n {
            if i > 0 {
                s.push_str(&self.sp1());
            }
            if self.r.chance(1, 6) {
                let ok = |c: char| !"\r\n:".contains(c) && !c.is_control() && c != ' ' && c != '\t' && c != '\u{c}';
                s.push_str(&self.rand_word(&ok, 5));
            } else {
                s.push_str(self.pick(&WORDS));
            }
            if i > 0 && self.r.chance(1, 10) {
                s.push(':');
            }
        }
        s
    }

    fn tag_word(&mut self) -> String {
        if self.r.chance(1, 6) {
            let ok = |c: char| !" \t\r\n:\u{c}".contains(c) && !c.is_control();
            self.rand_word(&ok, 5)
        } else {
            self.pick(&TAGS).to_string()
        }
    }

    /// metadata ::= ";" (metadata-key-value | metadata-tag-words | metadata-comment)   (without the line end)
    pub fn metadata(&mut self) -> String {
        let mut s = String::from(";");
        match self.r.below(10) {
            0..=2 => {
                self.tag("meta-kv");
                s.push_str(&self.sp0());
                s.push_str(&self.tag_word());
                s.push_str(&self.sp0());
                if self.r.chance(1, 3) {
                    s.push_str("::");
                    s.push_str(&self.sp0());
                    // expr: any text (TODO(#78) in the doc); use a value expression or a date in brackets
                    if self.r.chance(1, 2) {
                        s.push_str(&self.value_expr(1));
                    } else {
                        s.push_str(&format!("[{}]", self.date()));
                    }
                } else {
                    s.push(':');
                    s.push_str(&self.sp0());
                    s.push_str(&self.comment_text());
                }
            }
            3..=4 => {
                self.tag("meta-tags");
                s.push_str(&self.sp0());
                s.push(':');
                let n = 1 + self.r.below(3);
                for _ in 0..n {
                    s.push_str(&self.tag_word());
                    s.push(':');
                }
            }
            _ => {
                self.tag("meta-comment");
                s.push_str(&self.sp0());
                s.push_str(&self.comment_text());
            }
        }
        // blanks before the line end are read by the parser but not documented for tags / after values
        if self.r.chance(1, 6) && self.extend("trailing-blanks") {
            s.push_str(&self.sp1());
        }
        s
    }

    fn lot_parts(&mut self) -> String {
        let mut parts: Vec<String> = Vec::new();
        if self.r.chance(1, 2) {
            self.tag("lot-price");
            let a = self.amount_expr(true);
            if self.r.chance(1, 3) {
                parts.push(format!("{{{{{}{}{}}}}}", self.sp0(), a, self.sp0()));
            } else {
                parts.push(format!("{{{}{}{}}}", self.sp0(), a, self.sp0()));
            }
        }
        if self.r.chance(1, 2) {
            self.tag("lot-date");
            parts.push(format!("[{}{}{}]", self.sp0(), self.date(), self.sp0()));
        }
        if self.r.chance(1, 2) {
            self.tag("lot-note");
            let ok = |c: char| !"()@\r\n".contains(c) && !c.is_control();
            let mut note = self.rand_word(&ok, 8);
            if self.r.chance(1, 2) {
                note = format!("bought {}", note);
            }
            if self.r.chance(1, 8) {
                self.tag("empty-lot-note");
                note = String::new();
            }
            if self.r.chance(1, 4) && self.extend("lot-note-with-at-or-paren") {
                // outside the documented [^()@]*: the parser must reject it
                note.push(*self.r.pick(&['@', '(']));
                note.push('x');
            }
            parts.push(format!("({})", note));
        }
        self.r.shuffle(&mut parts);
        let mut s = String::new();
        for p in parts {
            s.push_str(&p);
            s.push_str(&self.sp0());
        }
        s
    }

    /// posting (lines, with line ends except the last one, which the caller terminates)
    pub fn posting(&mut self) -> Vec<String> {
        let mut l = self.sp1();
        if self.r.chance(1, 6) {
            self.tag("posting-clear");
            l.push(if self.r.chance(1, 2) { '*' } else { '!' });
            l.push_str(&self.sp0());
        }
        l.push_str(&self.account());
        if self.r.chance(5, 6) {
            // posting-value ::= ("  " | "\t") sp* (posting-amount sp*)? balance?
            l.push_str(if self.r.chance(3, 4) { "  " } else { "\t" });
            l.push_str(&self.sp0());
            if self.r.chance(5, 6) {
                l.push_str(&self.value_expr(0));
                l.push_str(&self.sp0());
                if self.r.chance(1, 4) {
                    l.push_str(&self.lot_parts());
                }
                if self.r.chance(1, 4) {
                    self.tag("cost");
                    l.push_str(if self.r.chance(1, 3) { "@@" } else { "@" });
                    l.push_str(&self.sp0());
                    l.push_str(&self.value_expr(0));
                }
                l.push_str(&self.sp0());
            }
            if self.r.chance(1, 4) {
                self.tag("assertion");
                l.push('=');
                l.push_str(&self.sp0());
                l.push_str(&self.value_expr(0));
                l.push_str(&self.sp0());
            }
        }
        let mut lines = Vec::new();
        if self.r.chance(1, 4) {
            l.push_str(&self.metadata());
        }
        lines.push(l);
        while self.r.chance(1, 4) {
            let m = format!("{}{}", self.sp1(), self.metadata());
            lines.push(m);
        }
        lines
    }

    pub fn transaction(&mut self) -> Vec<String> {
        self.tag("transaction");
        let mut h = self.date();
        if self.r.chance(1, 5) {
            self.tag("effective-date");
            h.push('=');
            if self.r.chance(1, 3) {
                // an effective date equal to the date is still an effective date
                self.tag("effective-date-equal");
                let same = h[..h.len() - 1].to_string();
                h.push_str(&same);
            } else {
                h.push_str(&self.date());
            }
        }
        let mut has_note = false;
        if self.r.chance(9, 10) {
            has_note = true;
            h.push_str(&self.sp1());
            if self.r.chance(1, 3) {
                self.tag("txn-clear");
                h.push(if self.r.chance(1, 2) { '*' } else { '!' });
                h.push_str(&self.sp0());
            }
            if self.r.chance(1, 4) {
                self.tag("txn-code");
                let ok = |c: char| !"()\r\n".contains(c) && !c.is_control();
                let code = if self.r.chance(1, 2) { self.rand_word(&ok, 6) } else { "#txn-1".to_string() };
                h.push_str(&format!("({}{}{})", self.sp0(), code, self.sp0()));
                h.push_str(&self.sp0());
            }
            if self.r.chance(9, 10) {
                // payee ::= [^\r\n;]*  (not starting with ( * ! or a blank: those read as code / state)
                let p = if self.r.chance(1, 8) {
                    self.tag("random-payee");
                    let ok = |c: char| !"\r\n;".contains(c) && !c.is_control();
                    let mut p = String::new();
                    if self.r.chance(1, 4) {
                        self.tag("payee-starting-like-code-or-state");
                        p.push(*self.r.pick(&['(', '*', '!', ')']));
                    }
                    p.push_str(&self.rand_word(&ok, 10));
                    p
                } else {
                    self.pick(&PAYEES).to_string()
                };
                h.push_str(&p);
                if self.r.chance(1, 8) {
                    h.push_str(&self.sp1());
                }
            }
        }
        let mut lines = Vec::new();
        if self.r.chance(1, 4) {
            if !has_note {
                self.tag("header-metadata-right-after-date");
            }
            h.push_str(&self.metadata());
        }
        lines.push(h);
        while self.r.chance(1, 5) {
            let m = format!("{}{}", self.sp1(), self.metadata());
            lines.push(m);
        }
        let n = match self.r.below(10) {
            0 => 0,
            1 => 1,
            2..=6 => 2,
            7..=8 => 3,
            _ => 4 + self.r.below(3),
        };
        for _ in 0..n {
            lines.extend(self.posting());
        }
        lines
    }

    fn free_text(&mut self) -> String {
        // no-new-line*
        if self.r.chance(1, 5) {
            let ok = |c: char| !"\r\n".contains(c) && !c.is_control();
            let n = self.r.below(12);
            (0..n).map(|_| if self.r.chance(1, 5) { ' ' } else { self.rand_char(&ok) }).collect()
        } else {
            let n = self.r.below(5);
            let mut s = String::new();
            for i in 0..n {
                if i > 0 || self.r.chance(1, 2) {
                    s.push_str(&self.sp1());
                }
                s.push_str(self.pick(&WORDS));
            }
            s
        }
    }

    pub fn top_comment(&mut self) -> Vec<String> {
        self.tag("top-comment");
        let n = 1 + self.r.below(3);
        (0..n)
            .map(|_| {
                let p = *self.r.pick(&[';', '#', '%', '|', '*', ';', ';']);
                format!("{}{}", p, self.free_text())
            })
            .collect()
    }

    fn detail_lines(&mut self, commodity: bool) -> Vec<String> {
        let mut lines = Vec::new();
        let n = self.r.below(4);
        for _ in 0..n {
            let k = self.r.below(if commodity { 4 } else { 3 });
            let l = match k {
                0 => {
                    self.tag("detail-note");
                    format!("{}note{}{}", self.sp1(), self.sp1(), self.free_text())
                }
                1 => {
                    self.tag("detail-alias");
                    let a = if commodity { self.commodity() } else { self.account() };
                    let mut l = format!("{}alias{}{}", self.sp1(), self.sp1(), a);
                    if self.r.chance(1, 6) && self.extend("trailing-blanks") {
                        l.push_str(&self.sp1());
                    }
                    l
                }
                2 => {
                    self.tag("detail-comment");
                    let p = *self.r.pick(&[';', '#', '%', '|', '*', ';']);
                    format!("{}{}{}", self.sp1(), p, self.free_text())
                }
                _ => {
                    // `commodity-format` is named by the doc but not defined
                    self.doc = false;
                    self.tag("detail-format");
                    format!("{}format{}{}", self.sp1(), self.sp1(), self.amount_expr(true))
                }
            };
            lines.push(l);
        }
        lines
    }

    pub fn account_declaration(&mut self) -> Vec<String> {
        self.tag("account-decl");
        let mut lines = vec![format!("account{}{}{}", self.sp1(), self.account(), self.sp0())];
        lines.extend(self.detail_lines(false));
        lines
    }
    pub fn commodity_declaration(&mut self) -> Vec<String> {
        self.tag("commodity-decl");
        let mut lines = vec![format!("commodity{}{}{}", self.sp1(), self.commodity(), self.sp0())];
        lines.extend(self.detail_lines(true));
        lines
    }
    pub fn apply_tag(&mut self) -> Vec<String> {
        self.tag("apply-tag");
        let mut l = format!("apply{}tag{}{}", self.sp1(), self.sp1(), self.tag_word());
        if self.r.chance(1, 2) {
            l.push_str(&self.sp0());
            if self.r.chance(1, 3) {
                l.push_str("::");
                l.push_str(&self.sp0());
                l.push_str(&self.value_expr(1));
            } else {
                l.push(':');
                l.push_str(&self.sp0());
                l.push_str(&self.comment_text());
            }
        } else {
            l.push_str(&self.sp0());
        }
        vec![l]
    }
    pub fn end_apply_tag(&mut self) -> Vec<String> {
        self.tag("end-apply-tag");
        vec![format!("end{}apply{}tag{}", self.sp1(), self.sp1(), self.sp0())]
    }
    pub fn include(&mut self) -> Vec<String> {
        self.tag("include");
        let ok = |c: char| !"\r\n".contains(c) && !c.is_control();
        let p = if self.r.chance(1, 3) { self.rand_word(&ok, 12) } else { "path/to/other *.ledger".to_string() };
        vec![format!("include{}{}", self.sp1(), p)]
    }

    pub fn directive(&mut self) -> Vec<String> {
        match self.r.below(20) {
            0..=9 => self.transaction(),
            10..=12 => self.top_comment(),
            13..=14 => self.account_declaration(),
            15..=16 => self.commodity_declaration(),
            17 => self.apply_tag(),
            18 => self.end_apply_tag(),
            _ => self.include(),
        }
    }

    /// vertical-space* as text
    fn vspaces(&mut self, min: u64) -> String {
        let n = min + match self.r.below(6) {
            0..=2 => 0,
            3..=4 => 1,
            _ => 2,
        };
        let mut s = String::new();
        for _ in 0..n {
            if self.r.chance(1, 6) {
                self.tag("blank-line-with-spaces");
                s.push_str(&self.sp1());
            }
            s.push_str(self.nl());
        }
        s
    }

    /// ledger-file ::= vertical-space* (directive vertical-space*)*
    pub fn ledger(&mut self, max_entries: u64) -> String {
        let mut s = self.vspaces(0);
        let n = self.r.below(max_entries + 1);
        for k in 0..n {
            let lines = self.directive();
            let last_entry = k + 1 == n;
            let m = lines.len();
            for (i, l) in lines.into_iter().enumerate() {
                s.push_str(&l);
                if last_entry && i + 1 == m && self.r.chance(1, 3) {
                    // new-line ::= ... | <EOF>
                    self.tag("eof-without-newline");
                    return s;
                }
                s.push_str(self.nl());
            }
            // entries need not be separated by a blank line, but two comments (or a declaration
            // and an indented line) would merge: that is still a documented text
            let m = if self.r.chance(5, 6) { 1 } else { 0 };
            s.push_str(&self.vspaces(m));
        }
        if self.r.chance(1, 10) {
            // sp* <EOF> is a vertical-space
            self.tag("blanks-at-eof");
            s.push_str(&self.sp1());
        }
        s
    }
}

const ALPHABET: &[u8] = b"  \t\n\r;:#%|*!()[]{}@=+-/.,0123456789aAcefilnotyUSD$";

/// one random edit: delete / insert / replace a character, or truncate
pub fn mutate(r: &mut Rng, text: &str) -> String {
    let chars: Vec<char> = text.chars().collect();
    if chars.is_empty() {
        return (ALPHABET[r.below(ALPHABET.len() as u64) as usize] as char).to_string();
    }
    let k = r.below(chars.len() as u64) as usize;
    let sym = if r.chance(1, 8) {
        *r.pick(&['é', '円', '\u{3000}', '\u{a0}', '\u{1F600}', '\u{c}', '\u{b}', '\u{85}'])
    } else {
        ALPHABET[r.below(ALPHABET.len() as u64) as usize] as char
    };
    let mut out = chars.clone();
    match r.below(4) {
        0 => {
            out.remove(k);
        }
        1 => out.insert(k, sym),
        2 => out[k] = sym,
        _ => out.truncate(k),
    }
    out.into_iter().collect()
}

pub fn random_text(r: &mut Rng, unicode: bool) -> String {
    let n = r.below(60);
    let mut s = String::new();
    for _ in 0..n {
        if unicode && r.chance(1, 6) {
            let c = match r.below(4) {
                0 => 0xa0 + r.below(0x60) as u32,
                1 => 0x3000 + r.below(0x100) as u32,
                2 => 0x1f600 + r.below(0x40) as u32,
                _ => r.below(0x3000) as u32,
            };
            if let Some(ch) = char::from_u32(c) {
                s.push(ch);
            }
        } else {
            s.push(ALPHABET[r.below(ALPHABET.len() as u64) as usize] as char);
        }
    }
    s
}

/// seed ledgers shipped with the repository
pub fn seed_files() -> Vec<(String, String)> {
    let mut out = Vec::new();
    for dir in ["/repo/core/testdata", "/repo/cli/tests/testdata", "/repo/testdata"] {
        let mut stack = vec![std::path::PathBuf::from(dir)];
        while let Some(d) = stack.pop() {
            if let Ok(rd) = std::fs::read_dir(&d) {
                let mut ps: Vec<_> = rd.filter_map(|e| e.ok()).map(|e| e.path()).collect();
                ps.sort();
                for p in ps {
                    if p.is_dir() {
                        stack.push(p);
                    } else if p.extension().map(|e| e == "ledger").unwrap_or(false) {
                        if let Ok(t) = std::fs::read_to_string(&p) {
                            out.push((p.to_string_lossy().into_owned(), t));
                        }
                    }
                }
            }
        }
    }
    out.sort();
    out
}
