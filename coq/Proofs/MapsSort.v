(* sort_keys is a canonical form: two duplicate-free association lists that agree through
   `get` have the same sorted presentation, whatever their (iteration) order. *)
From Coq Require Import List NArith Bool Lia Sorting.Sorted Permutation.
From Okv Require Import Base.Maps.
Import ListNotations.
Open Scope N_scope.

Section S.
Context {V : Type}.
Implicit Types m : amap V.

Definition keys_lt (a b : N * V) : Prop := fst a < fst b.
Definition ssorted m : Prop := StronglySorted keys_lt m.

Definition map_equiv m m' : Prop :=
  NoDup (keys m) /\ NoDup (keys m') /\ forall k, get k m = get k m'.

Lemma get_in m k v : get k m = Some v -> In (k, v) m.
Proof.
  induction m as [|[k' v'] r IH]; cbn [get]; [discriminate|].
  destruct (k' =? k) eqn:E; intros H.
  - apply N.eqb_eq in E. inversion H. subst. left; reflexivity.
  - right; auto.
Qed.

Lemma in_get m k v : NoDup (keys m) -> In (k, v) m -> get k m = Some v.
Proof.
  induction m as [|[k' v'] r IH]; cbn [get keys map fst]; intros ND HI; [contradiction|].
  inversion ND as [|? ? Hn ND']; subst.
  destruct HI as [HI|HI].
  - inversion HI; subst. rewrite N.eqb_refl. reflexivity.
  - destruct (k' =? k) eqn:E.
    + apply N.eqb_eq in E; subst. exfalso. apply Hn. change (In (fst (k, v)) (map fst r)). apply in_map. exact HI.
    + apply IH; auto.
Qed.

Lemma get_none_notin m k : get k m = None -> ~ In k (keys m).
Proof.
  induction m as [|[k' v'] r IH]; cbn [get keys map fst]; intros H HI; [contradiction|].
  destruct (k' =? k) eqn:E; [discriminate|].
  destruct HI as [HI|HI]; [subst; rewrite N.eqb_refl in E; discriminate| exact (IH H HI)].
Qed.

Lemma in_keys_get m k : In k (keys m) -> exists v, get k m = Some v.
Proof.
  intros HI. destruct (get k m) eqn:E; [eauto|]. exfalso. exact (get_none_notin _ _ E HI).
Qed.

(* insertion *)
Lemma insert_sorted_in k v m x : In x (insert_sorted k v m) <-> x = (k, v) \/ In x m.
Proof.
  induction m as [|[k' v'] r IH]; cbn [insert_sorted].
  - cbn. intuition.
  - destruct (k <=? k'); cbn [In]; [intuition|]. rewrite IH. intuition.
Qed.

Lemma insert_sorted_sorted k v m :
  ssorted m -> ~ In k (keys m) -> ssorted (insert_sorted k v m).
Proof.
  unfold ssorted. induction m as [|[k' v'] r IH]; cbn [insert_sorted keys map fst]; intros HS Hn.
  - constructor; constructor.
  - inversion HS as [|? ? HS' HF]; subst.
    destruct (k <=? k') eqn:E.
    + apply N.leb_le in E. constructor; [exact HS|].
      assert (k < k') by (assert (k <> k') by (intros ->; apply Hn; left; reflexivity); lia).
      constructor; [exact H|].
      rewrite Forall_forall in *. intros x Hx. specialize (HF x Hx). unfold keys_lt in *. cbn in *. lia.
    + apply N.leb_gt in E. constructor.
      * apply IH; [exact HS'| intros HI; apply Hn; right; exact HI].
      * rewrite Forall_forall in *. intros x Hx. apply insert_sorted_in in Hx. destruct Hx as [->|Hx].
        -- exact E.
        -- exact (HF x Hx).
Qed.

Lemma sort_keys_in m x : In x (sort_keys m) <-> In x m.
Proof.
  unfold sort_keys. induction m as [|[k v] r IH]; cbn [fold_right fst snd]; [reflexivity|].
  rewrite insert_sorted_in, IH. cbn [In]. intuition.
Qed.

Lemma sort_keys_keys_in m k : In k (keys (sort_keys m)) <-> In k (keys m).
Proof.
  unfold keys. rewrite !in_map_iff. split; intros [x [Hf Hx]]; exists x; split; auto; apply sort_keys_in; auto.
Qed.

Lemma sort_keys_sorted m : NoDup (keys m) -> ssorted (sort_keys m).
Proof.
  unfold sort_keys. induction m as [|[k v] r IH]; cbn [fold_right fst snd keys map]; intros ND.
  - constructor.
  - inversion ND as [|? ? Hn ND']; subst. apply insert_sorted_sorted; [apply IH; exact ND'|].
    intros HI. apply Hn. apply (proj1 (sort_keys_keys_in r k)). exact HI.
Qed.

Lemma ssorted_nodup m : ssorted m -> NoDup (keys m).
Proof.
  unfold ssorted. induction 1 as [|a l HS IH HF]; cbn [keys map]; constructor; [|exact IH].
  intros HI. apply in_map_iff in HI. destruct HI as [x [Hx Hin]].
  rewrite Forall_forall in HF. specialize (HF x Hin). unfold keys_lt in HF. lia.
Qed.

Lemma sort_keys_get m k : NoDup (keys m) -> get k (sort_keys m) = get k m.
Proof.
  intros ND. pose proof (ssorted_nodup _ (sort_keys_sorted m ND)) as ND2.
  destruct (get k m) eqn:E.
  - apply in_get; [exact ND2|]. apply sort_keys_in. apply get_in. exact E.
  - destruct (get k (sort_keys m)) eqn:E2; [|reflexivity].
    apply get_in in E2. apply (proj1 (sort_keys_in _ _)) in E2. apply (in_get _ _ _ ND) in E2. congruence.
Qed.

(* two strictly sorted lists with the same lookups are equal *)
Lemma ssorted_ext m m' : ssorted m -> ssorted m' -> (forall k, get k m = get k m') -> m = m'.
Proof.
  unfold ssorted. intros HS. revert m'. induction HS as [|[k v] r HS IH HF]; intros m' HS' Hg.
  - destruct m' as [|[k' v'] r']; [reflexivity|]. specialize (Hg k'). cbn [get] in Hg. rewrite N.eqb_refl in Hg. discriminate.
  - destruct m' as [|[k' v'] r'].
    + specialize (Hg k). cbn [get] in Hg. rewrite N.eqb_refl in Hg. discriminate.
    + inversion HS' as [|? ? HS'' HF']; subst.
      rewrite Forall_forall in HF, HF'.
      assert (Hk : k = k').
      { destruct (N.lt_trichotomy k k') as [Hlt|[Heq|Hgt]]; [|exact Heq|].
        - pose proof (Hg k) as H. cbn [get] in H. rewrite N.eqb_refl in H.
          replace (k' =? k) with false in H by (symmetry; apply N.eqb_neq; lia).
          symmetry in H. apply get_in in H. specialize (HF' _ H). unfold keys_lt in HF'. cbn in HF'. lia.
        - pose proof (Hg k') as H. cbn [get] in H. rewrite N.eqb_refl in H.
          replace (k =? k') with false in H by (symmetry; apply N.eqb_neq; lia).
          apply get_in in H. specialize (HF _ H). unfold keys_lt in HF. cbn in HF. lia. }
      subst k'. pose proof (Hg k) as H. cbn [get] in H. rewrite N.eqb_refl in H. inversion H; subst v'.
      f_equal. apply IH; [exact HS''|].
      intros j. specialize (Hg j). cbn [get] in Hg.
      destruct (k =? j) eqn:E; [|exact Hg].
      apply N.eqb_eq in E; subst j.
      destruct (get k r) eqn:E1.
      { apply get_in in E1. specialize (HF _ E1). unfold keys_lt in HF. cbn in HF. lia. }
      destruct (get k r') eqn:E2; [|reflexivity].
      apply get_in in E2. specialize (HF' _ E2). unfold keys_lt in HF'. cbn in HF'. lia.
Qed.

Theorem sort_keys_canonical m m' : map_equiv m m' -> sort_keys m = sort_keys m'.
Proof.
  intros [ND [ND' Hg]]. apply ssorted_ext; try (apply sort_keys_sorted; assumption).
  intros k. rewrite !sort_keys_get by assumption. apply Hg.
Qed.

Lemma perm_map_equiv m m' : NoDup (keys m) -> Permutation m m' -> map_equiv m m'.
Proof.
  intros ND HP. assert (ND' : NoDup (keys m')).
  { unfold keys. eapply Permutation_NoDup; [apply Permutation_map; exact HP| exact ND]. }
  split; [exact ND|split; [exact ND'|]].
  intros k. destruct (get k m) eqn:E.
  - symmetry. apply in_get; [exact ND'|]. eapply Permutation_in; [exact HP|]. apply get_in; exact E.
  - destruct (get k m') eqn:E'; [|reflexivity].
    apply get_in in E'. apply Permutation_sym in HP. eapply Permutation_in in E'; [|exact HP].
    apply (in_get _ _ _ ND) in E'. congruence.
Qed.

Theorem sort_keys_perm m m' : NoDup (keys m) -> Permutation m m' -> sort_keys m = sort_keys m'.
Proof. intros ND HP. apply sort_keys_canonical. apply perm_map_equiv; assumption. Qed.

End S.
