(* C05 round trip, metadata lines.
   Part 1: a well-formed metadata item, printed, is read back by line_metadata; a block of
           metadata lines (as print_posting / print_txn write it) is read back by block_metadata.
   Part 2: the converse direction: line_metadata / block_metadata only return well-formed
           metadata (wf_metadata describes the image of the parser). *)
From Coq Require Import List NArith ZArith Bool Lia Arith.
From Okv Require Import Model.Lit Model.Syntax Model.Comb Model.ParseExpr Model.ParseMeta
  Model.Display Model.DocGrammar Model.RoundTripSpec Proofs.CombSpec Proofs.DocAccept Proofs.RoundTripBase.
Import ListNotations.
Open Scope N_scope.

(* the characters of a tag / key *)
Local Notation nts := (fun c : N => negb (is_tag_stop c)).
Local Notation not_nl := (fun c : N => negb (is_nl c)).

(* ================================================================================== *)
(* Part 1: print, then parse                                                          *)
(* ================================================================================== *)

(* ---- characters ---- *)
Lemma rm_sp_stop : forall c, is_sp c = true -> is_tag_stop c = true.
Proof.
  intros c H. unfold is_sp in H. unfold is_tag_stop, is_ascii_whitespace.
  destruct (c =? 32); [reflexivity |]. destruct (c =? 9); [reflexivity | discriminate].
Qed.

Lemma rm_nl_stop : forall c, is_nl c = true -> is_tag_stop c = true.
Proof.
  intros c H. unfold is_nl in H. unfold is_tag_stop, is_ascii_whitespace.
  destruct (c =? 10); [now rewrite !orb_true_r |]. destruct (c =? 13); [now rewrite !orb_true_r | discriminate].
Qed.

Lemma rm_nts_not_sp : forall c, nts c = true -> is_sp c = false.
Proof.
  intros c H. cbv beta in H. destruct (is_sp c) eqn:E; [| reflexivity]. rewrite (rm_sp_stop c E) in H. discriminate.
Qed.

Lemma rm_nts_not_nl : forall c, nts c = true -> not_nl c = true.
Proof.
  intros c H. cbv beta in *. destruct (is_nl c) eqn:E; [| reflexivity]. rewrite (rm_nl_stop c E) in H. discriminate.
Qed.

Lemma rm_nts_not_colon : forall c, nts c = true -> (58 =? c) = false.
Proof.
  intros c H. destruct (N.eqb_spec 58 c) as [<- |]; [discriminate | reflexivity].
Qed.

(* ---- strings ---- *)
Lemma rm_end_trimmed_eq : forall s, end_trimmed s = true -> trim_end s = s.
Proof. intros s H. apply str_eqb_eq. exact H. Qed.

Lemma rm_trimmed_eq : forall s, trimmed s = true -> trim s = s.
Proof. intros s H. apply str_eqb_eq. exact H. Qed.

Lemma rm_trim_sp_cons : forall t, trim (32 :: t) = trim t.
Proof. reflexivity. Qed.

Lemma rm_starts_not_app : forall f (r x : str), starts_not f r -> starts_not f x -> starts_not f (r ++ x).
Proof. intros f [| c r] x H1 H2; [exact H2 | exact H1]. Qed.

Lemma rm_starts_false_app : forall f (r x : str), starts f r = false -> starts_not f x -> starts_not f (r ++ x).
Proof. intros f r x H1 H2. apply rm_starts_not_app; [apply starts_false_not; exact H1 | exact H2]. Qed.

(* the scan of a prefix, extended by a continuation that does not prolong it *)
Lemma rm_span_app : forall f (s w r x : str), span_while f s = (w, r) -> starts_not f (r ++ x) ->
  span_while f (s ++ x) = (w, r ++ x).
Proof.
  intros f s w r x E H. destruct (span_while_split f s) as (a & b & E1 & E2 & Ha & Hb).
  rewrite E in E1. inversion E1; subst a b. subst s. rewrite <- app_assoc. apply span_while_all; assumption.
Qed.

(* ---- tag_key ---- *)
Lemma rm_tag_key_eq : forall i, tag_key i = take_while1 nts i.
Proof. reflexivity. Qed.

Lemma rm_tag_key_ok : forall t x, t <> [] -> all nts t -> starts_not nts x -> tag_key (t ++ x) = POk t x.
Proof. intros. rewrite rm_tag_key_eq. apply take_while1_ok; assumption. Qed.

Lemma rm_tag_key_fail : forall i, starts_not nts i -> tag_key i = PErr false 0 i.
Proof. intros. rewrite rm_tag_key_eq. apply take_while1_fail; assumption. Qed.

Lemma rm_wf_tag_facts : forall t, wf_tag t = true ->
  t <> [] /\ all nts t /\ (forall k, starts_not is_sp (t ++ k)) /\ (forall k, starts_not (N.eqb 58) (t ++ k)).
Proof.
  intros t H. unfold wf_tag in H. apply andb_true_iff in H. destruct H as [H1 H2].
  destruct t as [| c t]; [discriminate |]. split; [discriminate |]. split; [exact H2 |].
  simpl in H2. apply andb_true_iff in H2. destruct H2 as [H2 _].
  split; intros k; simpl; [apply rm_nts_not_sp | apply rm_nts_not_colon]; exact H2.
Qed.

(* ---- the value of  key: value ---- *)
Lemma metadata_value_fail : forall y, starts_not (N.eqb 58) y -> metadata_value y = PErr false 0 y.
Proof.
  intros y H. unfold metadata_value, alt, pmap, preceded, bind.
  rw (literal_fail1 58 [58] y H). rw (chr_fail 58 y H). reflexivity.
Qed.

Lemma metadata_value_fmt : forall v k, wf_meta_value v = true ->
  metadata_value (print_meta_value v ++ 10 :: k) = POk v (10 :: k).
Proof.
  intros v k H.
  destruct v as [t | t]; cbn [wf_meta_value] in H; apply andb_true_iff in H; destruct H as [Hn Ht];
    apply rm_trimmed_eq in Ht; unfold metadata_value, print_meta_value.
  - (* ": " t *)
    assert (E : pmap (fun x => MExpr (trim x)) (preceded (literal [58; 58]) till_line_ending)
                  (([58; 32] ++ t) ++ 10 :: k) = PErr false 0 (([58; 32] ++ t) ++ 10 :: k))
      by reflexivity.
    rewrite (alt_r _ _ _ _ _ _ E). unfold pmap, preceded, bind.
    cbn [app]. rw chr_ok.
    pose proof (till_line_ending_ok (32 :: t) (10 :: k) k (Hn : text (32 :: t)) (ends_lf k)) as T.
    cbn [app] in T. rw T.
    unfold ret. rewrite rm_trim_sp_cons, Ht. reflexivity.
  - (* ":: " t *)
    apply alt_l. unfold pmap, preceded, bind. cbn [app].
    pose proof (literal_app [58; 58] (32 :: t ++ 10 :: k)) as L. cbn [app] in L. rw L.
    pose proof (till_line_ending_ok (32 :: t) (10 :: k) k (Hn : text (32 :: t)) (ends_lf k)) as T.
    cbn [app] in T. rw T.
    unfold ret. rewrite rm_trim_sp_cons, Ht. reflexivity.
Qed.

(* ---- the two earlier alternatives fail, without cut, on a text that is not tags_like /
        kv_like (followed by the line feed) ---- *)
Lemma metadata_tags_fail : forall fuel s k, tags_like s = false ->
  exists l r, metadata_tags fuel (s ++ 10 :: k) = PErr false l r.
Proof.
  intros fuel s k H. unfold metadata_tags, delimited, many1, terminated.
  destruct s as [| c s1].
  - do 2 eexists. apply pmap_err. apply bind_err. apply chr_fail. reflexivity.
  - destruct (N.eqb_spec 58 c) as [<- | Hc].
    + cbn [tags_like] in H.
      destruct (span_while_split nts s1) as (w & r & E & -> & Hw & Hr). rewrite E in H.
      unfold pmap, bind. cbn [app]. rw chr_ok. rewrite <- app_assoc.
      destruct w as [| n w]; do 2 eexists.
      * assert (F : starts_not nts (r ++ 10 :: k)) by (apply rm_starts_not_app; [exact Hr | reflexivity]).
        cbn [app]. rw (rm_tag_key_fail _ F). reflexivity.
      * cbn [is_empty negb andb] in H.
        assert (F : starts_not nts (r ++ 10 :: k)) by (apply rm_starts_not_app; [exact Hr | reflexivity]).
        rw (rm_tag_key_ok (n :: w) (r ++ 10 :: k) ltac:(discriminate) Hw F).
        assert (G : starts_not (N.eqb 58) (r ++ 10 :: k)) by (apply rm_starts_false_app; [exact H | reflexivity]).
        rw (chr_fail 58 _ G). reflexivity.
    + do 2 eexists. apply pmap_err. apply bind_err. apply chr_fail.
      change ((58 =? c) = false). apply N.eqb_neq. exact Hc.
Qed.

Lemma metadata_kv_fail : forall s k, kv_like s = false ->
  exists l r, metadata_kv (s ++ 10 :: k) = PErr false l r.
Proof.
  intros s k H. unfold kv_like in H.
  destruct (span_while_split nts s) as (w & r & E & -> & Hw & Hr). rewrite E in H.
  assert (F : starts_not nts (r ++ 10 :: k)) by (apply rm_starts_not_app; [exact Hr | reflexivity]).
  unfold metadata_kv, terminated, bind. rewrite <- app_assoc.
  destruct w as [| n w]; do 2 eexists.
  - cbn [app]. rw (rm_tag_key_fail _ F). reflexivity.
  - cbn [is_empty negb andb] in H.
    rw (rm_tag_key_ok (n :: w) (r ++ 10 :: k) ltac:(discriminate) Hw F).
    destruct (space0_skip (r ++ 10 :: k)) as [s0 E0]. rw E0.
    assert (G : starts_not (N.eqb 58) (skip_sp (r ++ 10 :: k))).
    { unfold skip_sp in *. destruct (span_while_split is_sp r) as (a & b & Eb & -> & Ha & Hb).
      rewrite Eb in H. cbn [snd] in H. rewrite <- app_assoc.
      rewrite (span_while_all is_sp a (b ++ 10 :: k) Ha); [| apply rm_starts_not_app; [exact Hb | reflexivity]].
      cbn [snd]. apply rm_starts_false_app; [exact H | reflexivity]. }
    unfold ret. rw (metadata_value_fail _ G). reflexivity.
Qed.

(* ---- word tags: the loop ---- *)
Definition tag_colon : parser (list N) := terminated tag_key (chr 58).

Lemma tag_colon_ok : forall t x, wf_tag t = true -> tag_colon (t ++ 58 :: x) = POk t x.
Proof.
  intros t x H. destruct (rm_wf_tag_facts t H) as (Hne & Hall & _ & _).
  unfold tag_colon, terminated, bind.
  rw (rm_tag_key_ok t (58 :: x) Hne Hall ltac:(reflexivity)). rw chr_ok. reflexivity.
Qed.

Lemma tag_colon_nl : forall k, tag_colon (10 :: k) = PErr false 0 (10 :: k).
Proof. intros. reflexivity. Qed.

Lemma tags_loop : forall tags f k, forallb wf_tag tags = true ->
  (length (flat_map (fun t : list N => t ++ [58%N]) tags) <= f)%nat ->
  many0 f tag_colon (flat_map (fun t => t ++ [58]) tags ++ 10 :: k) = POk tags (10 :: k).
Proof.
  induction tags as [| t tags IH]; intros f k H Hf.
  - apply (many0_stop _ f tag_colon (10 :: k) 0 (10 :: k)). apply tag_colon_nl.
  - cbn [forallb] in H. apply andb_true_iff in H. destruct H as [Ht Hts].
    cbn [flat_map] in *. rewrite !app_length in Hf. cbn [length] in Hf.
    destruct f as [| f]; [lia |].
    rewrite <- !app_assoc. cbn [app].
    apply (many0_step _ f tag_colon _ t (flat_map (fun t0 => t0 ++ [58]) tags ++ 10 :: k)).
    + apply tag_colon_ok. exact Ht.
    + rewrite (app_length t). cbn [length]. lia.
    + apply IH; [exact Hts | lia].
Qed.

(* ---- one metadata item after "; " ---- *)
Lemma print_metadata_not_sp : forall m k, wf_metadata m = true ->
  starts_not is_sp (print_metadata m ++ 10 :: k).
Proof.
  intros [s | tags | key v] k H; cbn [wf_metadata print_metadata] in *.
  - unfold wf_line_text in H. rewrite !andb_true_iff in H. destruct H as [[[_ H] _] _].
    apply negb_true_iff in H. apply rm_starts_false_app; [exact H | reflexivity].
  - reflexivity.
  - apply andb_true_iff in H. destruct H as [H _].
    destruct (rm_wf_tag_facts key H) as (_ & _ & Hsp & _). rewrite <- app_assoc. apply Hsp.
Qed.

Lemma meta_alternatives_fmt : forall fuel m k, wf_metadata m = true ->
  (length (print_metadata m) <= fuel)%nat ->
  alt (metadata_tags fuel)
      (alt metadata_kv (pmap (fun s => MComment (trim_end s)) till_line_ending))
      (print_metadata m ++ 10 :: k) = POk m (10 :: k).
Proof.
  intros fuel [s | tags | key v] k H Hf; cbn [wf_metadata print_metadata] in *.
  - (* comment *)
    rewrite !andb_true_iff in H. destruct H as [[Hl Ht] Hk].
    apply negb_true_iff in Ht, Hk.
    unfold wf_line_text in Hl. rewrite !andb_true_iff in Hl. destruct Hl as [[Hn He] _].
    destruct (metadata_tags_fail fuel s k Ht) as (l1 & r1 & E1). rewrite (alt_r _ _ _ _ _ _ E1).
    destruct (metadata_kv_fail s k Hk) as (l2 & r2 & E2). rewrite (alt_r _ _ _ _ _ _ E2).
    rewrite (pmap_ok _ _ _ _ _ s (10 :: k) (till_line_ending_ok s (10 :: k) k Hn (ends_lf k))).
    rewrite (rm_end_trimmed_eq s He). reflexivity.
  - (* word tags *)
    apply andb_true_iff in H. destruct H as [Hne Hts].
    destruct tags as [| t tags]; [discriminate |].
    cbn [forallb] in Hts. apply andb_true_iff in Hts. destruct Hts as [Ht Hts].
    apply alt_l. unfold metadata_tags, delimited, many1.
    change (terminated tag_key (chr 58)) with tag_colon.
    unfold pmap, bind. cbn [flat_map app]. rw chr_ok. rewrite <- !app_assoc. cbn [app].
    rw (tag_colon_ok t (flat_map (fun t0 => t0 ++ [58]) tags ++ 10 :: k) Ht).
    rewrite tags_loop; [| exact Hts |].
    + cbv beta iota. unfold ret. reflexivity.
    + cbn [flat_map app length] in Hf. rewrite !app_length in Hf. cbn [length] in Hf. lia.
  - (* key: value *)
    apply andb_true_iff in H. destruct H as [Hkey Hv].
    destruct (rm_wf_tag_facts key Hkey) as (Hne & Hall & Hsp & Hcol).
    assert (E1 : metadata_tags fuel ((key ++ print_meta_value v) ++ 10 :: k)
                 = PErr false 0 ((key ++ print_meta_value v) ++ 10 :: k)).
    { unfold metadata_tags, delimited. apply pmap_err. apply bind_err. apply chr_fail.
      rewrite <- app_assoc. apply Hcol. }
    rewrite (alt_r _ _ _ _ _ _ E1). apply alt_l.
    unfold metadata_kv, terminated, bind. rewrite <- app_assoc.
    assert (F : starts_not nts (print_meta_value v ++ 10 :: k)) by (destruct v; reflexivity).
    rw (rm_tag_key_ok key _ Hne Hall F).
    assert (G : starts_not is_sp (print_meta_value v ++ 10 :: k)) by (destruct v; reflexivity).
    rw (space0_ok [] (print_meta_value v ++ 10 :: k) (all_nil _) G : space0 (print_meta_value v ++ 10 :: k) = _).
    unfold ret. rw (metadata_value_fmt v k Hv). reflexivity.
Qed.

Theorem line_metadata_fmt : forall fuel m k, wf_metadata m = true ->
  (length (print_metadata m) <= fuel)%nat ->
  line_metadata fuel ([59; 32] ++ print_metadata m ++ 10 :: k) = POk m k.
Proof.
  intros fuel m k H Hf. unfold line_metadata, delimited, bind. cbn [app]. rw chr_ok.
  destruct (space0_skip (32 :: print_metadata m ++ 10 :: k)) as [s0 E0].
  rewrite skip_sp_cons, (skip_sp_id _ (print_metadata_not_sp m k H)) in E0. rw E0.
  rw (meta_alternatives_fmt fuel m k H Hf).
  rw (line_ending_or_eof_ok (10 :: k) k (ends_lf k)). reflexivity.
Qed.

(* ---- a block of metadata lines ---- *)
Definition follow_block (k : str) : Prop := starts_not (N.eqb 59) (skip_sp k).

Definition meta_item (fuel : nat) : parser s_metadata := preceded space1 (line_metadata fuel).

Lemma meta_item_stop : forall fuel k, follow_block k -> exists l r, meta_item fuel k = PErr false l r.
Proof.
  intros fuel k H. unfold follow_block, skip_sp in H. unfold meta_item, preceded, bind.
  destruct (span_while_split is_sp k) as (a & b & E & -> & Ha & Hb). rewrite E in H. cbn [snd] in H.
  destruct a as [| c a].
  - cbn [app]. rw (take_while1_fail is_sp b Hb : space1 b = _). eauto.
  - assert (S1 : sps1 (c :: a)) by (split; [discriminate | exact Ha]).
    rw (space1_ok (c :: a) b S1 Hb).
    unfold line_metadata, delimited, bind. rw (chr_fail 59 b H). eauto.
Qed.

Lemma meta_item_ok : forall fuel m x, wf_metadata m = true -> (length (print_metadata m) <= fuel)%nat ->
  meta_item fuel (meta_line m ++ x) = POk m x.
Proof.
  intros fuel m x H Hf. unfold meta_item, preceded, bind, meta_line.
  change (([32; 32; 32; 32; 59; 32] ++ print_metadata m ++ [10]) ++ x)
    with ([32; 32; 32; 32] ++ ([59; 32] ++ (print_metadata m ++ [10]) ++ x)).
  assert (S1 : sps1 [32; 32; 32; 32]) by (split; [discriminate | reflexivity]).
  assert (S2 : starts_not is_sp ([59; 32] ++ (print_metadata m ++ [10]) ++ x)) by reflexivity.
  rw (space1_ok [32; 32; 32; 32] ([59; 32] ++ (print_metadata m ++ [10]) ++ x) S1 S2).
  rewrite <- app_assoc. cbn [app]. apply (line_metadata_fmt fuel m x H Hf).
Qed.

Lemma meta_line_length : forall m, length (meta_line m) = (7 + length (print_metadata m))%nat.
Proof. intros. unfold meta_line. rewrite !app_length. cbn [length]. lia. Qed.

Lemma block_loop : forall fuel ms f k, forallb wf_metadata ms = true -> follow_block k ->
  (forall m, In m ms -> (length (print_metadata m) <= fuel)%nat) ->
  (length (flat_map meta_line ms) <= f)%nat ->
  many0 f (meta_item fuel) (flat_map meta_line ms ++ k) = POk ms k.
Proof.
  intros fuel. induction ms as [| m ms IH]; intros f k H Hk Hfuel Hf.
  - destruct (meta_item_stop fuel k Hk) as (l & r & E). apply (many0_stop _ f _ k l r E).
  - cbn [forallb] in H. apply andb_true_iff in H. destruct H as [Hm Hms].
    cbn [flat_map] in *. rewrite app_length, meta_line_length in Hf.
    destruct f as [| f]; [lia |]. rewrite <- app_assoc.
    apply (many0_step _ f (meta_item fuel) _ m (flat_map meta_line ms ++ k)).
    + apply meta_item_ok; [exact Hm | apply Hfuel; left; reflexivity].
    + rewrite (app_length (meta_line m)), meta_line_length. lia.
    + apply IH; [exact Hms | exact Hk | intros m' Hin; apply Hfuel; right; exact Hin | lia].
Qed.

Lemma flat_map_meta_length : forall ms m, In m ms ->
  (length (print_metadata m) <= length (flat_map meta_line ms))%nat.
Proof.
  induction ms as [| a ms IH]; intros m Hin; [destruct Hin |].
  destruct Hin as [-> | Hin]; cbn [flat_map]; rewrite app_length, meta_line_length.
  - lia.
  - specialize (IH m Hin). lia.
Qed.

Theorem block_metadata_fmt : forall fuel ms k, forallb wf_metadata ms = true -> follow_block k ->
  (length (10%N :: flat_map meta_line ms ++ k) <= fuel)%nat ->
  block_metadata fuel (10 :: flat_map meta_line ms ++ k) = POk ms k.
Proof.
  intros fuel ms k H Hk Hf. unfold block_metadata. cbv beta iota.
  change (10 =? 59) with false. cbv iota.
  unfold preceded, bind.
  rw (line_ending_or_eof_ok (10 :: flat_map meta_line ms ++ k) _ (ends_lf _)).
  cbn [length] in Hf. rewrite app_length in Hf.
  apply (block_loop fuel ms fuel k H Hk).
  - intros m Hin. pose proof (flat_map_meta_length ms m Hin). lia.
  - lia.
Qed.

(* ---- companion: the first item on the same line as what precedes the block (not written
        by the printer; `separated1` branch of block_metadata) ---- *)
Lemma sep_loop_stop : forall fuel f k, follow_block k ->
  separated_loop f (line_metadata fuel) space1 k = POk [] k.
Proof.
  intros fuel f k H. unfold follow_block, skip_sp in H.
  destruct (span_while_split is_sp k) as (a & b & E & -> & Ha & Hb). rewrite E in H. cbn [snd] in H.
  assert (L : line_metadata fuel b = PErr false 0 b).
  { unfold line_metadata, delimited, bind. rw (chr_fail 59 b H). reflexivity. }
  destruct a as [| c a].
  - cbn [app]. destruct f; simpl; rewrite (take_while1_fail is_sp b Hb : space1 b = _); reflexivity.
  - assert (S1 : sps1 (c :: a)) by (split; [discriminate | exact Ha]).
    assert (C : consumed ((c :: a) ++ b) b = true).
    { apply consumed_true. rewrite app_length. cbn [length]. lia. }
    destruct f; simpl; rewrite (space1_ok (c :: a) b S1 Hb : space1 (c :: a ++ b) = _);
      cbn [app] in C; rewrite C, L; reflexivity.
Qed.

Lemma sep_loop_fmt : forall fuel ms f k, forallb wf_metadata ms = true -> follow_block k ->
  (forall m, In m ms -> (length (print_metadata m) <= fuel)%nat) ->
  (length (flat_map meta_line ms) <= f)%nat ->
  separated_loop f (line_metadata fuel) space1 (flat_map meta_line ms ++ k) = POk ms k.
Proof.
  intros fuel. induction ms as [| m ms IH]; intros f k H Hk Hfuel Hf.
  - apply sep_loop_stop. exact Hk.
  - cbn [forallb] in H. apply andb_true_iff in H. destruct H as [Hm Hms].
    cbn [flat_map] in *. rewrite app_length, meta_line_length in Hf.
    destruct f as [| f]; [lia |]. rewrite <- app_assoc. unfold meta_line at 1.
    set (rest := flat_map meta_line ms ++ k).
    change (([32; 32; 32; 32; 59; 32] ++ print_metadata m ++ [10]) ++ rest)
      with ([32; 32; 32; 32] ++ ([59; 32] ++ (print_metadata m ++ [10]) ++ rest)).
    assert (S1 : sps1 [32; 32; 32; 32]) by (split; [discriminate | reflexivity]).
    assert (S2 : starts_not is_sp ([59; 32] ++ (print_metadata m ++ [10]) ++ rest)) by reflexivity.
    cbn [separated_loop].
    rewrite (space1_ok [32; 32; 32; 32] ([59; 32] ++ (print_metadata m ++ [10]) ++ rest) S1 S2).
    rewrite consumed_true by (rewrite (app_length [32; 32; 32; 32]); cbn [length]; lia).
    rewrite <- (app_assoc (print_metadata m) [10] rest). cbn [app].
    pose proof (line_metadata_fmt fuel m rest Hm (Hfuel m (or_introl eq_refl))) as L. cbn [app] in L.
    rewrite L. unfold rest.
    rewrite IH; [reflexivity | exact Hms | exact Hk | intros m' Hin; apply Hfuel; right; exact Hin | lia].
Qed.

Theorem block_metadata_same_line_fmt : forall fuel m ms k, wf_metadata m = true ->
  forallb wf_metadata ms = true -> follow_block k ->
  (length ([59%N; 32%N] ++ print_metadata m ++ 10%N :: flat_map meta_line ms ++ k) <= fuel)%nat ->
  block_metadata fuel ([59; 32] ++ print_metadata m ++ 10 :: flat_map meta_line ms ++ k) = POk (m :: ms) k.
Proof.
  intros fuel m ms k Hm Hms Hk Hf. unfold block_metadata. cbn [app].
  change (59 =? 59) with true. cbv iota.
  cbn [app length] in Hf. rewrite app_length in Hf. cbn [length] in Hf. rewrite app_length in Hf.
  unfold separated1, bind.
  pose proof (line_metadata_fmt fuel m (flat_map meta_line ms ++ k) Hm ltac:(lia)) as L. cbn [app] in L.
  rw L. rewrite (sep_loop_fmt fuel ms fuel k Hms Hk).
  - reflexivity.
  - intros m' Hin. pose proof (flat_map_meta_length ms m' Hin). lia.
  - lia.
Qed.

(* ================================================================================== *)
(* Part 2: the parser only returns well-formed metadata                                *)
(* ================================================================================== *)

(* ---- trimming ---- *)
Lemma trim_end_cons : forall c r,
  trim_end (c :: r) = match trim_end r with
                      | [] => if is_white_space c then [] else [c]
                      | t => c :: t
                      end.
Proof. reflexivity. Qed.

Lemma trim_end_idem : forall s, trim_end (trim_end s) = trim_end s.
Proof.
  induction s as [| c s IH]; [reflexivity |]. rewrite trim_end_cons.
  destruct (trim_end s) as [| d t] eqn:E.
  - destruct (is_white_space c) eqn:W; [reflexivity |]. rewrite trim_end_cons. cbn [trim_end]. rewrite W. reflexivity.
  - rewrite trim_end_cons, IH. reflexivity.
Qed.

Lemma trim_end_prefix : forall s, exists w, s = trim_end s ++ w.
Proof.
  induction s as [| c s [w IH]]; [exists []; reflexivity |]. rewrite trim_end_cons.
  destruct (trim_end s) as [| d t] eqn:E.
  - destruct (is_white_space c); [exists (c :: s); reflexivity |]. exists w. rewrite IH. reflexivity.
  - exists w. rewrite IH. reflexivity.
Qed.

Lemma trim_end_all : forall f s, all f s -> all f (trim_end s).
Proof.
  intros f s H. destruct (trim_end_prefix s) as [w E]. rewrite E in H. apply all_app in H. tauto.
Qed.

Lemma trim_end_hd : forall c s, is_white_space c = false -> exists t, trim_end (c :: s) = c :: t.
Proof.
  intros c s W. rewrite trim_end_cons, W. destruct (trim_end s); eauto.
Qed.

Lemma trim_start_hd : forall s, trim_start s = [] \/ exists c t, trim_start s = c :: t /\ is_white_space c = false.
Proof.
  induction s as [| c s IH]; [left; reflexivity |]. cbn [trim_start].
  destruct (is_white_space c) eqn:W; [exact IH |]. right. eauto.
Qed.

Lemma trim_start_all : forall f s, all f s -> all f (trim_start s).
Proof.
  intros f. induction s as [| c s IH]; intros H; [exact H |]. cbn [trim_start].
  destruct (is_white_space c); [| exact H]. apply all_cons in H. tauto.
Qed.

Lemma trim_idem : forall s, trim (trim s) = trim s.
Proof.
  intros s. unfold trim. destruct (trim_start_hd s) as [E | (c & t & E & W)]; rewrite E; [reflexivity |].
  destruct (trim_end_hd c t W) as [t' E']. rewrite E'. cbn [trim_start]. rewrite W.
  rewrite <- E'. apply trim_end_idem.
Qed.

Lemma trim_all : forall f s, all f s -> all f (trim s).
Proof. intros. unfold trim. apply trim_end_all, trim_start_all. assumption. Qed.

Lemma trim_value_wf : forall x, all not_nl x -> no_nl (trim x) && trimmed (trim x) = true.
Proof.
  intros x H. apply andb_true_iff. split; [exact (trim_all _ _ H) |].
  unfold trimmed. apply str_eqb_eq. apply trim_idem.
Qed.

(* ---- till_line_ending ---- *)
Definition bad_cr (b : str) : bool :=
  match b with 13 :: 10 :: _ => false | 13 :: _ => true | _ => false end.

Lemma tle_eq : forall i, till_line_ending i =
  let (a, b) := span_while not_nl i in if bad_cr b then PErr false 0 b else POk a b.
Proof.
  intros i. unfold till_line_ending, bad_cr. destruct (span_while not_nl i) as [a b].
  repeat match goal with |- context [match ?x with _ => _ end] => is_var x; destruct x end; reflexivity.
Qed.

Lemma tle_inv : forall i s b, till_line_ending i = POk s b ->
  span_while not_nl i = (s, b) /\ bad_cr b = false.
Proof.
  intros i s b H. rewrite tle_eq in H. destruct (span_while not_nl i) as [a b0].
  destruct (bad_cr b0) eqn:B; [discriminate |]. inversion H; subst. auto.
Qed.

Lemma tle_intro : forall i s b, span_while not_nl i = (s, b) -> bad_cr b = false ->
  till_line_ending i = POk s b.
Proof. intros i s b E B. rewrite tle_eq, E, B. reflexivity. Qed.

Lemma tle_text : forall i s b, till_line_ending i = POk s b -> i = s ++ b /\ all not_nl s.
Proof.
  intros i s b H. apply tle_inv in H. destruct H as [E _].
  destruct (span_while_split not_nl i) as (a & b0 & E1 & E2 & Ha & _). rewrite E in E1.
  inversion E1; subst. auto.
Qed.

Lemma span_while_drop : forall f (p y s b : str), all f p -> span_while f (p ++ y) = (s, b) ->
  exists q, s = p ++ q /\ span_while f y = (q, b).
Proof.
  intros f. induction p as [| c p IH]; intros y s b Hp E.
  - exists s. auto.
  - apply all_cons in Hp. destruct Hp as [Hc Hp]. cbn [app span_while] in E. rewrite Hc in E.
    destruct (span_while f (p ++ y)) as [s' b'] eqn:E'. inversion E; subst.
    destruct (IH y s' b Hp E') as (q & -> & Eq). exists q. auto.
Qed.

Lemma tle_suffix : forall p y s b, all not_nl p -> till_line_ending (p ++ y) = POk s b ->
  exists q, till_line_ending y = POk q b.
Proof.
  intros p y s b Hp H. apply tle_inv in H. destruct H as [E B].
  destruct (span_while_drop _ p y s b Hp E) as (q & _ & Eq). exists q. apply tle_intro; assumption.
Qed.

(* ---- generic inversions ---- *)
Lemma alt_inv : forall A (p q : parser A) i v r, alt p q i = POk v r -> p i = POk v r \/ q i = POk v r.
Proof.
  intros A p q i v r H. unfold alt in H. destruct (p i) as [a r0 | [|] l r0 | w |]; try discriminate; auto.
Qed.

Lemma many0_not_err_false : forall A f (p : parser A) i l r, many0 f p i <> PErr false l r.
Proof.
  intros A. induction f as [| f IH]; intros p i l r; simpl.
  - destruct (p i) as [a r0 | [|] l0 r0 | w |]; try discriminate. destruct (consumed i r0); discriminate.
  - destruct (p i) as [a r0 | [|] l0 r0 | w |]; try discriminate. destruct (consumed i r0); [| discriminate].
    destruct (many0 f p r0) as [a1 r1 | c1 l1 r1 | w |] eqn:M; try discriminate.
    intros H. inversion H; subst. exact (IH p r0 l r M).
Qed.

Lemma many0_forall : forall A (q : A -> bool) (p : parser A),
  (forall i a r, p i = POk a r -> q a = true) ->
  forall f i l r, many0 f p i = POk l r -> forallb q l = true.
Proof.
  intros A q p Hq. induction f as [| f IH]; intros i l r; simpl.
  - destruct (p i) as [a r0 | [|] l0 r0 | w |]; try discriminate.
    + destruct (consumed i r0); discriminate.
    + intros H. inversion H; subst. reflexivity.
  - destruct (p i) as [a r0 | [|] l0 r0 | w |] eqn:E; try discriminate.
    + destruct (consumed i r0); [| discriminate].
      destruct (many0 f p r0) as [a1 r1 | c1 l1 r1 | w |] eqn:M; try discriminate.
      intros H. inversion H; subst. cbn [forallb]. rewrite (Hq _ _ _ E), (IH _ _ _ M). reflexivity.
    + intros H. inversion H; subst. reflexivity.
Qed.

Lemma separated_loop_forall : forall A B (q : A -> bool) (p : parser A) (sep : parser B),
  (forall i a r, p i = POk a r -> q a = true) ->
  forall f i l r, separated_loop f p sep i = POk l r -> forallb q l = true.
Proof.
  intros A B q p sep Hq. induction f as [| f IH]; intros i l r; simpl.
  - destruct (sep i) as [x r0 | [|] l0 r0 | w |]; try discriminate.
    + destruct (consumed i r0); [| discriminate].
      destruct (p r0) as [a r1 | [|] l1 r1 | w |]; try discriminate.
      intros H. inversion H; subst. reflexivity.
    + intros H. inversion H; subst. reflexivity.
  - destruct (sep i) as [x r0 | [|] l0 r0 | w |]; try discriminate.
    + destruct (consumed i r0); [| discriminate].
      destruct (p r0) as [a r1 | [|] l1 r1 | w |] eqn:E; try discriminate.
      * destruct (separated_loop f p sep r1) as [a2 r2 | c2 l2 r2 | w |] eqn:M; try discriminate.
        intros H. inversion H; subst. cbn [forallb]. rewrite (Hq _ _ _ E), (IH _ _ _ M). reflexivity.
      * intros H. inversion H; subst. reflexivity.
    + intros H. inversion H; subst. reflexivity.
Qed.

(* ---- tags and keys ---- *)
Lemma tag_key_inv : forall i a b, tag_key i = POk a b ->
  a <> [] /\ all nts a /\ i = a ++ b /\ starts_not nts b.
Proof.
  intros i a b H. rewrite rm_tag_key_eq in H. unfold take_while1 in H.
  destruct (span_while_split nts i) as (w & r & E & E2 & Hw & Hr). rewrite E in H.
  destruct w as [| c w]; [discriminate |]. inversion H; subst. repeat split; auto. discriminate.
Qed.

Lemma tag_key_wf : forall i a b, tag_key i = POk a b -> wf_tag a = true.
Proof.
  intros i a b H. destruct (tag_key_inv i a b H) as (Hne & Ha & _ & _).
  unfold wf_tag. apply andb_true_iff. split; [destruct a; [congruence | reflexivity] | exact Ha].
Qed.

Lemma tag_colon_wf : forall i a r, tag_colon i = POk a r -> wf_tag a = true.
Proof.
  intros i a r H. unfold tag_colon, terminated, bind, ret in H.
  destruct (tag_key i) as [a0 r0 | | |] eqn:K; try discriminate.
  destruct (chr 58 r0); try discriminate. inversion H; subst. exact (tag_key_wf _ _ _ K).
Qed.

Lemma metadata_tags_wf : forall fuel i m r, metadata_tags fuel i = POk m r -> wf_metadata m = true.
Proof.
  intros fuel i m r H. unfold metadata_tags, delimited, many1 in H.
  change (terminated tag_key (chr 58)) with tag_colon in H. unfold pmap, bind, ret in H.
  destruct (chr 58 i) as [c0 r0 | | |]; try discriminate.
  destruct (tag_colon r0) as [a r1 | | |] eqn:T; try discriminate.
  destruct (many0 fuel tag_colon r1) as [l r2 | | |] eqn:M; try discriminate.
  destruct (space0 r2); try discriminate. inversion H; subst.
  cbn [wf_metadata is_empty negb andb forallb].
  rewrite (tag_colon_wf _ _ _ T), (many0_forall _ wf_tag tag_colon tag_colon_wf _ _ _ _ M). reflexivity.
Qed.

(* ---- values ---- *)
Lemma pmap_preceded_tle_inv : forall A B (f : str -> B) (p : parser A) i v r,
  pmap f (preceded p till_line_ending) i = POk v r -> exists x, v = f x /\ all not_nl x.
Proof.
  intros A B f p i v r H. unfold pmap, preceded, bind, ret in H.
  destruct (p i) as [a r0 | | |]; try discriminate.
  destruct (till_line_ending r0) as [x r1 | | |] eqn:T; try discriminate.
  inversion H; subst. exists x. split; [reflexivity |]. apply (tle_text _ _ _ T).
Qed.

Lemma metadata_value_wf : forall i v r, metadata_value i = POk v r -> wf_meta_value v = true.
Proof.
  intros i v r H. unfold metadata_value in H.
  destruct (alt_inv _ _ _ _ _ _ H) as [H1 | H1];
    destruct (pmap_preceded_tle_inv _ _ _ _ _ _ _ H1) as (x & -> & Hx); exact (trim_value_wf x Hx).
Qed.

Lemma metadata_kv_wf : forall i m r, metadata_kv i = POk m r -> wf_metadata m = true.
Proof.
  intros i m r H. unfold metadata_kv, terminated, bind, ret in H.
  destruct (tag_key i) as [a r0 | | |] eqn:K; try discriminate.
  destruct (space0 r0) as [s1 r1 | | |]; try discriminate.
  destruct (metadata_value r1) as [v r2 | | |] eqn:V; try discriminate.
  inversion H; subst. cbn [wf_metadata].
  rewrite (tag_key_wf _ _ _ K), (metadata_value_wf _ _ _ V). reflexivity.
Qed.

(* ---- a comment is what neither earlier alternative takes ---- *)
Lemma tags_like_cons : forall c s1, tags_like (c :: s1) =
  if c =? 58 then (let (w, r) := span_while nts s1 in negb (is_empty w) && starts (N.eqb 58) r) else false.
Proof.
  intros c s1. destruct (N.eqb_spec c 58) as [-> | Hc]; [reflexivity |].
  unfold tags_like. destruct c as [| p]; [reflexivity |].
  repeat (destruct p as [p | p |]; try reflexivity; try (exfalso; apply Hc; reflexivity)).
Qed.

Lemma metadata_tags_not_fail : forall fuel t x l r, tags_like t = true ->
  metadata_tags fuel (t ++ x) <> PErr false l r.
Proof.
  intros fuel t x l r H. destruct t as [| c s1]; [discriminate |].
  rewrite tags_like_cons in H. destruct (N.eqb_spec c 58) as [-> | _]; [| discriminate].
  destruct (span_while_split nts s1) as (w & r0 & E & -> & Hw & Hr). rewrite E in H.
  apply andb_true_iff in H. destruct H as [Hne Hc].
  destruct r0 as [| d r1]; [discriminate |]. cbn [starts] in Hc. apply N.eqb_eq in Hc. subst d.
  unfold metadata_tags, delimited, many1. change (terminated tag_key (chr 58)) with tag_colon.
  unfold pmap, bind, ret. cbn [app]. rw chr_ok. rewrite <- app_assoc. cbn [app].
  assert (T : tag_colon (w ++ 58 :: r1 ++ x) = POk w (r1 ++ x)).
  { apply tag_colon_ok. unfold wf_tag. rewrite Hne. exact Hw. }
  rw T. destruct (many0 fuel tag_colon (r1 ++ x)) as [l1 r2 | [|] l1 r2 | w1 |] eqn:M; try discriminate.
  - destruct (space0_skip r2) as [s0 E0]. rw E0. discriminate.
  - exfalso. exact (many0_not_err_false _ _ _ _ _ _ M).
Qed.

Lemma metadata_value_colon : forall z q b, till_line_ending z = POk q b ->
  exists v r, metadata_value (58 :: z) = POk v r.
Proof.
  intros z q b H. unfold metadata_value, alt, pmap, preceded, bind, ret.
  destruct z as [| c z']; [do 2 eexists; reflexivity |].
  destruct (N.eqb_spec 58 c) as [<- | Hc].
  - rw (literal_app [58; 58] z' : literal [58; 58] (58 :: 58 :: z') = _).
    destruct (tle_suffix [58] z' q b ltac:(reflexivity) H) as [q' T]. rw T. eauto.
  - assert (L : literal [58; 58] (58 :: c :: z') = PErr false 0 (58 :: c :: z')).
    { unfold literal. cbn [strip_prefix]. rewrite N.eqb_refl. apply N.eqb_neq in Hc. rewrite Hc. reflexivity. }
    rw L. rw chr_ok. rw H. eauto.
Qed.

Lemma metadata_kv_not_fail : forall t x s b, kv_like t = true ->
  till_line_ending (t ++ x) = POk s b -> exists m r, metadata_kv (t ++ x) = POk m r.
Proof.
  intros t x s b H T. unfold kv_like in H.
  destruct (span_while_split nts t) as (w & r0 & E & -> & Hw & Hr). rewrite E in H.
  apply andb_true_iff in H. destruct H as [Hne Hc].
  assert (Hw0 : w <> []) by (destruct w; [discriminate | discriminate]).
  unfold skip_sp in Hc. destruct (span_while_split is_sp r0) as (a & b0 & Eb & -> & Ha & Hb).
  rewrite Eb in Hc. cbn [snd] in Hc.
  destruct b0 as [| d b1]; [discriminate |]. cbn [starts] in Hc. apply N.eqb_eq in Hc. subst d.
  assert (Hne0 : a ++ 58 :: b1 <> []) by (destruct a; discriminate).
  assert (F : starts_not nts ((a ++ 58 :: b1) ++ x)) by (apply starts_not_app_l; assumption).
  unfold metadata_kv, terminated, bind. rewrite <- app_assoc.
  rw (rm_tag_key_ok w ((a ++ 58 :: b1) ++ x) Hw0 Hw F).
  rewrite <- app_assoc. cbn [app].
  rw (space0_ok a (58 :: b1 ++ x) Ha ltac:(reflexivity)). unfold ret.
  assert (T' : till_line_ending ((w ++ a ++ [58]) ++ b1 ++ x) = POk s b).
  { rewrite <- T. f_equal. rewrite <- !app_assoc. reflexivity. }
  assert (P : all not_nl (w ++ a ++ [58])).
  { apply all_app. split; [apply (all_impl nts); [exact rm_nts_not_nl | exact Hw] |].
    apply all_app. split; [| reflexivity].
    apply (all_impl is_sp); [| exact Ha]. intros c Hc. rewrite (sp_not_nl c Hc). reflexivity. }
  destruct (tle_suffix _ _ _ _ P T') as [q Tq].
  destruct (metadata_value_colon _ _ _ Tq) as (v & r & V). rw V. eauto.
Qed.

Lemma comment_wf : forall fuel i s b l1 r1 l2 r2, starts_not is_sp i ->
  metadata_tags fuel i = PErr false l1 r1 -> metadata_kv i = PErr false l2 r2 ->
  till_line_ending i = POk s b -> wf_metadata (MComment (trim_end s)) = true.
Proof.
  intros fuel i s b l1 r1 l2 r2 Hsp Ht Hk T.
  destruct (tle_text _ _ _ T) as [Ei Hs]. destruct (trim_end_prefix s) as [w Ew].
  assert (Ei' : i = trim_end s ++ (w ++ b)) by (rewrite app_assoc, <- Ew; exact Ei).
  cbn [wf_metadata]. unfold wf_line_text. rewrite !andb_true_iff. repeat split.
  - exact (trim_end_all _ _ Hs).
  - unfold end_trimmed. apply str_eqb_eq. apply trim_end_idem.
  - apply negb_true_iff. destruct (trim_end s) as [| c t]; [reflexivity |].
    rewrite Ei' in Hsp. exact Hsp.
  - apply negb_true_iff. destruct (tags_like (trim_end s)) eqn:L; [| reflexivity].
    exfalso. rewrite Ei' in Ht. exact (metadata_tags_not_fail _ _ _ _ _ L Ht).
  - apply negb_true_iff. destruct (kv_like (trim_end s)) eqn:L; [| reflexivity].
    exfalso. rewrite Ei' in Hk, T. destruct (metadata_kv_not_fail _ _ _ _ L T) as (m & r & K).
    rewrite K in Hk. discriminate.
Qed.

Theorem line_metadata_wf : forall fuel i m r, line_metadata fuel i = POk m r -> wf_metadata m = true.
Proof.
  intros fuel i m r H. unfold line_metadata, delimited, bind in H.
  destruct (chr 59 i) as [c0 r0 | | |]; try discriminate.
  destruct (space0_skip r0) as [s0 E0]. rewrite E0 in H.
  pose proof (skip_sp_starts_not r0) as Hsp. set (i1 := skip_sp r0) in *.
  destruct (alt (metadata_tags fuel) (alt metadata_kv (pmap (fun s => MComment (trim_end s)) till_line_ending)) i1)
    as [m1 r1 | | |] eqn:A; try discriminate.
  destruct (line_ending_or_eof r1); try discriminate. unfold ret in H. inversion H; subst m1 r.
  unfold alt in A.
  destruct (metadata_tags fuel i1) as [m2 r2 | [|] l2 r2 | w |] eqn:Tg; try discriminate.
  - inversion A; subst. exact (metadata_tags_wf _ _ _ _ Tg).
  - destruct (metadata_kv i1) as [m3 r3 | [|] l3 r3 | w |] eqn:Kv; try discriminate.
    + inversion A; subst. exact (metadata_kv_wf _ _ _ Kv).
    + unfold pmap, bind, ret in A.
      destruct (till_line_ending i1) as [s b | | |] eqn:T; try discriminate.
      inversion A; subst. exact (comment_wf _ _ _ _ _ _ _ _ Hsp Tg Kv T).
Qed.

Theorem block_metadata_wf : forall fuel i ms r, block_metadata fuel i = POk ms r -> forallb wf_metadata ms = true.
Proof.
  intros fuel i ms r H. unfold block_metadata in H.
  destruct (match i with c :: _ => c =? 59 | [] => false end).
  - unfold separated1, bind, ret in H.
    destruct (line_metadata fuel i) as [a r0 | | |] eqn:L; try discriminate.
    destruct (separated_loop fuel (line_metadata fuel) space1 r0) as [l r1 | | |] eqn:S; try discriminate.
    inversion H; subst. cbn [forallb]. rewrite (line_metadata_wf _ _ _ _ L).
    rewrite (separated_loop_forall _ _ wf_metadata _ _ (line_metadata_wf fuel) _ _ _ _ S). reflexivity.
  - unfold preceded, bind in H. destruct (line_ending_or_eof i) as [u r0 | | |]; try discriminate.
    refine (many0_forall _ wf_metadata _ _ _ _ _ _ H).
    intros i0 a r1 H1. destruct (space1 i0) as [s1 r2 | | |]; try discriminate.
    exact (line_metadata_wf _ _ _ _ H1).
Qed.

Print Assumptions block_metadata_fmt.
Print Assumptions block_metadata_same_line_fmt.
Print Assumptions line_metadata_wf.
Print Assumptions block_metadata_wf.
