//! C20: the golden-file helper.  Implementation under test: okane_golden::Golden::{new, assert}
//! on a real file in a scratch directory, with UPDATE_GOLDEN set/removed around each call.
//! The harness is single-threaded, so std::env::set_var is safe here.
use crate::cli::Scratch;
use crate::coq::{self, Shards, Stats};
use crate::prng::Rng;
use crate::Opts;
use serde_json::{json, Value};
use std::ffi::OsString;
use std::os::unix::ffi::OsStringExt;
use std::path::Path;
use std::time::{Duration, SystemTime};

const VAR: &str = "UPDATE_GOLDEN";

#[derive(Clone, Debug, PartialEq, Eq, Hash)]
pub struct Case {
    pub file: Option<Vec<u8>>,
    pub env_new: Option<Vec<u8>>,
    pub env_assert: Option<Vec<u8>>,
    pub got: String,
}

/// Files that may already lie beside the golden file; which of them a case starts with is a
/// function of the case (a hash of its bytes), so a replay sees the same directory.
const NEIGHBOURS: [&str; 11] = [
    "golden.txt.actual",
    "golden.txt.new",
    "golden.txt~",
    "golden.txt.orig",
    "golden.txt.tmp",
    "golden.txt.bak",
    "golden.actual",
    ".golden.txt.swp",
    "other.txt",
    "golden.txt.d/inner.txt",
    "golden.txt.actual/inside.txt",
];

fn neighbours(c: &Case) -> Vec<(String, Vec<u8>)> {
    let mut h: u64 = 0xcbf29ce484222325;
    let mut feed = |b: &[u8]| {
        for x in b {
            h ^= *x as u64;
            h = h.wrapping_mul(0x100000001b3);
        }
        h ^= 0xff;
        h = h.wrapping_mul(0x100000001b3);
    };
    feed(c.file.as_deref().unwrap_or(b"\x00absent"));
    feed(c.env_new.as_deref().unwrap_or(b"\x00unset"));
    feed(c.env_assert.as_deref().unwrap_or(b"\x00unset"));
    feed(c.got.as_bytes());
    let mask = if (h >> 40) % 8 == 0 { 0 } else { h >> 8 };
    NEIGHBOURS
        .iter()
        .enumerate()
        .filter(|(k, n)| (mask >> k) & 1 == 1 && !(n.starts_with("golden.txt.actual/") && (mask & 1) == 1))
        .map(|(k, n)| (n.to_string(), if (mask >> (20 + k)) & 1 == 1 { c.got.as_bytes().to_vec() } else { format!("kept: {}\r\n", n).into_bytes() }))
        .collect()
}

/// every entry below `dir` except the golden file: (relative name, bytes, mtime); a directory is
/// listed with a trailing `/`
fn snapshot(dir: &Path, golden: &Path) -> Vec<(String, Vec<u8>, Option<SystemTime>)> {
    fn walk(base: &Path, d: &Path, golden: &Path, out: &mut Vec<(String, Vec<u8>, Option<SystemTime>)>) {
        let mut es: Vec<_> = match std::fs::read_dir(d) {
            Ok(rd) => rd.filter_map(|e| e.ok()).map(|e| e.path()).collect(),
            Err(_) => return,
        };
        es.sort();
        for p in es {
            if p == golden {
                continue;
            }
            let rel = p.strip_prefix(base).unwrap_or(&p).to_string_lossy().to_string();
            let mt = std::fs::symlink_metadata(&p).ok().and_then(|m| m.modified().ok());
            if p.is_dir() {
                out.push((format!("{}/", rel), Vec::new(), None));
                walk(base, &p, golden, out);
            } else {
                out.push((rel, std::fs::read(&p).unwrap_or_default(), mt));
            }
        }
    }
    let mut out = Vec::new();
    walk(dir, dir, golden, &mut out);
    out
}

type Snap = Vec<(String, Vec<u8>, Option<SystemTime>)>;

fn strip(s: &Snap) -> Vec<(String, Vec<u8>)> {
    s.iter().map(|(n, b, _)| (n.clone(), b.clone())).collect()
}

fn times_differ(a: &Snap, b: &Snap) -> bool {
    a.len() != b.len() || a.iter().zip(b.iter()).any(|(x, y)| x.0 != y.0 || x.2 != y.2)
}

#[derive(Clone, Debug, PartialEq)]
pub struct Obs {
    /// the rest of the directory: before, after Golden::new, after Golden::assert
    dir0: Vec<(String, Vec<u8>)>,
    dir1: Vec<(String, Vec<u8>)>,
    dir2: Vec<(String, Vec<u8>)>,
    dir_touched1: bool,
    dir_touched2: bool,
    new: u8,
    file1: Option<Vec<u8>>,
    touched1: bool,
    assert: u8,
    file2: Option<Vec<u8>>,
    touched2: bool,
    detail: String,
}

fn old_time() -> SystemTime {
    // 2001-09-09, a fixed instant far from "now"
    SystemTime::UNIX_EPOCH + Duration::from_secs(1_000_000_000)
}

fn set_env(v: &Option<Vec<u8>>) {
    match v {
        Some(b) => std::env::set_var(VAR, OsString::from_vec(b.clone())),
        None => std::env::remove_var(VAR),
    }
}

/// (bytes, mtime) of whatever is at the path
fn look(p: &Path) -> (Option<Vec<u8>>, Option<SystemTime>) {
    match std::fs::read(p) {
        Ok(b) => (Some(b), std::fs::metadata(p).ok().and_then(|m| m.modified().ok())),
        Err(_) => (None, None),
    }
}

fn age(p: &Path) {
    if let Ok(f) = std::fs::File::options().write(true).open(p) {
        let _ = f.set_modified(old_time());
    }
}

fn panic_text(e: &Box<dyn std::any::Any + Send>) -> String {
    if let Some(s) = e.downcast_ref::<String>() {
        s.clone()
    } else if let Some(s) = e.downcast_ref::<&str>() {
        s.to_string()
    } else {
        "?".into()
    }
}

pub fn observe(sc: &Scratch, c: &Case) -> Obs {
    // a directory of its own for every case: the golden file and what already lies beside it
    let d = sc.dir.join("case");
    let _ = std::fs::remove_dir_all(&d);
    std::fs::create_dir_all(&d).unwrap();
    let p = d.join("golden.txt");
    for (name, bytes) in neighbours(c) {
        let np = d.join(&name);
        std::fs::create_dir_all(np.parent().unwrap()).unwrap();
        std::fs::write(&np, bytes).unwrap();
        age(&np);
    }
    if let Some(b) = &c.file {
        std::fs::write(&p, b).unwrap();
        age(&p);
    }
    let snap0 = snapshot(&d, &p);
    let before = look(&p);
    set_env(&c.env_new);
    let pc = p.clone();
    let r = std::panic::catch_unwind(move || okane_golden::Golden::new(pc));
    std::env::remove_var(VAR);
    let after1 = look(&p);
    let snap1 = snapshot(&d, &p);
    let touched1 = after1.1 != before.1 || after1.0.is_some() != before.0.is_some();
    let mut o = Obs { dir0: strip(&snap0), dir1: strip(&snap1), dir2: strip(&snap1), dir_touched1: times_differ(&snap0, &snap1), dir_touched2: false, new: 0, file1: after1.0.clone(), touched1, assert: 0, file2: None, touched2: false, detail: String::new() };
    let g = match r {
        Err(e) => {
            o.new = 3;
            o.detail = panic_text(&e);
            None
        }
        Ok(Err(e)) => {
            o.new = if e.kind() == std::io::ErrorKind::NotFound { 1 } else { 2 };
            o.detail = format!("{:?}: {}", e.kind(), e);
            None
        }
        Ok(Ok(g)) => Some(g),
    };
    if let Some(g) = g {
        age(&p);
        let mid = look(&p);
        set_env(&c.env_assert);
        let got = c.got.clone();
        let r = std::panic::catch_unwind(std::panic::AssertUnwindSafe(|| g.assert(&got)));
        std::env::remove_var(VAR);
        let fin = look(&p);
        let snap2 = snapshot(&d, &p);
        o.dir2 = strip(&snap2);
        o.dir_touched2 = times_differ(&snap1, &snap2);
        o.touched2 = fin.1 != mid.1 || fin.0.is_some() != mid.0.is_some();
        o.file2 = fin.0;
        match r {
            Ok(()) => o.assert = 1,
            Err(e) => {
                let t = panic_text(&e);
                o.assert = if t.contains("comparison against golden failed") { 2 } else { 3 };
                o.detail = t.chars().take(200).collect();
            }
        }
    } else {
        o.file2 = o.file1.clone();
    }
    o
}

fn opt_bytes(b: &Option<Vec<u8>>) -> String {
    coq::opt(b.as_ref().map(|x| coq::bytes_term(x)))
}

fn dir_term(d: &[(String, Vec<u8>)]) -> String {
    coq::list(d.iter().map(|(n, b)| format!("({}, {})", coq::bytes_term(n.as_bytes()), coq::bytes_term(b))))
}

fn dir_json(d: &[(String, Vec<u8>)]) -> Value {
    Value::Array(d.iter().map(|(n, b)| json!([n, jbytes(&Some(b.clone()))])).collect())
}

fn term(c: &Case, o: &Obs) -> String {
    format!(
        "One {} {} {} {} (Obs {} {} {} {} {} {}) (DirObs {} {} {} {} {})",
        opt_bytes(&c.file),
        opt_bytes(&c.env_new),
        opt_bytes(&c.env_assert),
        coq::bytes_term(c.got.as_bytes()),
        o.new,
        opt_bytes(&o.file1),
        coq::bool_(o.touched1),
        o.assert,
        opt_bytes(&o.file2),
        coq::bool_(o.touched2),
        dir_term(&o.dir0),
        dir_term(&o.dir1),
        dir_term(&o.dir2),
        coq::bool_(o.dir_touched1),
        coq::bool_(o.dir_touched2)
    )
}

/// text when it is UTF-8, else the byte array; a long content as {"len", "rle": [[count, unit], ..]}
/// (the content is the units repeated count times, concatenated; a unit is text when it is
/// UTF-8, else a byte array)
fn jbytes(b: &Option<Vec<u8>>) -> Value {
    fn unit(v: &[u8]) -> Value {
        match std::str::from_utf8(v) {
            Ok(s) => json!(s),
            Err(_) => json!(v),
        }
    }
    match b {
        None => Value::Null,
        Some(v) if v.len() > 2048 => json!({"len": v.len(), "rle": coq::rle(v).iter().map(|(k, u)| json!([k, unit(u)])).collect::<Vec<_>>()}),
        Some(v) => unit(v),
    }
}

fn replay(c: &Case, o: &Obs) -> Value {
    let new_s = ["Ok", "Err(NotFound)", "Err(other)", "panic"][o.new as usize];
    let assert_s = ["not called", "returned", "panicked: comparison failed", "panicked: other"][o.assert as usize];
    json!({"property": "C20", "file": jbytes(&c.file), "env_new": jbytes(&c.env_new), "env_assert": jbytes(&c.env_assert),
           "got": jbytes(&Some(c.got.as_bytes().to_vec())),
           "impl": {"new": new_s, "file_after_new": jbytes(&o.file1),
                    "touched_by_new": o.touched1,
                    "assert": assert_s,
                    "file_after_assert": jbytes(&o.file2), "touched_by_assert": o.touched2, "detail": o.detail,
                    "rest_of_directory_before": dir_json(&o.dir0),
                    "rest_of_directory_after_new": if o.dir1 == o.dir0 { json!("unchanged") } else { dir_json(&o.dir1) },
                    "rest_of_directory_after_assert": if o.dir2 == o.dir0 { json!("unchanged") } else { dir_json(&o.dir2) },
                    "rest_of_directory_touched_by_new": o.dir_touched1, "rest_of_directory_touched_by_assert": o.dir_touched2},
           "reproduce": "in an empty directory write the files of rest_of_directory_before and `file` as golden.txt (or leave it absent), UPDATE_GOLDEN=env_new, Golden::new(golden.txt); UPDATE_GOLDEN=env_assert, .assert(got); list the directory"})
}

fn from_json(v: &Value) -> Option<Case> {
    fn bytes(v: Option<&Value>) -> Option<Vec<u8>> {
        match v {
            Some(Value::String(s)) => Some(s.as_bytes().to_vec()),
            Some(Value::Array(a)) => Some(a.iter().map(|x| x.as_u64().unwrap_or(0) as u8).collect()),
            Some(Value::Object(o)) => {
                let mut out = Vec::new();
                for seg in o.get("rle")?.as_array()? {
                    let k = seg.get(0)?.as_u64()?;
                    let u = bytes(seg.get(1))?;
                    for _ in 0..k {
                        out.extend_from_slice(&u);
                    }
                }
                Some(out)
            }
            _ => None,
        }
    }
    Some(Case {
        file: bytes(v.get("file")),
        env_new: bytes(v.get("env_new")),
        env_assert: bytes(v.get("env_assert")),
        got: String::from_utf8(bytes(v.get("got"))?).ok()?,
    })
}

/// Levenshtein distance on bytes (common prefix and suffix do not count and are cut first;
/// what remains is capped at 512 bytes: beyond that the texts are simply "far apart")
fn distance(a: &[u8], b: &[u8]) -> usize {
    let pre = a.iter().zip(b.iter()).take_while(|(x, y)| x == y).count();
    let (a, b) = (&a[pre..], &b[pre..]);
    let suf = a.iter().rev().zip(b.iter().rev()).take_while(|(x, y)| x == y).count();
    let (a, b) = (&a[..a.len() - suf], &b[..b.len() - suf]);
    if a.len() > 512 || b.len() > 512 {
        return a.len().max(b.len());
    }
    let mut prev: Vec<usize> = (0..=b.len()).collect();
    for i in 1..=a.len() {
        let mut cur = vec![i; b.len() + 1];
        for j in 1..=b.len() {
            let sub = prev[j - 1] + if a[i - 1] == b[j - 1] { 0 } else { 1 };
            cur[j] = sub.min(prev[j] + 1).min(cur[j - 1] + 1);
        }
        prev = cur;
    }
    prev[b.len()]
}

fn nontrivial(c: &Case) -> bool {
    let default_state = c.file.is_some() && c.env_new.is_none() && c.env_assert.is_none();
    !default_state || c.file.as_ref().map(|f| distance(f, c.got.as_bytes()) <= 2).unwrap_or(false)
}

fn emit(sh: &mut Shards, st: &mut Stats, sc: &Scratch, c: &Case, tag: &str) {
    if let Some(f) = &c.file {
        if std::str::from_utf8(f).is_err() {
            return; // outside the model: see assumptions
        }
    }
    let o = observe(sc, c);
    st.eval(c, nontrivial(c));
    st.count(&format!("source:{}", tag));
    st.count(match (&c.file, &c.env_new) {
        (Some(_), None) => "state:file present, env unset",
        (Some(_), Some(e)) if e.is_empty() => "state:file present, env empty",
        (Some(_), Some(_)) => "state:file present, env non-empty",
        (None, None) => "state:file absent, env unset",
        (None, Some(e)) if e.is_empty() => "state:file absent, env empty",
        (None, Some(_)) => "state:file absent, env non-empty",
    });
    if c.env_new != c.env_assert {
        st.count("state:env changed between new and assert");
    }
    if let Some(f) = &c.file {
        count_big(st, "file", f);
    }
    count_big(st, "got", c.got.as_bytes());
    st.count(&format!("directory:files beside the golden file before the call:{}", o.dir0.iter().filter(|(n, _)| !n.ends_with('/')).count().min(6)));
    if o.dir0.iter().any(|(n, _)| n == "golden.txt.actual") {
        st.count("directory:golden.txt.actual already there");
    }
    if o.dir0.iter().any(|(n, _)| n == "golden.txt.actual/") {
        st.count("directory:golden.txt.actual is a directory");
    }
    st.count(&format!("impl:new {}", ["ok", "err notfound", "err other", "panic"][o.new as usize]));
    st.count(&format!("impl:assert {}", ["not called", "returned", "comparison panic", "other panic"][o.assert as usize]));
    if let Some(f) = &c.file {
        let g = c.got.as_bytes();
        if f.as_slice() == g {
            st.count("shape:got = content");
        } else if String::from_utf8_lossy(f).replace("\r\n", "\n").as_bytes() == g {
            st.count("shape:got = content with CRLF->LF, differs from content");
        } else if f.iter().filter(|b| **b != b'\r').eq(g.iter().filter(|b| **b != b'\r')) {
            st.count("shape:differ only in CR bytes, not equal after CRLF->LF");
        } else if String::from_utf8_lossy(f).trim_end() == c.got.trim_end() {
            st.count("shape:differ only in trailing white space");
        } else {
            st.count("shape:other");
        }
        if !f.is_ascii() {
            st.count("shape:non-ASCII content");
        }
    }
    let want = match (tag, o.assert, st.samples.len()) {
        (_, _, n) if n < 2 => true,
        ("random", 1, n) if n < 4 => c.file.as_ref().map(|f| f.as_slice() != c.got.as_bytes()).unwrap_or(false),
        ("random", 2, n) if n < 6 => true,
        _ => false,
    };
    if want {
        st.sample(replay(c, &o), 6);
    }
    sh.push(term(c, &o), vec![replay(c, &o)]);
}

fn strings(alpha: &[u8], maxlen: usize) -> Vec<Vec<u8>> {
    let mut out: Vec<Vec<u8>> = vec![vec![]];
    let mut last: Vec<Vec<u8>> = vec![vec![]];
    for _ in 0..maxlen {
        let mut next = Vec::new();
        for s in &last {
            for a in alpha {
                let mut t = s.clone();
                t.push(*a);
                next.push(t);
            }
        }
        out.extend(next.iter().cloned());
        last = next;
    }
    out
}

const WORDS: [&str; 12] = ["a", "b", "zazen boys", "number girl", "é", "日本語", "😀", " ", "\t", "x y", "-", "ß"];
const SEPS: [&str; 7] = ["\n", "\n", "\r\n", "\r\n", "\r", "\r\r\n", "\n\r"];

fn gen_text(r: &mut Rng) -> String {
    let mut s = String::new();
    let lines = r.below(5);
    for _ in 0..lines {
        for _ in 0..r.below(3) {
            s.push_str(*r.pick(&WORDS[..]));
        }
        s.push_str(*r.pick(&SEPS[..]));
    }
    if r.chance(1, 3) {
        s.push_str(*r.pick(&WORDS[..])); // no trailing newline
    }
    s
}

fn mutate(r: &mut Rng, s: &str) -> String {
    let mut cs: Vec<char> = s.chars().collect();
    let sym = *r.pick(&['\r', '\n', 'a', ' ', 'é', '\r', '\n']);
    let k = r.below(cs.len() as u64 + 1) as usize;
    match r.below(3) {
        0 => cs.insert(k, sym),
        1 if !cs.is_empty() => {
            cs.remove(k.min(cs.len() - 1));
        }
        _ if !cs.is_empty() => {
            let j = k.min(cs.len() - 1);
            cs[j] = sym;
        }
        _ => cs.push(sym),
    }
    cs.into_iter().collect()
}

fn gen_got(r: &mut Rng, content: &str) -> String {
    let norm = content.replace("\r\n", "\n");
    let g = match r.below(12) {
        0 => content.to_string(),
        1 | 2 | 3 => norm.clone(),
        4 => norm.replace('\n', "\r\n"),
        5 => norm.trim_end().to_string(),
        6 => format!("{}\n", norm),
        7 => content.replace('\r', ""),
        8 => norm.replace("\r\n", "\n"), // normalised twice
        9 => gen_text(r),
        _ => norm.clone(),
    };
    match r.below(6) {
        0 => mutate(r, &g),
        1 => {
            let g1 = mutate(r, &g);
            mutate(r, &g1)
        }
        _ => g,
    }
}


// ---------- large files ----------
// The helper reads the golden file and writes `got` through std::fs; an implementation that
// streams either of them in blocks sees a multi-byte character or a CRLF pair cut in two at a
// block boundary.  These cases lay every kind of token across every offset around the usual
// block sizes, under every operation of the helper.

const BOUNDARIES_QUICK: [usize; 5] = [4096, 8192, 16384, 32768, 65536];
const BOUNDARIES_ALL: [usize; 10] = [4096, 8192, 12288, 16384, 24576, 32768, 65536, 73728, 131072, 196608];
/// what is laid across the offset
const TOKENS: [(&str, &str); 10] = [
    ("é", "2-byte character"),
    ("日", "3-byte character"),
    ("😀", "4-byte character"),
    ("\r\n", "CRLF"),
    ("\r\r\n", "CR CRLF"),
    ("\r", "lone CR"),
    ("\u{feff}", "U+FEFF"),
    ("e\u{301}", "letter + combining mark"),
    ("ß\r\n", "2-byte character + CRLF"),
    ("\r\n\r\n", "two CRLF"),
];
/// what the rest of the file is made of (the unit is repeated)
const FILLERS: [&str; 6] = ["0123456789abcde\n", "a", "zazen boys\r\n", "日本語\n", "é", "😀\r\n"];

fn normalise(s: &str) -> String {
    s.replace("\r\n", "\n")
}

/// exactly `len` bytes: `p` bytes first, so that the text ends with whole units
fn fill_to(unit: &str, len: usize) -> String {
    let mut o = "p".repeat(len % unit.len());
    o.push_str(&unit.repeat(len / unit.len()));
    o
}

struct Big {
    prefix: String,
    token: &'static str,
    tail: String,
}

impl Big {
    fn content(&self) -> String {
        format!("{}{}{}", self.prefix, self.token, self.tail)
    }
    /// the normalised content with something else in the token's place
    fn other(&self, repl: &str) -> String {
        format!("{}{}{}", normalise(&self.prefix), repl, normalise(&self.tail))
    }
}

/// (case, name of the operation) for operation `op` on the large content
fn big_case(b: &Big, op: usize) -> (Case, &'static str) {
    let content = b.content();
    let norm = normalise(&content);
    let one = Some(b"1".to_vec());
    let file = Some(content.clone().into_bytes());
    let mk = |file: Option<Vec<u8>>, e1: Option<Vec<u8>>, e2: Option<Vec<u8>>, got: String| Case { file, env_new: e1, env_assert: e2, got };
    match op % 12 {
        0 => (mk(file, None, None, norm), "assert: got = content normalised"),
        1 => (mk(file, None, None, content), "assert: got = content as it is"),
        2 => (mk(file, None, None, b.other("X")), "assert: got differs from the content only in the token at the offset"),
        3 => (mk(file, None, None, normalise(&b.prefix)), "assert: got = content cut at the offset"),
        4 => (mk(Some(b"old\n".to_vec()), one.clone(), one, content), "update: small file, large got"),
        5 => (mk(None, one.clone(), one, content), "update: file absent, large got"),
        6 => (mk(file, one, None, norm), "new with UPDATE_GOLDEN set, assert without: got = content normalised"),
        7 => (mk(file, None, one, b.other("Y\r\n")), "new without UPDATE_GOLDEN, assert with it: large file replaced by another large got"),
        8 => (mk(file, Some(vec![]), Some(vec![]), norm), "assert with UPDATE_GOLDEN empty: got = content normalised"),
        9 => (mk(None, None, None, norm), "new: file absent, large got"),
        10 => (mk(file, None, None, format!("{}{}", norm, "\n")), "assert: got = content normalised + LF"),
        _ => (mk(file, one.clone(), one, b.other("Z")), "update: large file replaced by a got that differs at the offset"),
    }
}

/// does a multi-byte character / a CRLF pair lie across a multiple of `block`?
fn straddles(b: &[u8], block: usize) -> (bool, bool) {
    let (mut ch, mut crlf) = (false, false);
    let mut k = block;
    while k < b.len() {
        if b[k] & 0xC0 == 0x80 {
            ch = true;
        }
        if b[k - 1] == b'\r' && b[k] == b'\n' {
            crlf = true;
        }
        k += block;
    }
    (ch, crlf)
}

fn count_big(st: &mut Stats, what: &str, b: &[u8]) {
    if b.len() < 4096 {
        return;
    }
    st.count(&format!("big:{} of {} KiB or more", what, if b.len() >= 65536 { 64 } else if b.len() >= 8192 { 8 } else { 4 }));
    for block in [4096usize, 8192, 65536] {
        let (ch, crlf) = straddles(b, block);
        if ch {
            st.count(&format!("big:{} with a multi-byte character across a multiple of {}", what, block));
        }
        if crlf {
            st.count(&format!("big:{} with a CRLF pair across a multiple of {}", what, block));
        }
    }
}

/// every token at every offset around every boundary, fillers, tails and operations in rotation
fn big_boundary_cases(sh: &mut Shards, st: &mut Stats, sc: &Scratch, thorough: bool) {
    let bounds: &[usize] = if thorough { &BOUNDARIES_ALL } else { &BOUNDARIES_QUICK };
    let mut idx = 0usize;
    for (bi, bd) in bounds.iter().enumerate() {
        for (ti, (tok, tname)) in TOKENS.iter().enumerate() {
            // the token starts j bytes before the boundary: j = 0 (it begins exactly there) ..
            // its length (it ends exactly there), and one byte beyond on either side
            for j in 0..=tok.len() + 1 {
                let start = bd + 1 - j; // j = 0: one byte after the boundary
                let fillers: Vec<&str> = if thorough { vec![FILLERS[idx % 6], FILLERS[(idx + 3) % 6]] } else { vec![FILLERS[idx % 6]] };
                for unit in fillers {
                    let tail_units = [0usize, 1, 9, 8192 / unit.len() + 3][(idx / 2) % 4];
                    let big = Big { prefix: fill_to(unit, start), token: tok, tail: unit.repeat(tail_units) };
                    let ops: Vec<usize> = if thorough { vec![idx % 4, 4 + idx % 8, (idx + 2) % 4, 4 + (idx + 3) % 8] } else { vec![idx % 4, 4 + idx % 8] };
                    for op in ops {
                        let (c, opname) = big_case(&big, op);
                        st.count(&format!("big:boundary {}", bd));
                        st.count(&format!("big:token {}", tname));
                        st.count(&format!("big:token starts {} byte(s) {} the boundary", if j == 0 { 1 } else { j - 1 }, if j == 0 { "after" } else { "before" }));
                        st.count(&format!("big:operation {}", opname));
                        emit(sh, st, sc, &c, "large-boundary");
                    }
                    idx += 1;
                }
            }
            let _ = (bi, ti);
        }
    }
}

const UNITS: [&str; 14] = ["0123456789abcde\n", "zazen boys\r\n", "日本語\n", "é", "😀", "ß\r\n", "a", "\r\n", "\n", "\r", "\r\r\n", "x y\t", "日", "number girl\n"];

/// a large text of a few runs of one unit each, with tokens laid around multiples of 4096 / 8192
fn gen_big_text(r: &mut Rng) -> (String, Vec<(usize, usize)>) {
    let mut s = String::new();
    let mut marks: Vec<(usize, usize)> = Vec::new(); // (start, length) of the tokens
    let runs = 1 + r.below(3);
    for _ in 0..runs {
        let step = *r.pick(&[4096usize, 8192, 8192, 65536]);
        let next = (s.len() / step + 1 + r.below(2) as usize) * step;
        if next > 200_000 {
            break;
        }
        let (tok, _) = *r.pick(&TOKENS);
        let j = r.below(tok.len() as u64 + 2) as usize;
        let start = next + 1 - j;
        let unit = *r.pick(&UNITS);
        if start < s.len() {
            continue;
        }
        // a run ending in CR followed by a token starting with LF cannot occur: no token starts with LF
        s.push_str(&fill_to(unit, start - s.len()));
        marks.push((s.len(), tok.len()));
        s.push_str(tok);
    }
    let unit = *r.pick(&UNITS);
    s.push_str(&unit.repeat(r.below(40) as usize));
    (s, marks)
}

fn gen_big_case(r: &mut Rng) -> Case {
    let (content, marks) = gen_big_text(r);
    let norm = normalise(&content);
    let got = match r.below(10) {
        0 => content.clone(),
        1..=3 => norm.clone(),
        4 | 5 => {
            // another character in the place of one token
            let (at, len) = *r.pick(&marks);
            format!("{}{}{}", &content[..at], r.pick(&["X", "é", "\n", ""]), &content[at + len..]).replace("\r\n", "\n")
        }
        6 => {
            // an edit far from the tokens
            let mut k = r.below(norm.len() as u64 + 1) as usize;
            while !norm.is_char_boundary(k) {
                k -= 1;
            }
            format!("{}{}{}", &norm[..k], r.pick(&["a", "\r", "\n", "é"]), &norm[k..])
        }
        7 => norm.trim_end().to_string(),
        8 => gen_big_text(r).0,
        _ => gen_text(r),
    };
    let env_new = gen_env(r);
    let env_assert = if r.chance(4, 5) { env_new.clone() } else { gen_env(r) };
    let file = match r.below(8) {
        0 => None,
        1 => Some(gen_text(r).into_bytes()),
        _ => Some(content.into_bytes()),
    };
    Case { file, env_new, env_assert, got }
}

fn gen_env(r: &mut Rng) -> Option<Vec<u8>> {
    match r.below(20) {
        0..=9 => None,
        10..=12 => Some(vec![]),
        13..=16 => Some(b"1".to_vec()),
        17 => Some(vec![0xff]),
        _ => Some(r.pick(&["0", "false", " ", "é", "\n", "yes", "\u{3000}"]).as_bytes().to_vec()),
    }
}

fn gen_case(r: &mut Rng) -> Case {
    let content = gen_text(r);
    let got = gen_got(r, &content);
    let env_new = gen_env(r);
    let env_assert = if r.chance(9, 10) { env_new.clone() } else { gen_env(r) };
    let file = if r.chance(1, 7) { None } else { Some(content.into_bytes()) };
    Case { file, env_new, env_assert, got }
}

pub fn run(o: &Opts) {
    let mut st = Stats::new();
    let mut sh = Shards::new(
        &o.out,
        o.shards,
        "From Coq Require Import List NArith.\nFrom Okv Require Import Run.Classify_C20.\nImport ListNotations.\nOpen Scope N_scope.",
    );
    st.rule = "a case = (golden file bytes or absent, UPDATE_GOLDEN at Golden::new, UPDATE_GOLDEN at Golden::assert, got); exhaustive content x got over {a, CR, LF} up to a bounded length with the file present and the variable unset, the same strings under every env/file state for short lengths, seeded random multi-line texts (LF, CRLF, lone CR, CRCRLF, LFCR separators; non-ASCII words; got derived from the content by normalising, re-adding CRLF, trimming, appending a newline, stripping CR, 0-2 character edits), large files and large got strings (4 KiB to 200 KiB, made of runs of one repeated unit: ASCII lines, CRLF lines, 2-, 3- and 4-byte characters) in which a 2-, 3- or 4-byte character, U+FEFF, a letter with a combining mark, CRLF, CR CRLF, two CRLF or a lone CR starts at every byte offset from one past its own length before to one byte after a multiple of 4096 / 8192 / 65536 (4096, 8192, 16384, 32768, 65536; the thorough tier adds 12288, 24576, 73728, 131072, 196608), with nothing, one unit, nine units or more than 8 KiB after it, under twelve operations in rotation (assert with got = the content normalised / as it is / differing only in the token at the offset / cut at the offset / plus a line feed; UPDATE_GOLDEN non-empty with a small file, an absent file, or a large file replaced by a got differing at the offset; set only at new or only at assert; empty; file absent), plus seeded random large texts of 1-3 such runs with got derived as above or by replacing one token / editing far from the tokens (long texts are written to the case files in a lossless run-length form computed from the bytes themselves and expanded inside Coq), + corpus; run on the real okane_golden::Golden against golden.txt in a scratch directory made for the case, in which up to eleven other entries already lie (golden.txt.actual, .new, ~, .orig, .tmp, .bak, golden.actual, .golden.txt.swp, other.txt, golden.txt.d/inner.txt, golden.txt.actual/ as a directory; which ones, and whether one holds the got string, is a function of the case; one case in eight starts with an empty directory): the whole directory (names, bytes, modification times, recursively) is listed before Golden::new, after it and after Golden::assert, and everything but golden.txt must be as it was, under every value of UPDATE_GOLDEN; non-trivial = content and got at byte edit distance <= 2, or the file is absent, or UPDATE_GOLDEN is set (empty or not) at either call; distinct by the whole case".into();
    st.assumptions.push("golden file content is valid UTF-8 (read_to_string's InvalidData error is outside the model); the directory of the golden file exists and is writable (the expect(\"Update golden failed\") panic is outside the model)".into());
    let sc = Scratch::new("c20");
    // corpus and replay
    let mut files: Vec<std::path::PathBuf> = Vec::new();
    let replay_only = if let Some(i) = o.extra.iter().position(|a| a == "--replay") {
        files.push(o.extra[i + 1].clone().into());
        true
    } else {
        if let Ok(rd) = std::fs::read_dir(&o.corpus) {
            files = rd.filter_map(|e| e.ok()).map(|e| e.path()).collect();
            files.sort();
        }
        false
    };
    for p in files {
        if let Ok(text) = std::fs::read_to_string(&p) {
            if let Ok(v) = serde_json::from_str::<Value>(&text) {
                if let Some(c) = from_json(&v) {
                    emit(&mut sh, &mut st, &sc, &c, "corpus");
                }
            }
        }
    }
    if replay_only {
        sh.finish(&st);
        return;
    }
    // built-in boundary cases
    let envs: [Option<Vec<u8>>; 5] = [None, Some(vec![]), Some(b"1".to_vec()), Some(b"0".to_vec()), Some(vec![0xff])];
    for (content, got) in [
        ("zazen boys\n", "zazen boys\n"),
        ("zazen boys\r\n", "zazen boys\n"),
        ("zazen boys\r\n", "zazen boys\r\n"),
        ("zazen boys\n", "zazen boys"),
        ("zazen boys", "zazen boys\n"),
        ("zazen boys\n", "number girl"),
        ("a\rb", "a\rb"),
        ("a\rb", "a\nb"),
        ("a\r\r\nb", "a\r\nb"),
        ("a\r\r\nb", "a\nb"),
        ("a\r\r\nb", "a\r\r\nb"),
        ("", ""),
        ("", "\n"),
        ("\r\n", "\n"),
        ("\r\n", ""),
        ("日本語\r\né\r\n", "日本語\né\n"),
        ("日本語\r\né\r\n", "日本語\ne\n"),
        ("\u{feff}a\n", "a\n"),
        ("a \n", "a\n"),
    ] {
        for e1 in &envs {
            for e2 in &envs {
                for present in [true, false] {
                    let c = Case {
                        file: if present { Some(content.as_bytes().to_vec()) } else { None },
                        env_new: e1.clone(),
                        env_assert: e2.clone(),
                        got: got.to_string(),
                    };
                    emit(&mut sh, &mut st, &sc, &c, "boundary");
                }
            }
        }
    }
    // exhaustive over {a, CR, LF}
    let alpha = [b'a', b'\r', b'\n'];
    let n_main = if o.thorough { 4 } else { 3 };
    let all = strings(&alpha, n_main);
    for c in &all {
        for g in &all {
            let case = Case { file: Some(c.clone()), env_new: None, env_assert: None, got: String::from_utf8(g.clone()).unwrap() };
            emit(&mut sh, &mut st, &sc, &case, "exhaustive");
        }
    }
    st.count(&format!("exhaustive:content x got over {{a,CR,LF}} up to length {} (file present, env unset)", n_main));
    let n_env = if o.thorough { 3 } else { 2 };
    let small = strings(&alpha, n_env);
    for c in &small {
        for g in &small {
            for e in &envs[1..4] {
                for present in [true, false] {
                    let case = Case {
                        file: if present { Some(c.clone()) } else { None },
                        env_new: e.clone(),
                        env_assert: e.clone(),
                        got: String::from_utf8(g.clone()).unwrap(),
                    };
                    emit(&mut sh, &mut st, &sc, &case, "exhaustive-env");
                }
            }
            let case = Case { file: None, env_new: None, env_assert: None, got: String::from_utf8(g.clone()).unwrap() };
            emit(&mut sh, &mut st, &sc, &case, "exhaustive-env");
        }
    }
    // large files: tokens across block boundaries under every operation
    big_boundary_cases(&mut sh, &mut st, &sc, o.thorough);
    let mut rb = Rng::new(o.seed, 2021);
    for _ in 0..if o.thorough { 1500 } else { 200 } {
        let c = gen_big_case(&mut rb);
        emit(&mut sh, &mut st, &sc, &c, "large-random");
    }
    // random
    let mut r = Rng::new(o.seed, 2020);
    let n = if o.thorough { 20000 } else { 1500 };
    for _ in 0..n {
        let c = gen_case(&mut r);
        emit(&mut sh, &mut st, &sc, &c, "random");
    }
    sh.finish(&st);
}
