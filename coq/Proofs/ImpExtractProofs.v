(* Lemmas about Model/ImpExtract.v: the fold over the rules in terms of the rules that hit
   (Model/ImpExtractSpec.v), OR/AND matchers, and what the importers do with the fragment. *)
From Coq Require Import List NArith ZArith Bool Lia.
From Okv Require Import Model.ImpConfig Model.ImpConfigSpec Model.ImpExtract Model.ImpExtractSpec
     Model.ImpSingleEntry Proofs.ImpConfigProofs.
Import ListNotations.

Lemma option_or_assoc {A} (a b c : option A) : option_or (option_or a b) c = option_or a (option_or b c).
Proof. destruct a; reflexivity. Qed.
Lemma option_or_none_r {A} (a : option A) : option_or a None = a.
Proof. destruct a; reflexivity. Qed.

Lemma last_some_none_iff {A} (l : list (option A)) :
  last_some l = None <-> forall x, In x l -> x = None.
Proof.
  split; [|apply last_some_all_none].
  induction l as [|y l IH]; intros H x Hx; [destruct Hx|].
  rewrite last_some_cons in H. destruct (last_some l) eqn:E; [discriminate|]. cbn in H. subst y.
  destruct Hx as [<-|Hx]; [reflexivity|]. apply IH; auto.
Qed.

Section Proofs.
  Context {P R : Type}.
  Variable matches : rewrite_field * P -> R -> frag -> option captures.
  Notation and_extract := (and_extract matches).
  Notation or_extract := (or_extract matches).
  Notation extract_from := (extract_from matches).
  Notation extract := (extract matches).
  Notation hits := (hits matches).
  Notation step := (step matches).

  (* ---- rules are applied in list order ---- *)
  Lemma extract_from_app : forall rs1 rs2 f e,
    extract_from f (rs1 ++ rs2) e = extract_from (extract_from f rs1 e) rs2 e.
  Proof. intros. unfold ImpExtract.extract_from. apply fold_left_app. Qed.

  Lemma extract_snoc : forall rs r e, extract (rs ++ [r]) e = step e (extract rs e) r.
  Proof. intros. unfold ImpExtract.extract. rewrite extract_from_app. reflexivity. Qed.

  (* ---- what a matcher leaves untouched ---- *)
  Lemma and_extract_keeps : forall ms cur e f,
    and_extract ms cur e = Some f ->
    g_cleared f = g_cleared cur /\ g_account f = g_account cur /\ g_conversion f = g_conversion cur.
  Proof.
    induction ms as [|m r IH]; intros cur e f H; cbn in H.
    - injection H as <-. auto.
    - destruct (matches m e cur) as [c|]; [|discriminate]. apply IH in H. cbn in H. exact H.
  Qed.

  Lemma or_extract_keeps : forall os cur e f,
    or_extract os cur e = Some f ->
    g_cleared f = g_cleared cur /\ g_account f = g_account cur /\ g_conversion f = g_conversion cur.
  Proof.
    induction os as [|a r IH]; intros cur e f H; cbn in H; [discriminate|].
    destruct (and_extract a cur e) eqn:E; [injection H as <-; eapply and_extract_keeps; eauto|eauto].
  Qed.

  (* the payee (code) a matcher produces is a capture or the one it was given *)
  Lemma and_extract_payee_mono : forall ms cur e f,
    and_extract ms cur e = Some f -> g_payee f = None -> g_payee cur = None.
  Proof.
    induction ms as [|m r IH]; intros cur e f H Hn; cbn in H.
    - injection H as <-. exact Hn.
    - destruct (matches m e cur) as [c|]; [|discriminate]. apply IH in H; [|exact Hn]. cbn in H.
      destruct (m_payee c); [discriminate|exact H].
  Qed.

  (* ---- OR: the first element that matches ---- *)
  Lemma or_extract_some : forall os cur e f,
    or_extract os cur e = Some f <->
    exists os1 a os2, os = os1 ++ a :: os2 /\ (forall b, In b os1 -> and_extract b cur e = None)
                      /\ and_extract a cur e = Some f.
  Proof.
    induction os as [|a r IH]; intros cur e f; cbn.
    - split; [discriminate|]. intros (os1 & a & os2 & H & _). destruct os1; discriminate.
    - destruct (and_extract a cur e) as [g|] eqn:E.
      + split.
        * intros H. injection H as <-. exists [], a, r. repeat split; auto. intros b [].
        * intros (os1 & b & os2 & H & Hn & Hb). destruct os1 as [|x os1]; cbn in H; injection H as Hx Hr; subst.
          -- congruence.
          -- rewrite (Hn x (or_introl eq_refl)) in E. discriminate.
      + rewrite IH. split.
        * intros (os1 & b & os2 & -> & Hn & Hb). exists (a :: os1), b, os2. repeat split; auto.
          intros x [<-|Hx]; auto.
        * intros (os1 & b & os2 & H & Hn & Hb). destruct os1 as [|x os1]; cbn in H; injection H as Hx Hr; subst.
          -- congruence.
          -- exists os1, b, os2. repeat split; auto. intros y Hy. apply Hn. right. exact Hy.
  Qed.

  Lemma or_extract_none : forall os cur e,
    or_extract os cur e = None <-> forall a, In a os -> and_extract a cur e = None.
  Proof.
    induction os as [|a r IH]; intros cur e; cbn.
    - split; auto. intros _ a [].
    - destruct (and_extract a cur e) eqn:E.
      + split; [discriminate|]. intros H. rewrite (H a (or_introl eq_refl)) in E. discriminate.
      + rewrite IH. split; [intros H b [<-|Hb]; auto|intros H b Hb; apply H; right; exact Hb].
  Qed.

  (* ---- AND: every field, each seeing the captures of the fields before it ---- *)
  Lemma and_extract_app : forall ms1 ms2 cur e,
    and_extract (ms1 ++ ms2) cur e =
    match and_extract ms1 cur e with Some f => and_extract ms2 f e | None => None end.
  Proof.
    induction ms1 as [|m r IH]; intros ms2 cur e; cbn; [reflexivity|].
    destruct (matches m e cur); [apply IH|reflexivity].
  Qed.

  Lemma and_extract_all : forall ms cur e,
    and_extract ms cur e <> None <->
    forall ms1 m ms2, ms = ms1 ++ m :: ms2 ->
      exists f, and_extract ms1 cur e = Some f /\ matches m e f <> None.
  Proof.
    intros ms cur e. split.
    - intros H ms1 m ms2 ->. rewrite and_extract_app in H.
      destruct (and_extract ms1 cur e) as [f|]; [|congruence]. exists f. split; [reflexivity|].
      cbn in H. destruct (matches m e f); congruence.
    - revert cur. induction ms as [|m r IH]; intros cur H; cbn; [discriminate|].
      destruct (H [] m r eq_refl) as (f & Hf & Hm). cbn in Hf. injection Hf as <-.
      destruct (matches m e cur) as [c|] eqn:E; [|congruence].
      apply IH. intros ms1 m' ms2 ->. destruct (H (m :: ms1) m' ms2 eq_refl) as (f & Hf & Hm').
      cbn in Hf. rewrite E in Hf. eauto.
  Qed.

  (* ---- the fold in terms of the hits ---- *)
  Definition after (f : frag) (hs : list (hit P)) : frag :=
    {| g_cleared := spec_cleared hs || g_cleared f;
       g_payee := option_or (spec_payee hs) (g_payee f);
       g_account := option_or (spec_account hs) (g_account f);
       g_code := option_or (spec_code hs) (g_code f);
       g_conversion := option_or (spec_conversion hs) (g_conversion f) |}.

  Lemma frag_eq : forall a b : frag,
    g_cleared a = g_cleared b -> g_payee a = g_payee b -> g_account a = g_account b ->
    g_code a = g_code b -> g_conversion a = g_conversion b -> a = b.
  Proof. intros [] []; cbn; intros; subst; reflexivity. Qed.

  Lemma extract_from_hits : forall rules f e, extract_from f rules e = after f (hits f rules e).
  Proof.
    induction rules as [|r rest IH]; intros f e.
    - destruct f; reflexivity.
    - unfold ImpExtract.extract_from. cbn [fold_left ImpExtractSpec.hits].
      unfold ImpExtract.step at 2, rule_extract.
      destruct (or_extract (r_matcher r) f e) as [c|] eqn:E; cbn [option_map].
      + fold (extract_from (frag_add_assign f (rule_apply r c)) rest e). rewrite IH.
        destruct (or_extract_keeps _ _ _ _ E) as (Hcl & Hac & Hcv).
        set (hs := hits _ rest e).
        apply frag_eq; unfold after, spec_cleared, spec_payee, spec_account, spec_code, spec_conversion;
          cbn [g_cleared g_payee g_account g_code g_conversion frag_add_assign rule_apply map existsb
               h_rule h_matched assigns]; rewrite ?last_some_cons.
        * rewrite Hcl. unfold assigns, is_some. cbn [h_rule]. destruct (r_account r), (r_pending r), (g_cleared f);
            cbn; rewrite ?orb_true_r, ?orb_false_r; reflexivity.
        * rewrite !option_or_assoc. reflexivity.
        * rewrite !option_or_assoc. reflexivity.
        * rewrite !option_or_assoc. reflexivity.
        * rewrite Hcv. rewrite !option_or_assoc.
          destruct (last_some _), (r_conversion r), (g_conversion f); reflexivity.
      + fold (extract_from f rest e). apply IH.
  Qed.

  Lemma extract_hits : forall rules e, extract rules e = spec_frag (hits frag0 rules e).
  Proof.
    intros. unfold ImpExtract.extract. rewrite extract_from_hits. unfold after, spec_frag. cbn.
    rewrite orb_false_r, !option_or_none_r. reflexivity.
  Qed.

  (* hits are rules of the list, in list order, and each really matched what it saw *)
  Lemma hits_sound : forall rules f e h, In h (hits f rules e) ->
    In (h_rule h) rules /\ or_extract (r_matcher (h_rule h)) (h_seen h) e = Some (h_matched h).
  Proof.
    induction rules as [|r rest IH]; intros f e h H; cbn in H; [destruct H|].
    destruct (or_extract (r_matcher r) f e) as [c|] eqn:E.
    - destruct H as [<-|H]; cbn; [auto|]. apply IH in H. tauto.
    - apply IH in H. destruct H. split; [right|]; assumption.
  Qed.

  (* the fragment a hit saw is the outcome of the rules before it *)
  Lemma hits_app : forall rs1 rs2 f e,
    hits f (rs1 ++ rs2) e = hits f rs1 e ++ hits (extract_from f rs1 e) rs2 e.
  Proof.
    induction rs1 as [|r rest IH]; intros rs2 f e; [reflexivity|].
    cbn [app ImpExtractSpec.hits]. unfold ImpExtract.extract_from. cbn [fold_left].
    unfold ImpExtract.step at 2, rule_extract.
    destruct (or_extract (r_matcher r) f e) as [c|]; cbn [option_map].
    - rewrite <- app_comm_cons. f_equal. apply IH.
    - apply IH.
  Qed.

  Lemma hit_sees_prefix : forall rs1 r rs2 e,
    or_extract (r_matcher r) (extract rs1 e) e <> None ->
    exists c hs2, hits frag0 (rs1 ++ r :: rs2) e
                  = hits frag0 rs1 e ++ {| h_rule := r; h_seen := extract rs1 e; h_matched := c |} :: hs2.
  Proof.
    intros rs1 r rs2 e H. rewrite hits_app. cbn [ImpExtractSpec.hits].
    fold (extract rs1 e). destruct (or_extract (r_matcher r) (extract rs1 e) e) as [c|]; [|congruence].
    eauto.
  Qed.

  (* ---- account: the last assigning hit ---- *)
  Lemma account_last_assigning : forall rules e a,
    g_account (extract rules e) = Some a <->
    exists hs1 h hs2, hits frag0 rules e = hs1 ++ h :: hs2 /\ r_account (h_rule h) = Some a
                      /\ forall h', In h' hs2 -> r_account (h_rule h') = None.
  Proof.
    intros rules e a. rewrite extract_hits. cbn [g_account spec_frag]. unfold spec_account.
    rewrite last_some_spec. split.
    - intros (l1 & l2 & H & Hn). apply map_eq_app in H. destruct H as (hs1 & hs2' & -> & <- & H).
      apply map_eq_cons in H. destruct H as (h & hs2 & -> & Hh & <-).
      exists hs1, h, hs2. repeat split; auto. intros h' Hh'. apply Hn. apply in_map_iff. eauto.
    - intros (hs1 & h & hs2 & -> & Hh & Hn). rewrite map_app. cbn [map]. rewrite Hh.
      eexists _, _. split; [reflexivity|]. intros x Hx. apply in_map_iff in Hx.
      destruct Hx as (h' & <- & Hh'). auto.
  Qed.

  Lemma account_none : forall rules e,
    g_account (extract rules e) = None <-> forall h, In h (hits frag0 rules e) -> r_account (h_rule h) = None.
  Proof.
    intros. rewrite extract_hits. cbn [g_account spec_frag]. unfold spec_account. rewrite last_some_none_iff.
    split.
    - intros H h Hh. apply H. apply in_map_iff. eauto.
    - intros H x Hx. apply in_map_iff in Hx. destruct Hx as (h & <- & Hh). auto.
  Qed.

  (* ---- cleared: some assigning hit is not flagged pending ---- *)
  Lemma cleared_iff : forall rules e,
    g_cleared (extract rules e) = false <->
    forall h, In h (hits frag0 rules e) -> r_account (h_rule h) <> None -> r_pending (h_rule h) = true.
  Proof.
    intros. rewrite extract_hits. cbn [g_cleared spec_frag]. unfold spec_cleared. split.
    - intros H h Hh Ha. destruct (r_pending (h_rule h)) eqn:Ep; [reflexivity|]. exfalso.
      assert (existsb (fun h => assigns h && negb (r_pending (h_rule h))) (hits frag0 rules e) = true).
      { apply existsb_exists. exists h. split; [exact Hh|]. unfold assigns, is_some. rewrite Ep.
        destruct (r_account (h_rule h)); [reflexivity|congruence]. }
      congruence.
    - intros H. destruct (existsb _ _) eqn:E; [|reflexivity]. apply existsb_exists in E.
      destruct E as (h & Hh & Hc). apply andb_prop in Hc. destruct Hc as [Ha Hp].
      unfold assigns, is_some in Ha. rewrite (H h Hh) in Hp; [discriminate|].
      destruct (r_account (h_rule h)); [discriminate|discriminate].
  Qed.

  Lemma cleared_has_account : forall rules e,
    g_cleared (extract rules e) = true -> g_account (extract rules e) <> None.
  Proof.
    intros rules e H Hn. rewrite account_none in Hn.
    assert (g_cleared (extract rules e) = false); [|congruence].
    apply cleared_iff. intros h Hh Ha. elim Ha. auto.
  Qed.

  (* ---- what the importers make of the fragment ---- *)
  Lemma counter_in_posts : forall t src, In (counter_posting t) (st_posts (to_double_entry t src)).
  Proof.
    intros t src. unfold to_double_entry, counter_posting. cbn [st_posts].
    destruct (d_neg (oa_value (t_amount t))); cbn [negb].
    - left. reflexivity.
    - right. apply in_or_app. right. left. reflexivity.
  Qed.

  Lemma counter_account_unknown : forall rules e t0,
    (forall h, In h (hits frag0 rules e) -> r_account (h_rule h) = None) ->
    sp_account (counter_posting (apply_fragment (extract rules e) t0)) =
    if d_neg (oa_value (t_amount t0)) then expenses_unknown else income_unknown.
  Proof.
    intros rules e t0 H. apply account_none in H. unfold counter_posting, dest_posting.
    cbn [sp_account apply_fragment t_dest t_amount]. rewrite H. reflexivity.
  Qed.

  Lemma counter_account_assigned : forall rules e t0 a,
    g_account (extract rules e) = Some a ->
    sp_account (counter_posting (apply_fragment (extract rules e) t0)) = a.
  Proof.
    intros rules e t0 a H. unfold counter_posting, dest_posting.
    cbn [sp_account apply_fragment t_dest]. rewrite H. reflexivity.
  Qed.

  Lemma counter_pending : forall rules e t0, t_clear t0 = None ->
    (sp_clear (counter_posting (apply_fragment (extract rules e) t0)) = Pending <->
     forall h, In h (hits frag0 rules e) -> r_account (h_rule h) <> None -> r_pending (h_rule h) = true).
  Proof.
    intros rules e t0 H0. rewrite <- cleared_iff. unfold counter_posting, dest_posting, post_clear.
    cbn [sp_clear apply_fragment t_clear t_dest]. rewrite H0.
    destruct (g_cleared (extract rules e)) eqn:Ec.
    - pose proof (cleared_has_account _ _ Ec) as Ha.
      destruct (g_account (extract rules e)); [|congruence]. split; discriminate.
    - split; reflexivity.
  Qed.

  Lemma counter_clear_values : forall rules e t0, t_clear t0 = None ->
    sp_clear (counter_posting (apply_fragment (extract rules e) t0)) =
    if g_cleared (extract rules e) then Uncleared else Pending.
  Proof.
    intros rules e t0 H0. unfold counter_posting, dest_posting, post_clear.
    cbn [sp_clear apply_fragment t_clear t_dest]. rewrite H0.
    destruct (g_cleared (extract rules e)) eqn:Ec; [|reflexivity].
    pose proof (cleared_has_account _ _ Ec) as Ha.
    destruct (g_account (extract rules e)); [reflexivity|congruence].
  Qed.
End Proofs.

(* ---- the compiled AND-list (MatchAndExpr::try_from since /repo cce0c70): the written fields,
   each once, in the declaration order of RewriteField ---- *)
From Coq Require Import Permutation Sorted.

Definition rank_le {P} (x y : rewrite_field * P) : Prop := (rf_rank (fst x) <= rf_rank (fst y))%nat.

Lemma and_insert_perm {P} (m : rewrite_field * P) (l : and_list P) : Permutation (m :: l) (and_insert m l).
Proof.
  induction l as [|x l IH]; cbn [and_insert]; [reflexivity|].
  destruct (Nat.leb _ _); [reflexivity|].
  eapply perm_trans; [apply perm_swap|]. apply perm_skip. exact IH.
Qed.

Lemma and_compile_perm {P} (a : and_list P) : Permutation a (and_compile a).
Proof.
  induction a as [|m a IH]; cbn [and_compile fold_right]; [constructor|].
  eapply perm_trans; [apply perm_skip; exact IH|]. apply and_insert_perm.
Qed.

Lemma and_insert_hdrel {P} (y m : rewrite_field * P) (l : and_list P) :
  rank_le y m -> HdRel rank_le y l -> HdRel rank_le y (and_insert m l).
Proof.
  intros Hym Hl. destruct l as [|x l]; cbn [and_insert]; [constructor; exact Hym|].
  destruct (Nat.leb _ _); constructor; [exact Hym|]. inversion Hl; assumption.
Qed.

Lemma and_insert_sorted {P} (m : rewrite_field * P) (l : and_list P) :
  Sorted rank_le l -> Sorted rank_le (and_insert m l).
Proof.
  induction l as [|x l IH]; intros Hs; cbn [and_insert]; [repeat constructor|].
  destruct (Nat.leb (rf_rank (fst m)) (rf_rank (fst x))) eqn:E.
  - constructor; [exact Hs|]. constructor. apply Nat.leb_le. exact E.
  - inversion Hs as [|? ? Hs' Hh]; subst. constructor; [apply IH; exact Hs'|].
    apply and_insert_hdrel; [|exact Hh]. apply Nat.leb_gt in E. unfold rank_le. lia.
Qed.

Lemma and_compile_sorted {P} (a : and_list P) : Sorted rank_le (and_compile a).
Proof.
  induction a as [|m a IH]; cbn [and_compile fold_right]; [constructor|].
  apply and_insert_sorted. exact IH.
Qed.

(* compiling changes the order inside the AND-lists only *)
Lemma compile_rule_fields {P} (r : rule P) :
  r_pending (rule_compile r) = r_pending r /\ r_payee (rule_compile r) = r_payee r /\
  r_account (rule_compile r) = r_account r /\ r_conversion (rule_compile r) = r_conversion r /\
  r_matcher (rule_compile r) = map and_compile (r_matcher r).
Proof. repeat split. Qed.
