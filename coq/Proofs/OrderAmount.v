(* C13: every operation on Amount (HashMap<Commodity, Decimal>) maps equivalent maps to
   equivalent (or equal) results; so does every operation of the expression evaluator. *)
From Coq Require Import List NArith ZArith Bool QArith Qcanon Lia Permutation.
From Okv Require Import Base.Maps Base.Dec Model.Amount Model.Book Model.OrderSpec
     Proofs.MapsSort Proofs.BookA_Maps Proofs.BookA_Amount Proofs.OrderMaps.
Import ListNotations.
Open Scope Qc_scope.

Implicit Types a b : amount.

Lemma a_get_equiv a a' c : map_equiv a a' -> a_get a c = a_get a' c.
Proof. intros H. unfold a_get. rewrite (map_equiv_get _ _ c H). reflexivity. Qed.

(* ---- a_add1 and the folds built on it ---- *)
Lemma get_add1 a c v k :
  get k (a_add1 a c v) = if (c =? k)%N then Some (a_get a c + v) else get k a.
Proof.
  unfold a_add1, a_get. destruct (get c a) as [x|] eqn:E.
  - rewrite get_set. reflexivity.
  - rewrite get_app. cbn [get]. destruct (N.eqb_spec c k) as [->|Hne].
    + rewrite E. f_equal. ring.
    + destruct (get k a); reflexivity.
Qed.

Lemma add1_equiv a a' c v : map_equiv a a' -> map_equiv (a_add1 a c v) (a_add1 a' c v).
Proof.
  intros H. split; [apply NoDup_add1, (map_equiv_nodup_l _ _ H)|].
  split; [apply NoDup_add1, (map_equiv_nodup_r _ _ H)|].
  intros k. rewrite !get_add1, (a_get_equiv _ _ c H), (map_equiv_get _ _ k H). reflexivity.
Qed.

Definition fold_add1 (g : Qc -> Qc) (a b : amount) : amount :=
  fold_left (fun acc p => a_add1 acc (fst p) (g (snd p))) b a.

Lemma NoDup_fold_add1 g b : forall a, NoDup (keys a) -> NoDup (keys (fold_add1 g a b)).
Proof.
  unfold fold_add1. induction b as [|[c v] r IH]; intros a H; cbn [fold_left fst snd]; [exact H|].
  apply IH, NoDup_add1, H.
Qed.

Lemma get_fold_add1 g b : NoDup (keys b) -> forall a k,
  get k (fold_add1 g a b) = match get k b with Some v => Some (a_get a k + g v) | None => get k a end.
Proof.
  unfold fold_add1. induction b as [|[c v] r IH]; intros ND a k; cbn [fold_left fst snd get]; [reflexivity|].
  cbn [keys map fst] in ND. inversion ND as [|? ? Hni ND']; subst.
  rewrite (IH ND'). destruct (N.eqb_spec c k) as [->|Hne].
  - apply get_none_iff in Hni. rewrite Hni, get_add1, N.eqb_refl. reflexivity.
  - rewrite get_add1. destruct (N.eqb_spec c k) as [|_]; [contradiction|].
    unfold a_get at 1. rewrite get_add1. destruct (N.eqb_spec c k) as [|_]; [contradiction|].
    reflexivity.
Qed.

Lemma fold_add1_equiv g a a' b b' :
  map_equiv a a' -> map_equiv b b' -> map_equiv (fold_add1 g a b) (fold_add1 g a' b').
Proof.
  intros Ha Hb. split; [apply NoDup_fold_add1, (map_equiv_nodup_l _ _ Ha)|].
  split; [apply NoDup_fold_add1, (map_equiv_nodup_r _ _ Ha)|].
  intros k. rewrite (get_fold_add1 g b (map_equiv_nodup_l _ _ Hb)), (get_fold_add1 g b' (map_equiv_nodup_r _ _ Hb)).
  rewrite (map_equiv_get _ _ k Hb), (a_get_equiv _ _ k Ha), (map_equiv_get _ _ k Ha). reflexivity.
Qed.

Lemma a_add_equiv a a' b b' : map_equiv a a' -> map_equiv b b' -> map_equiv (a_add a b) (a_add a' b').
Proof. apply (fold_add1_equiv (fun v => v)). Qed.

Lemma a_sub_equiv a a' b b' : map_equiv a a' -> map_equiv b b' -> map_equiv (a_sub a b) (a_sub a' b').
Proof. apply (fold_add1_equiv Qcopp). Qed.

(* ---- pointwise operations ---- *)
Lemma a_neg_equiv a a' : map_equiv a a' -> map_equiv (a_neg a) (a_neg a').
Proof. apply (map_equiv_map_snd (fun p => - snd p)). Qed.

Lemma a_scale_equiv a a' k : map_equiv a a' -> map_equiv (a_scale a k) (a_scale a' k).
Proof. apply (map_equiv_map_snd (fun p => snd p * k)). Qed.

Lemma a_div_equiv a a' k : map_equiv a a' -> map_equiv (a_div a k) (a_div a' k).
Proof. apply (map_equiv_map_snd (fun p => snd p / k)). Qed.

(* rounding reads the formats map only through `get` *)
Lemma a_round_fmt f f' a : (forall k, get k f = get k f') -> a_round f a = a_round f' a.
Proof. intros H. unfold a_round. apply map_ext. intros p. rewrite H. reflexivity. Qed.

Lemma a_round_equiv f f' a a' :
  map_equiv f f' -> map_equiv a a' -> map_equiv (a_round f a) (a_round f' a').
Proof.
  intros Hf Ha. rewrite <- (a_round_fmt f f' a') by (intros k; apply (map_equiv_get _ _ k Hf)).
  apply (map_equiv_map_snd (fun p => match get (fst p) f with Some dp => round_dp dp (snd p) | None => snd p end)).
  exact Ha.
Qed.

Lemma a_remove_zeros_equiv a a' : map_equiv a a' -> map_equiv (a_remove_zeros a) (a_remove_zeros a').
Proof. apply map_equiv_filter. Qed.

Lemma a_add_pa_equiv a a' p : map_equiv a a' -> map_equiv (a_add_pa a p) (a_add_pa a' p).
Proof. destruct p as [|c v]; cbn [a_add_pa]; [auto|apply add1_equiv]. Qed.

(* ---- observations ---- *)
Lemma a_is_zero_equiv a a' : map_equiv a a' -> a_is_zero a = a_is_zero a'.
Proof. apply map_equiv_forallb. Qed.

Lemma a_is_absolute_zero_equiv a a' : map_equiv a a' -> a_is_absolute_zero a = a_is_absolute_zero a'.
Proof.
  intros H. apply map_equiv_length in H. destruct a, a'; try discriminate; reflexivity.
Qed.

Lemma amount_to_pa_equiv a a' : map_equiv a a' -> amount_to_pa a = amount_to_pa a'.
Proof.
  intros H. destruct a as [|[c v] [|q r]].
  - rewrite (map_equiv_nil_l _ H). reflexivity.
  - rewrite (map_equiv_single _ _ _ H). reflexivity.
  - apply map_equiv_length in H. destruct a' as [|[c' v'] [|q' r']]; try discriminate. reflexivity.
Qed.

Lemma amount_to_single_equiv a a' : map_equiv a a' -> amount_to_single a = amount_to_single a'.
Proof.
  intros H. destruct a as [|[c v] [|q r]].
  - rewrite (map_equiv_nil_l _ H). reflexivity.
  - rewrite (map_equiv_single _ _ _ H). reflexivity.
  - apply map_equiv_length in H. destruct a' as [|[c' v'] [|q' r']]; try discriminate. reflexivity.
Qed.

Lemma pa_to_amount_equiv p : map_equiv (pa_to_amount p) (pa_to_amount p).
Proof.
  apply map_equiv_refl. destruct p; cbn; repeat constructor. intros [].
Qed.

Lemma map_equiv_nil {V} : map_equiv ([] : amap V) [].
Proof. apply map_equiv_refl. constructor. Qed.

Lemma a_single_equiv c v : map_equiv (a_single c v) (a_single c v).
Proof. apply (pa_to_amount_equiv (PSingle c v)). Qed.

(* ---- Amount::assert_balance, Amount::set_partial ---- *)
Lemma assert_balance_equiv cur cur' e :
  map_equiv cur cur' -> map_equiv (assert_balance cur e) (assert_balance cur' e).
Proof.
  intros H. destruct e as [|c v]; cbn [assert_balance].
  - rewrite (a_is_zero_equiv _ _ H). destruct (a_is_zero cur'); [apply map_equiv_nil|apply a_neg_equiv, H].
  - rewrite (a_get_equiv _ _ c H). destruct (qc_zero _); [apply map_equiv_nil|apply a_single_equiv].
Qed.

Lemma a_set_partial_equiv cur cur' c v :
  map_equiv cur cur' ->
  map_equiv (fst (a_set_partial cur c v)) (fst (a_set_partial cur' c v)) /\
  snd (a_set_partial cur c v) = snd (a_set_partial cur' c v).
Proof.
  intros H. unfold a_set_partial. cbn [fst snd]. split; [|apply a_get_equiv, H].
  destruct (qc_zero v); [apply map_equiv_remove, H|apply map_equiv_set, H].
Qed.

(* ---- the evaluator ---- *)
Lemma val_equiv_refl_num q : val_equiv (ENum q) (ENum q).
Proof. reflexivity. Qed.

Lemma ev_is_zero_equiv x y : val_equiv x y -> ev_is_zero x = ev_is_zero y.
Proof.
  destruct x, y; cbn [val_equiv ev_is_zero]; try contradiction; [congruence|apply a_is_zero_equiv].
Qed.

Lemma ev_negate_equiv x y : val_equiv x y -> val_equiv (ev_negate x) (ev_negate y).
Proof.
  destruct x, y; cbn [val_equiv ev_negate]; try contradiction; [congruence|apply a_neg_equiv].
Qed.

Lemma ev_to_amount_equiv x y : val_equiv x y -> res_equiv map_equiv (ev_to_amount x) (ev_to_amount y).
Proof.
  destruct x, y; cbn [val_equiv ev_to_amount]; try contradiction.
  - intros ->. destruct (qc_zero q0); cbn [res_equiv]; [apply map_equiv_nil|reflexivity].
  - intros H. exact H.
Qed.

Lemma ev_to_pa_equiv x y : val_equiv x y -> ev_to_pa x = ev_to_pa y.
Proof.
  intros H. apply ev_to_amount_equiv in H. unfold ev_to_pa.
  destruct (ev_to_amount x), (ev_to_amount y); cbn [res_equiv] in H; try contradiction.
  - apply amount_to_pa_equiv, H.
  - congruence.
Qed.

Lemma ev_to_single_equiv x y : val_equiv x y -> ev_to_single x = ev_to_single y.
Proof.
  intros H. apply ev_to_amount_equiv in H. unfold ev_to_single.
  destruct (ev_to_amount x), (ev_to_amount y); cbn [res_equiv] in H; try contradiction.
  - apply amount_to_single_equiv, H.
  - congruence.
Qed.

Lemma ev_add_equiv x x' y y' :
  val_equiv x x' -> val_equiv y y' -> res_equiv val_equiv (ev_add x y) (ev_add x' y').
Proof.
  destruct x, x', y, y'; cbn [val_equiv ev_add res_equiv]; try contradiction; try reflexivity; intros H1 H2.
  - congruence.
  - apply a_add_equiv; assumption.
Qed.

Lemma ev_sub_equiv x x' y y' :
  val_equiv x x' -> val_equiv y y' -> res_equiv val_equiv (ev_sub x y) (ev_sub x' y').
Proof.
  destruct x, x', y, y'; cbn [val_equiv ev_sub res_equiv]; try contradiction; try reflexivity; intros H1 H2.
  - congruence.
  - apply a_sub_equiv; assumption.
Qed.

Lemma ev_mul_equiv x x' y y' :
  val_equiv x x' -> val_equiv y y' -> res_equiv val_equiv (ev_mul x y) (ev_mul x' y').
Proof.
  destruct x, x', y, y'; cbn [val_equiv ev_mul res_equiv]; try contradiction; try reflexivity; intros H1 H2.
  - congruence.
  - subst. apply a_scale_equiv, H2.
  - subst. apply a_scale_equiv, H1.
Qed.

Lemma ev_div_equiv x x' y y' :
  val_equiv x x' -> val_equiv y y' -> res_equiv val_equiv (ev_div x y) (ev_div x' y').
Proof.
  intros H1 H2. unfold ev_div. rewrite (ev_is_zero_equiv _ _ H2).
  destruct (ev_is_zero y'); [reflexivity|].
  destruct x, x', y, y'; cbn [val_equiv res_equiv] in *; try contradiction; try reflexivity.
  - congruence.
  - subst. rewrite (amount_to_single_equiv _ _ H2).
    destruct (amount_to_single a0) as [[c v]|e]; [|reflexivity].
    destruct (qc_zero v); cbn [res_equiv val_equiv]; [reflexivity|apply a_single_equiv].
  - subst. apply a_div_equiv, H1.
Qed.

(* evaluation itself never iterates over a map it did not build: it is a function of the expression;
   all its amounts are duplicate-free, so they are related to themselves *)
Lemma val_equiv_refl_ok x : (forall a, x = ECom a -> NoDup (keys a)) -> val_equiv x x.
Proof. destruct x; cbn [val_equiv]; intros H; [reflexivity|apply map_equiv_refl, H; reflexivity]. Qed.

Fixpoint eval_e_wf (e : expr) : res_equiv val_equiv (eval_e e) (eval_e e)
with eval_v_wf (v : vexpr) : res_equiv val_equiv (eval_v v) (eval_v v).
Proof.
  - destruct e as [x|op l r|v]; cbn [eval_e].
    + pose proof (eval_e_wf x) as H. destruct (eval_e x); cbn [res_equiv] in *; [|reflexivity].
      apply ev_negate_equiv, H.
    + pose proof (eval_e_wf l) as Hl. pose proof (eval_e_wf r) as Hr.
      destruct (eval_e l) as [a|]; cbn [res_equiv] in *; [|reflexivity].
      destruct (eval_e r) as [b|]; cbn [res_equiv] in *; [|reflexivity].
      destruct op; [apply ev_add_equiv|apply ev_sub_equiv|apply ev_mul_equiv|apply ev_div_equiv]; assumption.
    + apply eval_v_wf.
  - destruct v as [e|q [c|]]; cbn [eval_v res_equiv val_equiv].
    + apply eval_e_wf.
    + apply a_single_equiv.
    + reflexivity.
Qed.

(* ---- bundled for Props/C13.v ---- *)
Theorem amount_ops_respect_equiv a a' b b' (f f' : formats) k p c v :
  map_equiv a a' -> map_equiv b b' -> map_equiv f f' ->
  map_equiv (a_add a b) (a_add a' b') /\
  map_equiv (a_sub a b) (a_sub a' b') /\
  map_equiv (a_neg a) (a_neg a') /\
  map_equiv (a_scale a k) (a_scale a' k) /\
  map_equiv (a_div a k) (a_div a' k) /\
  map_equiv (a_round f a) (a_round f' a') /\
  map_equiv (a_remove_zeros a) (a_remove_zeros a') /\
  map_equiv (a_add_pa a p) (a_add_pa a' p) /\
  map_equiv (assert_balance a p) (assert_balance a' p) /\
  map_equiv (fst (a_set_partial a c v)) (fst (a_set_partial a' c v)) /\
  snd (a_set_partial a c v) = snd (a_set_partial a' c v) /\
  a_get a c = a_get a' c /\
  a_is_zero a = a_is_zero a' /\
  a_is_absolute_zero a = a_is_absolute_zero a' /\
  amount_to_pa a = amount_to_pa a' /\
  amount_to_single a = amount_to_single a'.
Proof.
  intros Ha Hb Hf.
  split; [apply a_add_equiv; assumption|]. split; [apply a_sub_equiv; assumption|].
  split; [apply a_neg_equiv, Ha|]. split; [apply a_scale_equiv, Ha|]. split; [apply a_div_equiv, Ha|].
  split; [apply a_round_equiv; assumption|]. split; [apply a_remove_zeros_equiv, Ha|].
  split; [apply a_add_pa_equiv, Ha|]. split; [apply assert_balance_equiv, Ha|].
  split; [apply a_set_partial_equiv, Ha|]. split; [apply a_set_partial_equiv, Ha|].
  split; [apply a_get_equiv, Ha|]. split; [apply a_is_zero_equiv, Ha|].
  split; [apply a_is_absolute_zero_equiv, Ha|]. split; [apply amount_to_pa_equiv, Ha|apply amount_to_single_equiv, Ha].
Qed.

Theorem eval_order_independent :
  (forall e, res_equiv val_equiv (eval_e e) (eval_e e)) /\
  (forall x x' y y', val_equiv x x' -> val_equiv y y' ->
     res_equiv val_equiv (ev_add x y) (ev_add x' y') /\
     res_equiv val_equiv (ev_sub x y) (ev_sub x' y') /\
     res_equiv val_equiv (ev_mul x y) (ev_mul x' y') /\
     res_equiv val_equiv (ev_div x y) (ev_div x' y')) /\
  (forall x x', val_equiv x x' ->
     val_equiv (ev_negate x) (ev_negate x') /\
     ev_is_zero x = ev_is_zero x' /\
     res_equiv map_equiv (ev_to_amount x) (ev_to_amount x') /\
     ev_to_pa x = ev_to_pa x' /\
     ev_to_single x = ev_to_single x').
Proof.
  split; [exact eval_e_wf|]. split.
  - intros x x' y y' H1 H2. split; [apply ev_add_equiv; assumption|]. split; [apply ev_sub_equiv; assumption|].
    split; [apply ev_mul_equiv; assumption|apply ev_div_equiv; assumption].
  - intros x x' H. split; [apply ev_negate_equiv, H|]. split; [apply ev_is_zero_equiv, H|].
    split; [apply ev_to_amount_equiv, H|]. split; [apply ev_to_pa_equiv, H|apply ev_to_single_equiv, H].
Qed.
