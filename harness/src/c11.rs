//! C11: includes expand in place.  Implementation under test: load::Loader::load on
//! load::FakeFileSystem and, through load::new_loader (ProdFileSystem), on a real directory
//! under the scratch area; plus every report of the cut tree vs the uncut ledger: the order of
//! Ledger::transactions(), the register with running totals, balance, accounts through
//! report::process / report::accounts on both file systems, and `okane balance`, `register`,
//! `accounts`, `primitive flatten` on the tree on disk.
use crate::cli::Scratch;
use crate::coq::{self, Shards, Stats};
use crate::prng::Rng;
use crate::Opts;
use okane_core::load::{self, FileSystem};
use okane_core::{report, syntax};
use serde_json::{json, Value};
use std::collections::{BTreeSet, HashMap};
use std::path::{Path, PathBuf};

/// abstract entry of a file
#[derive(Clone, Debug, PartialEq, Eq, Hash)]
pub enum AEntry {
    /// include directive; the written path in virtual form (absolute ones start with "/")
    Inc(String),
    /// a transaction whose payee is e<id>
    Ent(u64),
    /// a file body that does not parse; stands for `Ent id` in the model (it must never be loaded)
    Garbage(u64),
}

type VPath = Vec<String>; // components below the virtual root "/"

#[derive(Clone, Debug, PartialEq, Eq, Hash)]
pub struct Tree {
    pub kind: u8,
    /// how transactions are dated: 0 all on one day | 1 runs of three per day, non-decreasing in
    /// ledger order | 2 a day derived from the id (out of order, several per day)
    pub dmode: u8,
    pub files: Vec<(VPath, Vec<AEntry>)>,
    pub root: VPath, // may hold ".." components
    pub ledger: Vec<u64>,
}

fn vstr(p: &VPath) -> String {
    format!("/{}", p.join("/"))
}

/// What kind of entry an id stands for (id / 1000): 0 transaction | 1 `account` directive |
/// 2 `commodity` directive | 3 `apply tag` | 4 `end apply tag` | 5 top-level comment.
/// The model sees every one of them as an opaque `Ent id`.
pub fn ekind(id: u64) -> u64 {
    if id >= 9000 {
        9
    } else {
        id / 1000
    }
}

const EKIND_NAMES: [&str; 6] = ["transaction", "account directive", "commodity directive", "apply tag", "end apply tag", "top-level comment"];

/// name of the commodity declared by entry `id` (kind 2): letters only; one in five declares USD
fn commodity_name(id: u64) -> String {
    let n = id % 1000;
    if n % 5 == 0 {
        return "USD".into();
    }
    let mut s = String::from("K");
    let mut k = n;
    loop {
        s.push((b'A' + (k % 26) as u8) as char);
        k /= 26;
        if k == 0 {
            break;
        }
    }
    s
}

fn commodity_id(name: &str) -> Option<u64> {
    let rest = name.strip_prefix('K')?;
    let mut n = 0u64;
    for (i, c) in rest.chars().enumerate() {
        if !c.is_ascii_uppercase() {
            return None;
        }
        n += (c as u64 - 'A' as u64) * 26u64.pow(i as u32);
    }
    Some(2000 + n)
}

/// per tree: dating mode and, for every transaction that carries a running-balance assertion,
/// the balance of account A after it in the uncut ledger
pub struct Texts {
    dmode: u8,
    run: HashMap<u64, (u64, usize)>,
}

impl Texts {
    fn of(t: &Tree) -> Texts {
        let mut run = HashMap::new();
        let mut sum = 0u64;
        for (k, id) in asserted(t).iter().enumerate() {
            if ekind(*id) == 0 {
                sum += *id;
                run.insert(*id, (sum, k));
            }
        }
        Texts { dmode: t.dmode, run }
    }
}

fn date_of(tx: &Texts, id: u64) -> String {
    let day = match (tx.dmode, tx.run.get(&id)) {
        (0, _) => 1,
        (1, Some((_, k))) => 1 + (*k as u64) / 3,
        _ => 1 + (id * 7 + 3) % 5,
    };
    format!("2024/01/{:02}", day)
}

/// text of the entry with id `id`: a transaction moves `id` USD into A (so that every
/// transaction is recognisable in `register` and `Ledger::transactions()`), asserting A's running
/// balance when the tree delivers every entry once
fn entry_text(id: u64, tx: &Texts) -> String {
    let n = id % 1000;
    let blank = if n % 3 == 0 { "" } else { "\n" };
    match ekind(id) {
        0 => {
            let head = if n % 4 == 1 { format!("{} * (c{}) e{}\n    ; :t{}:\n", date_of(tx, id), id, id, id) } else { format!("{} e{}\n", date_of(tx, id), id) };
            let other = if n % 3 == 0 { "B".to_string() } else { format!("X{}:s", n % 5) };
            match tx.run.get(&id) {
                Some((sum, _)) => format!("{}    A  {} USD = {} USD\n    {}\n\n", head, id, sum, other),
                None => format!("{}    A  {} USD\n    {}\n\n", head, id, other),
            }
        }
        1 => format!(
            "account X{}\n{}{}{}",
            id,
            if n % 2 == 0 { format!("    alias L{}\n", id) } else { String::new() },
            if n % 4 < 2 { format!("    note n{}\n", id) } else { String::new() },
            blank
        ),
        2 => {
            let c = commodity_name(id);
            format!("commodity {}\n{}{}", c, if n % 2 == 0 { format!("    format 1,000.00 {}\n", c) } else { String::new() }, blank)
        }
        3 => format!("apply tag t{}{}\n{}", id, if n % 2 == 0 { format!(": v{}", id) } else { String::new() }, blank),
        4 => format!("end apply tag\n{}", blank),
        _ => format!("; c{}\n{}\n", id, if n % 2 == 0 { "; second line\n" } else { "" }),
    }
}

/// the text of a file and, for every entry in it, the line it starts on
fn file_layout(es: &[AEntry], prefix: &str, tx: &Texts) -> (String, Vec<(usize, u64)>) {
    let mut s = String::new();
    let mut lines = Vec::new();
    for e in es {
        let line = 1 + s.bytes().filter(|b| *b == b'\n').count();
        match e {
            AEntry::Inc(w) => {
                if w.starts_with('/') {
                    s.push_str(&format!("include {}{}\n\n", prefix, w));
                } else {
                    s.push_str(&format!("include {}\n\n", w));
                }
            }
            AEntry::Ent(id) => {
                lines.push((line, *id));
                s.push_str(&entry_text(*id, tx));
            }
            AEntry::Garbage(_) => s.push_str("completely invalid file, should not be loaded\n"),
        }
    }
    (s, lines)
}

fn file_text(es: &[AEntry], prefix: &str, tx: &Texts) -> String {
    file_layout(es, prefix, tx).0
}

const ST_NAMES: [&str; 8] = ["Ok", "Err IO NotFound", "Err IO other", "Err Parse", "Err other", "panic", "process aborted or hung", "Err InvalidIncludeGlob"];

#[derive(Clone, Debug, PartialEq)]
pub struct LObs {
    trace: Vec<(usize, u64)>,
    st: u8,
    detail: String,
}

fn payee_id(p: &str) -> u64 {
    p.trim_start_matches('e').parse().unwrap_or(99999)
}

fn load_err_code(e: &load::LoadError) -> (u8, String) {
    let d: String = format!("{:?}", e).chars().take(160).collect();
    match e {
        load::LoadError::IO(io, _) => (if io.kind() == std::io::ErrorKind::NotFound { 1 } else { 2 }, d),
        load::LoadError::Parse(..) => (3, d),
        load::LoadError::InvalidIncludeGlob(..) => (7, d),
        _ => (4, d),
    }
}

/// the id an entry names by its content, where it names one
fn content_id(entry: &syntax::plain::LedgerEntry) -> Option<u64> {
    let num = |s: &str, p: char| -> Option<u64> {
        let d: String = s.strip_prefix(p)?.chars().take_while(|c| c.is_ascii_digit()).collect();
        d.parse().ok()
    };
    match entry {
        syntax::LedgerEntry::Txn(t) => Some(payee_id(&t.payee)),
        syntax::LedgerEntry::Comment(c) => num(c.0.trim_start(), 'c'),
        syntax::LedgerEntry::ApplyTag(a) => num(&a.key, 't'),
        syntax::LedgerEntry::Account(a) => num(&a.name, 'X'),
        syntax::LedgerEntry::Commodity(c) => commodity_id(&c.name),
        _ => None,
    }
}

fn entry_kind_code(entry: &syntax::plain::LedgerEntry) -> u64 {
    match entry {
        syntax::LedgerEntry::Txn(_) => 0,
        syntax::LedgerEntry::Account(_) => 1,
        syntax::LedgerEntry::Commodity(_) => 2,
        syntax::LedgerEntry::ApplyTag(_) => 3,
        syntax::LedgerEntry::EndApplyTag => 4,
        syntax::LedgerEntry::Comment(_) => 5,
        syntax::LedgerEntry::Include(_) => 8,
    }
}

/// Every delivered entry is identified by the file the callback names and the line its context
/// starts on (`layout`: file index -> line -> id); the kind of the entry and, where the entry
/// names its id (payee, account, commodity, tag key, comment text), that id must be the same:
/// otherwise the trace records 99997.  99998 = nothing of the tree starts on that line.
fn run_loader<F: FileSystem>(loader: load::Loader<F>, index: &HashMap<String, usize>, layout: &[HashMap<usize, u64>], strip: &str) -> LObs {
    let r = std::panic::catch_unwind(std::panic::AssertUnwindSafe(|| {
        let mut trace = Vec::new();
        let res = loader.load(|path: &Path, ctx, entry: &syntax::plain::LedgerEntry| {
            // Path equality is component-wise ("/a/./b" == "/a/b"), and ProdFileSystem hands
            // back the uncanonicalised spelling when it is Path-equal to the canonical one
            let s = path.components().collect::<PathBuf>().to_string_lossy().to_string();
            let v = s.strip_prefix(strip).unwrap_or(&s).to_string();
            let fi = *index.get(&v).unwrap_or(&999);
            let by_place = layout.get(fi).and_then(|m| m.get(&ctx.compute_line_start())).copied();
            let id = match (by_place, content_id(entry)) {
                (None, _) => 99998,
                (Some(p), _) if ekind(p) != entry_kind_code(entry) => 99997,
                (Some(p), Some(c)) if p != c => 99997,
                (Some(p), _) => p,
            };
            trace.push((fi, id));
            Ok::<(), load::LoadError>(())
        });
        match res {
            Ok(()) => LObs { trace, st: 0, detail: String::new() },
            Err(e) => {
                let (st, detail) = load_err_code(&e);
                LObs { trace, st, detail }
            }
        }
    }));
    r.unwrap_or(LObs { trace: vec![], st: 5, detail: "panic".into() })
}

/// What the reports say about one ledger (a tree or the uncut file): the transactions in the
/// order `Ledger::transactions()` holds them (each recognised by the amount it moves into A), and
/// as text: their dates, the register (`Ledger::postings` with the running total, as the
/// `register` command prints it), the balance and the account list.
#[derive(Clone, Debug, PartialEq)]
pub struct Rep {
    order: Vec<u64>,
    sections: Vec<(String, String)>,
}

fn lead_int(s: &str) -> u64 {
    let d: String = s.chars().filter(|c| *c != ',').take_while(|c| c.is_ascii_digit()).collect();
    d.parse().unwrap_or(99996)
}

fn reports<F: FileSystem>(mk: &dyn Fn() -> load::Loader<F>) -> Result<Rep, String> {
    let r = std::panic::catch_unwind(std::panic::AssertUnwindSafe(|| {
        let arena = bumpalo::Bump::new();
        let mut ctx = report::ReportContext::new(&arena);
        let processed = report::process(&mut ctx, mk(), &report::ProcessOptions::default());
        let mut ledger = processed.map_err(|e| format!("{:?}", e).chars().take(90).collect::<String>())?;
        let mut order = Vec::new();
        let mut dates = String::new();
        for txn in ledger.transactions() {
            order.push(txn.postings.first().map(|p| lead_int(&format!("{}", p.amount.as_inline_display()))).unwrap_or(99995));
            dates.push_str(&format!("{} ", txn.date));
        }
        let mut reg = String::new();
        let mut running = report::Amount::default();
        for posting in ledger.postings(&ctx, &report::query::PostingQuery { account: None }) {
            running += posting.amount.clone();
            reg.push_str(&format!("{} {} {}\n", posting.account.as_str(), posting.amount.as_inline_display(), running.as_inline_display()));
        }
        let mut reg_a = String::new();
        let mut running = report::Amount::default();
        for posting in ledger.postings(&ctx, &report::query::PostingQuery { account: Some("A".into()) }) {
            running += posting.amount.clone();
            reg_a.push_str(&format!("{} {}\n", posting.amount.as_inline_display(), running.as_inline_display()));
        }
        let bal = ledger.balance(&ctx, &report::query::BalanceQuery::default()).map(|b| b.into_owned().into_vec()).map_err(|e| format!("{:?}", e))?;
        let mut bs = String::new();
        for (a, am) in bal.iter() {
            bs.push_str(&format!("{}: {}\n", a.as_str(), am.as_inline_display()));
        }
        let arena2 = bumpalo::Bump::new();
        let mut ctx2 = report::ReportContext::new(&arena2);
        let accs = match report::accounts(&mut ctx2, mk()) {
            Ok(v) => v.iter().map(|a| a.as_str().to_string()).collect::<Vec<_>>().join("\n"),
            Err(e) => format!("error {:?}", e).chars().take(90).collect(),
        };
        Ok(Rep { order, sections: vec![("dates of Ledger::transactions()".into(), dates), ("register".into(), reg), ("register A".into(), reg_a), ("balance".into(), bs), ("accounts".into(), accs)] })
    }));
    r.unwrap_or(Err("panic".into()))
}

/// the commands that read a ledger file, run in process on a real file
fn cli_reports(path: &str, out: &mut Vec<(String, String)>) {
    for cmd in [&["balance"][..], &["register"][..], &["register", "A"][..], &["accounts"][..], &["primitive", "flatten"][..]] {
        let mut a: Vec<&str> = cmd.to_vec();
        let acc = if a.len() == 2 && a[0] == "register" { a.pop() } else { None };
        a.push(path);
        if let Some(x) = acc {
            a.push(x);
        }
        let res = crate::cli::run(&a);
        let shown = if res.ok { res.stdout } else { format!("FAILED {}", res.stderr.chars().take(120).collect::<String>()) };
        out.push((format!("okane {}", cmd.join(" ")), shown));
    }
}

/// the ids whose transactions carry a running-balance assertion (their position in the uncut
/// ledger): none in a tree whose files are included repeatedly (kind 4), where one text is
/// delivered at several positions
fn asserted(t: &Tree) -> &[u64] {
    if t.kind == 4 {
        &[]
    } else {
        &t.ledger
    }
}

fn fake_map(t: &Tree) -> HashMap<PathBuf, Vec<u8>> {
    let tx = Texts::of(t);
    let mut m = HashMap::new();
    for (p, es) in &t.files {
        m.insert(PathBuf::from(vstr(p)), file_text(es, "", &tx).into_bytes());
    }
    m
}

pub struct Observed {
    fake: LObs,
    real: LObs,
    bal: u8,
    bal_detail: String,
    /// Ledger::transactions() of the uncut ledger, of the tree in memory, of the tree on disk
    reg: Vec<Vec<u64>>,
}

pub fn observe(sc: &Scratch, seq: usize, t: &Tree) -> Observed {
    let tx = Texts::of(t);
    let index: HashMap<String, usize> = t.files.iter().enumerate().map(|(i, (p, _))| (vstr(p), i)).collect();
    let layout: Vec<HashMap<usize, u64>> = t.files.iter().map(|(_, es)| file_layout(es, "", &tx).1.into_iter().collect()).collect();
    // in-memory
    let fake = run_loader(load::Loader::new(PathBuf::from(vstr(&t.root)), load::FakeFileSystem::from(fake_map(t))), &index, &layout, "");
    // real directory
    let base = sc.dir.join(format!("t{}", seq));
    let _ = std::fs::remove_dir_all(&base);
    std::fs::create_dir_all(&base).unwrap();
    let base = std::fs::canonicalize(&base).unwrap();
    let prefix = base.to_string_lossy().to_string();
    for (p, es) in &t.files {
        let fp = base.join(p.join("/"));
        std::fs::create_dir_all(fp.parent().unwrap()).unwrap();
        std::fs::write(&fp, file_text(es, &prefix, &tx)).unwrap();
    }
    let real_root = PathBuf::from(format!("{}{}", prefix, vstr(&t.root)));
    let real = run_loader(load::new_loader(real_root.clone()), &index, &layout, &prefix);
    // report level: every report of the cut tree (both file systems) against the uncut ledger
    let (bal, bal_detail, reg) = if t.kind == 0 || t.kind == 4 {
        let all: Vec<AEntry> = t.ledger.iter().map(|id| AEntry::Ent(*id)).collect();
        let uncut_text = file_text(&all, "", &tx);
        let mk_uncut = || {
            let mut one = HashMap::new();
            one.insert(PathBuf::from("/r/all.ledger"), uncut_text.clone().into_bytes());
            load::Loader::new(PathBuf::from("/r/all.ledger"), load::FakeFileSystem::from(one))
        };
        let uncut = reports(&mk_uncut);
        let bf = reports(&|| load::Loader::new(PathBuf::from(vstr(&t.root)), load::FakeFileSystem::from(fake_map(t))));
        let br = reports(&|| load::new_loader(real_root.clone()));
        // the commands themselves, on the tree on disk and on the uncut ledger as one file on disk
        let uncut_path = base.join("uncut-all.ledger");
        std::fs::write(&uncut_path, &uncut_text).unwrap();
        let mut cu = Vec::new();
        cli_reports(&uncut_path.to_string_lossy(), &mut cu);
        let mut ct = Vec::new();
        cli_reports(&real_root.to_string_lossy(), &mut ct);
        let reg: Vec<Vec<u64>> = [&uncut, &bf, &br].iter().map(|r| r.as_ref().map(|x| x.order.clone()).unwrap_or_else(|_| vec![99994])).collect();
        let mut diff = String::new();
        match (&uncut, &bf, &br) {
            (Ok(u), Ok(f), Ok(r)) => {
                for (k, (name, text)) in u.sections.iter().enumerate() {
                    if f.sections[k].1 != *text || r.sections[k].1 != *text {
                        diff = format!("{}: uncut {:?} / in-memory {:?} / real {:?}", name, text, f.sections[k].1, r.sections[k].1);
                        break;
                    }
                }
            }
            _ => diff = format!("uncut {:?} / in-memory {:?} / real {:?}", uncut.as_ref().err(), bf.as_ref().err(), br.as_ref().err()),
        }
        if diff.is_empty() {
            for (k, (name, text)) in cu.iter().enumerate() {
                if ct[k].1 != *text || text.starts_with("FAILED") {
                    diff = format!("{}: uncut {:?} / tree {:?}", name, text, ct[k].1);
                    break;
                }
            }
        }
        if diff.is_empty() {
            (1, String::new(), reg)
        } else {
            (2, diff.chars().take(600).collect(), reg)
        }
    } else {
        (0, String::new(), vec![vec![], vec![], vec![]])
    };
    let _ = std::fs::remove_dir_all(&base);
    Observed { fake, real, bal, bal_detail, reg }
}

// ---------- Coq terms and JSON ----------

fn str_term(s: &str) -> String {
    coq::n_list(s.chars().map(|c| c as u64))
}

fn path_term(p: &VPath) -> String {
    coq::list(p.iter().map(|c| str_term(c)))
}

fn entry_term(e: &AEntry) -> String {
    match e {
        AEntry::Inc(w) => format!("Inc {}", str_term(w)),
        AEntry::Ent(id) | AEntry::Garbage(id) => format!("Ent {}", id),
    }
}

fn lobs_term(o: &LObs) -> String {
    format!("(LObs {} {})", coq::list(o.trace.iter().map(|(i, id)| format!("({},{})", i, id))), o.st)
}

fn term(t: &Tree, o: &Observed) -> String {
    format!(
        "Case {} {} {} {} {} {} {} {}",
        t.kind,
        coq::list(t.files.iter().map(|(p, es)| format!("({}, {})", path_term(p), coq::list(es.iter().map(entry_term))))),
        path_term(&t.root),
        coq::n_list(t.ledger.iter().copied()),
        lobs_term(&o.fake),
        lobs_term(&o.real),
        o.bal,
        coq::list(o.reg.iter().map(|v| coq::n_list(v.iter().copied())))
    )
}

fn entry_json(e: &AEntry) -> Value {
    match e {
        AEntry::Inc(w) => json!({ "include": w }),
        AEntry::Ent(id) => json!({ "entry": id, "is": EKIND_NAMES[(ekind(*id) as usize).min(5)] }),
        AEntry::Garbage(id) => json!({ "garbage": id }),
    }
}

fn lobs_json(t: &Tree, o: &LObs) -> Value {
    let st = ST_NAMES[(o.st as usize).min(ST_NAMES.len() - 1)];
    json!({"status": st, "detail": o.detail,
           "delivered": o.trace.iter().map(|(i, id)| json!([t.files.get(*i).map(|f| vstr(&f.0)).unwrap_or("?".into()), id])).collect::<Vec<_>>()})
}

fn replay(t: &Tree, o: &Observed) -> Value {
    let bal_s = ["not compared", "equal to the uncut ledger's (Ledger::transactions/postings/balance, report::accounts, okane balance/register/accounts/primitive flatten)", "DIFFERENT"][o.bal as usize];
    let tx = Texts::of(t);
    json!({"property": "C11", "kind": t.kind, "dates": t.dmode, "root": vstr(&t.root), "ledger": t.ledger,
           "files": t.files.iter().map(|(p, es)| json!([vstr(p), es.iter().map(entry_json).collect::<Vec<_>>()])).collect::<Vec<_>>(),
           "texts": t.files.iter().filter(|(_, es)| !es.iter().any(|e| matches!(e, AEntry::Garbage(_)))).map(|(p, es)| json!([vstr(p), file_text(es, "", &tx)])).collect::<Vec<_>>(),
           "impl": {"in_memory": lobs_json(t, &o.fake), "real_fs": lobs_json(t, &o.real),
                    "reports": bal_s, "reports_detail": o.bal_detail,
                    "transactions_in_order": {"uncut": o.reg.first(), "tree_in_memory": o.reg.get(1), "tree_on_disk": o.reg.get(2)}},
           "reproduce": "write the files of `texts` (an id below 1000 is a transaction with payee e<id> moving <id> USD into A; 1xxx account, 2xxx commodity, 3xxx apply tag, 4xxx end apply tag, 5xxx comment; garbage = unparsable text), call load::Loader::load on root with FakeFileSystem and with new_loader; okane balance / register / accounts / primitive flatten ROOT against the same entries in one file"})
}

fn from_json(v: &Value) -> Option<Tree> {
    let comps = |s: &str| -> VPath { s.split('/').filter(|c| !c.is_empty()).map(|c| c.to_string()).collect() };
    let mut files = Vec::new();
    for f in v.get("files")?.as_array()? {
        let p = comps(f.get(0)?.as_str()?);
        let mut es = Vec::new();
        for e in f.get(1)?.as_array()? {
            if let Some(w) = e.get("include").and_then(|x| x.as_str()) {
                es.push(AEntry::Inc(w.to_string()));
            } else if let Some(id) = e.get("entry").and_then(|x| x.as_u64()) {
                es.push(AEntry::Ent(id));
            } else if let Some(id) = e.get("garbage").and_then(|x| x.as_u64()) {
                es.push(AEntry::Garbage(id));
            }
        }
        files.push((p, es));
    }
    Some(Tree {
        kind: v.get("kind")?.as_u64()? as u8,
        dmode: v.get("dates").and_then(|x| x.as_u64()).unwrap_or(0) as u8,
        files,
        root: comps(v.get("root")?.as_str()?),
        ledger: v.get("ledger")?.as_array()?.iter().filter_map(|x| x.as_u64()).collect(),
    })
}

fn tree_json(t: &Tree) -> Value {
    json!({"property": "C11", "kind": t.kind, "dates": t.dmode, "root": vstr(&t.root), "ledger": t.ledger,
           "files": t.files.iter().map(|(p, es)| json!([vstr(p), es.iter().map(entry_json).collect::<Vec<_>>()])).collect::<Vec<_>>()})
}

fn lobs_to(o: &LObs) -> Value {
    json!({"trace": o.trace.iter().map(|(i, id)| json!([i, id])).collect::<Vec<_>>(), "st": o.st, "detail": o.detail})
}

fn lobs_from(v: &Value) -> LObs {
    LObs {
        trace: v["trace"].as_array().map(|a| a.iter().map(|p| (p[0].as_u64().unwrap_or(999) as usize, p[1].as_u64().unwrap_or(0))).collect()).unwrap_or_default(),
        st: v["st"].as_u64().unwrap_or(6) as u8,
        detail: v["detail"].as_str().unwrap_or("").to_string(),
    }
}

fn crashed(why: &str) -> Observed {
    let o = LObs { trace: vec![], st: 6, detail: why.to_string() };
    Observed { fake: o.clone(), real: o, bal: 0, bal_detail: String::new(), reg: vec![vec![], vec![], vec![]] }
}

/// child mode: `okv c11-child IN OUT` observes every tree of IN (a JSON array) and writes the observations
pub fn child(args: &[String]) {
    let trees: Vec<Value> = serde_json::from_str(&std::fs::read_to_string(&args[0]).unwrap()).unwrap();
    let sc = Scratch::new("c11c");
    let mut out = Vec::new();
    for (k, v) in trees.iter().enumerate() {
        let t = from_json(v).unwrap();
        let o = observe(&sc, k, &t);
        out.push(json!({"fake": lobs_to(&o.fake), "real": lobs_to(&o.real), "bal": o.bal, "bal_detail": o.bal_detail, "reg": o.reg}));
        // flushed after every case so that the parent can see how far a dying child got
        std::fs::write(&args[1], serde_json::to_string(&out).unwrap()).unwrap();
    }
}

/// run one child over `trees`; None when it died or timed out
fn run_child(dir: &Path, trees: &[&Tree], secs: u64) -> Option<Vec<Observed>> {
    let inp = dir.join("batch_in.json");
    let outp = dir.join("batch_out.json");
    let _ = std::fs::remove_file(&outp);
    std::fs::write(&inp, serde_json::to_string(&trees.iter().map(|t| tree_json(t)).collect::<Vec<_>>()).unwrap()).unwrap();
    let mut ch = std::process::Command::new(std::env::current_exe().unwrap())
        .arg("c11-child")
        .arg(&inp)
        .arg(&outp)
        .stdout(std::process::Stdio::null())
        .stderr(std::process::Stdio::null())
        .spawn()
        .ok()?;
    let mut waited = 0u64;
    let ok = loop {
        match ch.try_wait() {
            Ok(Some(st)) => break st.success(),
            Ok(None) => {
                if waited > secs * 100 {
                    let _ = ch.kill();
                    let _ = ch.wait();
                    break false;
                }
                std::thread::sleep(std::time::Duration::from_millis(10));
                waited += 1;
            }
            Err(_) => break false,
        }
    };
    if !ok {
        // the child did not get to drop its scratch directory
        if let Some(base) = dir.parent() {
            let _ = std::fs::remove_dir_all(base.join(format!("c11c-{}", ch.id())));
        }
        return None;
    }
    let v: Vec<Value> = serde_json::from_str(&std::fs::read_to_string(&outp).ok()?).ok()?;
    if v.len() != trees.len() {
        return None;
    }
    Some(v.iter().map(|o| Observed { fake: lobs_from(&o["fake"]), real: lobs_from(&o["real"]), bal: o["bal"].as_u64().unwrap_or(0) as u8, bal_detail: o["bal_detail"].as_str().unwrap_or("").to_string(), reg: o["reg"].as_array().map(|a| a.iter().map(|l| l.as_array().map(|x| x.iter().filter_map(|n| n.as_u64()).collect()).unwrap_or_default()).collect()).unwrap_or_default() }).collect())
}

/// observations for a batch, in child processes: a stack overflow or a hang of the implementation
/// is an observation (st 6) of the case that caused it, not the end of the run
fn observe_batch(dir: &Path, trees: &[&Tree]) -> Vec<Observed> {
    if let Some(v) = run_child(dir, trees, 120) {
        return v;
    }
    trees
        .iter()
        .map(|t| match run_child(dir, &[*t], 20) {
            Some(mut v) => v.remove(0),
            None => crashed("the process running the loader aborted (stack overflow) or hung"),
        })
        .collect()
}

// ---------- generator ----------

struct Gen<'a> {
    r: &'a mut Rng,
    files: Vec<(VPath, Vec<AEntry>)>,
    used: BTreeSet<VPath>, // files and directories taken
    uniq: usize,
    closed: BTreeSet<VPath>, // directories owned by a glob include: no further files directly inside
    garbage: u64,
    tags: BTreeSet<String>,
}

const DIRS: [&str; 8] = ["a", "b", "sub", "s-1", "s.d", "d e", "é", "x+y"];
const DOT_STEMS: [&str; 7] = ["x", "opening", "a.b", "h", "0", "é", "A-1"];
const DOT_DIRS: [&str; 4] = [".cfg", ".d", ".x.d", ".é"];
const STEMS: [&str; 10] = ["x", "y", "a.b", "a-b", "A", "_z", "é", "zz", "a", "0"];

impl<'a> Gen<'a> {
    fn fresh(&mut self) -> String {
        self.uniq += 1;
        format!("g{}_", self.uniq)
    }
    fn reserve(&mut self, p: &VPath) -> bool {
        // a path may not be both a file and a directory: every proper prefix is a directory
        self.used.insert(p.clone())
    }
    fn fresh_file(&mut self, dir: &VPath) -> VPath {
        for _ in 0..20 {
            let stem = *self.r.pick(&STEMS[..]);
            let mut p = dir.clone();
            p.push(format!("{}.ledger", stem));
            if self.reserve(&p) {
                return p;
            }
        }
        let mut p = dir.clone();
        let f = self.fresh();
        p.push(format!("{}.ledger", f));
        self.reserve(&p);
        p
    }
    /// a new file whose name begins with a dot: only an include that spells the dot can reach it
    fn fresh_dot_file(&mut self, dir: &VPath) -> VPath {
        for _ in 0..20 {
            let stem = *self.r.pick(&DOT_STEMS[..]);
            let mut p = dir.clone();
            p.push(format!(".{}.ledger", stem));
            if self.reserve(&p) {
                return p;
            }
        }
        let mut p = dir.clone();
        let f = self.fresh();
        p.push(format!(".{}.ledger", f));
        self.reserve(&p);
        p
    }
    fn fresh_dir(&mut self, under: &VPath) -> VPath {
        let mut p = under.clone();
        let f = self.fresh();
        let name = match self.r.below(4) {
            0 => f,
            1 => format!("{}.d", f),
            2 => format!("{} {}", f, "x"),
            _ => format!("{}-é", f),
        };
        p.push(name);
        self.reserve(&p);
        p
    }
    /// a directory reachable from `dir`: itself, a sub-directory, the parent, a sibling, the grandparent
    fn choose_dir(&mut self, dir: &VPath) -> VPath {
        let up = dir.len() > 1; // never above /r
        match self.r.below(10) {
            0..=2 => dir.clone(),
            3..=5 => {
                let mut p = dir.clone();
                p.push(self.r.pick(&DIRS[..]).to_string());
                p
            }
            6 | 7 if up => dir[..dir.len() - 1].to_vec(),
            8 if up => {
                let mut p = dir[..dir.len() - 1].to_vec();
                p.push(self.r.pick(&DIRS[..]).to_string());
                p
            }
            9 if dir.len() > 2 => dir[..dir.len() - 2].to_vec(),
            _ => dir.clone(),
        }
    }
    /// `cand`, unless a glob include owns it: then a new sub-directory of it
    fn open_dir(&mut self, cand: VPath) -> VPath {
        if self.closed.contains(&cand) {
            self.fresh_dir(&cand)
        } else {
            cand
        }
    }
    /// how the including file in `from` writes the path `to` (a file path or a pattern path)
    fn written(&mut self, from: &VPath, to: &VPath) -> String {
        let mut c = 0;
        while c < from.len() && c + 1 < to.len() && from[c] == to[c] {
            c += 1;
        }
        let ups = from.len() - c;
        let mut parts: Vec<String> = vec!["..".to_string(); ups];
        parts.extend(to[c..].iter().cloned());
        let rel = parts.join("/");
        match self.r.below(20) {
            0 | 1 => {
                self.tags.insert("written:absolute".into());
                vstr(to)
            }
            2 | 3 if ups == 0 => {
                self.tags.insert("written:./".into());
                format!("./{}", rel)
            }
            4 | 5 if from.len() > 1 => {
                // up and back through the including file's own directory, which exists
                self.tags.insert("written:../own-dir/".into());
                format!("../{}/{}", from[from.len() - 1], rel)
            }
            _ => rel,
        }
    }
    fn decoy(&mut self, p: VPath) {
        if self.reserve(&p) {
            self.garbage += 1;
            self.files.push((p, vec![AEntry::Garbage(9000 + self.garbage)]));
        }
    }

    /// cut `seg` into the file at `path` (already reserved) and files it includes
    fn build(&mut self, seg: &[u64], path: VPath, depth: usize) {
        let dir: VPath = path[..path.len() - 1].to_vec();
        let slot = self.files.len();
        self.files.push((path.clone(), Vec::new()));
        let mut content = Vec::new();
        let mut i = 0;
        let mut tail_include = depth < 3 && self.r.chance(1, 8);
        while i < seg.len() || tail_include {
            let remaining = seg.len() - i;
            if remaining == 0 {
                tail_include = false;
            }
            let can_include = depth < 4 && self.files.len() < 16;
            let choice = if !can_include { 0 } else if remaining == 0 { 9 + self.r.below(11) } else { self.r.below(20) };
            if choice < 9 {
                if remaining == 0 {
                    continue;
                }
                let k = 1 + self.r.below(remaining.min(3) as u64) as usize;
                for id in &seg[i..i + k] {
                    content.push(AEntry::Ent(*id));
                }
                i += k;
            } else if choice < 14 {
                // literal include of one new file
                let mut m = self.r.below(remaining.min(4) as u64 + 1) as usize;
                let tdir = self.choose_dir(&dir);
                let tdir = self.open_dir(tdir);
                let target = match self.r.below(8) {
                    0 | 1 => {
                        // a file whose name begins with a dot, named literally (no wildcard in the
                        // component: that would be the known class C11-K2 on the real file system)
                        self.tags.insert("include:literal dot-file (.x.ledger)".into());
                        if m == 0 && remaining > 0 {
                            m = 1;
                        }
                        self.fresh_dot_file(&tdir)
                    }
                    2 => {
                        self.tags.insert("include:literal through a dot directory (.cfg/x.ledger)".into());
                        if m == 0 && remaining > 0 {
                            m = 1;
                        }
                        let mut d = tdir.clone();
                        d.push(self.r.pick(&DOT_DIRS[..]).to_string());
                        if self.r.chance(1, 3) {
                            self.fresh_dot_file(&d)
                        } else {
                            self.fresh_file(&d)
                        }
                    }
                    _ => self.fresh_file(&tdir),
                };
                let w = self.written(&dir, &target);
                if w.contains("..") {
                    self.tags.insert("include:..".into());
                }
                self.tags.insert("include:literal".into());
                content.push(AEntry::Inc(w));
                self.build(&seg[i..i + m], target, depth + 1);
                i += m;
            } else if self.r.chance(1, 5) {
                // a directory with ordinary files and a dot-file: `include d/*.ledger` must skip the
                // dot-file, `include d/.opening.ledger` (literal, before or after) must load it
                let base = self.choose_dir(&dir);
                let base = self.open_dir(base);
                let tdir = self.fresh_dir(&base);
                self.closed.insert(tdir.clone());
                let g = 1 + self.r.below(3) as usize;
                let mut targets: Vec<VPath> = (0..g).map(|_| self.fresh_file(&tdir)).collect();
                targets.sort_by(|a, b| PathBuf::from(vstr(a)).cmp(&PathBuf::from(vstr(b))));
                let dotp = self.fresh_dot_file(&tdir);
                let mut d = tdir.clone();
                d.push(".swp.ledger".into());
                self.decoy(d);
                let mut pattern = tdir.clone();
                pattern.push(self.r.pick(&["*.ledger", "*.ledge?", "?*.ledger", "*.l*"][..]).to_string());
                self.tags.insert("glob:*.ledger beside a dot-file that a literal include names".into());
                self.tags.insert("include:literal dot-file (.x.ledger)".into());
                self.tags.insert("include:glob".into());
                let dot_first = self.r.chance(1, 2);
                for step in 0..2 {
                    let remaining = seg.len() - i;
                    if (step == 0) == dot_first {
                        let mut d = self.r.below(remaining.min(2) as u64 + 1) as usize;
                        if d == 0 && remaining > 0 && self.r.chance(3, 4) {
                            d = 1;
                        }
                        let w = self.written(&dir, &dotp);
                        content.push(AEntry::Inc(w));
                        self.build(&seg[i..i + d], dotp.clone(), depth + 1);
                        i += d;
                    } else {
                        let m = self.r.below(remaining.min(4) as u64 + 1) as usize;
                        let mut cuts: Vec<usize> = (0..g - 1).map(|_| self.r.below(m as u64 + 1) as usize).collect();
                        if m >= g && self.r.chance(2, 3) {
                            cuts = (1..g).map(|k| k * m / g).collect();
                        }
                        cuts.sort();
                        let w = self.written(&dir, &pattern);
                        content.push(AEntry::Inc(w));
                        let mut lo = 0;
                        for (k, t) in targets.iter().enumerate() {
                            let hi = if k + 1 == g { m } else { cuts[k] };
                            self.build(&seg[i + lo..i + hi], t.clone(), depth + 1);
                            lo = hi;
                        }
                        i += m;
                    }
                }
            } else {
                // glob include over g new files, visited in PathBuf order
                let mut g = 1 + self.r.below(3) as usize;
                let mut m = self.r.below(remaining.min(5) as u64 + 1) as usize;
                if m < g && remaining >= g && self.r.chance(2, 3) {
                    m = g;
                }
                let base = self.choose_dir(&dir);
                let base = self.open_dir(base);
                let (pattern, mut targets): (VPath, Vec<VPath>) = match self.r.below(13) {
                    0 | 1 => {
                        // every *.ledger of a fresh directory
                        self.tags.insert("glob:*.ledger".into());
                        let tdir = self.fresh_dir(&base);
                        let ts: Vec<VPath> = (0..g).map(|_| self.fresh_file(&tdir)).collect();
                        self.closed.insert(tdir.clone());
                        let mut d = tdir.clone();
                        d.push(".h.ledger".into());
                        self.decoy(d);
                        let mut d = tdir.clone();
                        d.push("deep".into());
                        d.push("q.ledger".into());
                        self.decoy(d);
                        let mut d = tdir.clone();
                        d.push("x.txt".into());
                        self.decoy(d);
                        let mut p = tdir;
                        p.push("*.ledger".into());
                        (p, ts)
                    }
                    2 => {
                        // a unique prefix inside a shared directory
                        self.tags.insert("glob:prefix*.ledger".into());
                        let u = self.fresh();
                        let mut sufs = ["", "-a", ".b", "a", "B", "é", " c"].to_vec();
                        self.r.shuffle(&mut sufs);
                        let ts: Vec<VPath> = sufs[..g]
                            .iter()
                            .map(|s| {
                                let mut p = base.clone();
                                p.push(format!("{}{}.ledger", u, s));
                                self.reserve(&p);
                                p
                            })
                            .collect();
                        let mut d = base.clone();
                        d.push(format!("{}x.ledger.bak", u));
                        self.decoy(d);
                        let mut d = base.clone();
                        d.push(format!("{}sub", u));
                        d.push("in.ledger".into());
                        self.decoy(d);
                        let mut p = base.clone();
                        p.push(format!("{}*.ledger", u));
                        (p, ts)
                    }
                    3 => {
                        // one-character names in a fresh directory
                        self.tags.insert("glob:?.ledger".into());
                        let tdir = self.fresh_dir(&base);
                        self.closed.insert(tdir.clone());
                        let mut names = ["a", "b", "é", "_", "0", "Z", "日"].to_vec();
                        self.r.shuffle(&mut names);
                        let ts: Vec<VPath> = names[..g]
                            .iter()
                            .map(|s| {
                                let mut p = tdir.clone();
                                p.push(format!("{}.ledger", s));
                                self.reserve(&p);
                                p
                            })
                            .collect();
                        for dn in ["..ledger", "ab.ledger", ".ledger"] {
                            let mut d = tdir.clone();
                            d.push(dn.into());
                            self.decoy(d);
                        }
                        let mut p = tdir;
                        p.push("?.ledger".into());
                        (p, ts)
                    }
                    7 | 8 => {
                        // a character class and no other wildcard: years/202[34].ledger, q[1-4].ledger
                        let tdir = self.fresh_dir(&base);
                        self.closed.insert(tdir.clone());
                        let (pat, names, decoys): (&str, &[&str], &[&str]) = match self.r.below(6) {
                            0 => ("202[345].ledger", &["2023", "2024", "2025"], &["2022", "2026", "202", "20234", ".2023", "202[345]"]),
                            1 => ("20[12][0-9].ledger", &["2010", "2024", "2019"], &["2030", "200", "20a4", "20[12][0-9]"]),
                            2 => ("q[1-4].ledger", &["q1", "q2", "q3", "q4"], &["q0", "q5", "q", "q12", "Q1", "q[1-4]"]),
                            3 => ("q[1-24].ledger", &["q1", "q2", "q4"], &["q3", "q-", "q[1-24]"]),
                            4 => ("y[a-c][!0-9].ledger", &["yax", "ybé", "yc_", "ya-"], &["ya1", "ydx", "ya", "yA_", "yaxx"]),
                            _ => ("[A-Ca][!.]x.ledger", &["A_x", "a0x", "Cxx", "Béx"], &["b_x", "D_x", "A.x", "Ax", "A_y"]),
                        };
                        self.tags.insert(format!("glob:class only ({})", pat));
                        let mut names = names.to_vec();
                        self.r.shuffle(&mut names);
                        g = g.min(names.len());
                        let ts: Vec<VPath> = names[..g]
                            .iter()
                            .map(|n| {
                                let mut p = tdir.clone();
                                p.push(format!("{}.ledger", n));
                                self.reserve(&p);
                                p
                            })
                            .collect();
                        for dn in decoys {
                            let mut d = tdir.clone();
                            d.push(format!("{}.ledger", dn));
                            self.decoy(d);
                        }
                        let mut p = tdir;
                        p.push(pat.into());
                        (p, ts)
                    }
                    9 => {
                        // a negated class in front of a star: [!a]*.ledger
                        let tdir = self.fresh_dir(&base);
                        self.closed.insert(tdir.clone());
                        let (pat, names, decoys): (&str, &[&str], &[&str]) = match self.r.below(3) {
                            0 => ("[!a]*.ledger", &["b", "ba", "_", "é", "A", "b.c"], &["a", "ab", ".z", "a.b"]),
                            1 => ("[!a-cx]*.ledger", &["d", "é", "_x", "A", "-"], &["a", "b1", "cc", "x", ".d"]),
                            _ => ("*[!0-9].ledger", &["a", "1b", "é", "0.x", "9-"], &["1", "a0", ".a", "a.0"]),
                        };
                        self.tags.insert(format!("glob:class and star ({})", pat));
                        let mut names = names.to_vec();
                        self.r.shuffle(&mut names);
                        g = g.min(names.len());
                        let ts: Vec<VPath> = names[..g]
                            .iter()
                            .map(|n| {
                                let mut p = tdir.clone();
                                p.push(format!("{}.ledger", n));
                                self.reserve(&p);
                                p
                            })
                            .collect();
                        for dn in decoys {
                            let mut d = tdir.clone();
                            d.push(format!("{}.ledger", dn));
                            self.decoy(d);
                        }
                        let mut d = tdir.clone();
                        d.push("deep".into());
                        d.push("b.ledger".into());
                        self.decoy(d);
                        let mut d = tdir.clone();
                        d.push("b.txt".into());
                        self.decoy(d);
                        let mut p = tdir;
                        p.push(pat.into());
                        (p, ts)
                    }
                    10 => {
                        // a class in a directory component; component order differs from byte order
                        let tdir = self.fresh_dir(&base);
                        let (pat, names, decoys): (&str, &[&str], &[&str]) = match self.r.below(3) {
                            0 => ("[st]*", &["s", "s-1", "t.d", "t", "s x"], &[".s", "u", "Sx"]),
                            1 => ("d[0-9]", &["d0", "d5", "d9"], &["da", "d", "d10", "d[0-9]"]),
                            _ => ("s[!q]*", &["s-1", "sa", "s.d", "s+"], &["sq", "s", ".s-"]),
                        };
                        self.tags.insert(format!("glob:class in a directory ({}/f.ledger)", pat));
                        let mut names = names.to_vec();
                        self.r.shuffle(&mut names);
                        if pat == "[st]*" && g >= 2 {
                            // s < s-1 as components, s-1/ < s/ as strings
                            names.retain(|x| *x != "s" && *x != "s-1");
                            names.insert(0, "s");
                            names.insert(1, "s-1");
                        }
                        g = g.min(names.len());
                        let ts: Vec<VPath> = names[..g]
                            .iter()
                            .map(|n| {
                                let mut p = tdir.clone();
                                p.push(n.to_string());
                                p.push("f.ledger".into());
                                self.reserve(&p);
                                p
                            })
                            .collect();
                        for dn in decoys {
                            let mut d = tdir.clone();
                            d.push(dn.to_string());
                            d.push("f.ledger".into());
                            self.decoy(d);
                        }
                        let mut d = tdir.clone();
                        d.push(names[0].to_string());
                        d.push("g.ledger".into());
                        self.decoy(d);
                        let mut p = tdir;
                        p.push(pat.into());
                        p.push("f.ledger".into());
                        (p, ts)
                    }
                    11 => {
                        // how classes are written: `]` first, a dash at the end, metacharacters and
                        // dots inside, non-ASCII members
                        let tdir = self.fresh_dir(&base);
                        self.closed.insert(tdir.clone());
                        let (pat, names, decoys): (&str, &[&str], &[&str]) = match self.r.below(8) {
                            0 => ("[]x].ledger", &["]", "x"], &["y", "]x", "[]x]"]),
                            1 => ("[a-].ledger", &["-", "a"], &["b", "a-"]),
                            2 => ("[!]].ledger", &["x", "-", "é"], &["]", "xx"]),
                            3 => ("[é日].ledger", &["é", "日"], &["e", "é日"]),
                            4 => ("[*?].ledger", &["*", "?"], &["x", "**", "[*?]"]),
                            5 => ("x[.-]y.ledger", &["x.y", "x-y"], &["x_y", "xy", "x,y"]),
                            6 => ("[.a]b.ledger", &["ab"], &[".b", "bb", "b"]),
                            _ => ("[]-a]z.ledger", &["]z", "^z", "az", "_z"], &["bz", "\\z", "Zz", "-z"]),
                        };
                        self.tags.insert(format!("glob:class spelling ({})", pat));
                        let mut names = names.to_vec();
                        self.r.shuffle(&mut names);
                        g = g.min(names.len());
                        let ts: Vec<VPath> = names[..g]
                            .iter()
                            .map(|n| {
                                let mut p = tdir.clone();
                                p.push(format!("{}.ledger", n));
                                self.reserve(&p);
                                p
                            })
                            .collect();
                        for dn in decoys {
                            let mut d = tdir.clone();
                            d.push(format!("{}.ledger", dn));
                            self.decoy(d);
                        }
                        let mut p = tdir;
                        p.push(pat.into());
                        (p, ts)
                    }
                    _ => {
                        // a wildcard directory component: component order differs from byte order
                        self.tags.insert("glob:dir*/f.ledger".into());
                        let tdir = self.fresh_dir(&base);
                        let u = *self.r.pick(&["s", "t", "é"][..]);
                        let mut sufs = ["", "-1", ".d", " x", "+", "a", "0"].to_vec();
                        self.r.shuffle(&mut sufs);
                        if g >= 2 && self.r.chance(3, 4) {
                            // a name and the same name followed by a character below '/': the
                            // component order (s < s-1) is the reverse of the string order (s-1/ < s/)
                            let low = *self.r.pick(&["-1", ".d", " x", "+"][..]);
                            sufs.retain(|x| *x != "" && *x != low);
                            sufs.insert(0, "");
                            sufs.insert(1, low);
                        }
                        let ts: Vec<VPath> = sufs[..g]
                            .iter()
                            .map(|s| {
                                let mut p = tdir.clone();
                                p.push(format!("{}{}", u, s));
                                p.push("f.ledger".into());
                                self.reserve(&p);
                                p
                            })
                            .collect();
                        let mut d = tdir.clone();
                        d.push(format!(".{}", u));
                        d.push("f.ledger".into());
                        self.decoy(d);
                        let mut d = tdir.clone();
                        d.push(format!("{}q", u));
                        d.push("g.ledger".into());
                        self.decoy(d);
                        let star_first = self.r.chance(1, 2);
                        let mut p = tdir;
                        p.push(if star_first { "*".to_string() } else { format!("{}*", u) });
                        p.push("f.ledger".into());
                        (p, ts)
                    }
                };
                // the loader visits matches in PathBuf (component-wise) order
                targets.sort_by(|a, b| PathBuf::from(vstr(a)).cmp(&PathBuf::from(vstr(b))));
                let by_string: Vec<String> = {
                    let mut v: Vec<String> = targets.iter().map(vstr).collect();
                    v.sort();
                    v
                };
                if by_string != targets.iter().map(vstr).collect::<Vec<_>>() {
                    self.tags.insert("order:component order differs from string order".into());
                }
                let w = self.written(&dir, &pattern);
                if w.contains("..") {
                    self.tags.insert("include:..".into());
                }
                self.tags.insert("include:glob".into());
                content.push(AEntry::Inc(w));
                // split the next m entries into g consecutive chunks (possibly empty)
                let mut cuts: Vec<usize> = (0..g - 1).map(|_| self.r.below(m as u64 + 1) as usize).collect();
                if m >= g && self.r.chance(2, 3) {
                    // every file gets at least one entry, so the visiting order shows
                    cuts = (1..g).map(|k| k * m / g).collect();
                }
                cuts.sort();
                let mut lo = 0;
                for (k, t) in targets.into_iter().enumerate() {
                    let hi = if k + 1 == g { m } else { cuts[k] };
                    self.build(&seg[i + lo..i + hi], t, depth + 1);
                    lo = hi;
                }
                i += m;
            }
        }
        self.files[slot].1 = content;
    }
}

fn gen_tree(r: &mut Rng) -> (Tree, BTreeSet<String>) {
    let n = r.below(11) as usize;
    let mut ids: Vec<u64> = (1..=40).collect();
    r.shuffle(&mut ids);
    let mut ledger: Vec<u64> = ids[..n].to_vec();
    let mut pre_tags: BTreeSet<String> = BTreeSet::new();
    // two ledgers in three hold every kind of entry the parser knows besides transactions:
    // account and commodity directives, comments, and apply tag ... end apply tag blocks around
    // stretches of the ledger (nested, side by side, now and then left open or closed twice:
    // the directives are not checked against each other); the cuts fall anywhere, also inside blocks
    if r.chance(2, 3) {
        let mut ns: Vec<u64> = (1..=900).collect();
        r.shuffle(&mut ns);
        let mut next = 0usize;
        let mut fresh = |kind: u64| -> u64 {
            next += 1;
            kind * 1000 + ns[next - 1]
        };
        for _ in 0..r.below(4) {
            let kind = *r.pick(&[1u64, 2, 5][..]);
            let at = r.below(ledger.len() as u64 + 1) as usize;
            ledger.insert(at, fresh(kind));
        }
        for _ in 0..r.below(3) {
            let i = r.below(ledger.len() as u64 + 1) as usize;
            let j = i + r.below((ledger.len() - i) as u64 + 1) as usize;
            match r.below(8) {
                0 => {
                    pre_tags.insert("entries:apply tag never closed".into());
                    ledger.insert(i, fresh(3));
                }
                1 => {
                    pre_tags.insert("entries:end apply tag without apply tag".into());
                    ledger.insert(j, fresh(4));
                }
                _ => {
                    ledger.insert(j, fresh(4));
                    ledger.insert(i, fresh(3));
                }
            }
        }
    }
    let dmode = [0u8, 0, 1, 2][r.below(4) as usize];
    let mut g = Gen { r, files: Vec::new(), used: BTreeSet::new(), uniq: 0, closed: BTreeSet::new(), garbage: 0, tags: BTreeSet::new() };
    let mut root: VPath = vec!["r".into()];
    for _ in 0..g.r.below(3) {
        root.push(g.r.pick(&DIRS[..]).to_string());
    }
    root.push("main.ledger".into());
    g.reserve(&root);
    g.build(&ledger, root.clone(), 0);
    let mut tags = std::mem::take(&mut g.tags);
    let files = std::mem::take(&mut g.files);
    tags.extend(pre_tags);
    let mut t = Tree { kind: 0, dmode, files, root: root.clone(), ledger };
    // a root given in non-canonical form
    if root.len() > 2 && r.chance(1, 8) {
        let d = root[root.len() - 2].clone();
        let mut nr = root[..root.len() - 1].to_vec();
        nr.push("..".into());
        nr.push(d);
        nr.push("main.ledger".into());
        t.root = nr;
        tags.insert("root:non-canonical".into());
    }
    // one include made to match nothing
    if r.chance(1, 6) {
        let incs: Vec<(usize, usize)> = t
            .files
            .iter()
            .enumerate()
            .flat_map(|(fi, (_, es))| es.iter().enumerate().filter(|(_, e)| matches!(e, AEntry::Inc(_))).map(move |(ei, _)| (fi, ei)))
            .collect();
        if !incs.is_empty() {
            let (fi, ei) = *r.pick(&incs);
            if let AEntry::Inc(w) = &t.files[fi].1[ei] {
                let dirpart = match w.rfind('/') {
                    Some(k) => w[..=k].to_string(),
                    None => String::new(),
                };
                let last = *r.pick(&["missing.ledger", "nomatch-*.ledger", "*.nothing", "?.nope", ".h*.nope", "[0-9].nope", "no[!a-z]match.ledger", "[z-a].ledger", "q[5-9].nope", "[!a].nope"][..]);
                t.files[fi].1[ei] = AEntry::Inc(format!("{}{}", dirpart, last));
                t.kind = 1;
                tags.insert("include:matches nothing".into());
            }
        }
    }
    // one include given a `[` that is never closed: LoadError::InvalidIncludeGlob
    if t.kind == 0 && r.chance(1, 10) {
        let incs: Vec<(usize, usize)> = t
            .files
            .iter()
            .enumerate()
            .flat_map(|(fi, (_, es))| es.iter().enumerate().filter(|(_, e)| matches!(e, AEntry::Inc(_))).map(move |(ei, _)| (fi, ei)))
            .collect();
        if !incs.is_empty() {
            let (fi, ei) = *r.pick(&incs);
            if let AEntry::Inc(w) = &t.files[fi].1[ei] {
                let dirpart = match w.rfind('/') {
                    Some(k) => w[..=k].to_string(),
                    None => String::new(),
                };
                let last = *r.pick(&["x[.ledger", "[", "[!", "[!]", "[]", "a[]b.ledger", "*[a.ledger", "202[34.ledger", "[a-c]x[!].ledger", "?[!x"][..]);
                t.files[fi].1[ei] = AEntry::Inc(format!("{}{}", dirpart, last));
                t.kind = 3;
                tags.insert("include:unclosed [ (invalid pattern)".into());
            }
        }
    }
    // an include back to the root from one of the other files: a cycle when that file is loaded
    if t.kind == 0 && t.files.len() > 1 && r.chance(1, 20) {
        let cands: Vec<usize> = (1..t.files.len()).filter(|i| !t.files[*i].1.iter().any(|e| matches!(e, AEntry::Garbage(_)))).collect();
        if !cands.is_empty() {
            let fi = *r.pick(&cands);
            let k = r.below(t.files[fi].1.len() as u64 + 1) as usize;
            let canon_root: VPath = t.files[0].0.clone();
            t.files[fi].1.insert(k, AEntry::Inc(vstr(&canon_root)));
            t.kind = 2;
            tags.insert("include:back to the root (cycle)".into());
        }
    }
    (t, tags)
}


// ---------- trees whose files are included repeatedly ----------

/// how a file in directory `from` writes the file or pattern path `to`; `dirs` = the directories
/// of the tree (a `..` may only follow a directory that exists: the real file system resolves
/// `sub/..` through `sub`, the in-memory one lexically)
fn spell(r: &mut Rng, from: &VPath, to: &VPath, dirs: &BTreeSet<VPath>, tags: &mut BTreeSet<String>) -> String {
    let mut c = 0;
    while c < from.len() && c + 1 < to.len() && from[c] == to[c] {
        c += 1;
    }
    let ups = from.len() - c;
    let mut parts: Vec<String> = vec!["..".to_string(); ups];
    parts.extend(to[c..].iter().cloned());
    let rel = parts.join("/");
    let subdirs: Vec<&VPath> = dirs.iter().filter(|d| d.len() == from.len() + 1 && d[..from.len()] == from[..]).collect();
    let w = match r.below(16) {
        0 | 1 => {
            tags.insert("written:absolute".into());
            vstr(to)
        }
        2 | 3 if ups == 0 => {
            tags.insert("written:./".into());
            format!("./{}", rel)
        }
        4 | 5 if from.len() > 1 => {
            tags.insert("written:../own-dir/".into());
            format!("../{}/{}", from[from.len() - 1], rel)
        }
        6 | 7 | 8 if !subdirs.is_empty() => {
            // down into an existing sub-directory and back up
            tags.insert("written:sub/../".into());
            let d = *r.pick(&subdirs);
            format!("{}/../{}", d[d.len() - 1], rel)
        }
        9 if ups > 0 => {
            tags.insert("written:.././".into());
            format!("{}/./{}", vec![".."; ups].join("/"), to[c..].join("/"))
        }
        _ => rel,
    };
    if w.split('/').any(|x| x == "..") {
        tags.insert("written:.. (the glob spelling is not the canonical path)".into());
    }
    w
}

/// One tree (kind 4) in which the same file is included twice or more in one load: from
/// different including files and from the same one, through canonical and non-canonical
/// spellings, literally and through a wildcard over a shared directory.  The files form a DAG
/// (a file includes only files created before it), so no include is a cycle; `ledger` is the
/// expansion computed here from the tree's construction, not by any loader.
fn gen_shared_tree(r: &mut Rng) -> (Tree, BTreeSet<String>) {
    const TOPS: [&[&str]; 9] = [&["r"], &["r", "2024"], &["r", "2024", "q1"], &["r", "sub"], &["r", "s.d"], &["r", "d e"], &["r", "2024", "é"], &["r", "lib"], &["r", ".cfg"]];
    loop {
        let mut tags: BTreeSet<String> = BTreeSet::new();
        let mut next_id = 1u64;
        // one entry in four is not a transaction (account, commodity, apply tag, end apply tag, comment)
        let every_kind = r.chance(2, 3);
        let dress = |r: &mut Rng, n: u64| -> u64 {
            if every_kind && r.chance(1, 4) {
                *r.pick(&[1u64, 2, 3, 4, 5][..]) * 1000 + n
            } else {
                n
            }
        };
        // leaves first, the root last
        let mut files: Vec<(VPath, Vec<AEntry>)> = Vec::new();
        let mut used: BTreeSet<VPath> = BTreeSet::new();
        let vp = |c: &[&str]| -> VPath { c.iter().map(|x| x.to_string()).collect() };
        // the shared directory: leaf files only, reachable one by one and through `pool/*.ledger`
        let pool: VPath = {
            let mut d = vp(*r.pick(&TOPS[..8]));
            d.push(r.pick(&["common", "shared", "c-1", "inc.d"][..]).to_string());
            d
        };
        let npool = 1 + r.below(3) as usize;
        let mut pool_names = ["common", "accounts", "a.b", "prices", "é", "0"].to_vec();
        r.shuffle(&mut pool_names);
        let mut pool_files: Vec<usize> = Vec::new();
        for name in &pool_names[..npool] {
            let mut p = pool.clone();
            p.push(format!("{}.ledger", name));
            used.insert(p.clone());
            let k = r.below(3);
            let es: Vec<AEntry> = (0..k)
                .map(|_| {
                    next_id += 1;
                    AEntry::Ent(dress(r, next_id - 1))
                })
                .collect();
            pool_files.push(files.len());
            files.push((p, es));
        }
        // a dot-file and a text file in the pool: never matched by the wildcard
        let mut hidden = pool.clone();
        hidden.push(".hidden.ledger".into());
        let mut other = pool.clone();
        other.push("notes.txt".into());
        let decoys: Vec<VPath> = vec![hidden, other];
        // the pool in the order the loader visits it
        let mut pool_sorted = pool_files.clone();
        pool_sorted.sort_by(|a, b| PathBuf::from(vstr(&files[*a].0)).cmp(&PathBuf::from(vstr(&files[*b].0))));
        let nmid = 1 + r.below(4) as usize;
        let mut dirs_planned: Vec<VPath> = (0..nmid + 1).map(|_| vp(*r.pick(&TOPS[..]))).collect();
        // sibling files that include the same thing from one directory: the shape of a yearly ledger
        if nmid >= 2 && r.chance(1, 2) {
            dirs_planned[1] = dirs_planned[0].clone();
        }
        let mut all_dirs: BTreeSet<VPath> = BTreeSet::new();
        for p in files.iter().map(|f| &f.0).chain(decoys.iter()) {
            for k in 1..p.len() {
                all_dirs.insert(p[..k].to_vec());
            }
        }
        for d in &dirs_planned {
            for k in 1..=d.len() {
                all_dirs.insert(d[..k].to_vec());
            }
        }
        for fi in 0..nmid + 1 {
            let is_root = fi == nmid;
            let dir = dirs_planned[fi].clone();
            let mut path = dir.clone();
            if is_root {
                path.push("main.ledger".into());
            } else {
                let name = format!("{}.ledger", r.pick(&["jan", "feb", "x", "a.b", "é", "m-1", ".m"][..]));
                path.push(name.clone());
                if used.contains(&path) {
                    path.pop();
                    path.push(format!("n{}{}", fi, name));
                }
            }
            used.insert(path.clone());
            let nfiles = files.len();
            let mut content: Vec<AEntry> = Vec::new();
            let items = 2 + r.below(4) as usize;
            let mut last_target: Option<usize> = None;
            for _ in 0..items {
                match r.below(10) {
                    0..=2 => {
                        content.push(AEntry::Ent(dress(r, next_id)));
                        next_id += 1;
                    }
                    3 | 4 => {
                        // the shared directory through a wildcard
                        let mut pat = pool.clone();
                        pat.push(r.pick(&["*.ledger", "*.ledge?", "?*.ledger"][..]).to_string());
                        let w = spell(r, &dir, &pat, &all_dirs, &mut tags);
                        tags.insert("repeat:wildcard over the shared directory".into());
                        content.push(AEntry::Inc(w));
                    }
                    5 if last_target.is_some() => {
                        // the file just included, once more from the same file
                        let j = last_target.unwrap();
                        let w = spell(r, &dir, &files[j].0.clone(), &all_dirs, &mut tags);
                        tags.insert("repeat:the same file twice from one file".into());
                        content.push(AEntry::Inc(w));
                    }
                    _ => {
                        // any file created before this one: a leaf of the pool or another including file
                        let j = if r.chance(1, 2) { *r.pick(&pool_files) } else { r.below(nfiles as u64) as usize };
                        let w = spell(r, &dir, &files[j].0.clone(), &all_dirs, &mut tags);
                        content.push(AEntry::Inc(w));
                        last_target = Some(j);
                    }
                }
            }
            if is_root {
                // the root reaches most including files directly
                for j in npool..nfiles {
                    if r.chance(3, 4) {
                        let w = spell(r, &dir, &files[j].0.clone(), &all_dirs, &mut tags);
                        let k = r.below(content.len() as u64 + 1) as usize;
                        content.insert(k, AEntry::Inc(w));
                    }
                }
            }
            files.push((path, content));
        }
        // The expected delivery: every written include resolved lexically against the tree as it
        // was constructed (no loader, no glob matcher involved); also how often each file is loaded.
        let index: HashMap<String, usize> = files.iter().enumerate().map(|(i, f)| (vstr(&f.0), i)).collect();
        let resolve = |dir: &VPath, w: &str| -> Vec<usize> {
            let mut comps: VPath = if w.starts_with('/') { Vec::new() } else { dir.clone() };
            for c in w.split('/') {
                match c {
                    "" | "." => {}
                    ".." => {
                        comps.pop();
                    }
                    x => comps.push(x.to_string()),
                }
            }
            let last = comps[comps.len() - 1].clone();
            if last.contains('*') || last.contains('?') {
                if comps[..comps.len() - 1] == pool[..] {
                    pool_sorted.clone()
                } else {
                    vec![]
                }
            } else {
                index.get(&vstr(&comps)).map(|i| vec![*i]).unwrap_or_default()
            }
        };
        let mut loads = vec![0usize; files.len()];
        let mut includers: Vec<BTreeSet<usize>> = vec![BTreeSet::new(); files.len()];
        let mut ok = true;
        fn walk(i: usize, files: &[(VPath, Vec<AEntry>)], resolve: &dyn Fn(&VPath, &str) -> Vec<usize>, loads: &mut Vec<usize>, includers: &mut Vec<BTreeSet<usize>>, out: &mut Vec<u64>, ok: &mut bool, depth: usize) {
            if depth > 12 || out.len() > 120 {
                *ok = false;
                return;
            }
            loads[i] += 1;
            let dir: VPath = files[i].0[..files[i].0.len() - 1].to_vec();
            for e in &files[i].1 {
                match e {
                    AEntry::Ent(id) | AEntry::Garbage(id) => out.push(*id),
                    AEntry::Inc(w) => {
                        let ts = resolve(&dir, w);
                        if ts.is_empty() {
                            *ok = false;
                        }
                        for j in ts {
                            includers[j].insert(i);
                            walk(j, files, resolve, loads, includers, out, ok, depth + 1);
                        }
                    }
                }
            }
        }
        let mut ledger: Vec<u64> = Vec::new();
        let root_i = files.len() - 1;
        walk(root_i, &files, &resolve, &mut loads, &mut includers, &mut ledger, &mut ok, 0);
        let repeated: Vec<usize> = (0..files.len()).filter(|i| loads[*i] >= 2).collect();
        if !ok || repeated.is_empty() || ledger.len() > 60 {
            continue;
        }
        if repeated.iter().any(|i| includers[*i].len() >= 2) {
            tags.insert("repeat:one file included from different files".into());
        }
        if repeated.iter().any(|i| !files[*i].1.iter().all(|e| matches!(e, AEntry::Ent(_)))) {
            tags.insert("repeat:a file that itself includes is loaded twice".into());
        }
        let most = *loads.iter().max().unwrap();
        tags.insert(format!("repeat:most loads of one file = {}", if most >= 5 { "5+".to_string() } else { most.to_string() }));
        // the root first, as in the other trees; decoys last
        files.reverse();
        for (k, d) in decoys.into_iter().enumerate() {
            files.push((d, vec![AEntry::Garbage(9500 + k as u64)]));
        }
        let mut root = files[0].0.clone();
        if root.len() > 2 && r.chance(1, 8) {
            let d = root[root.len() - 2].clone();
            let mut nr = root[..root.len() - 1].to_vec();
            nr.push("..".into());
            nr.push(d);
            nr.push("main.ledger".into());
            root = nr;
            tags.insert("root:non-canonical".into());
        }
        let dmode = [0u8, 0, 2][r.below(3) as usize];
        return (Tree { kind: 4, dmode, files, root, ledger }, tags);
    }
}

fn nontrivial(t: &Tree) -> bool {
    let loaded = t.files.iter().filter(|(_, es)| !es.iter().any(|e| matches!(e, AEntry::Garbage(_)))).count();
    let special = t.files.iter().any(|(_, es)| {
        es.iter().any(|e| matches!(e, AEntry::Inc(w) if w.contains('*') || w.contains('?') || w.contains('[') || w.split('/').any(|c| c == "..")))
    });
    loaded >= 2 && special
}

struct Pending {
    t: Tree,
    tags: BTreeSet<String>,
    source: String,
}

fn queue(q: &mut Vec<Pending>, _st: &mut Stats, t: Tree, tags: BTreeSet<String>, source: &str) {
    q.push(Pending { t, tags, source: source.to_string() });
}

fn flush(q: &mut Vec<Pending>, sh: &mut Shards, st: &mut Stats, dir: &Path) {
    for chunk in q.chunks(100) {
        let trees: Vec<&Tree> = chunk.iter().map(|p| &p.t).collect();
        let obs = observe_batch(dir, &trees);
        for (p, o) in chunk.iter().zip(obs.iter()) {
            record(sh, st, &p.t, o, &p.tags, &p.source);
        }
    }
    q.clear();
}

fn record(sh: &mut Shards, st: &mut Stats, t: &Tree, o: &Observed, tags: &BTreeSet<String>, source: &str) {
    st.eval(t, nontrivial(t));
    st.count(&format!("source:{}", source));
    st.count(&format!("kind:{}", ["cut of a ledger", "cut with an include that matches nothing", "free-form tree", "cut with an include whose pattern is invalid", "tree whose files are included repeatedly"][t.kind.min(4) as usize]));
    for tag in tags {
        st.count(&format!("trees with {}", tag));
    }
    let kinds: BTreeSet<u64> = t.ledger.iter().map(|id| ekind(*id)).collect();
    for k in &kinds {
        st.count(&format!("ledgers with entries of kind:{}", EKIND_NAMES[(*k as usize).min(5)]));
    }
    if kinds.len() >= 4 {
        st.count("ledgers with four or more kinds of entries");
    }
    st.count(&format!("dates:{}", ["all transactions on one day", "runs of three per day in ledger order", "day derived from the id (out of date order, several per day)"][t.dmode.min(2) as usize]));
    let mut split = false;
    let mut sameday_files = false;
    for (_, es) in t.files.iter().filter(|(_, es)| !es.iter().any(|e| matches!(e, AEntry::Garbage(_)))) {
        let mut depth = 0i64;
        for e in es {
            if let AEntry::Ent(id) = e {
                match ekind(*id) {
                    3 => depth += 1,
                    4 => {
                        depth -= 1;
                        if depth < 0 {
                            split = true;
                        }
                    }
                    _ => {}
                }
            }
        }
        if depth != 0 {
            split = true;
        }
    }
    if split {
        st.count("trees where a cut separates an apply tag from its end apply tag (some file is not balanced on its own)");
    }
    {
        // same-day transactions in different files
        let tx = Texts::of(t);
        let mut by_day: HashMap<String, BTreeSet<usize>> = HashMap::new();
        for (fi, (_, es)) in t.files.iter().enumerate() {
            for e in es {
                if let AEntry::Ent(id) = e {
                    if ekind(*id) == 0 {
                        by_day.entry(date_of(&tx, *id)).or_default().insert(fi);
                    }
                }
            }
        }
        if by_day.values().any(|fs| fs.len() >= 2) {
            sameday_files = true;
        }
    }
    if sameday_files {
        st.count("trees with transactions of one day in different files");
    }
    let nfiles = t.files.iter().filter(|(_, es)| !es.iter().any(|e| matches!(e, AEntry::Garbage(_)))).count();
    st.count(&format!("files (without decoys):{}", if nfiles >= 8 { "8+".to_string() } else { nfiles.to_string() }));
    st.add("decoy files (dot-files, deeper levels, other suffixes)", (t.files.len() - nfiles) as u64);
    st.count(&format!("impl:{}", ST_NAMES[(o.fake.st as usize).min(ST_NAMES.len() - 1)]));
    if o.fake.trace != o.real.trace || o.fake.st != o.real.st {
        st.count("impl:in-memory and real file system DISAGREE");
    }
    st.count(&format!("ledger entries:{}", t.ledger.len()));
    if st.samples.len() < 2 || (st.samples.len() < 5 && nontrivial(t) && t.files.len() <= 7 && source == "random") {
        st.sample(replay(t, o), 5);
    }
    sh.push(term(t, o), vec![replay(t, o)]);
}

pub fn run(o: &Opts) {
    let mut st = Stats::new();
    let mut sh = Shards::new(
        &o.out,
        o.shards,
        "From Coq Require Import List NArith.\nFrom Okv Require Import Model.Glob Model.Load Run.Classify_C11.\nImport ListNotations.\nOpen Scope N_scope.",
    );
    st.rule = "a case = a ledger of 0-10 identifiable transactions (each moves its own amount, so it is recognisable in the register; running balance assertions make the booking order matter; all on one day, in runs of three per day, or on days out of order) and, in two ledgers of three, every other kind of entry the parser knows (account and commodity directives with and without sub-lines and a blank line after them, top-level comments, apply tag ... end apply tag blocks around stretches of the ledger, nested or side by side, one in four left open or closed without an opening) cut at entry boundaries - also inside apply-tag blocks - into a random tree of files (depth <= 4; sub-directories, parent and sibling directories through .., ./, up-and-back and absolute written paths; literal includes; glob includes *.ledger, prefix*.ledger, ?.ledger, dir*/f.ledger and */f.ledger, and character classes: 202[345].ledger, 20[12][0-9].ledger, q[1-4].ledger, y[a-c][!0-9].ledger, [!a]*.ledger, *[!0-9].ledger, [st]*/f.ledger, d[0-9]/f.ledger, and the spellings []x], [a-], [!]], [*?], x[.-]y, [.a]b, []-a], [é日] — whose matches are assigned consecutive chunks in PathBuf order; decoy files that must not match: dot-files, deeper levels, other suffixes, characters just outside a class or range, the other letter case, a file named like the pattern itself; names with '.', '-', ' ', '+' and non-ASCII letters so that component order differs from string order), one sixth of them with one include changed to match nothing (also a class that matches nothing, an empty range), one in ten of the rest with one include given a `[` that is never closed (LoadError::InvalidIncludeGlob), one in twenty with an include back to the root (a cycle: LoadError::IncludeCycle); literal includes of dot-files (.x.ledger) and through dot directories (.cfg/x.ledger), never with a wildcard in the dotted component, and directories where `*.ledger` must skip a dot-file that a literal include beside it loads; plus trees (kind 4, a quarter of the run) in which one file is loaded twice or more — from sibling files, from the same file, nested — through `../common.ledger`, `./x.ledger`, `sub/../x.ledger`, `.././x`, `../own-dir/x`, absolute and plain spellings and through a wildcard over a shared directory, the expected delivery computed from the construction; loaded in child processes with Loader::load on FakeFileSystem and with new_loader on a real directory (every delivered entry identified by file, starting line, kind and the id it names), plus every report of the tree vs the uncut ledger: the sequence of Ledger::transactions() (compared inside Coq with the uncut ledger's and with the delivery order), their dates, the register of all postings and of one account with running totals, balance and account list through report::process / report::accounts on both file systems, and okane balance / register / register A / accounts / primitive flatten on the tree on disk against the same entries in one file on disk; non-trivial = at least 2 loaded files and at least one glob (wildcard or class) or .. include; distinct by the whole tree".into();
    st.assumptions.push("patterns use literals, *, ? and character classes [...] / [!...] (no **); no class lists the separator '/' and no pattern component that holds a wildcard or a class begins with a literal dot (on both the real file system differs from the in-memory one, see the level note); . and .. components occur only before the first wildcard component and never climb above the tree's top directory; no pattern's last component matches a directory; no symlinks, valid UTF-8 names and contents".into());
    let sc = Scratch::new("c11");
    let mut q: Vec<Pending> = Vec::new();
    let mut files: Vec<PathBuf> = Vec::new();
    let replay_only = if let Some(i) = o.extra.iter().position(|a| a == "--replay") {
        files.push(o.extra[i + 1].clone().into());
        true
    } else {
        if let Ok(rd) = std::fs::read_dir(&o.corpus) {
            files = rd.filter_map(|e| e.ok()).map(|e| e.path()).collect();
            files.sort();
        }
        false
    };
    for p in files {
        if let Ok(text) = std::fs::read_to_string(&p) {
            if let Ok(v) = serde_json::from_str::<Value>(&text) {
                if let Some(t) = from_json(&v) {
                    queue(&mut q, &mut st, t, BTreeSet::new(), "corpus");
                }
            }
        }
    }
    if !replay_only {
        let mut r = Rng::new(o.seed, 1111);
        let n = if o.thorough { 12000 } else { 1500 };
        for _ in 0..n {
            let (t, tags) = gen_tree(&mut r);
            queue(&mut q, &mut st, t, tags, "random");
        }
        let mut r = Rng::new(o.seed, 1112);
        let n = if o.thorough { 4000 } else { 500 };
        for _ in 0..n {
            let (t, tags) = gen_shared_tree(&mut r);
            queue(&mut q, &mut st, t, tags, "random (repeated includes)");
        }
    }
    flush(&mut q, &mut sh, &mut st, &sc.dir);
    sh.finish(&st);
}
