(* Model of report::price_db (core/src/report/price_db.rs): PriceRepositoryBuilder
   {insert_price, insert_impl, load_price_db, build}, NaivePriceRepository::compute_price_table,
   Distance / extend, PriceRepository::convert_single and convert_amount.
   Definitions only.  Dates are day numbers (Z), rates exact rationals (Qc); the Rust divides
   Decimals (28 significant digits) where the model divides exactly. *)
From Coq Require Import List NArith ZArith Bool QArith Qcanon.
From Okv Require Import Base.Maps Base.Dec Model.Amount Model.Book.
Import ListNotations.
Open Scope Qc_scope.

(* ---- records: HashMap<price_with, HashMap<price_of, Entry(source, Vec<(date, rate)>)>> ---- *)
Record pentry := { pe_source : source; pe_rates : list (Z * Qc) }.
Definition inner := amap pentry.
Definition records := amap inner.

(* PriceSource: Ledger < PriceDB (derive(Ord) on the declaration order) *)
Definition source_ltb (a b : source) : bool :=
  match a, b with SLedger, SPriceDB => true | _, _ => false end.

(* insert_impl(source, date, price_of = (oc, ov), price_with = (wc, wv)):
   records.entry(wc).or_default().entry(oc).or_insert(Entry(Ledger, [])); upgrade clears; push *)
Definition insert_impl (recs : records) (src : source) (date : Z) (oc : cid) (ov : Qc) (wc : cid) (wv : Qc) : records :=
  let inn := match get wc recs with Some i => i | None => [] end in
  let en := match get oc inn with Some e => e | None => {| pe_source := SLedger; pe_rates := [] |} end in
  let en' := if source_ltb (pe_source en) src
             then {| pe_source := src; pe_rates := [] |} else en in
  let en'' := {| pe_source := pe_source en'; pe_rates := pe_rates en' ++ [(date, wv / ov)] |} in
  set wc (set oc en'' inn) recs.

(* insert_price: events with a zero amount are ignored (fix e273d9f); a self-mention is
   only logged; both directions are stored *)
Definition insert_price (recs : records) (e : price_event) : records :=
  if qc_zero (e_xv e) || qc_zero (e_yv e) then recs else
  let r1 := insert_impl recs (e_source e) (e_date e) (e_xc e) (e_xv e) (e_yc e) (e_yv e) in
  insert_impl r1 (e_source e) (e_date e) (e_yc e) (e_yv e) (e_xc e) (e_xv e).

(* one line `P date target rate commodity` of the price DB file *)
Record pline := { pl_date : Z; pl_target : cid; pl_rate : Qc; pl_comm : cid }.
Definition pline_event (l : pline) : price_event :=
  {| e_source := SPriceDB; e_date := pl_date l; e_xc := pl_target l; e_xv := 1;
     e_yc := pl_comm l; e_yv := pl_rate l |}.
Definition load_price_db (recs : records) (ls : list pline) : records :=
  fold_left (fun r l => insert_price r (pline_event l)) ls recs.

(* ---- build: every (date, rate) vector sorted (derived Ord on the tuple) ---- *)
Definition dr_leb (a b : Z * Qc) : bool :=
  match (fst a ?= fst b)%Z with
  | Lt => true
  | Gt => false
  | Eq => match snd a ?= snd b with Gt => false | _ => true end
  end.
Fixpoint dr_insert (x : Z * Qc) (l : list (Z * Qc)) : list (Z * Qc) :=
  match l with
  | [] => [x]
  | y :: r => if dr_leb x y then x :: l else y :: dr_insert x r
  end.
Definition dr_sort (l : list (Z * Qc)) : list (Z * Qc) := fold_right dr_insert [] l.

Definition build (recs : records) : records :=
  map (fun wi => (fst wi,
                  map (fun oe => (fst oe, {| pe_source := pe_source (snd oe);
                                             pe_rates := dr_sort (pe_rates (snd oe)) |})) (snd wi)))
      recs.

(* the repository process() ends with: ledger events in order, then the price DB, then build *)
Definition repository (evs : list price_event) (db : list pline) : records :=
  build (load_price_db (fold_left insert_price evs []) db).

(* ---- lookup: partition_point(|(d, _)| d <= date), then the element before the bound ---- *)
(* partition_point on a vector: the result is the number of leading elements that satisfy the
   predicate when the vector is partitioned (which `build` guarantees); modelled as that count *)
Fixpoint partition_point {A} (p : A -> bool) (l : list A) : nat :=
  match l with
  | [] => O
  | x :: r => if p x then S (partition_point p r) else O
  end.
Definition as_of (rates : list (Z * Qc)) (date : Z) : option (Z * Qc) :=
  match partition_point (fun dr => (fst dr <=? date)%Z) rates with
  | O => None
  | S k => nth_error rates k
  end.

(* ---- Distance ---- *)
Record dist := { d_ledger : nat; d_all : nat; d_stale : Z }.
Definition dist0 : dist := {| d_ledger := 0; d_all := 0; d_stale := 0 |}.
(* derive(Ord): lexicographic in field order *)
Definition dist_cmp (a b : dist) : comparison :=
  match Nat.compare (d_ledger a) (d_ledger b) with
  | Eq => match Nat.compare (d_all a) (d_all b) with
          | Eq => (d_stale a ?= d_stale b)%Z
          | c => c
          end
  | c => c
  end.
Definition dist_ltb (a b : dist) : bool := match dist_cmp a b with Lt => true | _ => false end.
Definition dist_leb (a b : dist) : bool := match dist_cmp a b with Gt => false | _ => true end.
Definition extend (d : dist) (s : source) (staleness : Z) : dist :=
  {| d_ledger := d_ledger d + match s with SLedger => 1 | SPriceDB => 0 end;
     d_all := d_all d + 1;
     d_stale := Z.max (d_stale d) staleness |}.

(* ---- compute_price_table ---- *)
Definition label := (dist * Qc)%type.
Definition table := amap label.                          (* `distances` *)
Definition qitem := (dist * (cid * Qc))%type.            (* WithDistance(dist, (commodity, rate)) *)
Definition queue := list qitem.

(* BinaryHeap::pop: WHICH pending element comes out is a parameter (`choose` returns a position;
   past the end means the last one), so that statements hold for any heap order *)
Fixpoint take_at {A} (i : nat) (q : list A) {struct q} : option (A * list A) :=
  match q with
  | [] => None
  | x :: r => match i with
              | O => Some (x, r)
              | S k => match take_at k r with
                       | Some (y, r') => Some (y, x :: r')
                       | None => Some (x, r)
                       end
              end
  end.
Definition chooser := queue -> nat.

(* a max-heap: position of the (first) greatest distance *)
Fixpoint max_pos (best : dist) (bi i : nat) (q : queue) : nat :=
  match q with
  | [] => bi
  | x :: r => if dist_ltb best (fst x) then max_pos (fst x) i (S i) r else max_pos best bi (S i) r
  end.
Definition choose_max : chooser :=
  fun q => match q with [] => O | x :: r => max_pos (fst x) O 1 r end.

(* an edge out of the commodity being expanded: the latest record of (prev -> j) dated <= date *)
Record edge := { e_to : cid; e_src : source; e_stale : Z; e_rate : Qc }.
Definition edge_of (date : Z) (je : cid * pentry) : option edge :=
  match as_of (pe_rates (snd je)) date with
  | None => None                                        (* bound == 0: all records are in the future *)
  | Some (rd, rate) => Some {| e_to := fst je; e_src := pe_source (snd je);
                               e_stale := date - rd; e_rate := rate |}
  end.

(* body of `for (j, Entry(source, rates)) in records[prev]` for one j *)
Definition relax1 (cur : dist) (prev_rate : Qc) (tq : table * queue) (e : edge) : table * queue :=
  let '(t, q) := tq in
  let nd := extend cur (e_src e) (e_stale e) in
  let rate := prev_rate * e_rate e in
  let updated := match get (e_to e) t with
                 | Some (d0, _) => negb (dist_leb d0 nd)     (* `e.get() <= &next_dist` => false *)
                 | None => true
                 end in
  if updated then (set (e_to e) (nd, rate) t, q ++ [(nd, (e_to e, rate))]) else (t, q).

Definition relax (date : Z) (cur : dist) (prev_rate : Qc) (inn : inner) (tq : table * queue) : table * queue :=
  fold_left (fun tq je => match edge_of date je with
                          | None => tq
                          | Some e => relax1 cur prev_rate tq e
                          end) inn tq.

Inductive pt_outcome := PTDone (t : table) | PTOutOfFuel.

(* `while let Some(curr) = queue.pop()`; fuel counts iterations *)
Fixpoint pt_loop (fuel : nat) (choose : chooser) (recs : records) (date : Z) (t : table) (q : queue) : pt_outcome :=
  match take_at (choose q) q with
  | None => PTDone t
  | Some ((cd, (prev, prate)), q') =>
      match fuel with
      | O => PTOutOfFuel
      | S f =>
          if match get prev t with Some (pd, _) => dist_ltb pd cd | None => false end
          then pt_loop f choose recs date t q'
          else match get prev recs with
               | None => pt_loop f choose recs date t q'
               | Some inn => let '(t', q'') := relax date cd prate inn (t, q') in
                             pt_loop f choose recs date t' q''
               end
      end
  end.

Definition price_table (fuel : nat) (choose : chooser) (recs : records) (target : cid) (date : Z) : pt_outcome :=
  pt_loop fuel choose recs date [] [(dist0, (target, 1))].

(* ---- conversion ---- *)
Inductive conv_err := RateNotFound (c : cid) (v : Qc) (target : cid) (date : Z).
Inductive conv_outcome (A : Type) := COk (a : A) | CErr (e : conv_err) | COutOfFuel.
Arguments COk {A} a. Arguments CErr {A} e. Arguments COutOfFuel {A}.

(* PriceRepository::convert_single; the cache only memoises compute_price_table *)
Definition convert_single (fuel : nat) (choose : chooser) (recs : records)
           (c : cid) (v : Qc) (target : cid) (date : Z) : conv_outcome (cid * Qc) :=
  if (c =? target)%N then COk (c, v) else
  match price_table fuel choose recs target date with
  | PTOutOfFuel => COutOfFuel
  | PTDone t => match get c t with
                | Some (_, rate) => COk (target, v * rate)
                | None => CErr (RateNotFound c v target date)
                end
  end.

(* convert_amount: `for v in amount.iter() { result += convert_single(v)? }` *)
Fixpoint convert_amount_from (fuel : nat) (choose : chooser) (recs : records)
         (acc : amount) (a : amount) (target : cid) (date : Z) : conv_outcome amount :=
  match a with
  | [] => COk acc
  | (c, v) :: r =>
      match convert_single fuel choose recs c v target date with
      | COk (c', v') => convert_amount_from fuel choose recs (a_add1 acc c' v') r target date
      | CErr e => CErr e
      | COutOfFuel => COutOfFuel
      end
  end.
Definition convert_amount (fuel : nat) (choose : chooser) (recs : records)
           (a : amount) (target : cid) (date : Z) : conv_outcome amount :=
  convert_amount_from fuel choose recs a_zero a target date.

(* fuel used when the model is run: generous for the graphs of the correspondence check *)
Definition run_fuel : nat := 4096.
