(* C05 round trip: exchange ({...} / {{...}}), lot (price, date, note), cost (@ / @@) and the
   amount part of a posting. *)
From Coq Require Import List NArith ZArith Bool Lia Arith.
From Okv Require Import Model.Lit Model.LitSpec Model.Syntax Model.Comb Model.ParseExpr Model.ParseMeta
  Model.ParsePosting Model.Display Model.DocGrammar Model.RoundTripSpec
  Proofs.CombSpec Proofs.DocAccept Proofs.RoundTripBase Proofs.RoundTripNum Proofs.RoundTripExpr.
Import ListNotations.
Open Scope N_scope.

Definition xv (x : s_exchange) : s_vexpr := match x with STotal v => v | SRate v => v end.

Lemma show_vexpr_not_sp : forall v k, starts_not is_sp (show_vexpr v ++ k).
Proof. intros. rewrite <- pv_show. apply pv_not_sp. Qed.

Lemma show_vexpr_head : forall v, exists c r, show_vexpr v = c :: r /\ expr_head c.
Proof. intros v. rewrite <- pv_show. exact (proj1 pe_pv_head v). Qed.

Lemma expr_head_cases : forall c, expr_head c -> (c =? 123) = false /\ (c =? 64) = false /\ (c =? 40) = (c =? 40).
Proof.
  intros c [H | [-> | ->]]; [| repeat split | repeat split].
  unfold Lit.is_digit in H. apply andb_true_iff in H. destruct H as [H1 H2].
  apply N.leb_le in H1. apply N.leb_le in H2. repeat split; apply N.eqb_neq; lia.
Qed.

(* ---- lot price ---- *)
Lemma good_follow_close_brace : forall k, good_follow (125 :: k).
Proof. intros k. unfold good_follow. rewrite skip_sp_id by reflexivity. repeat split. Qed.

Lemma lot_amount_rate : forall fuel v k, wf_vexpr v = true -> (length (show_vexpr v) <= fuel)%nat ->
  exists v', lot_amount fuel (123 :: show_vexpr v ++ 125 :: k) = POk (SRate v') k /\ same_v v v'.
Proof.
  intros fuel v k W L.
  destruct (value_expr_fmt fuel v (125 :: k) W (good_follow_v _ _ (good_follow_close_brace k)) L)
    as (v' & E & Sv).
  exists v'. split; [| exact Sv].
  destruct (show_vexpr_head v) as (c & r & Ec & Hc). destruct (expr_head_cases c Hc) as (H1 & _).
  unfold lot_amount, bind.
  assert (P : literal [123; 123] (123 :: show_vexpr v ++ 125 :: k)
              = PErr false 0 (123 :: show_vexpr v ++ 125 :: k)).
  { rewrite Ec. unfold literal. cbn [app strip_prefix]. rewrite N.eqb_refl, (N.eqb_sym 123 c), H1. reflexivity. }
  rw (has_peek_false _ _ _ _ _ P).
  apply pmap_ok. unfold delimited, bind.
  change (123 :: show_vexpr v ++ 125 :: k) with ([123] ++ show_vexpr v ++ 125 :: k).
  rw (literal_app [123] (show_vexpr v ++ 125 :: k)).
  rw (space0_none _ (show_vexpr_not_sp v (125 :: k))). rw E.
  rewrite (rest_v_nosp v (125 :: k)) by reflexivity.
  rw (space0_none (125 :: k) ltac:(reflexivity)).
  change (125 :: k) with ([125] ++ k). rw (literal_app [125] k). reflexivity.
Qed.

Lemma lot_amount_total : forall fuel v k, wf_vexpr v = true -> (length (show_vexpr v) <= fuel)%nat ->
  exists v', lot_amount fuel (123 :: 123 :: show_vexpr v ++ 125 :: 125 :: k) = POk (STotal v') k /\ same_v v v'.
Proof.
  intros fuel v k W L.
  destruct (value_expr_fmt fuel v (125 :: 125 :: k) W
              (good_follow_v _ _ (good_follow_close_brace (125 :: k))) L) as (v' & E & Sv).
  exists v'. split; [| exact Sv].
  unfold lot_amount, bind.
  assert (P : literal [123; 123] (123 :: 123 :: show_vexpr v ++ 125 :: 125 :: k)
              = POk [123; 123] (show_vexpr v ++ 125 :: 125 :: k)) by reflexivity.
  rw (has_peek_true _ _ _ _ _ P).
  apply pmap_ok. unfold delimited, bind. rw P.
  rw (space0_none _ (show_vexpr_not_sp v (125 :: 125 :: k))). rw E.
  rewrite (rest_v_nosp v (125 :: 125 :: k)) by reflexivity.
  rw (space0_none (125 :: 125 :: k) ltac:(reflexivity)).
  change (125 :: 125 :: k) with ([125; 125] ++ k). rw (literal_app [125; 125] k). reflexivity.
Qed.

Definition print_price (p : option s_exchange) : str :=
  match p with
  | Some (STotal e) => [32; 123; 123] ++ show_vexpr e ++ [125; 125]
  | Some (SRate e) => [32; 123] ++ show_vexpr e ++ [125]
  | None => []
  end.
Definition print_ldate (d : option Syntax.date) : str :=
  match d with Some d => [32; 91] ++ fmt_date d ++ [93] | None => [] end.
Definition print_note (n : option str) : str :=
  match n with Some n => [32; 40] ++ n ++ [41] | None => [] end.

Lemma print_lot_parts : forall l,
  print_lot l = print_price (lot_price l) ++ print_ldate (lot_date l) ++ print_note (lot_note l).
Proof. reflexivity. Qed.

(* ---- the loop, stage by stage ---- *)
Lemma lot_loop_done : forall fuel n l psp i, starts_not is_lot_open i ->
  lot_loop fuel (S n) l psp i = POk (l, psp) i.
Proof.
  intros fuel n l psp [| c r] H; [reflexivity |]. simpl in H. unfold is_lot_open in H.
  apply orb_false_iff in H. destruct H as [H H3]. apply orb_false_iff in H. destruct H as [H1 H2].
  cbn [lot_loop]. rewrite H3, H2, H1. reflexivity.
Qed.

Lemma lot_loop_brace : forall fuel n l psp r, lot_price l = None ->
  lot_loop fuel (S n) l psp (123 :: r) =
  (pr <- with_span (lot_amount fuel) ;;
   space0 ;;;
   lot_loop fuel n {| lot_price := Some (fst pr); lot_date := lot_date l; lot_note := lot_note l |}
            (Some (snd pr))) (123 :: r).
Proof. intros. cbn [lot_loop]. rewrite N.eqb_refl. cbv iota. rewrite H. reflexivity. Qed.

Lemma lot_loop_bracket : forall fuel n l psp r, lot_date l = None ->
  lot_loop fuel (S n) l psp (91 :: r) =
  (d <- delimited (chr 91 ;;; space0) ParseExpr.date (space0 ;;; chr 93) ;;
   space0 ;;;
   lot_loop fuel n {| lot_price := lot_price l; lot_date := Some d; lot_note := lot_note l |} psp) (91 :: r).
Proof.
  intros. cbn [lot_loop]. change (91 =? 123) with false. rewrite N.eqb_refl. cbv iota. rewrite H. reflexivity.
Qed.

Lemma lot_loop_paren : forall fuel n l psp r, lot_note l = None ->
  lot_loop fuel (S n) l psp (40 :: r) =
  (nt <- paren (take_till0 is_note_stop) ;;
   space0 ;;;
   lot_loop fuel n {| lot_price := lot_price l; lot_date := lot_date l; lot_note := Some nt |} psp) (40 :: r).
Proof.
  intros. cbn [lot_loop]. change (40 =? 123) with false. change (40 =? 91) with false.
  rewrite N.eqb_refl. cbv iota. rewrite H. reflexivity.
Qed.

Lemma stage_note : forall fuel n l psp nt k,
  lot_note l = None -> opt_all wf_note nt = true -> starts_not is_lot_open (skip_sp k) ->
  lot_loop fuel (S (S n)) l psp (skip_sp (print_note nt ++ k))
  = POk ({| lot_price := lot_price l; lot_date := lot_date l; lot_note := nt |}, psp) (skip_sp k).
Proof.
  intros fuel n l psp [nt |] k Hl W F.
  - unfold print_note. rewrite <- !app_assoc. cbn [app]. rewrite skip_sp_cons, skip_sp_id by reflexivity.
    rewrite (lot_loop_paren fuel (S n) l psp _ Hl). unfold bind, paren, delimited, bind.
    rw (chr_ok 40 (nt ++ 41 :: k)).
    rw (take_till0_ok is_note_stop nt (41 :: k) W ltac:(reflexivity)).
    rw (chr_ok 41 k). unfold ret at 1. cbv beta iota.
    destruct (space0_skip k) as [s Es]. rw Es.
    apply lot_loop_done. exact F.
  - cbn [print_note app]. rewrite lot_loop_done by exact F.
    destruct l; cbn in *; subst; reflexivity.
Qed.

Lemma stage_date : forall fuel n l psp dt nt k,
  lot_date l = None -> lot_note l = None -> opt_all wf_date dt = true -> opt_all wf_note nt = true ->
  starts_not is_lot_open (skip_sp k) ->
  lot_loop fuel (S (S (S n))) l psp (skip_sp (print_ldate dt ++ print_note nt ++ k))
  = POk ({| lot_price := lot_price l; lot_date := dt; lot_note := nt |}, psp) (skip_sp k).
Proof.
  intros fuel n l psp [dt |] nt k Hd Hn Wd Wn F.
  - unfold print_ldate. rewrite <- !app_assoc. cbn [app]. rewrite skip_sp_cons, skip_sp_id by reflexivity.
    rewrite (lot_loop_bracket fuel (S (S n)) l psp _ Hd). unfold bind, delimited, bind.
    rw (chr_ok 91 (fmt_date dt ++ 93 :: print_note nt ++ k)).
    assert (Dn : starts_not is_sp (fmt_date dt ++ 93 :: print_note nt ++ k)).
    { rewrite (fmt_date_wf dt Wd).
      pose proof (pad_digits_ne 4 (Z.to_N (d_year dt))) as Ne.
      pose proof (pad_digits_all 4 (Z.to_N (d_year dt))) as Al.
      destruct (pad_zeros 4 (digits_of (Z.to_N (d_year dt)))) as [| c r]; [congruence |].
      apply all_cons in Al. destruct Al as [Hc _]. cbn [app]. simpl.
      apply expr_head_not_sp. left. exact Hc. }
    rw (space0_none _ Dn).
    rw (date_fmt dt (93 :: print_note nt ++ k) Wd ltac:(reflexivity)).
    rw (space0_none (93 :: print_note nt ++ k) ltac:(reflexivity)).
    rw (chr_ok 93 (print_note nt ++ k)). unfold ret at 1. cbv beta iota.
    destruct (space0_skip (print_note nt ++ k)) as [s Es]. rw Es.
    rewrite (stage_note fuel n {| lot_price := lot_price l; lot_date := Some dt; lot_note := lot_note l |}
               psp nt k Hn Wn F). reflexivity.
  - cbn [print_ldate app]. rewrite (stage_note fuel (S n) l psp nt k Hn Wn F).
    rewrite Hd. reflexivity.
Qed.

Lemma stage_price : forall fuel n l psp pr dt nt k,
  lot_price l = None -> lot_date l = None -> lot_note l = None ->
  opt_all wf_exchange pr = true -> opt_all wf_date dt = true -> opt_all wf_note nt = true ->
  starts_not is_lot_open (skip_sp k) ->
  (length (print_price pr) <= fuel)%nat ->
  exists pr' psp',
    lot_loop fuel (S (S (S (S n)))) l psp (skip_sp (print_price pr ++ print_ldate dt ++ print_note nt ++ k))
    = POk ({| lot_price := pr'; lot_date := dt; lot_note := nt |}, psp') (skip_sp k) /\
    same_opt same_exchange pr pr'.
Proof.
  intros fuel n l psp pr dt nt k Hp Hd Hn Wp Wd Wn F L.
  destruct pr as [[v | v] |].
  - (* {{ total }} *)
    cbn [opt_all wf_exchange] in Wp. unfold print_price in *. rewrite <- !app_assoc. cbn [app].
    assert (Lv : (length (show_vexpr v) <= fuel)%nat) by (cbn [app length] in L; rewrite ?app_length in L; lia).
    destruct (lot_amount_total fuel v (print_ldate dt ++ print_note nt ++ k) Wp Lv) as (v' & E & Sv).
    eexists (Some (STotal v')), _. split; [| exact Sv].
    rewrite skip_sp_cons, skip_sp_id by reflexivity.
    rewrite (lot_loop_brace fuel (S (S (S n))) l psp _ Hp). unfold bind.
    rw (with_span_ok _ _ _ _ _ E).
    destruct (space0_skip (print_ldate dt ++ print_note nt ++ k)) as [s Es]. rw Es.
    cbn [fst snd].
    rewrite (stage_date fuel n {| lot_price := Some (STotal v'); lot_date := lot_date l; lot_note := lot_note l |}
               _ dt nt k Hd Hn Wd Wn F). reflexivity.
  - (* { rate } *)
    cbn [opt_all wf_exchange] in Wp. unfold print_price in *. rewrite <- !app_assoc. cbn [app].
    assert (Lv : (length (show_vexpr v) <= fuel)%nat) by (cbn [app length] in L; rewrite ?app_length in L; lia).
    destruct (lot_amount_rate fuel v (print_ldate dt ++ print_note nt ++ k) Wp Lv) as (v' & E & Sv).
    eexists (Some (SRate v')), _. split; [| exact Sv].
    rewrite skip_sp_cons, skip_sp_id by reflexivity.
    rewrite (lot_loop_brace fuel (S (S (S n))) l psp _ Hp). unfold bind.
    rw (with_span_ok _ _ _ _ _ E).
    destruct (space0_skip (print_ldate dt ++ print_note nt ++ k)) as [s Es]. rw Es.
    cbn [fst snd].
    rewrite (stage_date fuel n {| lot_price := Some (SRate v'); lot_date := lot_date l; lot_note := lot_note l |}
               _ dt nt k Hd Hn Wd Wn F). reflexivity.
  - exists None, psp. split; [| exact I]. cbn [print_price app].
    rewrite (stage_date fuel (S n) l psp dt nt k Hd Hn Wd Wn F). rewrite Hp. reflexivity.
Qed.

Theorem lot_fmt : forall fuel l k, wf_lot l = true -> starts_not is_lot_open (skip_sp k) ->
  (length (print_lot l) <= fuel)%nat ->
  exists l' psp, lot fuel (print_lot l ++ k) = POk (l', psp) (skip_sp k) /\ same_lot l l'.
Proof.
  intros fuel [pr dt nt] k W F L. unfold wf_lot in W. cbn [lot_price lot_date lot_note] in W.
  rewrite !andb_true_iff in W. destruct W as [[Wp Wd] Wn].
  rewrite print_lot_parts in *. cbn [lot_price lot_date lot_note] in *.
  assert (Lp : (length (print_price pr) <= fuel)%nat) by (rewrite app_length in L; lia).
  destruct (stage_price fuel 0 {| lot_price := None; lot_date := None; lot_note := None |} None
              pr dt nt k eq_refl eq_refl eq_refl Wp Wd Wn F Lp) as (pr' & psp' & E & Sv).
  exists {| lot_price := pr'; lot_date := dt; lot_note := nt |}, psp'. split.
  - unfold lot, bind. rewrite <- !app_assoc.
    destruct (space0_skip (print_price pr ++ print_ldate dt ++ print_note nt ++ k)) as [s Es]. rw Es.
    exact E.
  - unfold same_lot. cbn [lot_price lot_date lot_note]. auto.
Qed.

(* ---- cost ---- *)
Definition rest_cost (c : option s_exchange) (k : str) : str :=
  match c with Some x => rest_vexpr (xv x) k | None => skip_sp k end.

Definition cost_parser (fuel : nat) : parser (option (s_exchange * rspan)) :=
  is_at <- has_peek (chr 64) ;;
  is_double_at <- has_peek (literal [64; 64]) ;;
  cond is_at (with_span (cond_else is_double_at (total_cost fuel) (rate_cost fuel))).

Lemma cost_fmt : forall fuel c k, opt_all wf_exchange c = true ->
  (match c with Some x => follow_v (xv x) k | None => starts_not (N.eqb 64) (skip_sp k) end) ->
  (length (print_cost c) <= fuel)%nat ->
  exists c', cost_parser fuel (skip_sp (print_cost c ++ k)) = POk c' (rest_cost c k) /\
             same_opt same_exchange c (option_map fst c').
Proof.
  intros fuel [[v | v] |] k W F L; cbn [opt_all wf_exchange xv] in *.
  - (* @@ total *)
    cbn [print_cost] in *. rewrite <- !app_assoc. cbn [app].
    assert (Lv : (length (show_vexpr v) <= fuel)%nat) by (cbn [app length] in L; rewrite ?app_length in L; lia).
    destruct (value_expr_fmt fuel v k W F Lv) as (v' & E & Sv).
    rewrite skip_sp_cons, skip_sp_id by reflexivity.
    eexists (Some (STotal v', _)). split; [| exact Sv].
    unfold cost_parser, bind.
    rw (has_peek_true _ _ _ _ _ (chr_ok 64 (64 :: 32 :: show_vexpr v ++ k))).
    assert (P : literal [64; 64] (64 :: 64 :: 32 :: show_vexpr v ++ k) = POk [64; 64] (32 :: show_vexpr v ++ k))
      by reflexivity.
    rw (has_peek_true _ _ _ _ _ P).
    unfold cond, cond_else. apply pmap_ok. apply with_span_ok.
    unfold total_cost. apply pmap_ok. unfold preceded, bind. rw P.
    change (32 :: show_vexpr v ++ k) with ([32] ++ show_vexpr v ++ k).
    rw (space0_ok [32] (show_vexpr v ++ k) ltac:(reflexivity) (show_vexpr_not_sp v k)).
    exact E.
  - (* @ rate *)
    cbn [print_cost] in *. rewrite <- !app_assoc. cbn [app].
    assert (Lv : (length (show_vexpr v) <= fuel)%nat) by (cbn [app length] in L; rewrite ?app_length in L; lia).
    destruct (value_expr_fmt fuel v k W F Lv) as (v' & E & Sv).
    rewrite skip_sp_cons, skip_sp_id by reflexivity.
    eexists (Some (SRate v', _)). split; [| exact Sv].
    unfold cost_parser, bind.
    rw (has_peek_true _ _ _ _ _ (chr_ok 64 (32 :: show_vexpr v ++ k))).
    assert (P : literal [64; 64] (64 :: 32 :: show_vexpr v ++ k) = PErr false 0 (64 :: 32 :: show_vexpr v ++ k))
      by reflexivity.
    rw (has_peek_false _ _ _ _ _ P).
    unfold cond, cond_else. apply pmap_ok. apply with_span_ok.
    unfold rate_cost. apply pmap_ok. unfold preceded, bind.
    change (64 :: 32 :: show_vexpr v ++ k) with ([64] ++ 32 :: show_vexpr v ++ k).
    rw (literal_app [64] (32 :: show_vexpr v ++ k)).
    change (32 :: show_vexpr v ++ k) with ([32] ++ show_vexpr v ++ k).
    rw (space0_ok [32] (show_vexpr v ++ k) ltac:(reflexivity) (show_vexpr_not_sp v k)).
    exact E.
  - exists None. split; [| exact I]. cbn [print_cost app rest_cost].
    unfold cost_parser, bind.
    rw (has_peek_false _ _ _ _ _ (chr_fail 64 (skip_sp k) F)).
    assert (P : literal [64; 64] (skip_sp k) = PErr false 0 (skip_sp k)) by (apply literal_fail1; exact F).
    rw (has_peek_false _ _ _ _ _ P). reflexivity.
Qed.

(* ---- the amount part of a posting: amount, lot, cost ---- *)
Definition print_pa (pa : s_posting_amount) : str :=
  show_vexpr (pa_amount pa) ++ print_lot (pa_lot pa) ++ print_cost (pa_cost pa).

Definition rest_pa (pa : s_posting_amount) (k : str) : str := rest_cost (pa_cost pa) k.

Lemma skip_rest_pa : forall pa k, skip_sp (rest_pa pa k) = skip_sp k.
Proof.
  intros pa k. unfold rest_pa, rest_cost. destruct (pa_cost pa); [apply skip_rest_v | apply skip_sp_idem].
Qed.

Definition is_pa_stop (c : N) : bool := is_lot_open c || (c =? 64).

Definition follow_pa (k : str) : Prop := good_follow k /\ starts_not is_pa_stop (skip_sp k).

Lemma good_follow_sp_punct : forall c x, is_non_commodity c = true -> is_sp c = false ->
  good_follow (32 :: c :: x).
Proof.
  intros c x H Hs. unfold good_follow. rewrite skip_sp_cons, skip_sp_id by exact Hs.
  repeat split; simpl; rewrite ?H; reflexivity.
Qed.

Lemma pa_stop_split : forall i, starts_not is_pa_stop i -> starts_not is_lot_open i /\ starts_not (N.eqb 64) i.
Proof.
  intros [| c r] H; [split; exact I |]. unfold starts_not in *. unfold is_pa_stop in H. apply orb_false_iff in H.
  destruct H as [H1 H2]. split; [exact H1 | rewrite N.eqb_sym; exact H2].
Qed.

(* the text after the amount: lot, cost, then k *)
Lemma after_amount_good : forall l c k, good_follow k -> good_follow (print_lot l ++ print_cost c ++ k).
Proof.
  intros [pr dt nt] c k G. rewrite print_lot_parts. cbn [lot_price lot_date lot_note].
  destruct pr as [[v | v] |]; cbn [print_price]; rewrite <- ?app_assoc; cbn [app];
    try (apply good_follow_sp_punct; reflexivity).
  destruct dt; cbn [print_ldate]; rewrite <- ?app_assoc; cbn [app];
    try (apply good_follow_sp_punct; reflexivity).
  destruct nt; cbn [print_note]; rewrite <- ?app_assoc; cbn [app];
    try (apply good_follow_sp_punct; reflexivity).
  destruct c as [[v | v] |]; cbn [print_cost]; rewrite <- ?app_assoc; cbn [app];
    try (apply good_follow_sp_punct; reflexivity).
  exact G.
Qed.

Lemma after_lot_no_open : forall c k, starts_not is_pa_stop (skip_sp k) ->
  starts_not is_lot_open (skip_sp (print_cost c ++ k)).
Proof.
  intros [[v | v] |] k F; cbn [print_cost]; rewrite <- ?app_assoc; cbn [app].
  - rewrite skip_sp_cons, skip_sp_id by reflexivity. reflexivity.
  - rewrite skip_sp_cons, skip_sp_id by reflexivity. reflexivity.
  - apply (pa_stop_split _ F).
Qed.

Theorem posting_amount_fmt : forall fuel pa k,
  wf_posting_amount pa = true -> follow_pa k -> (length (print_pa pa) <= fuel)%nat ->
  exists pa' sps, posting_amount fuel (print_pa pa ++ k) = POk (pa', sps) (rest_pa pa k) /\
                  same_posting_amount pa pa'.
Proof.
  intros fuel [am co lt] k W [G F] L. unfold wf_posting_amount in W. cbn [pa_amount pa_cost pa_lot] in W.
  rewrite !andb_true_iff in W. destruct W as [[Wa Wc] Wl].
  unfold print_pa, rest_pa in *. cbn [pa_amount pa_cost pa_lot] in *.
  rewrite !app_length in L.
  destruct (value_expr_fmt fuel am (print_lot lt ++ print_cost co ++ k) Wa
              (good_follow_v _ _ (after_amount_good lt co k G)) ltac:(lia)) as (am' & Ea & Sa).
  destruct (lot_fmt fuel lt (print_cost co ++ k) Wl (after_lot_no_open co k F) ltac:(lia))
    as (lt' & psp & El & Sl).
  destruct (cost_fmt fuel co k Wc
              ltac:(destruct co as [x |]; [apply good_follow_v; exact G | apply (pa_stop_split _ F)])
              ltac:(lia)) as (co' & Ec & Sc).
  exists {| pa_amount := am'; pa_cost := option_map fst co'; pa_lot := lt' |}.
  eexists. split; [| unfold same_posting_amount; cbn [pa_amount pa_cost pa_lot]; auto].
  unfold posting_amount. rewrite <- !app_assoc. unfold terminated, bind.
  rw (with_span_ok _ _ _ _ _ Ea).
  destruct (space0_skip (rest_vexpr am (print_lot lt ++ print_cost co ++ k))) as [s Es]. rw Es.
  unfold ret at 1. cbv beta iota.
  rewrite skip_rest_v.
  (* lot starts with space0: feeding it the input without its leading blanks is the same *)
  assert (El' : lot fuel (skip_sp (print_lot lt ++ print_cost co ++ k)) = POk (lt', psp) (skip_sp (print_cost co ++ k))).
  { unfold lot, bind in *. destruct (space0_skip (skip_sp (print_lot lt ++ print_cost co ++ k))) as [s1 Es1].
    rewrite Es1. rewrite skip_sp_idem.
    destruct (space0_skip (print_lot lt ++ print_cost co ++ k)) as [s2 Es2]. rewrite Es2 in El. exact El. }
  rw El'.
  fold (cost_parser fuel). unfold cost_parser in *. unfold bind in *.
  destruct (has_peek (chr 64) (skip_sp (print_cost co ++ k))) as [b1 r1 | | |]; try discriminate.
  destruct (has_peek (literal [64; 64]) r1) as [b2 r2 | | |]; try discriminate.
  rewrite Ec. reflexivity.
Qed.
