(* C05 round trip: the posting (indent, clear mark, account, padding, amount, lot, cost,
   balance assertion, metadata lines). *)
From Coq Require Import List NArith ZArith Bool Lia Arith.
From Okv Require Import Model.Lit Model.LitSpec Model.Syntax Model.Comb Model.ParseExpr Model.ParseMeta
  Model.ParsePosting Model.ParseTxn Model.Display Model.DocGrammar Model.RoundTripSpec
  Proofs.CombSpec Proofs.DocAccept Proofs.DisplayLayout Proofs.RoundTripBase Proofs.RoundTripNum
  Proofs.RoundTripExpr Proofs.RoundTripLot Proofs.RoundTripMeta.
Import ListNotations.
Open Scope N_scope.

(* ---- the account ---- *)
Definition nonstop (c : N) : bool := negb (is_account_stop c).

Definition acc_word : parser (list N) := opt (literal [32]) ;;; take_till1 is_account_stop.
Definition acc_end : parser unit :=
  peek (alt (void (literal [32; 32]))
            (alt (void (taken (opt (literal [32]) ;;; one_of is_account_term))) eof)).

(* what may follow an account: the end of the text, two blanks, or a tab ; CR LF *)
Definition follow_account (k : str) : Prop :=
  k = [] \/ (exists r, k = 32 :: 32 :: r) \/ starts is_account_term k = true.

Lemma term_is_stop : forall c, is_account_term c = true -> is_account_stop c = true.
Proof.
  intros c H. unfold is_account_term in H. unfold is_account_stop.
  repeat (apply orb_true_iff in H; destruct H as [H | H]); rewrite H; repeat rewrite orb_true_r; reflexivity.
Qed.

Lemma follow_account_stop : forall k, follow_account k -> starts_not nonstop k.
Proof.
  intros k [-> | [[r ->] | H]]; [exact I | reflexivity |].
  destruct k as [| c r]; [discriminate |]. simpl in *. unfold nonstop. rewrite (term_is_stop c H). reflexivity.
Qed.

Lemma acc_end_ok : forall k, follow_account k -> acc_end k = POk tt k.
Proof.
  intros k [-> | [[r ->] | H]]; [reflexivity | reflexivity |].
  destruct k as [| c r]; [discriminate |]. simpl in H.
  assert (N32 : (32 =? c) = false).
  { unfold is_account_term in H. destruct (N.eqb_spec 32 c); [subst; discriminate | reflexivity]. }
  assert (P1 : void (literal [32; 32]) (c :: r) = PErr false 0 (c :: r)).
  { unfold void. apply bind_err. apply literal_fail1. exact N32. }
  assert (E2 : taken (opt (literal [32]) ;;; one_of is_account_term) (c :: r) = POk [c] r).
  { change (c :: r) with ([c] ++ r). eapply taken_ok. unfold bind.
    rewrite (opt_none _ (literal [32]) ([c] ++ r) 0 ([c] ++ r)) by (apply literal_fail1; exact N32).
    apply one_of_ok. exact H. }
  assert (P2 : void (taken (opt (literal [32]) ;;; one_of is_account_term)) (c :: r) = POk tt r).
  { unfold void. rewrite (bind_ok _ _ _ _ _ _ _ E2). reflexivity. }
  unfold acc_end, peek. rewrite (alt_r _ _ _ _ _ _ P1). rewrite (alt_l _ _ _ _ _ _ P2). reflexivity.
Qed.

(* inside the account: a single blank followed by a word character does not end it *)
Lemma acc_end_blank : forall d r, nonstop d = true -> exists l x, acc_end (32 :: d :: r) = PErr false l x.
Proof.
  intros d r H. unfold nonstop in H. apply negb_true_iff in H.
  assert (Hd : (32 =? d) = false /\ is_account_term d = false).
  { unfold is_account_stop in H. unfold is_account_term.
    repeat (apply orb_false_iff in H; destruct H as [H ?]).
    repeat split; [rewrite N.eqb_sym; assumption |].
    repeat (apply orb_false_iff; split); assumption. }
  destruct Hd as [D1 D2].
  assert (P1 : void (literal [32; 32]) (32 :: d :: r) = PErr false 0 (32 :: d :: r)).
  { unfold void. apply bind_err. unfold literal. cbn [strip_prefix]. rewrite N.eqb_refl, D1. reflexivity. }
  assert (P2 : void (taken (opt (literal [32]) ;;; one_of is_account_term)) (32 :: d :: r) = PErr false 0 (d :: r)).
  { unfold void. apply bind_err. unfold taken, bind.
    assert (O : opt (literal [32]) (32 :: d :: r) = POk (Some [32]) (d :: r)) by reflexivity.
    rewrite O. rewrite (one_of_fail is_account_term (d :: r)) by exact D2. reflexivity. }
  unfold acc_end, peek. rewrite (alt_r _ _ _ _ _ _ P1). rewrite (alt_r _ _ _ _ _ _ P2). cbn [eof]. eauto.
Qed.

(* the maximal word at the start of an account tail *)
Lemma acct_tail_word : forall s, acct_tail s = true ->
  exists w s', s = w ++ s' /\ all nonstop w /\ acct_tail s' = true /\
               (s' = [] \/ exists d r, s' = 32 :: d :: r /\ nonstop d = true).
Proof.
  induction s as [| c r IH]; intros H.
  - exists [], []. repeat split; auto.
  - cbn [acct_tail] in H. destruct (N.eqb_spec c 32) as [-> | Hc].
    + exists [], (32 :: r). split; [reflexivity |]. split; [reflexivity |]. split; [exact H |].
      right. destruct r as [| d r']; [discriminate |]. apply andb_true_iff in H. destruct H as [Hd _].
      exists d, r'. split; [reflexivity | exact Hd].
    + apply andb_true_iff in H. destruct H as [Hn Ht].
      destruct (IH Ht) as (w & s' & E & Hw & Ht' & Hs'). exists (c :: w), s'.
      split; [rewrite E; reflexivity |]. split; [apply all_cons; split; assumption |]. auto.
Qed.

Lemma acc_word_ok : forall w x, w <> [] -> all nonstop w -> starts_not nonstop x -> starts_not (N.eqb 32) w ->
  acc_word (w ++ x) = POk w x.
Proof.
  intros w x Hne Hw Hx H32. unfold acc_word, bind.
  destruct w as [| c w']; [congruence |].
  rewrite (opt_none _ (literal [32]) ((c :: w') ++ x) 0 ((c :: w') ++ x))
    by (apply literal_fail1; exact H32).
  apply take_till1_ok; auto.
Qed.

Lemma acc_word_blank_ok : forall w x, w <> [] -> all nonstop w -> starts_not nonstop x ->
  acc_word (32 :: w ++ x) = POk w x.
Proof.
  intros w x Hne Hw Hx. unfold acc_word, bind.
  assert (O : opt (literal [32]) (32 :: w ++ x) = POk (Some [32]) (w ++ x)) by reflexivity.
  rewrite O. apply take_till1_ok; auto.
Qed.

Lemma tail_follow_stop : forall s' k, (s' = [] \/ exists d r, s' = 32 :: d :: r /\ nonstop d = true) ->
  follow_account k -> starts_not nonstop (s' ++ k).
Proof.
  intros s' k [-> | (d & r & -> & _)] F; [apply follow_account_stop; exact F | reflexivity].
Qed.

Lemma acc_loop : forall n s k fuel, (length s <= n)%nat -> (length s <= fuel)%nat ->
  acct_tail s = true -> (s = [] \/ exists d r, s = 32 :: d :: r /\ nonstop d = true) ->
  follow_account k ->
  repeat_till_loop fuel acc_word acc_end (s ++ k) = POk tt k.
Proof.
  induction n as [| n IH]; intros s k fuel Ln Lf T B F.
  - destruct s; [| simpl in Ln; lia]. destruct fuel; simpl; rewrite (acc_end_ok k F); reflexivity.
  - destruct B as [-> | (d & r & -> & Hd)].
    + destruct fuel; simpl; rewrite (acc_end_ok k F); reflexivity.
    + cbn [acct_tail] in T. rewrite N.eqb_refl in T. apply andb_true_iff in T. destruct T as [_ T].
      destruct (acct_tail_word (d :: r) T) as (w & s' & E & Hw & Ts' & Bs').
      assert (Wne : w <> []).
      { intros ->. simpl in E. subst s'. destruct Bs' as [Bs' | (d' & r' & Bs' & _)]; [discriminate |].
        inversion Bs'; subst. discriminate. }
      destruct (acc_end_blank d (r ++ k) Hd) as (l & x & Ee).
      destruct fuel as [| fuel]; [simpl in Lf; lia |].
      cbn [app]. cbn [repeat_till_loop]. rewrite Ee.
      change (d :: r ++ k) with ((d :: r) ++ k). rewrite E, <- app_assoc.
      rewrite (acc_word_blank_ok w (s' ++ k) Wne Hw (tail_follow_stop s' k Bs' F)).
      assert (Ls : (length s' < length (d :: r))%nat).
      { rewrite E, app_length. destruct w; [congruence | simpl; lia]. }
      rewrite consumed_true by (cbn [length]; rewrite !app_length; lia).
      cbn [length] in Ln, Lf, Ls.
      apply (IH s' k fuel); auto; lia.
Qed.

Lemma wf_account_parts : forall a, wf_account a = true ->
  exists c r, a = c :: r /\ nonstop c = true /\ acct_tail r = true /\ trim a <> [].
Proof.
  intros [| c r] H; [discriminate |]. unfold wf_account in H. rewrite !andb_true_iff in H.
  destruct H as [[H1 H2] H3].
  exists c, r. split; [reflexivity |]. split; [exact H1 |]. split; [exact H2 |].
  intros E. rewrite E in H3. discriminate.
Qed.

Lemma nonstop_facts : forall c, nonstop c = true ->
  is_sp c = false /\ (c =? 10) = false /\ (c =? 13) = false /\ (c =? 32) = false.
Proof.
  intros c H. unfold nonstop in H. apply negb_true_iff in H. unfold is_account_stop in H.
  repeat (apply orb_false_iff in H; destruct H as [H ?]).
  unfold is_sp. repeat split; auto. apply orb_false_iff. auto.
Qed.

Lemma account_run : forall fuel a k, wf_account a = true -> follow_account k -> (length a <= fuel)%nat ->
  repeat_till1 fuel acc_word acc_end (a ++ k) = POk tt k.
Proof.
  intros fuel a k W F L. destruct (wf_account_parts a W) as (c & r & -> & Hc & T & _).
  assert (T' : acct_tail (c :: r) = true).
  { cbn [acct_tail]. destruct (nonstop_facts c Hc) as (_ & _ & _ & H32). rewrite H32. rewrite T.
    unfold nonstop in Hc. rewrite Hc. reflexivity. }
  destruct (acct_tail_word (c :: r) T') as (w & s' & E & Hw & Ts' & Bs').
  assert (Wne : w <> []).
  { intros ->. simpl in E. subst s'. destruct Bs' as [Bs' | (d' & r' & Bs' & _)]; [discriminate |].
    inversion Bs'; subst. discriminate. }
  unfold repeat_till1, bind. rewrite E, <- app_assoc.
  assert (H32 : starts_not (N.eqb 32) w).
  { destruct w as [| c' w']; [congruence |]. inversion E; subst. unfold starts_not.
    destruct (nonstop_facts c' Hc) as (_ & _ & _ & H32). rewrite N.eqb_sym. exact H32. }
  rewrite (acc_word_ok w (s' ++ k) Wne Hw (tail_follow_stop s' k Bs' F) H32).
  assert (Ls : (length s' <= fuel)%nat).
  { apply (f_equal (@length N)) in E. rewrite app_length in E. simpl in *. lia. }
  apply (acc_loop (length s') s' k fuel); auto.
Qed.

Lemma trim_start_spaces_id : forall c r, (c =? 32) = false -> trim_start_spaces (c :: r) = c :: r.
Proof.
  intros c r H. cbn [trim_start_spaces]. destruct c as [| p]; [reflexivity |].
  apply N.eqb_neq in H.
  do 6 (destruct p as [p | p |]; try reflexivity). exfalso. apply H. reflexivity.
Qed.

Lemma posting_account_eq : forall fuel, posting_account fuel =
  terminated
    (with_span (try_map (pmap trim_start_spaces (taken (repeat_till1 fuel acc_word acc_end)))
                        (fun x => match trim x with [] => None | _ => Some x end)))
    space0.
Proof. reflexivity. Qed.

Theorem posting_account_fmt : forall fuel a k, wf_account a = true -> follow_account k ->
  (length a <= fuel)%nat ->
  exists sp, posting_account fuel (a ++ k) = POk (a, sp) (skip_sp k).
Proof.
  intros fuel a k W F L. pose proof (account_run fuel a k W F L) as R.
  destruct (wf_account_parts a W) as (c & r & Ea & Hc & _ & Htr).
  rewrite posting_account_eq. unfold terminated.
  assert (E : try_map (pmap trim_start_spaces (taken (repeat_till1 fuel acc_word acc_end)))
                (fun x => match trim x with [] => None | _ => Some x end) (a ++ k) = POk a k).
  { unfold try_map. rewrite (pmap_ok _ _ trim_start_spaces _ _ _ _ (taken_ok _ _ _ _ _ R)).
    destruct (nonstop_facts c Hc) as (_ & _ & _ & H32).
    assert (Ts : trim_start_spaces a = a) by (rewrite Ea; apply trim_start_spaces_id; exact H32).
    rewrite Ts. destruct (trim a); [congruence | reflexivity]. }
  rewrite (bind_ok _ _ _ _ _ _ _ (with_span_ok _ _ _ _ _ E)).
  destruct (space0_skip k) as [s Es]. rewrite (bind_ok _ _ _ _ _ _ _ Es).
  eexists. reflexivity.
Qed.

(* ---- clear mark ---- *)
Lemma clear_state_fmt : forall cs x, starts_not is_sp x ->
  (match cs with Uncleared => starts_not is_clear_mark x | _ => True end) ->
  ParseMeta.clear_state (print_clear_state cs ++ x) = POk cs x.
Proof.
  intros cs x Hx Hm. unfold ParseMeta.clear_state.
  destruct cs; cbn [print_clear_state app].
  - assert (E : terminated (alt (chr 42 ;;; ret Cleared) (chr 33 ;;; ret Pending)) space0 x = PErr false 0 x).
    { unfold terminated, bind, alt.
      destruct x as [| c r]; [reflexivity |]. simpl in Hm. unfold is_clear_mark in Hm.
      apply orb_false_iff in Hm. destruct Hm as [H1 H2].
      unfold chr, one_of. rewrite (N.eqb_sym 42 c), H1, (N.eqb_sym 33 c), H2. reflexivity. }
    rewrite (pmap_ok _ _ _ _ _ _ _ (opt_none _ _ _ _ _ E)). reflexivity.
  - assert (E : terminated (alt (chr 42 ;;; ret Cleared) (chr 33 ;;; ret Pending)) space0 (42 :: 32 :: x)
                = POk Cleared x).
    { unfold terminated, bind, alt. rewrite (chr_ok 42 (32 :: x)). unfold ret at 1.
      change (32 :: x) with ([32] ++ x). rewrite (space0_ok [32] x ltac:(reflexivity) Hx). reflexivity. }
    rewrite (pmap_ok _ _ _ _ _ _ _ (opt_ok _ _ _ _ _ E)). reflexivity.
  - assert (E : terminated (alt (chr 42 ;;; ret Cleared) (chr 33 ;;; ret Pending)) space0 (33 :: 32 :: x)
                = POk Pending x).
    { unfold terminated, bind, alt.
      assert (C : chr 42 (33 :: 32 :: x) = PErr false 0 (33 :: 32 :: x)) by reflexivity.
      rewrite C. rewrite (chr_ok 33 (32 :: x)). unfold ret at 1.
      change (32 :: x) with ([32] ++ x). rewrite (space0_ok [32] x ltac:(reflexivity) Hx). reflexivity. }
    rewrite (pmap_ok _ _ _ _ _ _ _ (opt_ok _ _ _ _ _ E)). reflexivity.
Qed.

(* ---- the posting line, normalised: padding as counted blanks ---- *)
Definition am_text (n : nat) (o : option s_posting_amount) : str :=
  match o with Some pa => spaces n ++ print_pa pa | None => [] end.
Definition bal_text (m : nat) (o : option s_vexpr) : str :=
  match o with Some b => spaces m ++ [61; 32] ++ show_vexpr b | None => [] end.

Lemma posting_line_shape : forall w p, exists n m,
  (2 <= n)%nat /\ (1 <= m)%nat /\ (sp_amount p = None -> 2 <= m)%nat /\
  posting_line w p = spaces 4 ++ print_clear_state (sp_clear p) ++ sp_account p ++
                     am_text n (sp_amount p) ++ bal_text m (sp_balance p).
Proof.
  intros w p. unfold posting_line.
  destruct (sp_amount p) as [pa |] eqn:Ea.
  - exists (get_column 48 (account_width w p + al_absolute (snd (fmt_vexpr (pa_amount pa)))) 2), 1%nat.
    split; [apply get_column_ge |]. split; [lia |]. split; [discriminate |].
    unfold print_posting_amount, am_text, print_pa, show_vexpr. rewrite <- !app_assoc.
    do 6 f_equal.
    destruct (sp_balance p) as [b |]; [| reflexivity].
    unfold print_posting_balance, balance_padding. rewrite Ea. reflexivity.
  - destruct (sp_balance p) as [b |] eqn:Eb.
    + unfold print_posting_balance, balance_padding. rewrite Ea.
      set (bp := get_column _ _ 3).
      assert (Hbp : (3 <= bp)%nat) by apply get_column_ge.
      exists 2%nat, (bp - 1)%nat. split; [lia |]. split; [lia |]. split; [lia |].
      cbn [am_text bal_text app]. rewrite pad_left_eq by exact Hbp. reflexivity.
    + exists 2%nat, 2%nat. repeat split; try lia.
Qed.

(* ---- pieces of posting_body ---- *)
Lemma les_fail : forall i, starts_not (fun c => (c =? 10) || (c =? 13) || (c =? 59)) i ->
  line_ending_or_semi i = PErr false 0 i.
Proof.
  intros [| c r] H; [reflexivity |]. unfold starts_not in H.
  apply orb_false_iff in H. destruct H as [H H3]. apply orb_false_iff in H. destruct H as [H1 H2].
  unfold line_ending_or_semi, line_ending, alt, literal. cbn [strip_prefix].
  rewrite (N.eqb_sym 10 c), H1, (N.eqb_sym 13 c), H2, (N.eqb_sym 59 c), H3. reflexivity.
Qed.

Lemma expr_head_not_les : forall c, expr_head c -> (c =? 10) || (c =? 13) || (c =? 59) = false.
Proof.
  intros c [H | [-> | ->]]; [| reflexivity | reflexivity].
  unfold Lit.is_digit in H. apply andb_true_iff in H. destruct H as [H1 H2].
  apply N.leb_le in H1. apply N.leb_le in H2.
  destruct (N.eqb_spec c 10); [lia |]. destruct (N.eqb_spec c 13); [lia |].
  destruct (N.eqb_spec c 59); [lia | reflexivity].
Qed.

Lemma value_expr_fail_eq : forall fuel r, value_expr fuel (61 :: r) = PErr false 0 (61 :: r).
Proof.
  intros. rewrite value_expr_VE. rewrite (VE_amount fuel max_expr_depth 61 r eq_refl).
  apply pmap_err. unfold amount. apply bind_err. unfold terminated. apply bind_err.
  unfold pretty_decimal, try_map.
  assert (E : decimal_token (61 :: r) = PErr false 0 (61 :: r)).
  { unfold decimal_token, try_map.
    assert (T : (opt (chr 45) ;;; take_while0 is_decimal_char) ([] ++ 61 :: r) = POk [] (61 :: r)).
    { unfold bind. cbn [app]. rewrite (opt_none _ (chr 45) (61 :: r) 0 (61 :: r)) by reflexivity.
      apply (take_while0_ok is_decimal_char [] (61 :: r)); reflexivity. }
    pose proof (taken_ok _ _ [] (61 :: r) _ T) as T'. cbn [app] in T'. rewrite T'. reflexivity. }
  rewrite E. reflexivity.
Qed.

Lemma posting_amount_fail_eq : forall fuel r,
  opt (terminated (posting_amount fuel) space0) (61 :: r) = POk None (61 :: r).
Proof.
  intros.
  eapply opt_none. unfold terminated. apply bind_err. unfold posting_amount. apply bind_err.
  unfold terminated. apply bind_err. unfold with_span. rewrite value_expr_fail_eq. reflexivity.
Qed.

Definition nl_tail (ms : list s_metadata) (k : str) : str := 10 :: flat_map meta_line ms ++ k.

Lemma good_follow_nl : forall x, good_follow (10 :: x).
Proof. intros x. unfold good_follow. rewrite skip_sp_id by reflexivity. repeat split. Qed.

Lemma good_follow_bal : forall m x, (1 <= m)%nat -> good_follow (spaces m ++ 61 :: x).
Proof.
  intros m x H. destruct m as [| m]; [lia |]. unfold good_follow.
  rewrite skip_sp_spaces, skip_sp_id by reflexivity. repeat split.
Qed.

Lemma bal_text_follow_pa : forall m o x, (1 <= m)%nat -> follow_pa (bal_text m o ++ 10 :: x).
Proof.
  intros m [b |] x H; unfold follow_pa, bal_text.
  - rewrite <- !app_assoc. cbn [app]. split; [apply good_follow_bal; exact H |].
    rewrite skip_sp_spaces, skip_sp_id by reflexivity. reflexivity.
  - cbn [app]. split; [apply good_follow_nl |]. rewrite skip_sp_id by reflexivity. reflexivity.
Qed.

Lemma skip_bal_text : forall m o x, skip_sp (bal_text m o ++ 10 :: x) =
  match o with Some b => 61 :: 32 :: show_vexpr b ++ 10 :: x | None => 10 :: x end.
Proof.
  intros m [b |] x; unfold bal_text.
  - rewrite <- !app_assoc. cbn [app]. rewrite skip_sp_spaces, skip_sp_id by reflexivity. reflexivity.
  - cbn [app]. apply skip_sp_id. reflexivity.
Qed.

(* the balance assertion *)
Definition bal_parser (fuel : nat) : parser (option (s_vexpr * rspan)) :=
  opt (context L_balance (with_span (delimited (chr 61 ;;; space0) (value_expr fuel) space0))).

Lemma balance_fmt : forall fuel o x, opt_all wf_vexpr o = true ->
  (match o with Some b => (length (show_vexpr b) <= fuel)%nat | None => True end) ->
  exists o', bal_parser fuel (match o with Some b => 61 :: 32 :: show_vexpr b ++ 10 :: x | None => 10 :: x end)
             = POk o' (10 :: x) /\ same_opt same_v o (option_map fst o').
Proof.
  intros fuel [b |] x W L; cbn [opt_all] in W.
  - destruct (value_expr_fmt fuel b (10 :: x) W (good_follow_v _ _ (good_follow_nl x)) L) as (b' & E & Sb).
    eexists (Some (b', _)). split; [| exact Sb].
    unfold bal_parser. eapply opt_ok. apply context_ok. apply with_span_ok.
    unfold delimited, bind. rw (chr_ok 61 (32 :: show_vexpr b ++ 10 :: x)).
    change (32 :: show_vexpr b ++ 10 :: x) with ([32] ++ show_vexpr b ++ 10 :: x).
    rw (space0_ok [32] (show_vexpr b ++ 10 :: x) ltac:(reflexivity) (show_vexpr_not_sp b _)).
    rw E. rewrite (rest_v_nosp b (10 :: x)) by reflexivity.
    rw (space0_none (10 :: x) ltac:(reflexivity)). reflexivity.
  - exists None. split; [| exact I]. reflexivity.
Qed.

Lemma print_pa_head : forall pa, exists c r, print_pa pa = c :: r /\ expr_head c.
Proof.
  intros pa. unfold print_pa. destruct (show_vexpr_head (pa_amount pa)) as (c & r & E & H).
  rewrite E. cbn [app]. eauto.
Qed.

Theorem posting_body_fmt : forall fuel p n m k,
  wf_posting p = true -> follow_block k ->
  (2 <= n)%nat -> (1 <= m)%nat -> (sp_amount p = None -> 2 <= m)%nat ->
  (length (sp_account p ++ am_text n (sp_amount p) ++ bal_text m (sp_balance p) ++
           nl_tail (sp_metadata p) k) <= fuel)%nat ->
  exists p' sps,
    posting_body fuel (print_clear_state (sp_clear p) ++ sp_account p ++ am_text n (sp_amount p) ++
                       bal_text m (sp_balance p) ++ nl_tail (sp_metadata p) k) = POk (p', sps) k /\
    same_posting p p'.
Proof.
  intros fuel [acct cs am bal ms] n m k W FB Hn Hm Hm2 L.
  cbn [sp_account sp_clear sp_amount sp_balance sp_metadata] in *.
  unfold wf_posting in W. cbn [sp_account sp_clear sp_amount sp_balance sp_metadata] in W.
  rewrite !andb_true_iff in W. destruct W as [[[[Wa Wc] Wam] Wb] Wms].
  destruct (wf_account_parts acct Wa) as (c0 & r0 & Eacct & Hns & _ & _).
  destruct (nonstop_facts c0 Hns) as (Hsp0 & _ & _ & _).
  rewrite !app_length in L.
  set (NL := nl_tail ms k) in *.
  set (T0 := am_text n am ++ bal_text m bal ++ NL).
  (* the mark *)
  assert (Cs : (preceded space0 ParseMeta.clear_state) (print_clear_state cs ++ acct ++ T0) = POk cs (acct ++ T0)).
  { unfold preceded, bind.
    assert (Ns : starts_not is_sp (print_clear_state cs ++ acct ++ T0)).
    { destruct cs; cbn [print_clear_state app]; try reflexivity.
      rewrite Eacct. unfold starts_not. cbn [app]. exact Hsp0. }
    rw (space0_none _ Ns).
    apply clear_state_fmt.
    - rewrite Eacct. unfold starts_not. cbn [app]. exact Hsp0.
    - destruct cs; [| exact I | exact I]. rewrite Eacct in *. cbn [starts] in Wc.
      apply negb_true_iff in Wc. exact Wc. }
  (* the account *)
  assert (FA : follow_account T0).
  { unfold T0. destruct am as [pa |].
    - right; left. unfold am_text. destruct n as [| [| n]]; try lia. eexists.
      rewrite <- app_assoc. reflexivity.
    - cbn [am_text app]. destruct bal as [b |].
      + right; left. unfold bal_text. specialize (Hm2 eq_refl). destruct m as [| [| m]]; try lia. eexists.
        rewrite <- !app_assoc. reflexivity.
      + right; right. reflexivity. }
  destruct (posting_account_fmt fuel acct T0 Wa FA ltac:(lia)) as (asp & Ea).
  assert (X1 : skip_sp T0 = match am with
                            | Some pa => print_pa pa ++ bal_text m bal ++ NL
                            | None => skip_sp (bal_text m bal ++ NL)
                            end).
  { unfold T0. destruct am as [pa |]; [| reflexivity]. unfold am_text. rewrite <- app_assoc.
    rewrite skip_sp_spaces. apply skip_sp_id.
    destruct (print_pa_head pa) as (c & r & E & H). rewrite E. apply expr_head_not_sp. exact H. }
  (* the metadata *)
  assert (Em : block_metadata fuel NL = POk ms k).
  { apply block_metadata_fmt; auto. unfold NL, nl_tail in *. cbn [length] in *. rewrite app_length in *. lia. }
  assert (Lb : match bal with Some b => (length (show_vexpr b) <= fuel)%nat | None => True end).
  { destruct bal as [b |]; [| exact I]. unfold bal_text in L. rewrite !app_length in L. cbn [length] in L. lia. }
  destruct (balance_fmt fuel bal (flat_map meta_line ms ++ k) Wb Lb) as (bal' & Eb & Sb).
  assert (Eb' : bal_parser fuel (skip_sp (bal_text m bal ++ NL)) = POk bal' NL).
  { unfold NL, nl_tail. rewrite skip_bal_text. exact Eb. }
  clear Eb. rename Eb' into Eb.
  unfold posting_body. rewrite (bind_ok _ _ _ _ _ _ _ Cs).
  rewrite (bind_ok _ _ _ _ _ _ _ (context_ok _ L_account _ _ _ _ Ea)).
  destruct am as [pa |].
  - (* with an amount *)
    cbn [opt_all] in Wam. rewrite X1.
    destruct (print_pa_head pa) as (c & r & Epa & Hc).
    assert (Sh : has_peek line_ending_or_semi (print_pa pa ++ bal_text m bal ++ NL)
                 = POk false (print_pa pa ++ bal_text m bal ++ NL)).
    { eapply has_peek_false. apply les_fail. rewrite Epa. unfold starts_not. cbn [app].
      apply expr_head_not_les. exact Hc. }
    rewrite (bind_ok _ _ _ _ _ _ _ Sh). cbv iota.
    assert (Lpa : (length (print_pa pa) <= fuel)%nat).
    { unfold am_text in L. rewrite !app_length in L. lia. }
    destruct (posting_amount_fmt fuel pa (bal_text m bal ++ NL) Wam (bal_text_follow_pa m bal _ Hm) Lpa)
      as (pa' & sps & Epa' & Spa).
    assert (Eam : context L_amount (opt (terminated (posting_amount fuel) space0))
                    (print_pa pa ++ bal_text m bal ++ NL)
                  = POk (Some (pa', sps)) (skip_sp (bal_text m bal ++ NL))).
    { apply context_ok. eapply opt_ok. unfold terminated. rewrite (bind_ok _ _ _ _ _ _ _ Epa').
      destruct (space0_skip (rest_pa pa (bal_text m bal ++ NL))) as [s Es].
      rewrite (bind_ok _ _ _ _ _ _ _ Es). rewrite skip_rest_pa. reflexivity. }
    rewrite (bind_ok _ _ _ _ _ _ _ Eam).
    fold (bal_parser fuel). rewrite (bind_ok _ _ _ _ _ _ _ Eb).
    rewrite (bind_ok _ _ _ _ _ _ _ (context_ok _ L_post_meta _ _ _ _ Em)).
    eexists _, _. split; [reflexivity |].
    unfold same_posting. cbn [sp_account sp_clear sp_amount sp_balance sp_metadata option_map fst].
    split; [reflexivity |]. split; [reflexivity |]. split; [exact Spa |]. split; [exact Sb | reflexivity].
  - rewrite X1. destruct bal as [b |].
    + (* balance only *)
      unfold NL, nl_tail in *. rewrite skip_bal_text in *.
      assert (Sh : has_peek line_ending_or_semi (61 :: 32 :: show_vexpr b ++ NL)
                   = POk false (61 :: 32 :: show_vexpr b ++ NL)).
      { eapply has_peek_false. apply les_fail. reflexivity. }
      unfold NL, nl_tail in Sh. unfold NL, nl_tail.
      rewrite (bind_ok _ _ _ _ _ _ _ Sh). cbv iota.
      pose proof (posting_amount_fail_eq fuel (32 :: show_vexpr b ++ 10 :: flat_map meta_line ms ++ k))
        as Eam.
      rewrite (bind_ok _ _ _ _ _ _ _ (context_ok _ L_amount _ _ _ _ Eam)).
      fold (bal_parser fuel). unfold NL, nl_tail in Eb. rewrite (bind_ok _ _ _ _ _ _ _ Eb).
      unfold NL, nl_tail in Em.
      rewrite (bind_ok _ _ _ _ _ _ _ (context_ok _ L_post_meta _ _ _ _ Em)).
      eexists _, _. split; [reflexivity |].
      unfold same_posting. cbn [sp_account sp_clear sp_amount sp_balance sp_metadata option_map fst].
      split; [reflexivity |]. split; [reflexivity |]. split; [exact I |]. split; [exact Sb | reflexivity].
    + (* neither: the shortcut *)
      unfold NL, nl_tail in *. rewrite skip_bal_text in *.
      assert (Sh : has_peek line_ending_or_semi (10 :: flat_map meta_line ms ++ k)
                   = POk true (10 :: flat_map meta_line ms ++ k)).
      { eapply has_peek_true. reflexivity. }
      rewrite (bind_ok _ _ _ _ _ _ _ Sh). cbv iota.
      rewrite (bind_ok _ _ _ _ _ _ _ Em).
      eexists _, _. split; [reflexivity |].
      unfold same_posting. cbn [sp_account sp_clear sp_amount sp_balance sp_metadata].
      split; [reflexivity |]. split; [reflexivity |]. split; [exact I |]. split; [exact I | reflexivity].
Qed.

(* ---- the posting with its indentation, as the transaction parser reads it ---- *)
Lemma leof_fail : forall c r, (c =? 10) = false -> (c =? 13) = false ->
  line_ending_or_eof (c :: r) = PErr false 0 (c :: r).
Proof.
  intros c r H1 H2. unfold line_ending_or_eof, alt, void, bind, line_ending, alt, literal.
  cbn [strip_prefix]. rewrite (N.eqb_sym 10 c), H1, (N.eqb_sym 13 c), H2. reflexivity.
Qed.

Lemma posting_indent_ok : forall c r, is_sp c = false -> (c =? 10) = false -> (c =? 13) = false ->
  posting_indent (spaces 4 ++ c :: r) = POk tt (c :: r).
Proof.
  intros c r Hs H1 H2. unfold posting_indent, bind.
  rewrite (take_while1_ok is_sp (spaces 4) (c :: r) ltac:(discriminate) (sp_spaces 4) Hs).
  unfold pnot. rewrite (leof_fail c r H1 H2). reflexivity.
Qed.

Theorem posting_item_fmt : forall w fuel p k, wf_posting p = true -> follow_block k ->
  (length (print_posting w p ++ k) <= fuel)%nat ->
  exists p' sps,
    preceded posting_indent (cut_err (posting fuel)) (print_posting w p ++ k) = POk (p', sps) k /\
    same_posting p p'.
Proof.
  intros w fuel p k W FB L.
  destruct (posting_line_shape w p) as (n & m & Hn & Hm & Hm2 & Shape).
  assert (In : print_posting w p ++ k =
               spaces 4 ++ (print_clear_state (sp_clear p) ++ sp_account p ++ am_text n (sp_amount p) ++
                            bal_text m (sp_balance p) ++ nl_tail (sp_metadata p) k)).
  { unfold print_posting, nl_tail. rewrite Shape. rewrite <- !app_assoc. reflexivity. }
  rewrite In in *.
  remember (print_clear_state (sp_clear p) ++ sp_account p ++ am_text n (sp_amount p) ++
            bal_text m (sp_balance p) ++ nl_tail (sp_metadata p) k) as Y eqn:HY.
  assert (Lb : (length (sp_account p ++ am_text n (sp_amount p) ++ bal_text m (sp_balance p) ++
                        nl_tail (sp_metadata p) k) <= fuel)%nat).
  { rewrite HY in L. rewrite !app_length in L. rewrite !app_length. lia. }
  destruct (posting_body_fmt fuel p n m k W FB Hn Hm Hm2 Lb) as (p' & sps & E & Sp).
  rewrite <- HY in E.
  (* the first character after the indentation *)
  assert (Hd : exists c r, Y = c :: r /\ is_sp c = false /\ (c =? 10) = false /\ (c =? 13) = false).
  { unfold wf_posting in W. rewrite !andb_true_iff in W. destruct W as [[[[Wa _] _] _] _].
    destruct (wf_account_parts _ Wa) as (c0 & r0 & Ea & Hc0 & _ & _).
    destruct (nonstop_facts c0 Hc0) as (F1 & F2 & F3 & _).
    rewrite HY. destruct (sp_clear p); cbn [print_clear_state app].
    - rewrite Ea. cbn [app]. eexists _, _. split; [reflexivity |]. auto.
    - eexists _, _. split; [reflexivity |]. auto.
    - eexists _, _. split; [reflexivity |]. auto. }
  destruct Hd as (c & r & Ey & Hs & H10 & H13).
  destruct sps as [[[[a1 a2] a3] a4] a5].
  eexists _, _. split; [| exact Sp].
  unfold preceded. rewrite Ey at 1. rewrite (bind_ok _ _ _ _ _ _ _ (posting_indent_ok c r Hs H10 H13)).
  rewrite <- Ey.
  apply cut_err_ok. unfold posting.
  rewrite (pmap_ok _ _ _ _ _ _ _ (with_span_ok _ _ _ _ _ (context_ok _ L_posting _ _ _ _ E))).
  reflexivity.
Qed.
