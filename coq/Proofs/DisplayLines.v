(* Line structure of printed entries (Model/Display.v): every entry is the text of its lines
   (entry_lines), each ended by "\n"; for trees whose single-line fields are single lines
   (entry_ok) these lines are proper (non-empty, no line end inside), posting lines start with
   four spaces and a non-space, metadata lines with "    ;"; `format` closes every entry with
   one empty line. *)
From Coq Require Import List NArith ZArith Bool Arith Lia.
From Okv Require Import Model.Lit Model.LitSpec Proofs.LitProofs Proofs.LitShow.
From Okv Require Import Model.Syntax Model.Display Model.DisplaySpec Proofs.DisplayExpr Proofs.DisplayLayout.
Import ListNotations.
Open Scope N_scope.

Local Arguments N.eqb : simpl never.
Local Arguments N.leb : simpl never.
Local Arguments N.ltb : simpl never.

(* ---- unlines ---- *)
Lemma unlines_app : forall a b, unlines (a ++ b) = unlines a ++ unlines b.
Proof. intros. unfold unlines. apply flat_map_app. Qed.

Lemma unlines_cons : forall l ls, unlines (l :: ls) = l ++ [10] ++ unlines ls.
Proof. intros. unfold unlines. cbn [flat_map]. rewrite <- app_assoc. reflexivity. Qed.

Lemma unlines_flat_map : forall A (f : A -> list str) xs,
  unlines (flat_map f xs) = flat_map (fun x => unlines (f x)) xs.
Proof.
  intros A f xs. induction xs as [|x xs IH]; [reflexivity|].
  cbn [flat_map]. rewrite unlines_app, IH. reflexivity.
Qed.

Lemma unlines_map : forall A (f : A -> str) xs,
  unlines (map f xs) = flat_map (fun x => f x ++ [10]) xs.
Proof.
  intros A f xs. induction xs as [|x xs IH]; [reflexivity|].
  cbn [map flat_map]. rewrite unlines_cons, IH. rewrite <- app_assoc. reflexivity.
Qed.

Lemma one_line_app : forall a b, one_line (a ++ b) = one_line a && one_line b.
Proof. intros. unfold one_line. apply forallb_app. Qed.

(* the lines of a text are determined by the text *)
Lemma unlines_inj : forall a b,
  Forall (fun l => one_line l = true) a -> Forall (fun l => one_line l = true) b ->
  unlines a = unlines b -> a = b.
Proof.
  assert (Hhead : forall (l1 l2 r1 r2 : str), one_line l1 = true -> one_line l2 = true ->
            l1 ++ 10 :: r1 = l2 ++ 10 :: r2 -> l1 = l2 /\ r1 = r2).
  { induction l1 as [|c l1 IH]; intros l2 r1 r2 H1 H2 E.
    - destruct l2 as [|d l2]; cbn [app] in E.
      + inversion E. auto.
      + inversion E; subst. cbn in H2. discriminate.
    - destruct l2 as [|d l2]; cbn [app] in E.
      + inversion E; subst. cbn in H1. discriminate.
      + inversion E; subst. cbn [one_line forallb] in H1, H2.
        apply andb_true_iff in H1. apply andb_true_iff in H2.
        destruct (IH l2 r1 r2) as [E1 E2]; try tauto. subst. auto. }
  induction a as [|l a IH]; intros b Ha Hb E.
  - destruct b as [|m b]; [reflexivity|]. rewrite unlines_cons in E. cbn [unlines flat_map] in E.
    destruct m; discriminate.
  - destruct b as [|m b].
    + rewrite unlines_cons in E. cbn [unlines flat_map] in E. destruct l; discriminate.
    + rewrite !unlines_cons in E. cbn [app] in E.
      inversion Ha; subst. inversion Hb; subst.
      destruct (Hhead l m (unlines a) (unlines b)) as [E1 E2]; auto.
      subst. f_equal. apply IH; auto.
Qed.

(* ---- every printing function writes its lines ---- *)
Lemma meta_lines_text : forall ms, flat_map meta_line ms = unlines (map meta_text ms).
Proof.
  intros ms. rewrite unlines_map. apply flat_map_ext. intros m.
  unfold meta_line, meta_text. rewrite <- !app_assoc. reflexivity.
Qed.

Lemma print_posting_lines : forall w p, print_posting w p = unlines (posting_lines w p).
Proof.
  intros w p. unfold print_posting, posting_lines. rewrite unlines_cons, meta_lines_text. reflexivity.
Qed.

Lemma print_txn_lines : forall w t, print_txn w t = unlines (txn_lines w t).
Proof.
  intros w t. unfold print_txn, txn_lines.
  rewrite unlines_cons, unlines_app, meta_lines_text, unlines_flat_map.
  do 3 f_equal. apply flat_map_ext. intros p. apply print_posting_lines.
Qed.

Lemma line_wrap_lines : forall prefix content,
  line_wrap prefix content = unlines (wrapped_lines prefix content).
Proof.
  intros. unfold line_wrap, wrapped_lines. rewrite unlines_map.
  apply flat_map_ext. intros l. rewrite <- app_assoc. reflexivity.
Qed.

Lemma account_detail_text : forall d, print_account_detail d = unlines (account_detail_lines d).
Proof.
  intros [v|v|v]; cbn [print_account_detail account_detail_lines]; try apply line_wrap_lines.
  rewrite unlines_cons. cbn [unlines flat_map]. rewrite app_nil_r, <- app_assoc. reflexivity.
Qed.

Lemma commodity_detail_text : forall d, print_commodity_detail d = unlines (commodity_detail_lines d).
Proof.
  intros [v|v|v|a]; cbn [print_commodity_detail commodity_detail_lines]; try apply line_wrap_lines;
    rewrite unlines_cons; cbn [unlines flat_map]; rewrite app_nil_r, <- app_assoc; reflexivity.
Qed.

Theorem print_entry_lines : forall w e, print_entry w e = unlines (entry_lines w e).
Proof.
  intros w e. destruct e as [t|s|k v| |path|name ds|name ds]; cbn [print_entry entry_lines].
  - apply print_txn_lines.
  - apply line_wrap_lines.
  - cbn [unlines flat_map]. rewrite app_nil_r, <- !app_assoc. reflexivity.
  - cbn [unlines flat_map]. rewrite app_nil_r. reflexivity.
  - cbn [unlines flat_map]. rewrite app_nil_r, <- !app_assoc. reflexivity.
  - rewrite unlines_cons, unlines_flat_map, <- !app_assoc. do 3 f_equal.
    apply flat_map_ext. apply account_detail_text.
  - rewrite unlines_cons, unlines_flat_map, <- !app_assoc. do 3 f_equal.
    apply flat_map_ext. apply commodity_detail_text.
Qed.

Theorem format_entries_lines : forall w es,
  format_entries w es = unlines (flat_map (fun e => entry_lines w e ++ [[]]) es).
Proof.
  intros w es. unfold format_entries. rewrite unlines_flat_map. apply flat_map_ext. intros e.
  rewrite unlines_app, print_entry_lines. reflexivity.
Qed.

(* ---- pieces that stay on one line ---- *)
Lemma dig_one_line : forall l, Forall dig l -> one_line l = true.
Proof.
  intros l H. unfold one_line. apply forallb_forall. intros c Hc.
  rewrite Forall_forall in H. specialize (H c Hc). unfold dig, is_digit in H. lia.
Qed.

Lemma pad_digits_dig : forall k n, Forall dig (pad_zeros k (digits_of n)).
Proof.
  intros. unfold pad_zeros. apply Forall_app. split; [apply repeat_dig|apply digits_of_dig].
Qed.

Lemma pad_digits_nonempty : forall k n, (1 <= k)%nat -> pad_zeros k (digits_of n) <> [].
Proof.
  intros k n Hk E. apply (f_equal (@length N)) in E. unfold pad_zeros in E.
  rewrite app_length, repeat_length in E. cbn [length] in E. lia.
Qed.

Lemma fmt_date_one_line : forall d, one_line (fmt_date d) = true.
Proof.
  intros d. unfold fmt_date, fmt_year, fmt_two.
  destruct ((0 <=? d_year d)%Z && (d_year d <? 10000)%Z); [|destruct (d_year d <? 0)%Z];
    rewrite !one_line_app, !(dig_one_line _ (pad_digits_dig _ _)); reflexivity.
Qed.

Lemma fmt_date_nonempty : forall d, fmt_date d <> [].
Proof.
  intros d. unfold fmt_date. destruct (fmt_year (d_year d)); discriminate.
Qed.

Lemma clear_one_line : forall c, one_line (print_clear_state c) = true.
Proof. intros []; reflexivity. Qed.

Lemma opt_one_line : forall A (f : A -> bool) o x, one_line_opt f o = true -> o = Some x -> f x = true.
Proof. intros A f o x H E. subst. exact H. Qed.

Lemma exchange_one_line : forall x, one_line_exchange x = true ->
  match x with STotal e => one_line (show_vexpr e) | SRate e => one_line (show_vexpr e) end = true.
Proof. intros [e|e] H; apply show_vexpr_one_line; exact H. Qed.

Lemma print_lot_one_line : forall l, one_line_lot l = true -> one_line (print_lot l) = true.
Proof.
  intros l H. unfold one_line_lot in H. apply andb_true_iff in H. destruct H as [Hp Hn].
  unfold print_lot. rewrite !one_line_app.
  apply andb_true_iff; split; [|apply andb_true_iff; split].
  - destruct (lot_price l) as [[e|e]|]; [| |reflexivity]; cbn [one_line_opt one_line_exchange] in Hp;
      rewrite !one_line_app, (show_vexpr_one_line _ Hp); reflexivity.
  - destruct (lot_date l); [|reflexivity]. rewrite !one_line_app, fmt_date_one_line. reflexivity.
  - destruct (lot_note l); [|reflexivity]. cbn [one_line_opt] in Hn. rewrite !one_line_app, Hn. reflexivity.
Qed.

Lemma print_cost_one_line : forall c, one_line_opt one_line_exchange c = true ->
  one_line (print_cost c) = true.
Proof.
  intros [[e|e]|] H; [| |reflexivity]; cbn [one_line_opt one_line_exchange] in H;
    unfold print_cost; rewrite one_line_app, (show_vexpr_one_line _ H); reflexivity.
Qed.

Lemma print_meta_value_one_line : forall v, one_line_meta_value v = true ->
  one_line (print_meta_value v) = true.
Proof. intros [s|s] H; cbn [one_line_meta_value] in H; cbn [print_meta_value]; rewrite one_line_app, H; reflexivity. Qed.

Lemma tags_one_line : forall tags : list str, forallb one_line tags = true ->
  one_line (flat_map (fun t => t ++ [58]) tags) = true.
Proof.
  induction tags as [|t tags IH]; intros H; [reflexivity|].
  cbn [forallb] in H. apply andb_true_iff in H. destruct H as [Ht Hts].
  cbn [flat_map]. rewrite !one_line_app, Ht, (IH Hts). reflexivity.
Qed.

Lemma print_metadata_one_line : forall m, one_line_metadata m = true ->
  one_line (print_metadata m) = true.
Proof.
  intros [s|tags|k v] H; cbn [one_line_metadata] in H; cbn [print_metadata].
  - exact H.
  - rewrite one_line_app, (tags_one_line _ H). reflexivity.
  - apply andb_true_iff in H. destruct H as [Hk Hv].
    rewrite one_line_app, Hk, (print_meta_value_one_line _ Hv). reflexivity.
Qed.

Lemma meta_text_proper : forall m, one_line_metadata m = true -> proper_line (meta_text m).
Proof.
  intros m H. split; [discriminate|].
  unfold meta_text. rewrite one_line_app, (print_metadata_one_line _ H). reflexivity.
Qed.

Lemma meta_text_indent : forall m, indent4_semicolon (meta_text m).
Proof. intros m. unfold indent4_semicolon, meta_text. eexists. reflexivity. Qed.

(* ---- the posting line ---- *)
Lemma posting_line_indent : forall w p, account_ok (sp_account p) -> indent4_nonspace (posting_line w p).
Proof.
  intros w p H. unfold indent4_nonspace, posting_line.
  destruct (sp_account p) as [|c r] eqn:Ea; [contradiction|]. cbn [account_ok] in H.
  destruct (sp_clear p); cbn [print_clear_state app].
  - eexists c, _. split; [reflexivity|exact H].
  - eexists 42, _. split; [reflexivity|lia].
  - eexists 33, _. split; [reflexivity|lia].
Qed.

Lemma account_okb_ok : forall a, account_okb a = true -> account_ok a.
Proof.
  intros [|c r] H; [discriminate|]. cbn [account_okb] in H. cbn [account_ok].
  intros E. subst. discriminate.
Qed.

Lemma posting_line_one_line : forall w p, posting_ok p = true -> one_line (posting_line w p) = true.
Proof.
  intros w p H. unfold posting_ok in H.
  repeat (apply andb_true_iff in H; destruct H as [H ?]).
  rename H0 into Hmeta, H1 into Hbal, H2 into Hamt, H3 into Hacc.
  unfold posting_line. rewrite !one_line_app, spaces_one_line, clear_one_line, Hacc. cbn [andb].
  apply andb_true_iff. split.
  - destruct (sp_amount p) as [pa|]; [|reflexivity]. cbn [one_line_opt] in Hamt.
    unfold one_line_posting_amount in Hamt.
    repeat (apply andb_true_iff in Hamt; destruct Hamt as [Hamt ?]).
    unfold print_posting_amount. rewrite !one_line_app, spaces_one_line.
    fold (show_vexpr (pa_amount pa)).
    rewrite (show_vexpr_one_line _ Hamt), (print_lot_one_line _ H0), (print_cost_one_line _ H1).
    reflexivity.
  - destruct (sp_balance p) as [b|]; [|reflexivity]. cbn [one_line_opt] in Hbal.
    unfold print_posting_balance, pad_left. rewrite !one_line_app, spaces_one_line.
    rewrite (show_vexpr_one_line _ Hbal). reflexivity.
Qed.

Lemma posting_lines_proper : forall w p, posting_ok p = true -> Forall proper_line (posting_lines w p).
Proof.
  intros w p H. unfold posting_lines. constructor.
  - split; [|apply posting_line_one_line; exact H].
    unfold posting_line. discriminate.
  - unfold posting_ok in H. apply andb_true_iff in H. destruct H as [_ Hm].
    rewrite forallb_forall in Hm. apply Forall_forall. intros l Hl.
    apply in_map_iff in Hl. destruct Hl as (m & E & Hin). subst. apply meta_text_proper. auto.
Qed.

(* ---- the header ---- *)
Lemma txn_header_proper : forall t, txn_ok t = true -> proper_line (txn_header t).
Proof.
  intros t H. unfold txn_ok in H.
  repeat (apply andb_true_iff in H; destruct H as [H ?]).
  split.
  - unfold txn_header. pose proof (fmt_date_nonempty (st_date t)).
    destruct (fmt_date (st_date t)); [congruence|discriminate].
  - unfold txn_header. rewrite !one_line_app, fmt_date_one_line, clear_one_line, H2. cbn [andb].
    rewrite andb_true_r. apply andb_true_iff. split.
    + destruct (st_edate t); [|reflexivity]. rewrite one_line_app, fmt_date_one_line. reflexivity.
    + apply andb_true_iff. split; [reflexivity|].
      destruct (st_code t) as [c|]; [|reflexivity]. cbn [one_line_opt] in H.
      rewrite !one_line_app, H. reflexivity.
Qed.

Lemma txn_lines_proper : forall w t, txn_ok t = true -> Forall proper_line (txn_lines w t).
Proof.
  intros w t H. unfold txn_lines. constructor; [apply txn_header_proper; exact H|].
  unfold txn_ok in H. repeat (apply andb_true_iff in H; destruct H as [H ?]).
  apply Forall_app. split.
  - rewrite forallb_forall in H1. apply Forall_forall. intros l Hl.
    apply in_map_iff in Hl. destruct Hl as (m & E & Hin). subst. apply meta_text_proper. auto.
  - rewrite forallb_forall in H0. apply Forall_forall. intros l Hl.
    apply in_flat_map in Hl. destruct Hl as (p & Hp & Hl).
    pose proof (posting_lines_proper w p (H0 p Hp)) as Hf. rewrite Forall_forall in Hf. auto.
Qed.

(* ---- str::lines ---- *)
Lemma split_incl_one_line : forall s p, In p (split_incl s) -> one_line (fst p) = true.
Proof.
  induction s as [|c s IH]; intros p Hp; [contradiction|].
  cbn [split_incl] in Hp. destruct (c =? 10) eqn:Ec.
  - destruct Hp as [E|Hp]; [subst; reflexivity|auto].
  - destruct (split_incl s) as [|[l b] t] eqn:Es.
    + destruct Hp as [E|[]]. subst. cbn. rewrite Ec. reflexivity.
    + destruct Hp as [E|Hp].
      * subst. cbn [fst one_line forallb]. rewrite Ec. cbn [negb andb].
        apply (IH (l, b)). left. reflexivity.
      * apply IH. right. exact Hp.
Qed.

Lemma split_incl_nonempty : forall s, s <> [] -> split_incl s <> [].
Proof.
  intros [|c s] H; [congruence|]. cbn [split_incl].
  destruct (c =? 10); [discriminate|]. destruct (split_incl s) as [|[l b] t]; discriminate.
Qed.

Lemma strip_cr_cases : forall l, strip_cr l = l \/ exists r, l = r ++ [13] /\ strip_cr l = r.
Proof.
  intros l. unfold strip_cr. destruct (rev l) as [|c r] eqn:E; [left; reflexivity|].
  destruct c as [|p]; [left; reflexivity|].
  destruct p as [p|p|]; try (left; reflexivity).
  destruct p as [p|p|]; try (left; reflexivity).
  destruct p as [p|p|]; try (left; reflexivity).
  destruct p as [p|p|]; try (left; reflexivity).
  right. exists (rev r). split; [|reflexivity].
  rewrite <- (rev_involutive l), E. reflexivity.
Qed.

Lemma strip_cr_one_line : forall l, one_line l = true -> one_line (strip_cr l) = true.
Proof.
  intros l H. destruct (strip_cr_cases l) as [E|(r & El & E)]; rewrite E; [exact H|].
  rewrite El, one_line_app in H. apply andb_true_iff in H. tauto.
Qed.

Lemma str_lines_one_line : forall s l, In l (str_lines s) -> one_line l = true.
Proof.
  intros s l H. unfold str_lines in H. apply in_map_iff in H. destruct H as ([x b] & E & Hin).
  pose proof (split_incl_one_line s _ Hin) as Hx. cbn [fst snd] in *.
  destruct b; subst; [apply strip_cr_one_line|]; exact Hx.
Qed.

Lemma str_lines_nonempty : forall s, s <> [] -> str_lines s <> [].
Proof.
  intros s H E. unfold str_lines in E. apply map_eq_nil in E. exact (split_incl_nonempty s H E).
Qed.

Lemma wrapped_lines_proper : forall prefix content,
  prefix <> [] -> one_line prefix = true -> Forall proper_line (wrapped_lines prefix content).
Proof.
  intros prefix content Hne Hp. unfold wrapped_lines. apply Forall_forall. intros l Hl.
  apply in_map_iff in Hl. destruct Hl as (x & E & Hin). subst. split.
  - destruct prefix; [congruence|discriminate].
  - rewrite one_line_app, Hp, (str_lines_one_line _ _ Hin). reflexivity.
Qed.

(* ---- every entry ---- *)
Lemma fmt_amount_one_line : forall a, one_line (sa_commodity a) = true -> one_line (fst (fmt_amount a)) = true.
Proof.
  intros a H. unfold fmt_amount, rescale. destruct (sa_commodity a) eqn:E; cbn [fst].
  - apply show_one_line.
  - rewrite !one_line_app, show_one_line, H. reflexivity.
Qed.

Theorem entry_lines_proper : forall w e, entry_ok e = true ->
  entry_lines w e <> [] /\ Forall proper_line (entry_lines w e).
Proof.
  intros w e H. destruct e as [t|s|k v| |path|name ds|name ds]; cbn [entry_ok] in H; cbn [entry_lines].
  - split; [unfold txn_lines; discriminate|apply txn_lines_proper; exact H].
  - split.
    + unfold wrapped_lines. intros E. apply map_eq_nil in E.
      apply (str_lines_nonempty s); [destruct s; [discriminate|discriminate]|exact E].
    + apply wrapped_lines_proper; [discriminate|reflexivity].
  - split; [discriminate|]. constructor; [|constructor]. split; [discriminate|].
    apply andb_true_iff in H. destruct H as [Hk Hv].
    rewrite !one_line_app, Hk. cbn [andb]. rewrite andb_true_iff. split; [reflexivity|].
    destruct v as [v|]; [|reflexivity]. apply print_meta_value_one_line. exact Hv.
  - split; [discriminate|]. constructor; [|constructor]. split; [discriminate|reflexivity].
  - split; [discriminate|]. constructor; [|constructor]. split; [discriminate|].
    rewrite one_line_app, H. reflexivity.
  - split; [discriminate|]. apply andb_true_iff in H. destruct H as [Hn Hd].
    constructor; [split; [discriminate|rewrite one_line_app, Hn; reflexivity]|].
    apply Forall_forall. intros l Hl. apply in_flat_map in Hl. destruct Hl as (d & Hd' & Hl).
    rewrite forallb_forall in Hd. specialize (Hd d Hd').
    destruct d as [v|v|v]; cbn [account_detail_lines] in Hl.
    + pose proof (wrapped_lines_proper [32; 32; 32; 32; 59] v) as Hf.
      rewrite Forall_forall in Hf. apply Hf; [discriminate|reflexivity|exact Hl].
    + pose proof (wrapped_lines_proper [32; 32; 32; 32; 110; 111; 116; 101; 32] v) as Hf.
      rewrite Forall_forall in Hf. apply Hf; [discriminate|reflexivity|exact Hl].
    + destruct Hl as [E|[]]. subst. cbn [account_detail_ok] in Hd.
      split; [discriminate|]. rewrite one_line_app, Hd. reflexivity.
  - split; [discriminate|]. apply andb_true_iff in H. destruct H as [Hn Hd].
    constructor; [split; [discriminate|rewrite one_line_app, Hn; reflexivity]|].
    apply Forall_forall. intros l Hl. apply in_flat_map in Hl. destruct Hl as (d & Hd' & Hl).
    rewrite forallb_forall in Hd. specialize (Hd d Hd').
    destruct d as [v|v|v|a]; cbn [commodity_detail_lines] in Hl.
    + pose proof (wrapped_lines_proper [32; 32; 32; 32; 59] v) as Hf.
      rewrite Forall_forall in Hf. apply Hf; [discriminate|reflexivity|exact Hl].
    + pose proof (wrapped_lines_proper [32; 32; 32; 32; 110; 111; 116; 101; 32] v) as Hf.
      rewrite Forall_forall in Hf. apply Hf; [discriminate|reflexivity|exact Hl].
    + destruct Hl as [E|[]]. subst. cbn [commodity_detail_ok] in Hd.
      split; [discriminate|]. rewrite one_line_app, Hd. reflexivity.
    + destruct Hl as [E|[]]. subst. cbn [commodity_detail_ok] in Hd.
      split; [discriminate|]. rewrite one_line_app, (fmt_amount_one_line _ Hd). reflexivity.
Qed.

(* ---- the theorems of C19 about lines ---- *)

(* the text of a transaction is its header line followed by lines indented by four spaces:
   posting lines continue with a non-space, metadata lines with ";" *)
Theorem txn_indent : forall w t, txn_ok t = true ->
  print_txn w t = unlines (txn_lines w t) /\
  Forall proper_line (txn_lines w t) /\
  (forall p, In p (st_posts t) ->
     indent4_nonspace (posting_line w p) /\
     Forall indent4_semicolon (map meta_text (sp_metadata p))) /\
  Forall indent4_semicolon (map meta_text (st_metadata t)).
Proof.
  intros w t H. split; [apply print_txn_lines|]. split; [apply txn_lines_proper; exact H|].
  split.
  - intros p Hp. split.
    + apply posting_line_indent. unfold txn_ok in H.
      apply andb_true_iff in H. destruct H as [_ Hps]. rewrite forallb_forall in Hps.
      specialize (Hps p Hp). unfold posting_ok in Hps.
      repeat (apply andb_true_iff in Hps; destruct Hps as [Hps ?]).
      apply account_okb_ok. exact Hps.
    + apply Forall_forall. intros l Hl. apply in_map_iff in Hl. destruct Hl as (m & E & _).
      subst. apply meta_text_indent.
  - apply Forall_forall. intros l Hl. apply in_map_iff in Hl. destruct Hl as (m & E & _).
    subst. apply meta_text_indent.
Qed.

(* every metadata of a transaction is one line of its text, "    ; " and the metadata *)
Theorem metadata_indent : forall w t m,
  (In m (st_metadata t) \/ exists p, In p (st_posts t) /\ In m (sp_metadata p)) ->
  In (meta_text m) (txn_lines w t) /\
  meta_text m = spaces 4 ++ [59; 32] ++ print_metadata m.
Proof.
  intros w t m H. split; [|reflexivity].
  unfold txn_lines. right. apply in_or_app. destruct H as [H|(p & Hp & Hm)].
  - left. apply in_map. exact H.
  - right. apply in_flat_map. exists p. split; [exact Hp|].
    unfold posting_lines. right. apply in_map. exact Hm.
Qed.

(* format: every entry's lines, closed by one empty line *)
Theorem one_blank_line : forall w es, forallb entry_ok es = true ->
  format_entries w es = unlines (flat_map (fun e => entry_lines w e ++ [[]]) es) /\
  Forall (fun e => entry_lines w e <> [] /\ Forall proper_line (entry_lines w e) /\
                   exists body, print_entry w e = body ++ [10]) es.
Proof.
  intros w es H. split; [apply format_entries_lines|].
  apply Forall_forall. intros e He. rewrite forallb_forall in H.
  destruct (entry_lines_proper w e (H e He)) as [Hne Hp]. split; [exact Hne|split; [exact Hp|]].
  rewrite print_entry_lines.
  destruct (exists_last Hne) as (ls & l & E). rewrite E, unlines_app.
  exists (unlines ls ++ l). cbn [unlines flat_map]. rewrite app_nil_r, <- app_assoc. reflexivity.
Qed.
