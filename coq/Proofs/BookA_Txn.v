(* add_transaction and process: acceptance, no Panic, residual, error position (C01);
   deduced and assigned amounts, rejection of a second unconstrained posting, frame (C03). *)
From Coq Require Import List NArith ZArith Bool QArith Qcanon Lia.
From Okv Require Import Base.Maps.
From Okv Require Import Base.Dec.
From Okv Require Import Model.Amount.
From Okv Require Import Model.Book.
From Okv Require Import Model.BookSpec.
From Okv Require Import Proofs.BookA_Maps.
From Okv Require Import Proofs.BookA_Amount.
From Okv Require Import Proofs.BookA_Check.
From Okv Require Import Proofs.BookA_Posting.
From Okv Require Import Proofs.BookA_Loop.
Import ListNotations.
Open Scope Qc_scope.

(* ---- list helpers ---- *)

Lemma nth_error_set_nth_same {A} (f : A -> A) (l : list A) : forall n,
  nth_error (set_nth n f l) n = option_map f (nth_error l n).
Proof. induction l as [|x r IH]; intros [|n]; cbn; auto. Qed.

Lemma nth_error_set_nth_other {A} (f : A -> A) (l : list A) : forall n j,
  j <> n -> nth_error (set_nth n f l) j = nth_error l j.
Proof.
  induction l as [|x r IH]; intros [|n] [|j] H; cbn; auto; try congruence.
Qed.

Lemma length_set_nth {A} (f : A -> A) (l : list A) : forall n, length (set_nth n f l) = length l.
Proof. induction l as [|x r IH]; intros [|n]; cbn; auto. Qed.

Lemma map_set_nth_inv {A B} (g : A -> B) (f : A -> A) (l : list A) :
  (forall x, g (f x) = g x) -> forall n, map g (set_nth n f l) = map g l.
Proof.
  intros Hg. induction l as [|x r IH]; intros [|n]; cbn; auto.
  - rewrite Hg. reflexivity.
  - rewrite IH. reflexivity.
Qed.

Lemma nth_error_firstn_lt {A} (l : list A) : forall n k,
  (k < n)%nat -> nth_error (firstn n l) k = nth_error l k.
Proof.
  induction l as [|x r IH]; intros [|n] [|k] H; cbn; auto; try lia. apply IH. lia.
Qed.

Lemma nth_error_skipn' {A} (l : list A) : forall k n,
  nth_error (skipn k l) n = nth_error l (k + n).
Proof.
  induction l as [|x r IH]; intros [|k] n; cbn [skipn Nat.add nth_error]; try reflexivity.
  - destruct n; reflexivity.
  - apply IH.
Qed.

Lemma nth_error_map' {A B} (f : A -> B) (l : list A) : forall n,
  nth_error (map f l) n = option_map f (nth_error l n).
Proof. induction l as [|x r IH]; intros [|n]; cbn; auto. Qed.

(* ---- add_transaction = loop, then finish ---- *)

Definition finish (s : bstate) (t : txn) (st : loop_st) : outcome bstate :=
  let posts := rev (l_posts st) in
  let evs := rev (l_events st) in
  match l_unfilled st with
  | Some u =>
      let deduced := a_neg (l_residual st) in
      let posts' := set_nth u (fun p => {| o_account := o_account p; o_amount := deduced; o_converted := o_converted p |}) posts in
      let acct := match nth_error posts u with Some p => o_account p | None => 0%N end in
      Ok {| s_bal := bal_add_amount (l_bal st) acct deduced; s_fmt := s_fmt s;
            s_events := s_events s ++ evs;
            s_txns := s_txns s ++ [{| o_date := t_date t; o_posts := posts' |}] |}
  | None =>
      do r <- check_balance (s_fmt s) (t_date t) posts (l_residual st);
      let '(posts', ev) := r in
      Ok {| s_bal := l_bal st; s_fmt := s_fmt s;
            s_events := s_events s ++ evs ++ (match ev with Some e => [e] | None => [] end);
            s_txns := s_txns s ++ [{| o_date := t_date t; o_posts := posts' |}] |}
  end.

Lemma add_transaction_eq s t : add_transaction s t = bind (txn_loop s t) (finish s t).
Proof. reflexivity. Qed.

Lemma txn_prefix_loop s t k :
  txn_loop s (txn_prefix t k) = run (t_date t) 0 (firstn k (t_posts t)) (Ok (st_init (s_bal s))).
Proof. reflexivity. Qed.

(* ================= C01 ================= *)

(* (3) acceptance is exactly: one omitted amount, or the residual balances *)
Lemma accept_iff s t st :
  txn_loop s t = Ok st ->
  ((exists s', add_transaction s t = Ok s') <->
   (l_unfilled st <> None \/ balanced (s_fmt s) (l_residual st))) /\
  (~ (l_unfilled st <> None \/ balanced (s_fmt s) (l_residual st)) ->
   add_transaction s t =
     Err (UnbalancedPostings (a_remove_zeros (a_round (s_fmt s) (l_residual st))))).
Proof.
  intros H. rewrite add_transaction_eq, H. cbn [bind]. unfold finish. cbv zeta.
  destruct (l_unfilled st) as [u|] eqn:Eu.
  - split.
    + split; [intros _; left; discriminate|intros _; eauto].
    + intros Hn. exfalso. apply Hn. left. discriminate.
  - destruct (check_balance_cases (s_fmt s) (t_date t) (rev (l_posts st)) (l_residual st))
      as [[Hb [[ps ev] Hx]]|[Hnb Herr]].
    + rewrite Hx. cbn [bind]. split.
      * split; [intros _; right; exact Hb|intros _; eauto].
      * intros Hn. exfalso. apply Hn. right. exact Hb.
    + rewrite Herr. cbn [bind]. split.
      * split; [intros [s' Hs']; discriminate|].
        intros [H1|H1]; [congruence|contradiction].
      * intros _. reflexivity.
Qed.

Lemma loop_failure_propagates s t :
  (forall e, txn_loop s t = Err e -> add_transaction s t = Err e) /\
  (txn_loop s t = Panic -> add_transaction s t = Panic).
Proof.
  rewrite add_transaction_eq. split; [intros e H|intros H]; rewrite H; reflexivity.
Qed.

(* acceptance goes through the loop *)
Lemma add_transaction_ok_loop s t s' :
  add_transaction s t = Ok s' -> exists st, txn_loop s t = Ok st /\ finish s t st = Ok s'.
Proof. rewrite add_transaction_eq. apply bind_ok_inv. Qed.

(* (4) *)
Lemma mandatory_accept s t st :
  txn_loop s t = Ok st ->
  (l_unfilled st <> None \/ all_zero (a_round (s_fmt s) (l_residual st))) ->
  exists s', add_transaction s t = Ok s'.
Proof.
  intros H Hc. apply (accept_iff s t st H). destruct Hc as [Hc|Hc]; [left; exact Hc|].
  right. left. exact Hc.
Qed.

(* (2) *)
Lemma txn_loop_no_panic s t : txn_loop s t <> Panic.
Proof. rewrite txn_loop_run. apply run_no_panic. discriminate. Qed.

Lemma add_transaction_no_panic s t : add_transaction s t <> Panic.
Proof.
  rewrite add_transaction_eq. apply bind_np; [apply txn_loop_no_panic|].
  intros st _. unfold finish. cbv zeta. destruct (l_unfilled st); [discriminate|].
  apply bind_np; [apply check_balance_no_panic|]. intros [ps ev] _. discriminate.
Qed.

Lemma process_entry_no_panic s e : process_entry s e <> Panic.
Proof. destruct e; cbn [process_entry]; [apply add_transaction_no_panic|discriminate|discriminate]. Qed.

Lemma process_from_no_panic es : forall i s, fst (process_from i s es) <> Panic.
Proof.
  induction es as [|e r IH]; intros i s; cbn [process_from fst]; [discriminate|].
  destruct (process_entry s e) eqn:E; [apply IH|discriminate|].
  exfalso. eapply process_entry_no_panic; eauto.
Qed.

Lemma process_no_panic es : fst (process es) <> Panic.
Proof. apply process_from_no_panic. Qed.

(* which posting is the unfilled one: exactly the unconstrained posting, and a successful
   loop has at most one *)
Lemma loop_unfilled_first s t st :
  txn_loop s t = Ok st -> l_unfilled st = first_unconstrained 0 (t_posts t).
Proof. rewrite txn_loop_run. intros H. apply run_unfilled in H. exact H. Qed.

Lemma loop_unfilled_iff s t st k p :
  txn_loop s t = Ok st -> nth_error (t_posts t) k = Some p ->
  (unconstrained p <-> l_unfilled st = Some k).
Proof.
  intros H Hk. split.
  - intros Hp. rewrite txn_loop_run in H.
    destruct (run_split _ _ _ _ _ _ _ H Hk) as [stk [stk' [_ [H2 [_ H3]]]]].
    apply loop_step_ok_inv in H2. destruct H2 as [b' [ep [ev [Hpp [_ [_ [_ [Hu _]]]]]]]].
    rewrite (process_posting_unconstrained _ _ _ _ Hp) in Hpp. injection Hpp as _ <- _.
    apply run_unfilled in H3. rewrite Hu in H3. exact H3.
  - intros Hu. rewrite (loop_unfilled_first _ _ _ H) in Hu.
    apply first_unconstrained_some in Hu. destruct Hu as [k' [p' [E [Hk' [Hp' _]]]]].
    cbn in E. subst k'. congruence.
Qed.

(* (5) the residual is the sum of the balancing values *)
Lemma residual_sum s t st :
  txn_loop s t = Ok st ->
  exists bvs,
    length bvs = length (t_posts t) /\
    l_residual st = sum_bvs bvs /\
    forall k p, nth_error (t_posts t) k = Some p ->
      exists b o, bal_before s t k b /\ nth_error bvs k = Some o /\ posting_bv b p o.
Proof.
  rewrite txn_loop_run. intros H. apply run_bvs in H. destruct H as [bvs [L [E Hn]]].
  exists bvs. repeat split; try assumption.
  intros k p Hk. destruct (Hn k p Hk) as [stk [o [H1 [H2 H3]]]].
  exists (l_bal stk), o. repeat split; try assumption.
  exists stk. split; [|reflexivity]. rewrite txn_prefix_loop. exact H1.
Qed.

Lemma a_get_sum_bvs bvs c : a_get (sum_bvs bvs) c = qc_sum (map (fun o => bv_get o c) bvs).
Proof. unfold sum_bvs. rewrite a_get_fold_add_bv. cbn. ring. Qed.

(* (6) a failing run stops at a transaction, after processing everything before it *)
Lemma process_from_err es : forall i s e k,
  process_from i s es = (Err e, k) ->
  exists n t s',
    k = (i + n)%nat /\ (n < length es)%nat /\ nth_error es n = Some (ETxn t) /\
    process_from i s (firstn n es) = (Ok s', k) /\ add_transaction s' t = Err e.
Proof.
  induction es as [|x r IH]; intros i s e k H; cbn [process_from] in H; [discriminate|].
  destruct (process_entry s x) as [s1|e1|] eqn:E.
  - destruct (IH _ _ _ _ H) as [n [t [s' [-> [Hn [Hnth [Hpre Herr]]]]]]].
    exists (S n), t, s'. cbn [length nth_error firstn process_from]. rewrite E.
    repeat split; try assumption; try lia.
  - injection H as <- <-. destruct x as [t|c dp|]; cbn [process_entry] in E; try discriminate.
    exists 0%nat, t, s. cbn. repeat split; try assumption; try lia.
  - discriminate.
Qed.

Lemma error_names_transaction es e k :
  process es = (Err e, k) ->
  (k < length es)%nat /\
  exists t s', nth_error es k = Some (ETxn t) /\
               process (firstn k es) = (Ok s', k) /\
               process_entry s' (ETxn t) = Err e.
Proof.
  unfold process. intros H. apply process_from_err in H.
  destruct H as [n [t [s' [-> [Hn [Hnth [Hpre Herr]]]]]]]. cbn [Nat.add] in *.
  split; [exact Hn|]. exists t, s'. repeat split; assumption.
Qed.

(* successful entries are consumed one by one *)
Lemma process_from_ok_index es : forall i s s' k,
  process_from i s es = (Ok s', k) -> k = (i + length es)%nat.
Proof.
  induction es as [|x r IH]; intros i s s' k H; cbn [process_from length] in *.
  - injection H as _ <-. lia.
  - destruct (process_entry s x); try discriminate. apply IH in H. lia.
Qed.

(* ================= well-formed balances in every reachable state ================= *)

Lemma txn_loop_wf s t st : bal_wf (s_bal s) -> txn_loop s t = Ok st -> bal_wf (l_bal st).
Proof. rewrite txn_loop_run. intros Hwf H. eapply run_wf; eauto. Qed.

Lemma bal_add_amount_wf b a x : bal_wf b -> bal_wf (bal_add_amount b a x).
Proof.
  intros H. unfold bal_add_amount. apply bal_wf_set; [exact H|].
  apply NoDup_remove_zeros, NoDup_add, H.
Qed.

Lemma add_transaction_wf s t s' :
  bal_wf (s_bal s) -> add_transaction s t = Ok s' -> bal_wf (s_bal s').
Proof.
  intros Hwf H. apply add_transaction_ok_loop in H. destruct H as [st [Hl Hf]].
  pose proof (txn_loop_wf _ _ _ Hwf Hl) as Hwf'.
  unfold finish in Hf. cbv zeta in Hf. destruct (l_unfilled st).
  - injection Hf as <-. cbn [s_bal]. apply bal_add_amount_wf. exact Hwf'.
  - inv_bind Hf. destruct a as [ps ev]. injection Hf as <-. exact Hwf'.
Qed.

Lemma process_entry_wf s e s' :
  bal_wf (s_bal s) -> process_entry s e = Ok s' -> bal_wf (s_bal s').
Proof.
  destruct e; cbn [process_entry]; intros Hwf H.
  - eapply add_transaction_wf; eauto.
  - injection H as <-. exact Hwf.
  - injection H as <-. exact Hwf.
Qed.

Lemma process_from_wf es : forall i s s' k,
  bal_wf (s_bal s) -> process_from i s es = (Ok s', k) -> bal_wf (s_bal s').
Proof.
  induction es as [|x r IH]; intros i s s' k Hwf H; cbn [process_from] in H.
  - injection H as <- _. exact Hwf.
  - destruct (process_entry s x) eqn:E; try discriminate.
    eapply IH; [|exact H]. eapply process_entry_wf; eauto.
Qed.

Lemma reachable_wf es s k : process es = (Ok s, k) -> bal_wf (s_bal s).
Proof. apply process_from_wf. apply bal_wf_nil. Qed.

(* ================= C03 ================= *)

(* what the loop stored for posting j *)
Lemma loop_stored_exact s t st j pj :
  txn_loop s t = Ok st -> nth_error (t_posts t) j = Some pj ->
  exists b b' ep ev,
    bal_before s t j b /\
    process_posting b (t_date t) j pj = Ok (b', ep, ev) /\
    bal_before s t (S j) b' /\
    nth_error (rev (l_posts st)) j = Some (stored_posting pj ep).
Proof.
  intros H Hj. rewrite txn_loop_run in H.
  destruct (run_nth_stored _ _ _ _ _ _ _ H eq_refl Hj) as [stk [b' [ep [ev [H1 [H2 H3]]]]]].
  exists (l_bal stk), b', ep, ev. repeat split; try assumption.
  - exists stk. split; [|reflexivity]. rewrite txn_prefix_loop. exact H1.
  - destruct (run_split _ _ _ _ _ _ _ H Hj) as [stk2 [stk' [G1 [G2 [G3 _]]]]].
    rewrite H1 in G1. injection G1 as <-.
    exists stk'. split; [rewrite txn_prefix_loop; exact G3|].
    apply loop_step_ok_inv in G2. destruct G2 as [b2 [ep2 [ev2 [Hpp [Hb _]]]]].
    cbn [Nat.add] in Hpp, H2. rewrite H2 in Hpp. injection Hpp as <- _ _. exact Hb.
Qed.

(* (1) the omitted amount *)
Lemma omitted_exact s t st u :
  txn_loop s t = Ok st -> l_unfilled st = Some u ->
  exists pu posts',
    nth_error (t_posts t) u = Some pu /\ unconstrained pu /\
    add_transaction s t =
      Ok {| s_bal := bal_add_amount (l_bal st) (p_account pu) (a_neg (l_residual st));
            s_fmt := s_fmt s;
            s_events := s_events s ++ rev (l_events st);
            s_txns := s_txns s ++ [{| o_date := t_date t; o_posts := posts' |}] |} /\
    length posts' = length (t_posts t) /\
    map o_account posts' = map p_account (t_posts t) /\
    nth_error posts' u = Some {| o_account := p_account pu; o_amount := a_neg (l_residual st);
                                 o_converted := None |} /\
    (forall j, j <> u -> nth_error posts' j = nth_error (rev (l_posts st)) j).
Proof.
  intros H Hu.
  pose proof Hu as Hf. rewrite (loop_unfilled_first _ _ _ H) in Hf.
  apply first_unconstrained_some in Hf. destruct Hf as [k [pu [E [Hk [Hpu _]]]]].
  cbn in E. subst k.
  destruct (loop_stored_exact _ _ _ _ _ H Hk) as [b [b' [ep [ev [_ [Hpp [_ Hnth]]]]]]].
  rewrite (process_posting_unconstrained _ _ _ _ Hpu) in Hpp. injection Hpp as _ <- _.
  cbn [stored_posting] in Hnth.
  exists pu.
  exists (set_nth u (fun p => {| o_account := o_account p; o_amount := a_neg (l_residual st);
                                 o_converted := o_converted p |}) (rev (l_posts st))).
  split; [exact Hk|]. split; [exact Hpu|]. split; [|split; [|split; [|split]]].
  - rewrite add_transaction_eq, H. cbn [bind]. unfold finish. cbv zeta. rewrite Hu, Hnth. reflexivity.
  - rewrite length_set_nth, rev_length. rewrite txn_loop_run in H.
    apply run_posts in H. destruct H as [outs [E [L _]]]. rewrite E. cbn [st_init l_posts].
    rewrite app_nil_r, rev_length. exact L.
  - rewrite map_set_nth_inv by reflexivity. rewrite txn_loop_run in H.
    apply run_posts in H. destruct H as [outs [E [_ M]]]. rewrite E. cbn [st_init l_posts].
    rewrite app_nil_r, rev_involutive. exact M.
  - rewrite nth_error_set_nth_same, Hnth. reflexivity.
  - intros j Hj. apply nth_error_set_nth_other. exact Hj.
Qed.

(* everything an accepted transaction leaves behind, in terms of the loop state *)
Lemma add_transaction_ok_inv s t s' :
  add_transaction s t = Ok s' ->
  exists st posts',
    txn_loop s t = Ok st /\
    s_fmt s' = s_fmt s /\
    s_txns s' = s_txns s ++ [{| o_date := t_date t; o_posts := posts' |}] /\
    length posts' = length (t_posts t) /\
    map o_account posts' = map p_account (t_posts t) /\
    (forall j, l_unfilled st <> Some j ->
       option_map o_amount (nth_error posts' j) =
       option_map o_amount (nth_error (rev (l_posts st)) j)) /\
    match l_unfilled st with
    | Some u => exists pu, nth_error (t_posts t) u = Some pu /\ unconstrained pu /\
                  s_bal s' = bal_add_amount (l_bal st) (p_account pu) (a_neg (l_residual st)) /\
                  option_map o_amount (nth_error posts' u) = Some (a_neg (l_residual st))
    | None => s_bal s' = l_bal st /\ balanced (s_fmt s) (l_residual st)
    end.
Proof.
  intros H. destruct (add_transaction_ok_loop _ _ _ H) as [st [Hl Hf]].
  assert (length (rev (l_posts st)) = length (t_posts t) /\
          map o_account (rev (l_posts st)) = map p_account (t_posts t)) as [HL HM].
  { pose proof Hl as Hr. rewrite txn_loop_run in Hr. apply run_posts in Hr.
    destruct Hr as [outs [E [L M]]]. rewrite E. cbn [st_init l_posts].
    rewrite app_nil_r, rev_involutive. tauto. }
  destruct (l_unfilled st) as [u|] eqn:Eu.
  - destruct (omitted_exact _ _ _ _ Hl Eu) as [pu [posts' [Hk [Hpu [Hadd [HL' [HM' [Hnth Hoth]]]]]]]].
    rewrite H in Hadd. injection Hadd as ->.
    exists st, posts'. rewrite Eu. cbn [s_fmt s_txns s_bal].
    split; [exact Hl|]. split; [reflexivity|]. split; [reflexivity|]. split; [exact HL'|].
    split; [|split].
    + exact HM'.
    + intros j Hj. rewrite Hoth by congruence. reflexivity.
    + exists pu. repeat split; try assumption; try apply Hpu. rewrite Hnth. reflexivity.
  - unfold finish in Hf. cbv zeta in Hf. rewrite Eu in Hf.
    inv_bind Hf. destruct a as [ps ev]. injection Hf as <-.
    destruct (check_balance_amounts _ _ _ _ _ _ Ha) as [HA HC].
    exists st, ps. rewrite Eu. cbn [s_fmt s_txns s_bal].
    split; [exact Hl|]. split; [reflexivity|]. split; [reflexivity|]. split; [|split; [|split]].
    + rewrite <- HL, <- (map_length o_amount ps), HA, map_length. reflexivity.
    + rewrite HC. exact HM.
    + intros j _. rewrite <- !nth_error_map', HA. reflexivity.
    + split; [reflexivity|]. apply (check_balance_iff (s_fmt s) (t_date t) (rev (l_posts st))). eauto.
Qed.

(* (2) assignment postings: process_posting level *)
Lemma assign_single_exact b d i p bc c v :
  assignment p bc -> eval_pa bc = Ok (PSingle c v) ->
  exists b',
    process_posting b d i p =
      Ok (b', Some {| ep_amount := PSingle c (v - a_get (bal_get b (p_account p)) c);
                      ep_converted := None;
                      ep_delta := PSingle c (v - a_get (bal_get b (p_account p)) c) |}, None) /\
    (forall a', a' <> p_account p -> get a' b' = get a' b) /\
    (forall c', c' <> c -> a_get (bal_get b' (p_account p)) c' = a_get (bal_get b (p_account p)) c') /\
    (v <> 0 \/ NoDup (keys (bal_get b (p_account p))) -> a_get (bal_get b' (p_account p)) c = v).
Proof.
  intros Has He. eexists. split; [apply (process_posting_assign_single b d i p bc c v Has He)|].
  split; [|split].
  - intros a' Hne. apply get_set_other. exact Hne.
  - intros c' Hne. rewrite bal_get_set_same. unfold a_get.
    destruct (qc_zero v); [rewrite get_remove_other|rewrite get_set_other]; congruence.
  - intros Hv. rewrite bal_get_set_same. destruct (qc_zero v) eqn:Ez.
    + apply qc_zero_true_iff in Ez. subst v. destruct Hv as [Hv|Hnd]; [congruence|].
      unfold a_get. rewrite get_remove_same by exact Hnd. reflexivity.
    + rewrite a_get_set, N.eqb_refl. reflexivity.
Qed.

Lemma assign_zero_exact b d i p bc :
  assignment p bc -> eval_pa bc = Ok PZero ->
  ((length (bal_get b (p_account p)) <= 1)%nat ->
   exists amt,
     process_posting b d i p =
       Ok (set (p_account p) [] b,
           Some {| ep_amount := amt; ep_converted := None; ep_delta := amt |}, None) /\
     pa_to_amount amt = a_neg (bal_get b (p_account p)) /\
     bal_get (set (p_account p) [] b) (p_account p) = []) /\
  ((2 <= length (bal_get b (p_account p)))%nat -> process_posting b d i p = Err BalanceFailure).
Proof.
  intros Has He. rewrite (process_posting_assign_zero b d i p bc Has He). split.
  - intros Hlen. apply amount_to_pa_inl_iff in Hlen. destruct Hlen as [cur Hcur]. rewrite Hcur.
    exists (pa_neg cur). split; [reflexivity|]. split; [|apply bal_get_set_same].
    apply amount_to_pa_keys in Hcur. rewrite <- Hcur. destruct cur; reflexivity.
  - intros Hlen. destruct (amount_to_pa (bal_get b (p_account p))) as [cur|] eqn:Hcur; [|reflexivity].
    assert (length (bal_get b (p_account p)) <= 1)%nat by (apply amount_to_pa_inl_iff; eauto). lia.
Qed.

(* a loop that stops with an error at posting k *)
Lemma run_fail_at d ps st0 stk k p e :
  run d 0 (firstn k ps) (Ok st0) = Ok stk -> nth_error ps k = Some p ->
  loop_step d (Ok stk) (k, p) = Err e ->
  run d 0 ps (Ok st0) = Err e.
Proof.
  intros H1 Hk Hs. destruct (nth_error_split_firstn _ _ _ Hk) as [E L].
  rewrite E, run_app, H1, L, run_cons. cbn [Nat.add]. rewrite Hs. apply run_err.
Qed.

Lemma prefix_error_propagates s t k e :
  txn_loop s (txn_prefix t k) = Err e -> add_transaction s t = Err e.
Proof.
  intros H. apply loop_failure_propagates. rewrite txn_prefix_loop in H.
  rewrite txn_loop_run, <- (firstn_skipn k (t_posts t)), run_app, H. apply run_err.
Qed.

(* (2) at transaction level *)
Lemma assign_single_exact_txn s t s' i p bc c v :
  add_transaction s t = Ok s' ->
  nth_error (t_posts t) i = Some p -> assignment p bc -> eval_pa bc = Ok (PSingle c v) ->
  exists b b' posts',
    bal_before s t i b /\ bal_before s t (S i) b' /\
    s_txns s' = s_txns s ++ [{| o_date := t_date t; o_posts := posts' |}] /\
    option_map o_amount (nth_error posts' i) =
      Some (a_single c (v - a_get (bal_get b (p_account p)) c)) /\
    (bal_wf (s_bal s) -> a_get (bal_get b' (p_account p)) c = v).
Proof.
  intros H Hi Has He.
  destruct (add_transaction_ok_inv _ _ _ H) as [st [posts' [Hl [_ [Htx [_ [_ [Hoth _]]]]]]]].
  destruct (loop_stored_exact _ _ _ _ _ Hl Hi) as [b [b' [ep [ev [Hb [Hpp [Hb' Hnth]]]]]]].
  destruct (assign_single_exact b (t_date t) i p bc c v Has He) as [b2 [Hpp2 [_ [_ Hv]]]].
  rewrite Hpp in Hpp2. injection Hpp2 as -> -> _.
  exists b, b2, posts'. split; [exact Hb|]. split; [exact Hb'|]. split; [exact Htx|]. split.
  - rewrite Hoth, Hnth; [reflexivity|].
    intros Hu. apply (loop_unfilled_iff _ _ _ _ _ Hl Hi) in Hu.
    destruct Hu as [_ Hu], Has as [_ Has]. congruence.
  - intros Hwf. apply Hv. right. destruct Hb as [stb [Hlb <-]].
    apply (txn_loop_wf s (txn_prefix t i) stb Hwf Hlb).
Qed.

Lemma assign_zero_exact_txn s t i p bc b :
  bal_before s t i b ->
  nth_error (t_posts t) i = Some p -> assignment p bc -> eval_pa bc = Ok PZero ->
  ((2 <= length (bal_get b (p_account p)))%nat -> add_transaction s t = Err BalanceFailure) /\
  (forall s', add_transaction s t = Ok s' ->
     exists b' posts',
       (length (bal_get b (p_account p)) <= 1)%nat /\
       bal_before s t (S i) b' /\ bal_get b' (p_account p) = [] /\
       s_txns s' = s_txns s ++ [{| o_date := t_date t; o_posts := posts' |}] /\
       option_map o_amount (nth_error posts' i) = Some (a_neg (bal_get b (p_account p)))).
Proof.
  intros [stb [Hlb <-]] Hi Has He.
  destruct (assign_zero_exact (l_bal stb) (t_date t) i p bc Has He) as [Hle Hge].
  assert ((2 <= length (bal_get (l_bal stb) (p_account p)))%nat ->
          add_transaction s t = Err BalanceFailure) as Hrej.
  { intros Hlen. apply loop_failure_propagates. rewrite txn_loop_run.
    rewrite txn_prefix_loop in Hlb.
    eapply run_fail_at; [exact Hlb|exact Hi|].
    unfold loop_step. cbn [bind]. rewrite (Hge Hlen). reflexivity. }
  split; [exact Hrej|].
  intros s' H.
  assert (length (bal_get (l_bal stb) (p_account p)) <= 1)%nat as Hlen.
  { destruct (le_lt_dec (length (bal_get (l_bal stb) (p_account p))) 1) as [Hl|Hl]; [exact Hl|].
    rewrite Hrej in H by lia. discriminate. }
  destruct (Hle Hlen) as [amt [Hpp2 [Hamt Hempty]]].
  destruct (add_transaction_ok_inv _ _ _ H) as [st [posts' [Hl [_ [Htx [_ [_ [Hoth _]]]]]]]].
  destruct (loop_stored_exact _ _ _ _ _ Hl Hi) as [b [b' [ep [ev [Hb [Hpp [Hb' Hnth]]]]]]].
  destruct Hb as [stb2 [Hlb2 <-]]. rewrite Hlb in Hlb2. injection Hlb2 as <-.
  rewrite Hpp in Hpp2. injection Hpp2 as -> -> _.
  exists (set (p_account p) [] (l_bal stb)), posts'.
  split; [exact Hlen|]. split; [exact Hb'|]. split; [exact Hempty|]. split; [exact Htx|].
  rewrite Hoth, Hnth; [cbn [option_map stored_posting o_amount ep_amount]; rewrite Hamt; reflexivity|].
  intros Hu. apply (loop_unfilled_iff _ _ _ _ _ Hl Hi) in Hu.
  destruct Hu as [_ Hu], Has as [_ Has]. congruence.
Qed.

(* (3) a second unconstrained posting *)
Lemma two_unconstrained_rejected s t i j pi pj stj :
  (i < j)%nat ->
  nth_error (t_posts t) i = Some pi -> unconstrained pi ->
  nth_error (t_posts t) j = Some pj -> unconstrained pj ->
  txn_loop s (txn_prefix t j) = Ok stj ->
  add_transaction s t = Err (UndeduciblePostingAmount i j).
Proof.
  intros Hij Hi Hpi Hj Hpj Hpre.
  assert (l_unfilled stj = Some i) as Hu.
  { apply (loop_unfilled_iff s (txn_prefix t j) stj i pi Hpre); [|exact Hpi].
    cbn [txn_prefix t_posts]. rewrite nth_error_firstn_lt by exact Hij. exact Hi. }
  apply loop_failure_propagates. rewrite txn_loop_run. rewrite txn_prefix_loop in Hpre.
  eapply run_fail_at; [exact Hpre|exact Hj|].
  apply loop_step_second_unconstrained; assumption.
Qed.

(* a successful prefix contains at most one unconstrained posting, so i and j above are the
   first two *)
Lemma prefix_ok_one_unconstrained s t j stj i k pi pk :
  txn_loop s (txn_prefix t j) = Ok stj ->
  (i < j)%nat -> (k < j)%nat ->
  nth_error (t_posts t) i = Some pi -> unconstrained pi ->
  nth_error (t_posts t) k = Some pk -> unconstrained pk -> i = k.
Proof.
  intros Hpre Hi Hk Hni Hpi Hnk Hpk.
  assert (l_unfilled stj = Some i) as H1.
  { apply (loop_unfilled_iff s (txn_prefix t j) stj i pi Hpre); [|exact Hpi].
    cbn [txn_prefix t_posts]. rewrite nth_error_firstn_lt by exact Hi. exact Hni. }
  assert (l_unfilled stj = Some k) as H2.
  { apply (loop_unfilled_iff s (txn_prefix t j) stj k pk Hpre); [|exact Hpk].
    cbn [txn_prefix t_posts]. rewrite nth_error_firstn_lt by exact Hk. exact Hnk. }
  congruence.
Qed.

(* (4) frame *)
Lemma txn_loop_frame s t st a' :
  txn_loop s t = Ok st -> (forall p, In p (t_posts t) -> p_account p <> a') ->
  get a' (l_bal st) = get a' (s_bal s).
Proof. rewrite txn_loop_run. intros H Hacc. apply (run_frame _ _ _ _ _ _ H Hacc). Qed.

Lemma add_transaction_frame s t s' a' :
  add_transaction s t = Ok s' -> (forall p, In p (t_posts t) -> p_account p <> a') ->
  get a' (s_bal s') = get a' (s_bal s).
Proof.
  intros H Hacc.
  destruct (add_transaction_ok_inv _ _ _ H) as [st [posts' [Hl [_ [_ [_ [_ [_ Hbal]]]]]]]].
  rewrite <- (txn_loop_frame _ _ _ _ Hl Hacc).
  destruct (l_unfilled st) as [u|].
  - destruct Hbal as [pu [Hk [_ [-> _]]]]. unfold bal_add_amount.
    apply get_set_other. intros E. apply (Hacc pu); [eapply nth_error_In; eauto|congruence].
  - destruct Hbal as [-> _]. reflexivity.
Qed.

(* an assigned account that no other posting of the transaction names ends the transaction
   at the assigned value *)
Lemma assign_single_final s t s' i p bc c v :
  bal_wf (s_bal s) ->
  add_transaction s t = Ok s' ->
  nth_error (t_posts t) i = Some p -> assignment p bc -> eval_pa bc = Ok (PSingle c v) ->
  (forall j pj, j <> i -> nth_error (t_posts t) j = Some pj -> p_account pj <> p_account p) ->
  a_get (bal_get (s_bal s') (p_account p)) c = v.
Proof.
  intros Hwf H Hi Has He Hother.
  destruct (assign_single_exact_txn _ _ _ _ _ _ _ _ H Hi Has He) as [b [b' [posts' [_ [Hb' [_ [_ Hv]]]]]]].
  specialize (Hv Hwf).
  destruct (add_transaction_ok_inv _ _ _ H) as [st [ps [Hl [_ [_ [_ [_ [_ Hbal]]]]]]]].
  assert (get (p_account p) (l_bal st) = get (p_account p) b') as Hframe.
  { destruct Hb' as [stb [Hlb <-]]. rewrite txn_prefix_loop in Hlb.
    pose proof Hl as Hr. rewrite txn_loop_run in Hr.
    destruct (run_split _ _ _ _ _ _ _ Hr Hi) as [stk [stk' [_ [_ [G3 G4]]]]].
    rewrite Hlb in G3. injection G3 as <-.
    apply (run_frame _ _ _ _ _ _ G4).
    intros q Hq. apply In_nth_error in Hq. destruct Hq as [n Hn].
    apply (Hother (S i + n)%nat q); [lia|].
    rewrite <- Hn. symmetry. apply nth_error_skipn'. }
  assert (get (p_account p) (s_bal s') = get (p_account p) (l_bal st)) as Hfin.
  { destruct (l_unfilled st) as [u|] eqn:Eu.
    - destruct Hbal as [pu [Hu [Hpu [-> _]]]]. unfold bal_add_amount.
      apply get_set_other. intros E. apply (Hother u pu); [|exact Hu|congruence].
      intros ->. destruct Hpu as [_ Hpu], Has as [_ Has]. congruence.
    - destruct Hbal as [-> _]. reflexivity. }
  unfold bal_get in *. rewrite Hfin, Hframe. exact Hv.
Qed.

(* the omitted amount, commodity by commodity: minus the sum of the other postings'
   balancing values (the omitted posting itself contributes nothing) *)
Lemma omitted_pointwise s t st u :
  txn_loop s t = Ok st -> l_unfilled st = Some u ->
  exists bvs,
    length bvs = length (t_posts t) /\
    nth_error bvs u = Some None /\
    (forall k p, nth_error (t_posts t) k = Some p ->
       exists b o, bal_before s t k b /\ nth_error bvs k = Some o /\ posting_bv b p o) /\
    forall c, a_get (a_neg (l_residual st)) c = - qc_sum (map (fun o => bv_get o c) bvs).
Proof.
  intros H Hu. destruct (residual_sum _ _ _ H) as [bvs [L [E Hn]]].
  exists bvs. split; [exact L|]. split; [|split; [exact Hn|]].
  - destruct (omitted_exact _ _ _ _ H Hu) as [pu [_ [Hk [[Hp1 Hp2] _]]]].
    destruct (Hn u pu Hk) as [b [o [_ [Ho Hbv]]]]. rewrite Ho. f_equal.
    inversion Hbv as [|bc c v [_ Hb]|bc cur [_ Hb]|e am v Ha]; subst; try reflexivity; congruence.
  - intros c. rewrite a_get_neg, E, a_get_sum_bvs. reflexivity.
Qed.
