(* Model of cli/src/import/extract.rs: Extractor, ExtractRule, MatchOrExpr, MatchAndExpr,
   Fragment and its `+` / `+=`.  Definitions only.

   The matcher is abstract: `matches m e f` is EntityMatcher::captures (for the importers a
   regex applied to a field of the entity e, or to the payee accumulated in the fragment f);
   `valid m` is the TryFrom<(RewriteField, &str)> check made when the Extractor is built. *)
From Coq Require Import List NArith Bool.
From Okv Require Import Model.ImpConfig.
Import ListNotations.

(* Matched *)
Record captures := { m_payee : option str; m_code : option str }.
Definition no_captures : captures := {| m_payee := None; m_code := None |}.

(* Fragment *)
Record frag := { g_cleared : bool; g_payee : option str; g_account : option str;
                 g_code : option str; g_conversion : option conv_spec }.
Definition frag0 : frag :=
  {| g_cleared := false; g_payee := None; g_account := None; g_code := None; g_conversion := None |}.

(* impl Add<Matched> for Fragment *)
Definition frag_add_matched (f : frag) (m : captures) : frag :=
  {| g_cleared := g_cleared f; g_payee := option_or (m_payee m) (g_payee f);
     g_account := g_account f; g_code := option_or (m_code m) (g_code f);
     g_conversion := g_conversion f |}.

(* impl AddAssign for Fragment: self += other *)
Definition frag_add_assign (self other : frag) : frag :=
  {| g_cleared := g_cleared other || g_cleared self;
     g_payee := option_or (g_payee other) (g_payee self);
     g_account := option_or (g_account other) (g_account self);
     g_code := option_or (g_code other) (g_code self);
     g_conversion := match g_conversion other with Some c => Some c | None => g_conversion self end |}.

(* position of a field in the declaration of config::RewriteField (its derived Ord) *)
Definition rf_rank (f : rewrite_field) : nat :=
  match f with
  | RDomainCode => 0 | RDomainFamily => 1 | RDomainSubFamily => 2 | RCreditorName => 3
  | RCreditorAccountId => 4 | RUltimateCreditorName => 5 | RDebtorName => 6 | RDebtorAccountId => 7
  | RUltimateDebtorName => 8 | RRemittanceUnstructuredInfo => 9 | RAdditionalEntryInfo => 10
  | RAdditionalTransactionInfo => 11 | RSecondaryCommodity => 12 | RCategory => 13 | RPayee => 14
  end%nat.

Section Extract.
  Context {P R : Type}.
  Variable matches : rewrite_field * P -> R -> frag -> option captures.

  (* MatchAndExpr::extract: try_fold over the matchers, threading the fragment *)
  Fixpoint and_extract (ms : and_list P) (cur : frag) (e : R) : option frag :=
    match ms with
    | [] => Some cur
    | m :: r => match matches m e cur with
                | None => None
                | Some c => and_extract r (frag_add_matched cur c) e
                end
    end.

  (* MatchOrExpr::extract: find_map, every element starts from the same fragment *)
  Fixpoint or_extract (os : list (and_list P)) (cur : frag) (e : R) : option frag :=
    match os with
    | [] => None
    | a :: r => match and_extract a cur e with
                | Some f => Some f
                | None => or_extract r cur e
                end
    end.

  (* ExtractRule::extract *)
  Definition rule_apply (r : rule P) (c : frag) : frag :=
    {| g_cleared := match r_account r with
                    | Some _ => g_cleared c || negb (r_pending r)
                    | None => g_cleared c
                    end;
       g_payee := option_or (r_payee r) (g_payee c);
       g_account := r_account r;
       g_code := g_code c;
       g_conversion := option_or (r_conversion r) (g_conversion c) |}.
  Definition rule_extract (r : rule P) (cur : frag) (e : R) : option frag :=
    option_map (rule_apply r) (or_extract (r_matcher r) cur e).

  (* one iteration of Extractor::extract *)
  Definition step (e : R) (f : frag) (r : rule P) : frag :=
    match rule_extract r f e with
    | Some u => frag_add_assign f u
    | None => f
    end.
  Definition extract_from (f : frag) (rules : list (rule P)) (e : R) : frag :=
    fold_left (step e) rules f.
  Definition extract (rules : list (rule P)) (e : R) : frag := extract_from frag0 rules e.

  (* building the Extractor.  TryFrom<&FieldMatcher> for MatchAndExpr (since /repo cce0c70):
     the fields of the HashMap are applied in the declaration order of RewriteField, whatever
     the order they were written in (sort_unstable_by_key on distinct keys).  The functions
     above take the AND-lists as compiled here; the importers call extract on `compile rules`. *)
  Fixpoint and_insert (m : rewrite_field * P) (l : and_list P) : and_list P :=
    match l with
    | [] => [m]
    | x :: r => if Nat.leb (rf_rank (fst m)) (rf_rank (fst x)) then m :: l else x :: and_insert m r
    end.
  Definition and_compile (a : and_list P) : and_list P := fold_right and_insert [] a.
  Definition rule_compile (r : rule P) : rule P :=
    {| r_matcher := map and_compile (r_matcher r); r_pending := r_pending r; r_payee := r_payee r;
       r_account := r_account r; r_conversion := r_conversion r |}.
  Definition compile (rules : list (rule P)) : list (rule P) := map rule_compile rules.

  (* every field matcher must convert, no AND-list may be empty *)
  Variable valid : rewrite_field * P -> bool.
  Definition and_ok (a : and_list P) : bool :=
    forallb valid a && match a with [] => false | _ => true end.
  Definition rules_ok (rules : list (rule P)) : bool :=
    forallb (fun r => forallb and_ok (r_matcher r)) rules.
End Extract.
