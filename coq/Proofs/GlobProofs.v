(* The transcription of glob::Pattern::matches_from (Model/Glob.v), with its three-valued
   result and its early exits, decides the declarative relation gmatch (Model/GlobSpec.v);
   consequences for separators and leading dots. *)
From Coq Require Import List NArith Bool Lia Wf_nat.
From Okv Require Import Model.Glob Model.GlobSpec.
Import ListNotations.
Open Scope N_scope.

(* ---------- character classes ---------- *)

Lemma in_specs_iff : forall cs c, in_specs cs c = true <-> in_class cs c.
Proof.
  induction cs as [|sp cs IH]; intro c.
  - split; [discriminate|]. intros [sp [[] _]].
  - destruct sp as [a|lo hi]; cbn [in_specs]; rewrite orb_true_iff, IH; split.
    + intros [H|[sp [H1 H2]]].
      * apply N.eqb_eq in H. exists (SingleChar a). split; [left; reflexivity|exact H].
      * exists sp. split; [right; exact H1|exact H2].
    + intros [sp [[H1|H1] H2]].
      * subst sp. left. apply N.eqb_eq. exact H2.
      * right. exists sp. split; assumption.
    + intros [H|[sp [H1 H2]]].
      * apply andb_true_iff in H. destruct H as [Ha Hb]. apply N.leb_le in Ha, Hb.
        exists (CharRange lo hi). split; [left; reflexivity|split; assumption].
      * exists sp. split; [right; exact H1|exact H2].
    + intros [sp [[H1|H1] H2]].
      * subst sp. destruct H2 as [Ha Hb]. left. apply andb_true_iff. split; apply N.leb_le; assumption.
      * right. exists sp. split; assumption.
Qed.

Lemma in_specs_false_iff : forall cs c, in_specs cs c = false <-> ~ in_class cs c.
Proof.
  intros cs c. rewrite <- in_specs_iff. destruct (in_specs cs c); split; intro H; try reflexivity; try discriminate.
  - exfalso. apply H. reflexivity.
Qed.

(* the while loop of the AnySequence arm, named *)
Fixpoint seq_loop (rest : list token) (follows : bool) (file : str) : mresult :=
  match file with
  | [] => matches_from rest follows []
  | c :: file' =>
      if follows && (c =? DOT) then SubPatternDoesntMatch
      else if is_sep c then SubPatternDoesntMatch
      else match matches_from rest (is_sep c) file' with
           | SubPatternDoesntMatch => seq_loop rest (is_sep c) file'
           | m => m
           end
  end.

Lemma mf_seq : forall rest f s,
  matches_from (AnySequence :: rest) f s =
  match matches_from rest f s with
  | SubPatternDoesntMatch => seq_loop rest f s
  | m => m
  end.
Proof.
  intros. cbn [matches_from]. destruct (matches_from rest f s); try reflexivity.
  revert f. induction s as [|a s IHs]; intro f; [reflexivity|]. cbn [seq_loop].
  destruct (f && (a =? DOT)); [reflexivity|]. destruct (is_sep a); [reflexivity|].
  destruct (matches_from rest false s); try reflexivity. apply IHs.
Qed.

(* ---------- facts about gmatch ---------- *)

Lemma gmatch_weaken : forall f ts s, gmatch f ts s -> gmatch false ts s.
Proof.
  assert (W : forall f c, wild_ok f c = true -> wild_ok false c = true).
  { intros f c H. unfold wild_ok in *. apply andb_true_iff in H. destruct H as [H1 _]. rewrite H1. reflexivity. }
  intros f ts s H. induction H.
  - constructor.
  - constructor. assumption.
  - apply GM_any; [|assumption]. eapply W; eassumption.
  - apply GM_within; [|assumption|assumption]. eapply W; eassumption.
  - apply GM_except; [|assumption|assumption]. eapply W; eassumption.
  - apply GM_seq_nil. assumption.
  - apply GM_seq_cons; [|assumption]. eapply W; eassumption.
Qed.

Definition head_not_dot (s : str) : Prop := match s with c :: _ => (c =? DOT) = false | [] => True end.

Lemma wild_ok_not_dot : forall f f' c, (c =? DOT) = false -> wild_ok f c = wild_ok f' c.
Proof. intros. unfold wild_ok. rewrite H. rewrite !andb_false_r. reflexivity. Qed.

Lemma gmatch_flag : forall f ts s, gmatch f ts s -> forall f', head_not_dot s -> gmatch f' ts s.
Proof.
  intros f ts s H. induction H; intros f' Hd.
  - constructor.
  - constructor. assumption.
  - apply GM_any; [|assumption]. cbn in Hd. rewrite (wild_ok_not_dot f' f c Hd). assumption.
  - apply GM_within; [|assumption|assumption]. cbn in Hd. rewrite (wild_ok_not_dot f' f c Hd). assumption.
  - apply GM_except; [|assumption|assumption]. cbn in Hd. rewrite (wild_ok_not_dot f' f c Hd). assumption.
  - apply GM_seq_nil. apply IHgmatch. assumption.
  - apply GM_seq_cons; [|assumption]. cbn in Hd. rewrite (wild_ok_not_dot f' f c Hd). assumption.
Qed.

(* same string, other flag: allowed when the flag given up is not what let a dot through *)
Lemma gmatch_reflag : forall f f' ts c s,
  f && (c =? DOT) = false -> gmatch f' ts (c :: s) -> gmatch f ts (c :: s).
Proof.
  intros f f' ts c s H G. destruct (c =? DOT) eqn:E.
  - rewrite andb_true_r in H. subst f. eapply gmatch_weaken. exact G.
  - eapply gmatch_flag; [exact G|]. exact E.
Qed.

Lemma suffix_cons : forall (c : N) s1 w s',
  c :: s1 = w ++ s' -> (w = [] /\ s' = c :: s1) \/ (exists w', w = c :: w' /\ s1 = w' ++ s').
Proof.
  intros c s1 w s' H. destruct w as [|x w'].
  - left. split; [reflexivity|]. symmetry. exact H.
  - right. cbn in H. injection H as H1 H2. subst x. exists w'. split; [reflexivity|assumption].
Qed.

(* a match of `* rest` ends with a match of rest on some suffix; if the star took nothing the flag is kept *)
Lemma seq_inv : forall f rest s,
  gmatch f (AnySequence :: rest) s ->
  exists w s' f', s = w ++ s' /\ gmatch f' rest s' /\ (w = [] -> f' = f).
Proof.
  intros f rest s H. remember (AnySequence :: rest) as ts eqn:E.
  induction H; try discriminate.
  - injection E as E. subst ts. exists [], s, f. repeat split; auto.
  - injection E as E. subst ts. destruct (IHgmatch eq_refl) as [w [s' [f' [H1 [H2 _]]]]].
    exists (c :: w), s', f'. subst s. repeat split; auto. discriminate.
Qed.

(* ---------- the scanner decides gmatch ---------- *)

Definition sound_M (ts : list token) : Prop :=
  forall f s, matches_from ts f s = Match -> gmatch f ts s.
Definition sound_S (ts : list token) : Prop :=
  forall f s, matches_from ts f s = SubPatternDoesntMatch -> ~ gmatch f ts s.
(* EntirePatternDoesntMatch: the input ran out; no suffix of it can match either, whatever
   precedes it — which is why the callers stop trying *)
Definition sound_E (ts : list token) : Prop :=
  forall f s, matches_from ts f s = EntirePatternDoesntMatch ->
  forall f' w s', s = w ++ s' -> ~ gmatch f' ts s'.

Lemma wild_ok_false_any : forall f c,
  is_sep c || (f && (c =? DOT)) = true -> wild_ok f c = false.
Proof.
  intros f c H. unfold wild_ok. apply orb_true_iff in H. destruct H as [H|H]; rewrite H; cbn; auto.
  rewrite andb_false_r. reflexivity.
Qed.

Lemma wild_ok_true_any : forall f c,
  is_sep c || (f && (c =? DOT)) = false -> wild_ok f c = true /\ is_sep c = false.
Proof.
  intros f c H. apply orb_false_iff in H. destruct H as [H1 H2]. unfold wild_ok. rewrite H1, H2. auto.
Qed.

Section Loop.
  Variable rest : list token.
  Hypothesis IHM : sound_M rest.
  Hypothesis IHS : sound_S rest.
  Hypothesis IHE : sound_E rest.

  Lemma seq_step_inv : forall f c s,
    gmatch f (AnySequence :: rest) (c :: s) ->
    gmatch f rest (c :: s) \/ (wild_ok f c = true /\ gmatch false (AnySequence :: rest) s).
  Proof. intros f c s H. inversion H; subst; auto. Qed.

  Lemma loop_correct : forall s f,
    matches_from rest f s = SubPatternDoesntMatch ->
    (seq_loop rest f s = Match -> gmatch f (AnySequence :: rest) s) /\
    (seq_loop rest f s = SubPatternDoesntMatch -> ~ gmatch f (AnySequence :: rest) s) /\
    (seq_loop rest f s = EntirePatternDoesntMatch ->
       forall f' w s', s = w ++ s' -> ~ gmatch f' (AnySequence :: rest) s').
  Proof.
    induction s as [|c s1 IH]; intros f H0.
    - cbn [seq_loop]. rewrite H0. repeat split; try discriminate.
      intros _ G. inversion G; subst. exact (IHS _ _ H0 H2).
    - pose proof (IHS _ _ H0) as N0.
      cbn [seq_loop]. destruct (f && (c =? DOT)) eqn:Ed.
      { repeat split; try discriminate. intros _ G. apply seq_step_inv in G. destruct G as [G|[G _]]; [exact (N0 G)|].
        unfold wild_ok in G. rewrite Ed in G. rewrite andb_false_r in G. discriminate. }
      destruct (is_sep c) eqn:Es.
      { repeat split; try discriminate. intros _ G. apply seq_step_inv in G. destruct G as [G|[G _]]; [exact (N0 G)|].
        unfold wild_ok in G. rewrite Es in G. discriminate. }
      assert (W : wild_ok f c = true) by (unfold wild_ok; rewrite Es, Ed; reflexivity).
      destruct (matches_from rest false s1) eqn:R.
      + (* rest matches after the star took c *)
        repeat split; try discriminate. intros _.
        apply GM_seq_cons; [exact W|]. apply GM_seq_nil. apply IHM. exact R.
      + (* keep consuming *)
        destruct (IH false R) as [L1 [L2 L3]]. repeat split.
        * intro L. apply GM_seq_cons; [exact W|]. apply L1. exact L.
        * intros L G. apply seq_step_inv in G. destruct G as [G|[_ G]]; [exact (N0 G)|]. exact (L2 L G).
        * intros L f' w s' Hs G. apply suffix_cons in Hs. destruct Hs as [[Hw Hs]|[w' [Hw Hs]]].
          -- subst s'. apply seq_step_inv in G. destruct G as [G|[_ G]].
             ++ apply N0. eapply gmatch_reflag; eauto.
             ++ exact (L3 L false [] s1 eq_refl G).
          -- exact (L3 L f' w' s' Hs G).
      + (* the input ran out below: nothing shorter can match either *)
        repeat split; try discriminate. intros _ f' w s' Hs G.
        apply seq_inv in G. destruct G as [w2 [s2 [f2 [Hs2 [G2 _]]]]].
        subst s'. rewrite app_assoc in Hs. apply suffix_cons in Hs. destruct Hs as [[Hw Hs]|[w' [Hw Hs]]].
        * subst s2. apply N0. eapply gmatch_reflag; eauto.
        * exact (IHE _ _ R f2 w' s2 Hs G2).
  Qed.
End Loop.

Lemma gm_char_inv : forall f c2 ts s,
  gmatch f (Char c2 :: ts) s -> exists s1, s = c2 :: s1 /\ gmatch (is_sep c2) ts s1.
Proof. intros f c2 ts s H. inversion H; subst. eexists; split; [reflexivity|assumption]. Qed.

Lemma gm_any_inv : forall f ts s,
  gmatch f (AnyChar :: ts) s -> exists c s1, s = c :: s1 /\ wild_ok f c = true /\ gmatch false ts s1.
Proof. intros f ts s H. inversion H; subst. do 2 eexists; repeat split; [assumption|assumption]. Qed.

Lemma gm_within_inv : forall f cs ts s,
  gmatch f (AnyWithin cs :: ts) s ->
  exists c s1, s = c :: s1 /\ wild_ok f c = true /\ in_class cs c /\ gmatch false ts s1.
Proof. intros f cs ts s H. inversion H; subst. do 2 eexists; repeat split; assumption. Qed.

Lemma gm_except_inv : forall f cs ts s,
  gmatch f (AnyExcept cs :: ts) s ->
  exists c s1, s = c :: s1 /\ wild_ok f c = true /\ ~ in_class cs c /\ gmatch false ts s1.
Proof. intros f cs ts s H. inversion H; subst. do 2 eexists; repeat split; assumption. Qed.

Lemma mf_correct : forall ts, sound_M ts /\ sound_S ts /\ sound_E ts.
Proof.
  induction ts as [|t rest [IHM [IHS IHE]]].
  - repeat split.
    + intros f s H. destruct s; [constructor|discriminate].
    + intros f s H G. destruct s; [discriminate|]. inversion G.
    + intros f s H. destruct s; discriminate.
  - destruct t as [c2| | |cs|cs].
    + (* Char *)
      repeat split.
      * intros f s H. destruct s as [|c s1]; [discriminate|]. cbn [matches_from] in H.
        destruct (c =? c2) eqn:E; [|discriminate]. apply N.eqb_eq in E. subst c2.
        constructor. apply IHM. exact H.
      * intros f s H G. destruct s as [|c s1]; [discriminate|]. cbn [matches_from] in H.
        apply gm_char_inv in G. destruct G as [s2 [Es G]]. injection Es as Ec Es. subst c s2.
        rewrite N.eqb_refl in H. exact (IHS _ _ H G).
      * intros f s H f' w s' Hs G.
        apply gm_char_inv in G. destruct G as [s2 [Es G]]. subst s'.
        destruct s as [|c s1].
        { destruct w; discriminate. }
        cbn [matches_from] in H. destruct (c =? c2) eqn:E; [|discriminate].
        apply suffix_cons in Hs. destruct Hs as [[Hw Hs]|[w' [Hw Hs]]].
        -- injection Hs as Hc Hs. subst. exact (IHE _ _ H _ [] s1 eq_refl G).
        -- refine (IHE _ _ H _ (w' ++ [c2]) s2 _ G). rewrite <- app_assoc. exact Hs.
    + (* AnyChar *)
      repeat split.
      * intros f s H. destruct s as [|c s1]; [discriminate|]. cbn [matches_from] in H.
        destruct (is_sep c || (f && (c =? DOT))) eqn:E; [discriminate|].
        apply wild_ok_true_any in E. destruct E as [W Es]. rewrite Es in H.
        apply GM_any; [exact W|]. apply IHM. exact H.
      * intros f s H G. destruct s as [|c s1]; [discriminate|]. cbn [matches_from] in H.
        apply gm_any_inv in G. destruct G as [c' [s2 [Es [W G]]]]. injection Es as Ec Es. subst c' s2.
        destruct (is_sep c || (f && (c =? DOT))) eqn:E.
        -- apply wild_ok_false_any in E. congruence.
        -- apply wild_ok_true_any in E. destruct E as [_ Es]. rewrite Es in H. exact (IHS _ _ H G).
      * intros f s H f' w s' Hs G.
        apply gm_any_inv in G. destruct G as [c' [s2 [Es [W G]]]]. subst s'.
        destruct s as [|c0 s1].
        { destruct w; discriminate. }
        cbn [matches_from] in H.
        destruct (is_sep c0 || (f && (c0 =? DOT))) eqn:E; [discriminate|].
        apply wild_ok_true_any in E. destruct E as [_ Es]. rewrite Es in H.
        apply suffix_cons in Hs. destruct Hs as [[Hw Hs]|[w' [Hw Hs]]].
        -- injection Hs as Hc Hs. subst. exact (IHE _ _ H _ [] s1 eq_refl G).
        -- refine (IHE _ _ H _ (w' ++ [c']) s2 _ G). rewrite <- app_assoc. exact Hs.
    + (* AnySequence *)
      repeat split.
      * intros f s H. rewrite mf_seq in H. destruct (matches_from rest f s) eqn:R; try discriminate.
        -- apply GM_seq_nil. apply IHM. exact R.
        -- destruct (loop_correct rest IHM IHS IHE s f R) as [L1 _]. apply L1. exact H.
      * intros f s H. rewrite mf_seq in H. destruct (matches_from rest f s) eqn:R; try discriminate.
        destruct (loop_correct rest IHM IHS IHE s f R) as [_ [L2 _]]. apply L2. exact H.
      * intros f s H f' w s' Hs. rewrite mf_seq in H. destruct (matches_from rest f s) eqn:R; try discriminate.
        -- destruct (loop_correct rest IHM IHS IHE s f R) as [_ [_ L3]]. exact (L3 H f' w s' Hs).
        -- intro G. apply seq_inv in G. destruct G as [w2 [s2 [f2 [Hs2 [G2 _]]]]].
           subst s'. rewrite app_assoc in Hs. exact (IHE _ _ R f2 _ s2 Hs G2).
    + (* AnyWithin *)
      repeat split.
      * intros f s H. destruct s as [|c s1]; [discriminate|]. cbn [matches_from] in H.
        destruct (is_sep c || (f && (c =? DOT))) eqn:E; [discriminate|].
        apply wild_ok_true_any in E. destruct E as [W Es]. rewrite Es in H.
        destruct (in_specs cs c) eqn:Ec; [|discriminate].
        apply GM_within; [exact W|apply in_specs_iff; exact Ec|]. apply IHM. exact H.
      * intros f s H G. destruct s as [|c s1]; [discriminate|]. cbn [matches_from] in H.
        apply gm_within_inv in G. destruct G as [c' [s2 [Es [W [I G]]]]]. injection Es as Ec Es. subst c' s2.
        destruct (is_sep c || (f && (c =? DOT))) eqn:E.
        -- apply wild_ok_false_any in E. congruence.
        -- apply wild_ok_true_any in E. destruct E as [_ Es]. rewrite Es in H.
           apply in_specs_iff in I. rewrite I in H. exact (IHS _ _ H G).
      * intros f s H f' w s' Hs G.
        apply gm_within_inv in G. destruct G as [c' [s2 [Es [W [I G]]]]]. subst s'.
        destruct s as [|c0 s1].
        { destruct w; discriminate. }
        cbn [matches_from] in H.
        destruct (is_sep c0 || (f && (c0 =? DOT))) eqn:E; [discriminate|].
        apply wild_ok_true_any in E. destruct E as [_ Es]. rewrite Es in H.
        destruct (in_specs cs c0) eqn:Ec0; [|discriminate].
        apply suffix_cons in Hs. destruct Hs as [[Hw Hs]|[w' [Hw Hs]]].
        -- injection Hs as Hc Hs. subst. exact (IHE _ _ H _ [] s1 eq_refl G).
        -- refine (IHE _ _ H _ (w' ++ [c']) s2 _ G). rewrite <- app_assoc. exact Hs.
    + (* AnyExcept *)
      repeat split.
      * intros f s H. destruct s as [|c s1]; [discriminate|]. cbn [matches_from] in H.
        destruct (is_sep c || (f && (c =? DOT))) eqn:E; [discriminate|].
        apply wild_ok_true_any in E. destruct E as [W Es]. rewrite Es in H.
        destruct (in_specs cs c) eqn:Ec; [discriminate|]. cbn [negb] in H.
        apply GM_except; [exact W|apply in_specs_false_iff; exact Ec|]. apply IHM. exact H.
      * intros f s H G. destruct s as [|c s1]; [discriminate|]. cbn [matches_from] in H.
        apply gm_except_inv in G. destruct G as [c' [s2 [Es [W [I G]]]]]. injection Es as Ec Es. subst c' s2.
        destruct (is_sep c || (f && (c =? DOT))) eqn:E.
        -- apply wild_ok_false_any in E. congruence.
        -- apply wild_ok_true_any in E. destruct E as [_ Es]. rewrite Es in H.
           apply in_specs_false_iff in I. rewrite I in H. cbn [negb] in H. exact (IHS _ _ H G).
      * intros f s H f' w s' Hs G.
        apply gm_except_inv in G. destruct G as [c' [s2 [Es [W [I G]]]]]. subst s'.
        destruct s as [|c0 s1].
        { destruct w; discriminate. }
        cbn [matches_from] in H.
        destruct (is_sep c0 || (f && (c0 =? DOT))) eqn:E; [discriminate|].
        apply wild_ok_true_any in E. destruct E as [_ Es]. rewrite Es in H.
        destruct (in_specs cs c0) eqn:Ec0; [discriminate|]. cbn [negb] in H.
        apply suffix_cons in Hs. destruct Hs as [[Hw Hs]|[w' [Hw Hs]]].
        -- injection Hs as Hc Hs. subst. exact (IHE _ _ H _ [] s1 eq_refl G).
        -- refine (IHE _ _ H _ (w' ++ [c']) s2 _ G). rewrite <- app_assoc. exact Hs.
Qed.

Theorem matches_from_iff : forall ts f s, matches_from ts f s = Match <-> gmatch f ts s.
Proof.
  intros ts f s. destruct (mf_correct ts) as [M [S E]]. split; [apply M|].
  intro G. destruct (matches_from ts f s) eqn:R; [reflexivity| |].
  - exfalso. exact (S _ _ R G).
  - exfalso. exact (E _ _ R f [] s eq_refl G).
Qed.

Theorem matches_with_iff : forall ts s, matches_with ts s = true <-> gmatch true ts s.
Proof.
  intros ts s. unfold matches_with. rewrite <- matches_from_iff.
  destruct (matches_from ts true s); split; intro H; try reflexivity; discriminate.
Qed.

(* ---------- separators ---------- *)

Fixpoint count_sep (s : str) : nat :=
  match s with [] => O | c :: r => ((if is_sep c then 1 else 0) + count_sep r)%nat end.
Fixpoint count_sep_tokens (ts : list token) : nat :=
  match ts with
  | [] => O
  | Char c :: r => ((if is_sep c then 1 else 0) + count_sep_tokens r)%nat
  | _ :: r => count_sep_tokens r
  end.

(* `?` and `*` never match a separator: every "/" of a matched path is matched by a literal "/" *)
Lemma gmatch_count_sep : forall f ts s, gmatch f ts s -> count_sep s = count_sep_tokens ts.
Proof.
  intros f ts s H. induction H; cbn [count_sep count_sep_tokens]; try lia.
  - unfold wild_ok in H. apply andb_true_iff in H. destruct H as [H _]. apply negb_true_iff in H. rewrite H. lia.
  - unfold wild_ok in H. apply andb_true_iff in H. destruct H as [H _]. apply negb_true_iff in H. rewrite H. lia.
  - unfold wild_ok in H. apply andb_true_iff in H. destruct H as [H _]. apply negb_true_iff in H. rewrite H. lia.
  - unfold wild_ok in H. apply andb_true_iff in H. destruct H as [H _]. apply negb_true_iff in H. rewrite H.
    cbn [count_sep_tokens] in IHgmatch. lia.
Qed.

Lemma wild_never_sep : forall f c, wild_ok f c = true -> is_sep c = false.
Proof. intros f c H. unfold wild_ok in H. apply andb_true_iff in H. destruct H as [H _]. apply negb_true_iff in H. exact H. Qed.

(* ---------- leading dots ---------- *)

(* tokens that can stand between a separator and the literal that matches the next character:
   stars that matched nothing *)
Definition all_seq (ts : list token) : Prop := Forall (fun t => t = AnySequence) ts.

(* right after a separator, a dot is matched by a literal dot of the pattern (possibly after
   stars that matched the empty string), never by `?` or `*` *)
Lemma dot_after_sep : forall ts b,
  gmatch true ts (DOT :: b) ->
  exists stars tb, ts = stars ++ Char DOT :: tb /\ all_seq stars /\ gmatch false tb b.
Proof.
  intros ts b H. remember true as f eqn:Ef. remember (DOT :: b) as s eqn:Es.
  induction H; try discriminate.
  - injection Es as Ec Es. subst. exists [], ts. repeat split; [constructor|]. exact H.
  - injection Es as Ec Es. subst. unfold wild_ok in H. cbn in H. discriminate.
  - injection Es as Ec Es. subst. unfold wild_ok in H. cbn in H. discriminate.
  - injection Es as Ec Es. subst. unfold wild_ok in H. cbn in H. discriminate.
  - subst. destruct (IHgmatch eq_refl eq_refl) as [stars [tb [E1 [E2 E3]]]].
    exists (AnySequence :: stars), tb. subst ts. repeat split; auto. constructor; auto.
  - injection Es as Ec Es. subst. unfold wild_ok in H. cbn in H. discriminate.
Qed.

(* the same anywhere in the path: "/." in the path comes from "/", stars matching nothing, "." in the pattern *)
Lemma dot_component : forall f ts a b,
  gmatch f ts (a ++ SLASH :: DOT :: b) ->
  exists ta stars tb, ts = ta ++ Char SLASH :: stars ++ Char DOT :: tb /\ all_seq stars /\
                      gmatch f ta a /\ gmatch false tb b.
Proof.
  intros f ts a b H. remember (a ++ SLASH :: DOT :: b) as s eqn:Es. revert a Es.
  induction H; intros a Es.
  - destruct a; discriminate.
  - destruct a as [|x a'].
    + cbn in Es. injection Es as Ec Es. subst c s.
      apply dot_after_sep in H. destruct H as [stars [tb [E1 [E2 E3]]]].
      exists [], stars, tb. subst ts. repeat split; auto. constructor.
    + cbn in Es. injection Es as Ec Es. subst x.
      destruct (IHgmatch a' Es) as [ta [stars [tb [E1 [E2 [E3 E4]]]]]].
      exists (Char c :: ta), stars, tb. subst ts. repeat split; auto. constructor. exact E3.
  - destruct a as [|x a'].
    + cbn in Es. injection Es as Ec Es. subst c. apply wild_never_sep in H. discriminate.
    + cbn in Es. injection Es as Ec Es. subst x.
      destruct (IHgmatch a' Es) as [ta [stars [tb [E1 [E2 [E3 E4]]]]]].
      exists (AnyChar :: ta), stars, tb. subst ts. repeat split; auto. apply GM_any; assumption.
  - destruct a as [|x a'].
    + cbn in Es. injection Es as Ec Es. subst c. apply wild_never_sep in H. discriminate.
    + cbn in Es. injection Es as Ec Es. subst x.
      destruct (IHgmatch a' Es) as [ta [stars [tb [E1 [E2 [E3 E4]]]]]].
      exists (AnyWithin cs :: ta), stars, tb. subst ts. repeat split; auto. apply GM_within; assumption.
  - destruct a as [|x a'].
    + cbn in Es. injection Es as Ec Es. subst c. apply wild_never_sep in H. discriminate.
    + cbn in Es. injection Es as Ec Es. subst x.
      destruct (IHgmatch a' Es) as [ta [stars [tb [E1 [E2 [E3 E4]]]]]].
      exists (AnyExcept cs :: ta), stars, tb. subst ts. repeat split; auto. apply GM_except; assumption.
  - destruct (IHgmatch a Es) as [ta [stars [tb [E1 [E2 [E3 E4]]]]]].
    exists (AnySequence :: ta), stars, tb. subst ts. repeat split; auto. apply GM_seq_nil. exact E3.
  - destruct a as [|x a'].
    + cbn in Es. injection Es as Ec Es. subst c. apply wild_never_sep in H. discriminate.
    + cbn in Es. injection Es as Ec Es. subst x.
      destruct (IHgmatch a' Es) as [ta [stars [tb [E1 [E2 [E3 E4]]]]]].
      (* the star goes on inside a: ta begins with this star *)
      destruct ta as [|t ta'].
      * cbn in E1. discriminate.
      * cbn in E1. injection E1 as Et E1. subst t.
        exists (AnySequence :: ta'), stars, tb. subst ts. repeat split; auto.
        apply GM_seq_cons; assumption.
Qed.

(* the literal reading of "dot-files are not matched by wildcards", and its limit:
   `*` may match nothing in front of a literal dot, so "*.ledger" matches ".ledger" *)
Example star_dot_matches_dotfile :
  glob_match [SLASH; 100; SLASH; STAR; DOT; 108] [SLASH; 100; SLASH; DOT; 108] = Some true.
Proof. reflexivity. Qed.

Example star_skips_other_dotfiles :
  glob_match [SLASH; 100; SLASH; STAR; DOT; 108] [SLASH; 100; SLASH; DOT; 104; DOT; 108] = Some false
  /\ glob_match [SLASH; 100; SLASH; QUESTION; 108] [SLASH; 100; SLASH; DOT; 108] = Some false
  /\ glob_match [SLASH; 100; STAR; 108] [SLASH; 100; SLASH; 108] = Some false
  /\ glob_match [SLASH; 100; SLASH; STAR; DOT; 108] [SLASH; 100; SLASH; 97; DOT; 108] = Some true.
Proof. repeat split; reflexivity. Qed.

(* ---------- statements about matches_with, as used by the loader ---------- *)

Theorem glob_no_separator : forall ts s,
  matches_with ts s = true -> count_sep s = count_sep_tokens ts.
Proof. intros ts s H. apply matches_with_iff in H. eapply gmatch_count_sep. exact H. Qed.

Theorem glob_dotfiles : forall ts a b,
  matches_with ts (a ++ SLASH :: DOT :: b) = true ->
  exists ta stars tb, ts = ta ++ Char SLASH :: stars ++ Char DOT :: tb /\ all_seq stars /\
                      gmatch true ta a /\ gmatch false tb b.
Proof. intros ts a b H. apply matches_with_iff in H. apply dot_component. exact H. Qed.

Theorem glob_dotfiles_start : forall ts b,
  matches_with ts (DOT :: b) = true ->
  exists stars tb, ts = stars ++ Char DOT :: tb /\ all_seq stars /\ gmatch false tb b.
Proof. intros ts b H. apply matches_with_iff in H. apply dot_after_sep. exact H. Qed.

(* The stronger reading — a pattern component that contains a wildcard never matches a name
   that begins with a dot, which is what glob::glob_with does on the real file system — fails
   for the whole-path matcher exactly through stars that match nothing in front of a literal
   dot.  star_dot_free excludes that shape: no `*` between a separator and a literal dot. *)
Fixpoint skip_stars (ts : list token) : list token :=
  match ts with AnySequence :: r => skip_stars r | _ => ts end.

Fixpoint star_dot_free (ts : list token) : bool :=
  match ts with
  | [] => true
  | Char c :: r =>
      (if is_sep c
       then match r with
            | AnySequence :: _ => match skip_stars r with Char d :: _ => negb (d =? DOT) | _ => true end
            | _ => true
            end
       else true) && star_dot_free r
  | _ :: r => star_dot_free r
  end.

Lemma skip_stars_app : forall stars rest, all_seq stars -> skip_stars (stars ++ rest) = skip_stars rest.
Proof.
  induction stars as [|t stars IH]; intros rest H; [reflexivity|].
  inversion H; subst. cbn. apply IH. assumption.
Qed.

Lemma star_dot_free_no_stars : forall ta stars tb,
  star_dot_free (ta ++ Char SLASH :: stars ++ Char DOT :: tb) = true -> all_seq stars -> stars = [].
Proof.
  induction ta as [|t ta IH]; intros stars tb H A.
  - destruct stars as [|s0 stars]; [reflexivity|]. exfalso.
    inversion A as [|? ? Hs A']; subst. cbn [app star_dot_free] in H.
    assert (E : is_sep SLASH = true) by reflexivity. rewrite E in H.
    change (skip_stars (AnySequence :: stars ++ Char DOT :: tb)) with (skip_stars (stars ++ Char DOT :: tb)) in H.
    rewrite (skip_stars_app stars (Char DOT :: tb) A') in H. cbn [skip_stars] in H.
    rewrite N.eqb_refl in H. cbn in H. discriminate.
  - apply (IH stars tb); [|exact A]. cbn [app star_dot_free] in H. destruct t; auto.
    apply andb_true_iff in H. apply H.
Qed.

(* outside that shape, a name that begins with a dot is matched by a pattern component that
   begins with a literal dot *)
Theorem glob_dotfiles_component : forall ts a b,
  star_dot_free ts = true ->
  matches_with ts (a ++ SLASH :: DOT :: b) = true ->
  exists ta tb, ts = ta ++ Char SLASH :: Char DOT :: tb /\ gmatch true ta a /\ gmatch false tb b.
Proof.
  intros ts a b F H. destruct (glob_dotfiles ts a b H) as [ta [stars [tb [E [A [G1 G2]]]]]].
  subst ts. rewrite (star_dot_free_no_stars ta stars tb F A). exists ta, tb. auto.
Qed.

(* and inside it the stronger reading is false: "/d/*.l" matches "/d/.l" *)
Theorem glob_dotfiles_component_refuted :
  exists ts a b, parse_pattern [SLASH; 100; SLASH; STAR; DOT; 108] = Tokens ts /\
    matches_with ts (a ++ SLASH :: DOT :: b) = true /\
    ~ exists ta tb, ts = ta ++ Char SLASH :: Char DOT :: tb.
Proof.
  eexists. exists [SLASH; 100], [108]. split; [reflexivity|]. split; [reflexivity|].
  intros [ta [tb E]].
  destruct ta as [|t0 [|t1 [|t2 [|t3 [|t4 [|t5 ta]]]]]]; cbn in E; try discriminate.
  repeat (destruct ta as [|? ta]; cbn in E; try discriminate).
Qed.

(* ---------- character classes: what they match ---------- *)

(* a class token stands for exactly one character of the path: one that the class lists (does
   not list, for [!...]), that is not a separator, and that is not a dot right after a separator *)
Theorem glob_class : forall cs rest f s,
  (matches_from (AnyWithin cs :: rest) f s = Match <->
     exists c s1, s = c :: s1 /\ in_class cs c /\ c <> SLASH /\ ~ (f = true /\ c = DOT) /\
                  matches_from rest false s1 = Match) /\
  (matches_from (AnyExcept cs :: rest) f s = Match <->
     exists c s1, s = c :: s1 /\ ~ in_class cs c /\ c <> SLASH /\ ~ (f = true /\ c = DOT) /\
                  matches_from rest false s1 = Match).
Proof.
  assert (W : forall f c, wild_ok f c = true <-> c <> SLASH /\ ~ (f = true /\ c = DOT)).
  { intros f c. unfold wild_ok, is_sep. rewrite andb_true_iff, !negb_true_iff, andb_false_iff. split.
    - intros [H1 H2]. apply N.eqb_neq in H1. split; [exact H1|]. intros [Hf Hc]. subst f c.
      destruct H2 as [H2|H2]; [discriminate|]. rewrite N.eqb_refl in H2. discriminate.
    - intros [H1 H2]. split; [apply N.eqb_neq; exact H1|].
      destruct f; [|left; reflexivity]. right. apply N.eqb_neq. intro E. apply H2. split; [reflexivity|exact E]. }
  intros cs rest f s. split; rewrite matches_from_iff; split.
  - intro G. apply gm_within_inv in G. destruct G as [c [s1 [Es [Hw [I G]]]]].
    exists c, s1. apply W in Hw. destruct Hw as [H1 H2]. repeat split; auto. apply matches_from_iff. exact G.
  - intros [c [s1 [Es [I [H1 [H2 G]]]]]]. subst s. apply GM_within; [apply W; split; assumption|exact I|].
    apply matches_from_iff. exact G.
  - intro G. apply gm_except_inv in G. destruct G as [c [s1 [Es [Hw [I G]]]]].
    exists c, s1. apply W in Hw. destruct Hw as [H1 H2]. repeat split; auto. apply matches_from_iff. exact G.
  - intros [c [s1 [Es [I [H1 [H2 G]]]]]]. subst s. apply GM_except; [apply W; split; assumption|exact I|].
    apply matches_from_iff. exact G.
Qed.

(* a class alone, as a whole pattern (the start of the path counts as "after a separator") *)
Corollary glob_class_alone : forall cs s,
  (matches_with [AnyWithin cs] s = true <-> exists c, s = [c] /\ in_class cs c /\ c <> SLASH /\ c <> DOT) /\
  (matches_with [AnyExcept cs] s = true <-> exists c, s = [c] /\ ~ in_class cs c /\ c <> SLASH /\ c <> DOT).
Proof.
  intros cs s. unfold matches_with.
  assert (B : forall m, (match m with Match => true | _ => false end) = true <-> m = Match).
  { intro m. destruct m; split; intro H; try reflexivity; discriminate. }
  rewrite !B. destruct (glob_class cs [] true s) as [G1 G2]. rewrite G1, G2. split; split.
  - intros [c [s1 [Es [I [H1 [H2 M]]]]]]. destruct s1; [|discriminate]. exists c. repeat split; auto.
  - intros [c [Es [I [H1 H2]]]]. exists c, []. repeat split; auto. intros [_ E]. exact (H2 E).
  - intros [c [s1 [Es [I [H1 [H2 M]]]]]]. destruct s1; [|discriminate]. exists c. repeat split; auto.
  - intros [c [Es [I [H1 H2]]]]. exists c, []. repeat split; auto. intros [_ E]. exact (H2 E).
Qed.

(* ---------- character classes: how they are written ---------- *)

Lemma not_dash_head : forall r : str, (forall b r', r <> DASH :: b :: r') ->
  match r with d :: _ :: _ => (d =? DASH) = false | _ => True end.
Proof.
  intros r H. destruct r as [|d [|b r']]; auto. destruct (d =? DASH) eqn:E; [|reflexivity].
  apply N.eqb_eq in E. subst d. exfalso. exact (H b r' eq_refl).
Qed.

Lemma char_specifiers_single : forall a r, (forall b r', r <> DASH :: b :: r') ->
  char_specifiers (a :: r) = SingleChar a :: char_specifiers r.
Proof.
  intros a r H. apply not_dash_head in H. cbn [char_specifiers]. destruct r as [|d [|b r']]; try reflexivity.
  rewrite H. reflexivity.
Qed.

Lemma char_specifiers_range : forall a b r,
  char_specifiers (a :: DASH :: b :: r) = CharRange a b :: char_specifiers r.
Proof. intros. cbn [char_specifiers]. rewrite N.eqb_refl. reflexivity. Qed.

Lemma in_class_cons : forall sp cs c, in_class (sp :: cs) c <-> spec_has sp c \/ in_class cs c.
Proof.
  intros. unfold in_class. split.
  - intros [sp' [[E|I] H]]; [subst; left; exact H|right; exists sp'; split; assumption].
  - intros [H|[sp' [I H]]]; [exists sp; split; [left; reflexivity|exact H]|exists sp'; split; [right; exact I|exact H]].
Qed.

Lemma dash_shape_dec : forall r : str,
  (exists b r', r = DASH :: b :: r') \/ (forall b r', r <> DASH :: b :: r').
Proof.
  intro r. destruct r as [|d [|b r']].
  - right. intros; discriminate.
  - right. intros; discriminate.
  - destruct (d =? DASH) eqn:E.
    + apply N.eqb_eq in E. subst d. left. exists b, r'. reflexivity.
    + right. intros b0 r0 H. injection H as H1 _. subst d. rewrite N.eqb_refl in E. discriminate.
Qed.

(* the class a written body stands for *)
Theorem char_specifiers_lists : forall body c, in_class (char_specifiers body) c <-> body_lists body c.
Proof.
  intro body. remember (length body) as n eqn:En. revert body En.
  induction n as [n IH] using lt_wf_ind. intros body En c.
  destruct body as [|a r].
  - cbn. split; [intros [sp [[] _]]|intro H; inversion H].
  - destruct (dash_shape_dec r) as [[b [r' E]]|Hn].
    + subst r. rewrite char_specifiers_range, in_class_cons.
      assert (L : (length r' < n)%nat) by (subst n; cbn; lia).
      rewrite (IH _ L r' eq_refl c). cbn [spec_has]. split.
      * intros [[H1 H2]|H]; [apply BL_range; assumption|apply BL_range_skip; exact H].
      * intro H. inversion H; subst.
        -- left. split; assumption.
        -- right. assumption.
        -- exfalso. exact (H3 b r' eq_refl).
        -- exfalso. exact (H2 b r' eq_refl).
    + rewrite (char_specifiers_single a r Hn), in_class_cons.
      assert (L : (length r < n)%nat) by (subst n; cbn; lia).
      rewrite (IH _ L r eq_refl c). cbn [spec_has]. split.
      * intros [H|H]; [subst c; apply BL_single; exact Hn|apply BL_single_skip; assumption].
      * intro H. inversion H; subst.
        -- exfalso. exact (Hn b r0 eq_refl).
        -- exfalso. exact (Hn b r0 eq_refl).
        -- left. reflexivity.
        -- right. assumption.
Qed.

(* the search for the closing bracket, named *)
Fixpoint scan_class (mk : str -> token) (acc l : str) : parsed :=
  match l with
  | [] => PatternError
  | d :: l' => if d =? RBRACKET then push (mk (rev acc)) (parse_pattern l') else scan_class mk (d :: acc) l'
  end.

Lemma parse_bracket : forall y r2, y <> BANG ->
  parse_pattern (LBRACKET :: y :: r2) = scan_class (fun b => AnyWithin (char_specifiers (y :: b))) [] r2.
Proof.
  intros y r2 Hy. cbn [parse_pattern].
  change (LBRACKET =? QUESTION) with false. change (LBRACKET =? STAR) with false.
  change (LBRACKET =? LBRACKET) with true. cbv iota.
  apply N.eqb_neq in Hy. rewrite Hy.
  generalize (@nil N). induction r2 as [|d l IH]; intro acc; [reflexivity|].
  cbn [scan_class]. destruct (d =? RBRACKET); [reflexivity|]. apply IH.
Qed.

Lemma parse_bracket_not : forall x r3,
  parse_pattern (LBRACKET :: BANG :: x :: r3) = scan_class (fun b => AnyExcept (char_specifiers (x :: b))) [] r3.
Proof.
  intros x r3. cbn [parse_pattern].
  change (LBRACKET =? QUESTION) with false. change (LBRACKET =? STAR) with false.
  change (LBRACKET =? LBRACKET) with true. change (BANG =? BANG) with true. cbv iota.
  generalize (@nil N). induction r3 as [|d l IH]; intro acc; [reflexivity|].
  cbn [scan_class]. destruct (d =? RBRACKET); [reflexivity|]. apply IH.
Qed.

Lemma scan_class_closed : forall mk b acc rest, ~ In RBRACKET b ->
  scan_class mk acc (b ++ RBRACKET :: rest) = push (mk (rev acc ++ b)) (parse_pattern rest).
Proof.
  induction b as [|d b IH]; intros acc rest H.
  - cbn [app scan_class]. change (RBRACKET =? RBRACKET) with true. cbv iota. rewrite app_nil_r. reflexivity.
  - cbn [app scan_class]. destruct (d =? RBRACKET) eqn:E.
    + apply N.eqb_eq in E. exfalso. apply H. left. exact E.
    + rewrite IH; [|intro I; apply H; right; exact I]. cbn [rev]. rewrite <- app_assoc. reflexivity.
Qed.

Lemma scan_class_open : forall mk b acc, ~ In RBRACKET b -> scan_class mk acc b = PatternError.
Proof.
  induction b as [|d b IH]; intros acc H; [reflexivity|].
  cbn [scan_class]. destruct (d =? RBRACKET) eqn:E.
  - apply N.eqb_eq in E. exfalso. apply H. left. exact E.
  - apply IH. intro I. apply H. right. exact I.
Qed.

(* `[` first-character body-up-to-the-next-`]` `]`: the first character of the body is taken as
   it is, also when it is `]` *)
Theorem parse_class : forall y b rest, y <> BANG -> ~ In RBRACKET b ->
  parse_pattern (LBRACKET :: y :: b ++ RBRACKET :: rest) =
  push (AnyWithin (char_specifiers (y :: b))) (parse_pattern rest).
Proof. intros. rewrite parse_bracket by assumption. rewrite scan_class_closed by assumption. reflexivity. Qed.

Theorem parse_class_not : forall x b rest, ~ In RBRACKET b ->
  parse_pattern (LBRACKET :: BANG :: x :: b ++ RBRACKET :: rest) =
  push (AnyExcept (char_specifiers (x :: b))) (parse_pattern rest).
Proof. intros. rewrite parse_bracket_not. rewrite scan_class_closed by assumption. reflexivity. Qed.

(* a `[` whose body is not closed makes the whole pattern invalid *)
Theorem parse_class_unclosed : forall r,
  match r with
  | [] => True                                       (* "[" *)
  | y :: b => if y =? BANG
              then match b with [] => True | _ :: b' => ~ In RBRACKET b' end     (* "[!", "[!x..." *)
              else ~ In RBRACKET b                                                (* "[y..." *)
  end ->
  parse_pattern (LBRACKET :: r) = PatternError.
Proof.
  intros r H. destruct r as [|y b]; [reflexivity|].
  destruct (y =? BANG) eqn:E.
  - apply N.eqb_eq in E. subst y. destruct b as [|x b']; [reflexivity|].
    rewrite parse_bracket_not. apply scan_class_open. exact H.
  - apply N.eqb_neq in E. rewrite parse_bracket by exact E. apply scan_class_open. exact H.
Qed.

(* characters in front of a class, or of an unclosed bracket: anything but `*` and `[` is read alone *)
Definition plain_token (c : N) : token := if c =? QUESTION then AnyChar else Char c.

Lemma parse_plain_cons : forall c r, c <> STAR -> c <> LBRACKET ->
  parse_pattern (c :: r) = push (plain_token c) (parse_pattern r).
Proof.
  intros c r H1 H2. cbn [parse_pattern]. unfold plain_token. destruct (c =? QUESTION); [reflexivity|].
  apply N.eqb_neq in H1, H2. rewrite H1, H2. reflexivity.
Qed.

Theorem parse_error_after_plain : forall pre s,
  Forall (fun c => c <> STAR /\ c <> LBRACKET) pre ->
  parse_pattern s = PatternError -> parse_pattern (pre ++ s) = PatternError.
Proof.
  induction pre as [|c pre IH]; intros s F H; [exact H|].
  inversion F as [|? ? [H1 H2] F']; subst. cbn [app]. rewrite parse_plain_cons by assumption.
  rewrite (IH s F' H). reflexivity.
Qed.

(* 202[34], q[1-4], [!a], []], [!]], [a-], and the invalid ones *)
Example class_examples :
  parse_pattern [50; 48; 50; LBRACKET; 51; 52; RBRACKET] =
    Tokens [Char 50; Char 48; Char 50; AnyWithin [SingleChar 51; SingleChar 52]]
  /\ parse_pattern [113; LBRACKET; 49; DASH; 52; RBRACKET] = Tokens [Char 113; AnyWithin [CharRange 49 52]]
  /\ parse_pattern [LBRACKET; BANG; 97; RBRACKET; STAR] = Tokens [AnyExcept [SingleChar 97]; AnySequence]
  /\ parse_pattern [LBRACKET; RBRACKET; RBRACKET] = Tokens [AnyWithin [SingleChar RBRACKET]]
  /\ parse_pattern [LBRACKET; BANG; RBRACKET; RBRACKET] = Tokens [AnyExcept [SingleChar RBRACKET]]
  /\ parse_pattern [LBRACKET; 97; DASH; RBRACKET] = Tokens [AnyWithin [SingleChar 97; SingleChar DASH]]
  /\ parse_pattern [LBRACKET; RBRACKET; DASH; 97; RBRACKET] = Tokens [AnyWithin [CharRange RBRACKET 97]]
  /\ parse_pattern [LBRACKET; BANG; RBRACKET] = PatternError
  /\ parse_pattern [LBRACKET; RBRACKET] = PatternError
  /\ parse_pattern [97; LBRACKET; 98] = PatternError
  /\ parse_pattern [97; LBRACKET; 98; STAR; STAR] = PatternError
  /\ parse_pattern [STAR; STAR; LBRACKET] = Recursive.
Proof. repeat split; reflexivity. Qed.

Example class_match_examples :
  glob_match [SLASH; 100; SLASH; 50; LBRACKET; 51; 52; RBRACKET] [SLASH; 100; SLASH; 50; 51] = Some true
  /\ glob_match [SLASH; 100; SLASH; 50; LBRACKET; 51; 52; RBRACKET] [SLASH; 100; SLASH; 50; 53] = Some false
  /\ glob_match [SLASH; 100; SLASH; LBRACKET; BANG; 97; RBRACKET; STAR] [SLASH; 100; SLASH; 98; 99] = Some true
  /\ glob_match [SLASH; 100; SLASH; LBRACKET; BANG; 97; RBRACKET; STAR] [SLASH; 100; SLASH; 97; 99] = Some false
  (* a class never matches a leading dot, nor a separator, even when it lists them *)
  /\ glob_match [SLASH; 100; SLASH; LBRACKET; BANG; 97; RBRACKET; STAR] [SLASH; 100; SLASH; DOT; 99] = Some false
  /\ glob_match [SLASH; 100; SLASH; LBRACKET; DOT; RBRACKET; 99] [SLASH; 100; SLASH; DOT; 99] = Some false
  /\ glob_match [SLASH; 100; LBRACKET; SLASH; RBRACKET; 99] [SLASH; 100; SLASH; 99] = Some false
  /\ glob_match [SLASH; 100; LBRACKET; BANG; 97; RBRACKET; 99] [SLASH; 100; SLASH; 99] = Some false
  (* ... but does match a dot elsewhere; case sensitive *)
  /\ glob_match [SLASH; 97; LBRACKET; DOT; RBRACKET; 99] [SLASH; 97; DOT; 99] = Some true
  /\ glob_match [SLASH; LBRACKET; 97; RBRACKET] [SLASH; 65] = Some false.
Proof. repeat split; reflexivity. Qed.
