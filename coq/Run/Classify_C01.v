(* C01 classifier: 0 Agree | 1 ModelMismatch | 2 PropertyFail.
   The property's decision (accept / reject as unbalanced) is read off the model, which
   Props/C01.v proves equivalent to the declarative balance condition. *)
From Coq Require Import List NArith ZArith Bool QArith Qcanon.
From Okv Require Import Base.Maps Base.Dec Model.Amount Model.Book Run.LedgerCase.
Import ListNotations.

Record case := { c_entries : list entry; c_obs : lobs; c_diag : gdiag }.
Definition C (es : list entry) (o : lobs) : case := {| c_entries := es; c_obs := o; c_diag := GNone |}.
(* with the rendered error read back (Run/LedgerCase.v gdiag) *)
Definition CG (es : list entry) (o : lobs) (d : gdiag) : case := {| c_entries := es; c_obs := o; c_diag := d |}.

Definition model_balance_error (e : bk_err) : bool :=
  match e with UnbalancedPostings _ | UndeduciblePostingAmount _ _ => true | _ => false end.

(* state before entry k, and entry k *)
Fixpoint state_before (k : nat) (s : bstate) (es : list entry) : option (bstate * entry) :=
  match es, k with
  | [], _ => None
  | e :: _, O => Some (s, e)
  | e :: r, S k' => match process_entry s e with Ok s' => state_before k' s' r | _ => None end
  end.

(* must entry k be accepted as far as balancing goes?  one omitted amount, or rounded totals all zero *)
Definition mandatory_accept (es : list entry) (k : nat) : bool :=
  match state_before k bstate0 es with
  | Some (s, ETxn t) =>
      match txn_loop s t with
      | Ok st => match l_unfilled st with
                 | Some _ => true
                 | None => a_is_zero (a_round (s_fmt s) (l_residual st))
                 end
      | _ => false
      end
  | _ => false
  end.

Definition spec_holds (es : list entry) (o : lobs) (m : outcome bstate * nat) : bool :=
  match o, m with
  | LPanic, _ => false
  | LOk _ _, (Err e, _) => negb (model_balance_error e)
  | LOk _ _, _ => true
  | LErr k x, (Ok _, _) => negb (is_balance_error x && mandatory_accept es k)
  | LErr k x, (Err e, k') =>
      if Nat.eqb k k' then Bool.eqb (is_balance_error x) (model_balance_error e)
      else negb (is_balance_error x || model_balance_error e)
  | LErr k x, (Panic, _) => true
  end.

Definition classify (c : case) : N :=
  let m := process (c_entries c) in
  if obs_agrees (c_obs c) m then
    (* rejected as the model rejects it: the error the user sees must name that transaction *)
    match m with
    | (Err e, k) => if gdiag_names (c_diag c) k e then 0%N
                    else if gdiag_unreadable (c_diag c) then 9%N else 2%N
    | _ => 0%N
    end
  else if spec_holds (c_entries c) (c_obs c) m then 1%N else 2%N.

Definition verdicts (cs : list case) : list N := map classify cs.
