//! okv: correspondence harness.  `okv <property> --seed S --tier quick|thorough --out DIR`
//! runs the implementation (linked from /repo's working tree) on generated cases and
//! writes them, with what the implementation did, as Coq terms for Run/Classify_<P>.v.
mod coq;
mod prng;
mod c07;
mod c01;
mod c02;
mod diag;
mod c13;
mod c04;
mod c08;
mod c12;
mod c20;
mod c11;
mod cli;
mod ledger;
mod impgen;
mod c17;
mod c17x;
mod c16;
mod syntax_term;
mod fmtworker;
mod c19;
mod c05fmt;
mod c05long;
mod price;
mod c09;
mod c10;
mod imptree;
mod camtgen;
mod c18;
mod c15;
mod caldate;
mod child;
mod parseobs;
mod pgen;
mod c05;
mod c06;
mod c14;

pub struct Opts {
    pub seed: u64,
    pub thorough: bool,
    pub out: std::path::PathBuf,
    pub shards: usize,
    pub corpus: std::path::PathBuf,
    pub extra: Vec<String>,
}

fn main() {
    let args: Vec<String> = std::env::args().collect();
    if args.len() < 2 {
        eprintln!("usage: okv <property> [--seed N] [--tier quick|thorough] [--out DIR] [--shards N] [--corpus DIR]");
        std::process::exit(2);
    }
    if args[1] == "__child" {
        // hidden subcommand: run the implementation on a batch of inputs (see child.rs)
        c05::install_panic_capture();
        child::child_main(&args[2..], &|mode, input| match mode {
            "c05" => c05::child_observe(input),
            "c05file" => c05long::child_observe(input),
            "c06" => c06::child_observe(input),
            "c06load" => c06::child_load(input),
            "c06price" => c06::child_price(input),
            "c14" => c14::child_observe(input),
            _ => "{\"harness_error\":\"unknown mode\"}".to_string(),
        });
        return;
    }
    let prop = args[1].to_lowercase();
    let mut o = Opts {
        seed: 1,
        thorough: false,
        out: std::path::PathBuf::from("."),
        shards: 16,
        corpus: std::path::PathBuf::from("."),
        extra: Vec::new(),
    };
    let mut i = 2;
    while i < args.len() {
        match args[i].as_str() {
            "--seed" => {
                o.seed = args[i + 1].parse().expect("seed");
                i += 2;
            }
            "--tier" => {
                o.thorough = args[i + 1] == "thorough";
                i += 2;
            }
            "--out" => {
                o.out = args[i + 1].clone().into();
                i += 2;
            }
            "--shards" => {
                o.shards = args[i + 1].parse().expect("shards");
                i += 2;
            }
            "--corpus" => {
                o.corpus = args[i + 1].clone().into();
                i += 2;
            }
            other => {
                o.extra.push(other.to_string());
                i += 1;
            }
        }
    }
    // panics of the implementation are observations, not noise
    // (OKV_PANIC_LOG=1 prints them with their location, to find a panic of the harness itself)
    if std::env::var_os("OKV_PANIC_LOG").is_some() {
        std::panic::set_hook(Box::new(|info| eprintln!("[panic] {}\n{}", info, std::backtrace::Backtrace::force_capture())));
    } else {
        std::panic::set_hook(Box::new(|_| {}));
    }
    match prop.as_str() {
        "c07" => c07::run(&o),
        "c01" => c01::run(&o),
        "c02" => c02::run(&o, "C02"),
        "c03" => c02::run(&o, "C03"),
        "c13" => c13::run(&o),
        "c04" => c04::run(&o),
        "c08" => c08::run(&o),
        "c12" => c12::run(&o),
        "c20" => c20::run(&o),
        "c11" => c11::run(&o),
        "c11-child" => c11::child(&args[2..]),
        "c17" => c17::run(&o),
        "c16" => c16::run(&o),
        "c19" => c19::run(&o),
        "c05fmt" => c05fmt::run(&o),
        "fmt-worker" => fmtworker::serve(),
        "c09" => c09::run(&o),
        "c10" => c10::run(&o),
        "c18" => c18::run(&o),
        "c15" => c15::run(&o),
        "c05" => c05::run(&o),
        "c06" => c06::run(&o),
        "c14" => c14::run(&o),
        _ => {
            eprintln!("unknown property {}", prop);
            std::process::exit(2);
        }
    }
}
