(* Shared case format of the report-layer properties (C01-C04, C08-C10, C12): what the
   harness writes and how implementation observations are compared with the model. *)
From Coq Require Import List NArith ZArith Bool QArith Qcanon.
From Okv Require Import Base.Maps Base.Dec Model.Amount Model.Book.
Import ListNotations.

Definition D (m : Z) (s : nat) : Qc := of_dec m s.
Definition P (a : N) (amt : option vexpr) (cost lot : option exchange) (bal : option vexpr) : posting :=
  {| p_account := a; p_amount := amt; p_cost := cost; p_lot := lot; p_balance := bal |}.
Definition T (d : Z) (ps : list posting) : txn := {| t_date := d; t_posts := ps |}.
(* a transaction written `DATE=EFFECTIVE`: the harness hands over the effective date it wrote;
   the ledger that is booked has none (report::book_keeping::add_transaction reads `txn.date`
   only, Model/Lower.v low_entry lowers `st_date` and drops `st_edate`), so price events, stored
   transactions and report dates are those of DATE *)
Definition TE (d ed : Z) (ps : list posting) : txn := T d ps.
Definition OP (a : N) (amt : amount) (conv : option (cid * Qc)) : oposting :=
  {| o_account := a; o_amount := amt; o_converted := conv |}.

Inductive xerr :=
| XEval (k : N) | XBalanceFailure | XUndeducible (i j : nat) | XUnbalanced (r : amount)
| XAssertion (posting : nat) (computed diff : amount)
| XZeroAmountWithExchange | XZeroExchangeRate | XExchangeWithAmountCommodity
| XInvalidAccount (k : N) | XInvalidCommodity (k : N) | XOther.

Inductive lobs :=
| LOk (txns : list (Z * list oposting)) (bal : list (N * amount))
| LErr (entry : nat) (e : xerr)
| LPanic.

(* ---- canonical comparison ---- *)
Definition qc_eqb (a b : Qc) : bool := Qc_eq_bool a b.

Fixpoint amount_eqb_sorted (a b : amount) : bool :=
  match a, b with
  | [], [] => true
  | (c1, v1) :: r1, (c2, v2) :: r2 => (c1 =? c2)%N && qc_eqb v1 v2 && amount_eqb_sorted r1 r2
  | _, _ => false
  end.
(* order-insensitive equality of amounts, zero entries significant *)
Definition amount_eqb (a b : amount) : bool := amount_eqb_sorted (sort_keys a) (sort_keys b).

(* Decimal division is rounded to 28 significant digits where the model divides exactly;
   values that went through a division are compared up to a relative 10^-18 *)
Definition qc_close (a b : Qc) : bool :=
  let d := Qcabs.Qcabs (a - b)%Qc in
  let scale := (Qcabs.Qcabs a + 1)%Qc in
  match Qccompare (d * of_dec 1000000000000000000 0)%Qc scale with Gt => false | _ => true end.

Definition conv_eqb (a b : option (cid * Qc)) : bool :=
  match a, b with
  | None, None => true
  | Some (c1, v1), Some (c2, v2) => (c1 =? c2)%N && qc_close v1 v2
  | _, _ => false
  end.

Definition oposting_eqb (a b : oposting) : bool :=
  (o_account a =? o_account b)%N && amount_eqb (o_amount a) (o_amount b)
  && conv_eqb (o_converted a) (o_converted b).

Fixpoint list_eqb {A B} (f : A -> B -> bool) (a : list A) (b : list B) : bool :=
  match a, b with
  | [], [] => true
  | x :: r, y :: s => f x y && list_eqb f r s
  | _, _ => false
  end.

Definition otxn_eqb (a : Z * list oposting) (b : otxn) : bool :=
  (fst a =? o_date b)%Z && list_eqb oposting_eqb (snd a) (o_posts b).

Definition bal_eqb (a : list (N * amount)) (b : balance) : bool :=
  list_eqb (fun x y => (fst x =? fst y)%N && amount_eqb (snd x) (snd y)) a (sort_keys b).

Definition eval_code (e : eval_err) : N :=
  match e with
  | UnmatchingOperation => 1 | UnmatchingCommodities => 2 | UnknownCommodity => 3
  | DivideByZero => 4 | NumberOverflow => 5 | AmountRequired => 6
  | PostingAmountRequired => 7 | SingleAmountRequired => 8
  end%N.

Definition err_eqb (x : xerr) (e : bk_err) : bool :=
  match x, e with
  | XEval k, EvalFailure ev => (k =? eval_code ev)%N
  | XBalanceFailure, BalanceFailure => true
  | XUndeducible i j, UndeduciblePostingAmount i' j' => Nat.eqb i i' && Nat.eqb j j'
  | XUnbalanced r, UnbalancedPostings r' => amount_eqb r r'
  | XAssertion p c d, BalanceAssertionFailure p' c' d' => Nat.eqb p p' && amount_eqb c c' && amount_eqb d d'
  | XZeroAmountWithExchange, ZeroAmountWithExchange => true
  | XZeroExchangeRate, ZeroExchangeRate => true
  | XExchangeWithAmountCommodity, ExchangeWithAmountCommodity => true
  | _, _ => false
  end.

(* full agreement of an observation with the model's run *)
Definition obs_agrees (o : lobs) (m : outcome bstate * nat) : bool :=
  match o, m with
  | LOk ts b, (Ok s, _) => list_eqb otxn_eqb ts (s_txns s) && bal_eqb b (s_bal s)
  | LErr k x, (Err e, k') => Nat.eqb k k' && err_eqb x e
  | LPanic, (Panic, _) => true
  | _, _ => false
  end.

Definition is_balance_error (x : xerr) : bool :=
  match x with XUnbalanced _ | XUndeducible _ _ => true | _ => false end.

(* ---- the rendered error (Display of ReportError::BookKeep), read back by harness/src/diag.rs ----
   GSeen: the kind of error the title line states (codes below); the entry whose first line
   is the first line of the source excerpt and the entry whose last line is its last line;
   the entry and the posting (98 = above the first posting: header and its comment lines)
   the `--> file:line:col` location lies in; and one element per labelled marker:
   (label, entry, posting at whose line the marker starts, 1 iff the marker runs from the
   first to the last line of that entry).  99 = no such entry / posting.
   Labels: 0 "error occured" 1 "first posting without constraints" 2 "cannot deduce this
   posting" 3 "absolute zero posting should not have exchange" 4 "exchange with zero amount"
   5 "posting amount" 6 "exchange cannot have the same commodity with posting" 7 "not match
   the computed balance" 8 "computed balance: ..".
   GNone: nothing to read (no book-keeping error).  GWide: an excerpt line is wider than the
   renderer's terminal and cut - not read.  GPanic: rendering panicked.  GUnreadable: the
   text is not an excerpt of the ledger's text. *)
Inductive gdiag :=
| GNone | GPanic | GUnreadable | GWide
| GSeen (title : N) (first_entry last_entry loc_entry loc_posting : nat)
        (marks : list (N * nat * nat * N)).

Definition title_code (e : bk_err) : N :=
  match e with
  | EvalFailure _ => 1 | BalanceFailure => 2 | UndeduciblePostingAmount _ _ => 3
  | UnbalancedPostings _ => 4 | BalanceAssertionFailure _ _ _ => 5
  | ZeroAmountWithExchange => 6 | ZeroExchangeRate => 7 | ExchangeWithAmountCommodity => 8
  end%N.

Definition has_mark (ms : list (N * nat * nat * N)) (l : N) (k : nat) (p : option nat) (whole : bool) : bool :=
  existsb (fun m => match m with
                    | (l', k', p', w) =>
                        (l' =? l)%N && Nat.eqb k' k
                        && match p with Some p => Nat.eqb p' p | None => true end
                        && (negb whole || (w =? 1)%N)
                    end) ms.

(* posting carrying label l in entry k (99 when there is none) *)
Definition mark_posting (ms : list (N * nat * nat * N)) (l : N) (k : nat) : nat :=
  match find (fun m => match m with (l', k', _, _) => (l' =? l)%N && Nat.eqb k' k end) ms with
  | Some (_, _, p, _) => p
  | None => 99
  end.

(* the rendered error names entry k as the place of error e: title, location, excerpt and
   markers.  Errors without a span of their own underline the entry from its first to its
   last line; the others mark the posting(s) the error is about. *)
Definition gdiag_names (d : gdiag) (k : nat) (e : bk_err) : bool :=
  match d with
  | GNone | GWide => true
  | GPanic | GUnreadable => false
  | GSeen t fe le lk lp ms =>
      (t =? title_code e)%N && Nat.eqb fe k && Nat.eqb le k && Nat.eqb lk k
      && match e with
         | EvalFailure _ | BalanceFailure | UnbalancedPostings _ =>
             has_mark ms 0 k None true && Nat.eqb lp 98
         | UndeduciblePostingAmount i j =>
             has_mark ms 1 k (Some i) false && has_mark ms 2 k (Some j) false && Nat.eqb lp i
         | BalanceAssertionFailure p _ _ =>
             has_mark ms 7 k (Some p) false && has_mark ms 8 k (Some p) false && Nat.eqb lp p
         | ZeroAmountWithExchange =>
             has_mark ms 3 k None false && Nat.eqb lp (mark_posting ms 3 k) && negb (Nat.eqb lp 98)
         | ZeroExchangeRate =>
             has_mark ms 4 k None false && Nat.eqb lp (mark_posting ms 4 k) && negb (Nat.eqb lp 98)
         | ExchangeWithAmountCommodity =>
             (* the "posting amount" label is sometimes overwritten by the second marker
                (annotate-snippets draws the `^` run over a label that reaches it): where it
                can be read it must stand at the same posting *)
             has_mark ms 6 k None false
             && (negb (has_mark ms 5 k None false) || Nat.eqb (mark_posting ms 5 k) (mark_posting ms 6 k))
             && Nat.eqb lp (mark_posting ms 6 k) && negb (Nat.eqb lp 98)
         end
  end.

Definition gdiag_unreadable (d : gdiag) : bool := match d with GUnreadable => true | _ => false end.
