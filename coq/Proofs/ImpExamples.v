(* The hypotheses of the C16 / C17 theorems are satisfiable: concrete instances, evaluated. *)
From Coq Require Import List NArith ZArith Bool QArith Qcanon Lia.
From Okv Require Import Base.Maps Base.Dec Model.Amount Model.ImpConfig Model.ImpConfigSpec
     Model.ImpExtract Model.ImpExtractSpec Model.ImpSingleEntry Model.ImpCsv Model.ImpBook
     Proofs.ImpBook_Maps Proofs.ImpBook_Process Proofs.ImpCsvProofs Proofs.ImpBook_Accepted.
From Okv Require Model.Book.
Import ListNotations.
Open Scope N_scope.

(* patterns are literal substrings here *)
Definition lit_captures (p : str) (s : str) : option captures :=
  if contains s p then Some no_captures else None.
Definition lit_valid (_ : str) : bool := true.

Definition s_migros : str := [77;105;103;114;111;115].
Definition s_mig : str := [77;105;103].
Definition s_food : str := [69;120;112;58;70;111;111;100].       (* Exp:Food *)
Definition s_misc : str := [69;120;112;58;77;105;115;99].       (* Exp:Misc *)
Definition s_bank : str := [65;115;115;101;116;115;58;66;97;110;107].   (* Assets:Bank *)
Definition s_equity : str := [69;113;117;105;116;121].
Definition s_chf : str := [67;72;70].
Definition s_eur : str := [69;85;82].

Definition rule_of (pat account : str) (pending : bool) : rule str :=
  {| r_matcher := [[(RPayee, pat)]]; r_pending := pending; r_payee := None; r_account := Some account;
     r_conversion := None |}.

Definition ex_rules : list (rule str) := [rule_of s_mig s_food true; rule_of s_migros s_misc false].
Definition ex_record : record := {| rc_payee := s_migros; rc_category := None; rc_secondary_commodity := None |}.

(* two rules hit the record; the second one's account wins and clears the pending mark *)
Example two_hits :
  length (hits (csv_matches lit_captures) frag0 ex_rules ex_record) = 2%nat
  /\ g_account (extract (csv_matches lit_captures) ex_rules ex_record) = Some s_misc
  /\ g_cleared (extract (csv_matches lit_captures) ex_rules ex_record) = true.
Proof. vm_compute. auto. Qed.

(* Txn::new leaves the clear state unset: the hypothesis of C17_pending_rule *)
Example txn_new_clear : forall d p a, t_clear (txn_new d p a) = None.
Proof. reflexivity. Qed.

(* two documents match a path, in length order *)
Definition doc_of (path : str) (account : option str) : doc str :=
  {| d_path := path; d_encoding := Some 0; d_account := account; d_account_type := Some Asset;
     d_operator := None; d_commodity := Some (CPrimary s_chf); d_format := None; d_rewrite := [] |}.
Example two_documents :
  map (@d_path str) (applicable [doc_of s_migros (Some s_bank); doc_of s_mig None] s_migros) = [s_mig; s_migros].
Proof. vm_compute. reflexivity. Qed.

(* ---- a plain statement: date, payee, amount, balance ---- *)
Definition ex_cfg : entry str :=
  {| e_path := []; e_encoding := 0; e_account := s_bank; e_account_type := Asset; e_operator := None;
     e_commodity := {| cs_primary := s_chf; cs_conversion := conv_default |};
     e_format := {| fs_date := []; fs_precisions := [];
                    fs_fields := [(FDate, PIndex 0); (FPayee, PIndex 1); (FAmount, PIndex 2); (FBalance, PIndex 3)];
                    fs_delimiter := []; fs_skip_head := 0%Z; fs_row_order := OldToNew |};
     e_rewrite := ex_rules |}.
Definition ex_header : list str := [[100]; [112]; [97]; [98]].
Definition ex_rows : list row :=
  [ {| row_fields := [[49]; s_migros; [45;53]; [57;53]]; row_date := Some 10%Z |};       (* -5 -> 95 *)
    {| row_fields := [[50]; s_bank; [49;48]; [49;48;53]]; row_date := Some 12%Z |} ].    (* 10 -> 105 *)
Definition ex_opening : list (str * dec) := [(s_chf, {| d_neg := false; d_mag := of_dec 100 0 |})].

Definition ex_txns : list txn :=
  match import lit_captures lit_valid ex_cfg ex_header ex_rows with IOk ts => ts | _ => [] end.

Example ex_import_ok : import lit_captures lit_valid ex_cfg ex_header ex_rows = IOk ex_txns.
Proof. vm_compute. reflexivity. Qed.

Example ex_two_txns : length ex_txns = 2%nat.
Proof. vm_compute. reflexivity. Qed.

Lemma qc_by_compute : forall a b : Qc, Qc_eq_bool a b = true -> a = b.
Proof. exact Qc_eq_bool_correct. Qed.

Example ex_plain : Forall (fun t => plain_txn t /\ elsewhere str_code s_bank t) ex_txns.
Proof.
  repeat constructor; try (vm_compute; discriminate); try reflexivity;
    try (intros H; vm_compute in H; discriminate).
Qed.

Example ex_consistent : consistent str_code (opening str_code ex_opening) ex_txns.
Proof.
  cbn [ex_txns]. vm_compute ex_txns.
  unfold consistent, txn_assert. cbn [t_balance].
  repeat split; apply qc_by_compute; vm_compute; reflexivity.
Qed.

(* the conclusion of C16_statement_accepted_plain for this statement *)
Example ex_accepted :
  exists L,
    fst (Book.process (book_entries str_code str_code
           (funding s_bank s_equity (-1)%Z ex_opening ++ map (fun t => to_double_entry t s_bank) ex_txns))) = Book.Ok L
    /\ a_get (Book.bal_get (Book.s_bal L) (str_code s_bank)) (str_code s_chf) = of_dec 105 0.
Proof.
  destruct (statement_accepted_plain str_code str_code s_bank s_equity) with
      (re_captures := lit_captures) (re_valid := lit_valid) (cfg := ex_cfg) (header := ex_header)
      (rows := ex_rows) (ts := ex_txns) (b0 := ex_opening) (date0 := (-1)%Z) as (L & HL & Hbal).
  - vm_compute. discriminate.
  - reflexivity.
  - exact ex_import_ok.
  - exact ex_plain.
  - repeat constructor. discriminate.
  - exact ex_consistent.
  - exists L. split; [exact HL|]. rewrite Hbal. apply qc_by_compute. vm_compute. reflexivity.
Qed.

(* ---- a converted row (compute, price of secondary): it balances, so C16_statement_accepted
   applies to statements with conversions too ---- *)
Definition ex_conv_row : row_data :=
  {| rd_date := 5%Z; rd_payee := s_migros; rd_amount := {| d_neg := true; d_mag := of_dec 250 0 |};
     rd_balance := None; rd_secondary_amount := None; rd_secondary_commodity := Some s_eur;
     rd_category := None; rd_commodity := s_chf; rd_rate := Some {| d_neg := false; d_mag := of_dec 125 2 |};
     rd_note := None; rd_charge := None |}.
Definition ex_conv_cfg : entry str :=
  {| e_path := []; e_encoding := 0; e_account := s_bank; e_account_type := Asset; e_operator := None;
     e_commodity := {| cs_primary := s_chf; cs_conversion := conv_default |};
     e_format := format_default;
     e_rewrite := [ {| r_matcher := [[(RPayee, s_mig)]]; r_pending := false; r_payee := None;
                       r_account := Some s_food;
                       r_conversion := Some {| cv_amount := Compute; cv_commodity := None;
                                               cv_rate := PriceOfSecondary; cv_disabled := false |} |} ] |}.
Definition ex_conv_txn : txn :=
  match build_txn lit_captures ex_conv_cfg ex_conv_row with IOk t => t | _ => txn_new 0%Z [] {| oa_value := dec_zero; oa_commodity := [] |} end.

Example ex_conv_built : build_txn lit_captures ex_conv_cfg ex_conv_row = IOk ex_conv_txn.
Proof. vm_compute. reflexivity. Qed.

Example ex_conv_ok : stxn_ok str_code str_code (to_double_entry ex_conv_txn s_bank).
Proof.
  unfold stxn_ok. split; [|split].
  - vm_compute. repeat constructor; discriminate.
  - vm_compute. repeat constructor; discriminate.
  - vm_compute. reflexivity.
Qed.

(* ---- known finding C16-K1: the second row of the repository's csv_multi_currency golden.
   23.45 CHF credited at the stated rate 114.0500 JPY with the bank's rounded 2675 JPY as the
   secondary amount: every hypothesis of C16_statement_accepted holds except that the printed
   transaction balances, and the book-keeping refuses it ---- *)
Definition s_jpy : str := [74;80;89].
Definition s_wire : str := [65;115;115;101;116;115;58;87;105;114;101].
Definition ex_rounded_row : row_data :=
  {| rd_date := 5%Z; rd_payee := s_migros; rd_amount := {| d_neg := false; d_mag := of_dec 2345 2 |};
     rd_balance := Some {| d_neg := false; d_mag := of_dec 2345 2 |};
     rd_secondary_amount := Some {| d_neg := false; d_mag := of_dec 2675 0 |};
     rd_secondary_commodity := None; rd_category := None; rd_commodity := s_chf;
     rd_rate := Some {| d_neg := false; d_mag := of_dec 1140500 4 |}; rd_note := None; rd_charge := None |}.
Definition ex_rounded_cfg : entry str :=
  {| e_path := []; e_encoding := 0; e_account := s_bank; e_account_type := Asset; e_operator := None;
     e_commodity := {| cs_primary := s_jpy; cs_conversion := conv_default |};
     e_format := format_default;
     e_rewrite := [ {| r_matcher := [[(RPayee, s_mig)]]; r_pending := false; r_payee := None;
                       r_account := Some s_wire;
                       r_conversion := Some {| cv_amount := Extract; cv_commodity := Some s_jpy;
                                               cv_rate := PriceOfPrimary; cv_disabled := false |} |} ] |}.
Definition ex_rounded_txn : txn :=
  match build_txn lit_captures ex_rounded_cfg ex_rounded_row with
  | IOk t => t
  | _ => txn_new 0%Z [] {| oa_value := dec_zero; oa_commodity := [] |}
  end.
Definition ex_rounded_opening : list (str * dec) := [(s_chf, dec_zero)].

Example ex_rounded_built : build_txn lit_captures ex_rounded_cfg ex_rounded_row = IOk ex_rounded_txn.
Proof. vm_compute. reflexivity. Qed.

Example ex_rounded_hyps :
  str_code s_equity <> str_code s_bank
  /\ Forall (fun cv => fst cv <> []) ex_rounded_opening
  /\ Forall (names_ok) (st_posts (to_double_entry ex_rounded_txn s_bank))
  /\ Forall cost_ok (map (pp_of str_code str_code) (st_posts (to_double_entry ex_rounded_txn s_bank)))
  /\ elsewhere str_code s_bank ex_rounded_txn
  /\ consistent str_code (opening str_code ex_rounded_opening) [ex_rounded_txn].
Proof.
  split; [vm_compute; discriminate|]. split; [repeat constructor; discriminate|].
  split; [vm_compute; repeat constructor; discriminate|].
  split; [vm_compute; repeat constructor; discriminate|].
  split; [split; [vm_compute; discriminate|intros H; vm_compute in H; congruence]|].
  vm_compute ex_rounded_txn. unfold consistent, txn_assert. cbn [t_balance].
  split; [|exact I]. apply qc_by_compute. vm_compute. reflexivity.
Qed.

Example ex_rounded_refused :
  exists r,
    fst (Book.process (book_entries str_code str_code
           (funding s_bank s_equity (-1)%Z ex_rounded_opening
            ++ map (fun t => to_double_entry t s_bank) [ex_rounded_txn])))
    = Book.Err (Book.UnbalancedPostings r).
Proof. eexists. vm_compute. reflexivity. Qed.
