(* C17 — rewrite rules and layered configuration resolve as documented.  Theorems only.
   Everything is stated for an arbitrary pattern type P, record type R and matcher function
   `matches` (EntityMatcher::captures): the regex crate is an oracle. *)
From Coq Require Import List NArith Bool Arith Permutation Sorted.
From Okv Require Import Model.ImpConfig Model.ImpConfigSpec Model.ImpExtract Model.ImpExtractSpec
     Model.ImpSingleEntry Model.ImpCsv Model.ImpCamtMatch Model.ImpVisecaMatch
     Proofs.ImpConfigProofs Proofs.ImpExtractProofs Proofs.ImpVisecaProofs.
From Okv Require Proofs.ImpExamples.   (* the hypotheses are satisfiable *)
Import ListNotations.

(* ConfigSet::select = to_entry of the left fold of merge over the documents whose path occurs in
   the file path, ordered by path length (shortest first), ties in file order *)
Theorem C17_select_is_fold : forall P (docs : list (doc P)) (fp : str),
  select docs fp = option_map to_entry
                     (match applicable docs fp with [] => None | d :: r => Some (fold_left merge r d) end)
  /\ Permutation (applicable docs fp) (filter (applies fp) docs)
  /\ Sorted (fun a b => path_len a <= path_len b) (applicable docs fp)
  /\ forall n, filter (fun d => path_len d =? n) (applicable docs fp)
               = filter (fun d => path_len d =? n) (filter (applies fp) docs).
Proof.
  intros P docs fp. rewrite <- matching_applicable. repeat split.
  - apply sort_perm.
  - apply (sort_sorted path_len).
  - intros n. apply sort_stable.
Qed.
Print Assumptions C17_select_is_fold.

(* merging a list of documents: every scalar setting is the last one given, the path is the last
   document's *)
Theorem C17_merge_scalars_last_wins : forall P (d : doc P) (l : list (doc P)),
  let r := fold_left merge l d in
  d_path r = d_path (last l d)
  /\ d_encoding r = last_some (map (@d_encoding P) (d :: l))
  /\ d_account r = last_some (map (@d_account P) (d :: l))
  /\ d_account_type r = last_some (map (@d_account_type P) (d :: l))
  /\ d_operator r = last_some (map (@d_operator P) (d :: l))
  /\ d_commodity r = last_some (map (@d_commodity P) (d :: l))
  /\ d_format r = last_some (map (@d_format P) (d :: l)).
Proof. intros P d l r. subst r. rewrite fold_merge_combine. cbn. repeat split. Qed.
Print Assumptions C17_merge_scalars_last_wins.

(* last_some really is the last setting: everything after it is unset *)
Theorem C17_last_some_is_last : forall A (l : list (option A)) (v : A),
  last_some l = Some v <-> exists l1 l2, l = l1 ++ Some v :: l2 /\ forall x, In x l2 -> x = None.
Proof. exact @last_some_spec. Qed.
Print Assumptions C17_last_some_is_last.

Theorem C17_merge_rules_concat : forall P (d : doc P) (l : list (doc P)),
  d_rewrite (fold_left merge l d) = concat (map (@d_rewrite P) (d :: l)).
Proof. intros. apply fold_merge_rewrite. Qed.
Print Assumptions C17_merge_rules_concat.

(* rules apply in list order: the last rule of a list is applied to the fragment (payee, code,
   account, ...) left by the rules before it; in the list of rules that hit a record, each saw the
   outcome of the rules before it *)
Theorem C17_rules_in_order : forall P R (matches : rewrite_field * P -> R -> frag -> option captures)
    (rs : list (rule P)) (r : rule P) (rs2 : list (rule P)) (e : R),
  extract matches (rs ++ [r]) e = step matches e (extract matches rs e) r
  /\ (or_extract matches (r_matcher r) (extract matches rs e) e <> None ->
      exists c hs2, hits matches frag0 (rs ++ r :: rs2) e
                    = hits matches frag0 rs e
                      ++ {| h_rule := r; h_seen := extract matches rs e; h_matched := c |} :: hs2).
Proof. intros. split; [apply extract_snoc|apply hit_sees_prefix]. Qed.
Print Assumptions C17_rules_in_order.

(* the outcome in terms of the rules that hit: payee and code of the last hit that sets / captures
   one, account of the last hit that assigns one, conversion likewise, cleared iff some assigning
   hit is not flagged pending *)
Theorem C17_outcome_of_hits : forall P R (matches : rewrite_field * P -> R -> frag -> option captures)
    (rules : list (rule P)) (e : R),
  extract matches rules e = spec_frag (hits matches frag0 rules e).
Proof. intros. apply extract_hits. Qed.
Print Assumptions C17_outcome_of_hits.

Theorem C17_hits_are_matching_rules : forall P R (matches : rewrite_field * P -> R -> frag -> option captures)
    (rules : list (rule P)) (e : R) (h : hit P),
  In h (hits matches frag0 rules e) ->
  In (h_rule h) rules /\ or_extract matches (r_matcher (h_rule h)) (h_seen h) e = Some (h_matched h).
Proof. intros P R matches rules e h. apply hits_sound. Qed.
Print Assumptions C17_hits_are_matching_rules.

Theorem C17_account_last_assigning_rule :
  forall P R (matches : rewrite_field * P -> R -> frag -> option captures)
    (rules : list (rule P)) (e : R) (a : str),
  g_account (extract matches rules e) = Some a <->
  exists hs1 h hs2, hits matches frag0 rules e = hs1 ++ h :: hs2 /\ r_account (h_rule h) = Some a
                    /\ forall h', In h' hs2 -> r_account (h_rule h') = None.
Proof. intros. apply account_last_assigning. Qed.
Print Assumptions C17_account_last_assigning_rule.

(* an OR-list matches iff some element does, and yields what its first matching element yields *)
Theorem C17_or_any : forall P R (matches : rewrite_field * P -> R -> frag -> option captures)
    (os : list (and_list P)) (cur : frag) (e : R),
  (forall f, or_extract matches os cur e = Some f <->
             exists os1 a os2, os = os1 ++ a :: os2
                               /\ (forall b, In b os1 -> and_extract matches b cur e = None)
                               /\ and_extract matches a cur e = Some f)
  /\ (or_extract matches os cur e = None <-> forall a, In a os -> and_extract matches a cur e = None).
Proof. intros. split; [intros f; apply or_extract_some|apply or_extract_none]. Qed.
Print Assumptions C17_or_any.

(* the fields of an element are applied in the declaration order of RewriteField, whatever the
   order they were written in (the FieldMatcher is a HashMap; /repo cce0c70): the compiled
   element holds the written fields, each once, sorted by that order; compiling a rule changes
   nothing else.  The importers run the rules compiled (Model/ImpCsv.v row_fragment,
   Model/ImpCamtMatch.v camt_fragment). *)
Theorem C17_fields_in_declaration_order : forall P (a : and_list P) (r : rule P),
  Permutation a (and_compile a)
  /\ Sorted (fun x y => rf_rank (fst x) <= rf_rank (fst y)) (and_compile a)
  /\ r_matcher (rule_compile r) = map and_compile (r_matcher r)
  /\ r_pending (rule_compile r) = r_pending r /\ r_payee (rule_compile r) = r_payee r
  /\ r_account (rule_compile r) = r_account r /\ r_conversion (rule_compile r) = r_conversion r.
Proof.
  intros P a r. split; [apply and_compile_perm|]. split; [apply and_compile_sorted|].
  repeat split.
Qed.
Print Assumptions C17_fields_in_declaration_order.

(* an element matches iff every one of its fields does, each field seeing the captures of the
   fields before it (in the order of the compiled element) *)
Theorem C17_and_all : forall P R (matches : rewrite_field * P -> R -> frag -> option captures)
    (ms : and_list P) (cur : frag) (e : R),
  and_extract matches ms cur e <> None <->
  forall ms1 m ms2, ms = ms1 ++ m :: ms2 ->
    exists f, and_extract matches ms1 cur e = Some f /\ matches m e f <> None.
Proof. intros. apply and_extract_all. Qed.
Print Assumptions C17_and_all.

(* no account-assigning hit: the counter posting goes to Income:Unknown / Expenses:Unknown by the
   sign of the amount *)
Theorem C17_unknown_account : forall P R (matches : rewrite_field * P -> R -> frag -> option captures)
    (rules : list (rule P)) (e : R) (t0 : txn) (src : str),
  (forall h, In h (hits matches frag0 rules e) -> r_account (h_rule h) = None) ->
  let t := apply_fragment (extract matches rules e) t0 in
  In (counter_posting t) (st_posts (to_double_entry t src))
  /\ sp_account (counter_posting t)
     = if d_neg (oa_value (t_amount t0)) then expenses_unknown else income_unknown.
Proof. intros. split; [apply counter_in_posts|apply counter_account_unknown; assumption]. Qed.
Print Assumptions C17_unknown_account.

(* the counter posting is pending iff every hit that assigns an account is flagged pending (in
   particular when none does); otherwise it carries no mark *)
Theorem C17_pending_rule : forall P R (matches : rewrite_field * P -> R -> frag -> option captures)
    (rules : list (rule P)) (e : R) (t0 : txn),
  t_clear t0 = None ->
  let p := counter_posting (apply_fragment (extract matches rules e) t0) in
  (sp_clear p = Pending <->
   forall h, In h (hits matches frag0 rules e) -> r_account (h_rule h) <> None -> r_pending (h_rule h) = true)
  /\ (sp_clear p = Pending \/ sp_clear p = Uncleared).
Proof.
  intros P R matches rules e t0 H p. split; [apply counter_pending; exact H|].
  subst p. rewrite counter_clear_values by exact H. destruct (g_cleared _); auto.
Qed.
Print Assumptions C17_pending_rule.

(* "each seeing the payee as rewritten by earlier rules", for the matcher adapters of the three
   importers (the abstract `matches` of the theorems above is instantiated by these): a `payee`
   matcher of a rule that comes after the rules rs is applied to the payee the last hit among rs
   that set or captured a payee left - for CSV and Viseca records to the statement's payee when
   there is none, for Camt053 records (which have no payee of their own) to nothing; a Viseca
   `category` matcher always reads the category line *)
Theorem C17_payee_matcher_sees_rewritten_payee : forall P (cap : P -> str -> option captures)
    (rs : list (rule P)) (p : P),
  (forall e : record,
     csv_matches cap (RPayee, p) e (extract (csv_matches cap) rs e)
     = cap p (match spec_payee (hits (csv_matches cap) frag0 rs e) with
              | Some q => q | None => rc_payee e end))
  /\ (forall e : viseca_entity,
     viseca_matches cap (RPayee, p) e (extract (viseca_matches cap) rs e)
     = cap p (match spec_payee (hits (viseca_matches cap) frag0 rs e) with
              | Some q => q | None => ve_payee e end))
  /\ (forall e : camt_entity,
     camt_matches cap (RPayee, p) e (extract (camt_matches cap) rs e)
     = match spec_payee (hits (camt_matches cap) frag0 rs e) with
       | Some q => cap p q | None => None end)
  /\ (forall (e : viseca_entity) (f : frag), viseca_matches cap (RCategory, p) e f = cap p (ve_category e)).
Proof.
  intros P cap rs p. split; [intros e; apply csv_payee_seen|].
  split; [intros e; apply viseca_payee_seen|]. split; [intros e; apply camt_payee_seen|].
  intros e f; apply viseca_category_seen.
Qed.
Print Assumptions C17_payee_matcher_sees_rewritten_payee.

(* what the Viseca importer books for a record, in terms of the rules that hit it: payee and code
   of the last hit that set / captured one (else the statement's payee, and no code), the account
   of the last assigning hit, pending unless some assigning hit is not flagged pending *)
Theorem C17_viseca_record_outcome : forall P (cap : P -> str -> option captures)
    (rules : list (rule P)) (e : viseca_entity),
  let hs := hits (viseca_matches cap) frag0 (compile rules) e in
  viseca_record_view cap rules e
  = {| vv_payee := one_line (match spec_payee hs with Some q => q | None => ve_payee e end);
       vv_code := option_map one_line (spec_code hs);
       vv_dest := spec_account hs;
       vv_pending := negb (spec_cleared hs) |}.
Proof. intros P cap rules e. apply viseca_view_hits. Qed.
Print Assumptions C17_viseca_record_outcome.
