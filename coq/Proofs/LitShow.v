(* Proofs about the literal printer (show): what it prints is a well-formed literal that
   scans back to the same number (T5), and everything the scanner returns is printable. *)
From Coq Require Import QArith.
From Coq Require Import List NArith ZArith Bool Lia ZifyBool ZifyN ZifyNat.
From Okv Require Import Model.Lit Model.LitSpec Proofs.LitProofs.
Import ListNotations.
Open Scope N_scope.

Local Arguments N.add : simpl never.
Local Arguments N.mul : simpl never.
Local Arguments N.sub : simpl never.
Local Arguments N.leb : simpl never.
Local Arguments N.ltb : simpl never.
Local Arguments N.eqb : simpl never.
Local Arguments N.div : simpl never.
Local Arguments N.modulo : simpl never.
Local Arguments Z.mul : simpl never.
Local Arguments Z.add : simpl never.
Local Arguments N.of_nat : simpl never.

Definition big (d : pdec) : bool := pow10_N (3 + scale d) <=? mant d.

Definition wf_pdec (d : pdec) : Prop :=
  (Z.of_N (mant d) <= max96)%Z /\ (scale d <= 28)%nat /\
  (neg d = true -> mant d <> 0) /\ (pfmt d = None -> big d = false).

(* ------------------------------------------------------------------------- *)
(* 1. Decimal digits                                                          *)
(* ------------------------------------------------------------------------- *)

Lemma digits_val_dv : forall l, digits_val l = dv 0 l.
Proof. reflexivity. Qed.

Lemma dv_cons : forall a c l, dv a (c :: l) = dv (a * 10 + (c - 48)) l.
Proof. reflexivity. Qed.

Lemma dv_app : forall l1 l2 a, dv a (l1 ++ l2) = dv (dv a l1) l2.
Proof. intros. unfold dv. apply fold_left_app. Qed.

Lemma dv_zeros : forall k, dv 0 (repeat 48 k) = 0.
Proof.
  induction k as [|k IH]; [reflexivity|].
  cbn [repeat]. rewrite dv_cons. replace (0 * 10 + (48 - 48)) with 0 by lia. exact IH.
Qed.

Lemma pow10_N_pos : forall k, 0 < pow10_N k.
Proof. induction k as [|k IH]; cbn [pow10_N]; lia. Qed.

Lemma pow10_N_mono : forall a b, (a <= b)%nat -> pow10_N a <= pow10_N b.
Proof.
  intros a b H. induction H as [|b H IH]; [lia|].
  cbn [pow10_N]. pose proof (pow10_N_pos b). lia.
Qed.

Lemma digits_fuel_val : forall f n acc,
  n < pow10_N f -> dv 0 (digits_fuel f n acc) = dv n acc.
Proof.
  induction f as [|f IH]; intros n acc H.
  - cbn [pow10_N] in H. assert (n = 0) by lia. subst. reflexivity.
  - cbn [digits_fuel]. destruct (n <? 10) eqn:E.
    + rewrite dv_cons. replace (0 * 10 + (48 + n - 48)) with n by lia. reflexivity.
    + rewrite IH.
      * rewrite dv_cons.
        pose proof (N.div_mod' n 10) as Hdm.
        assert (Hlt : n mod 10 < 10) by (apply N.mod_lt; lia).
        replace (n / 10 * 10 + (48 + n mod 10 - 48)) with n by lia. reflexivity.
      * apply N.div_lt_upper_bound; [lia|]. cbn [pow10_N] in H. exact H.
Qed.

Lemma digits_fuel_dig : forall f n acc,
  Forall dig acc -> Forall dig (digits_fuel f n acc).
Proof.
  induction f as [|f IH]; intros n acc H; [exact H|].
  cbn [digits_fuel]. destruct (n <? 10) eqn:E.
  - constructor; [|exact H]. unfold dig, is_digit. lia.
  - apply IH. constructor; [|exact H].
    assert (Hlt : n mod 10 < 10) by (apply N.mod_lt; lia).
    unfold dig, is_digit. lia.
Qed.

Lemma pos_lt_pow10 : forall p, N.pos p < pow10_N (Pos.size_nat p).
Proof.
  induction p as [p IH|p IH|]; cbn [Pos.size_nat pow10_N].
  - lia.
  - lia.
  - lia.
Qed.

Lemma lt_pow10_size : forall n, n < pow10_N (S (N.size_nat n)).
Proof.
  intros [|p]; cbn [N.size_nat pow10_N]; [lia|].
  pose proof (pos_lt_pow10 p). lia.
Qed.

Lemma digits_of_val : forall n, digits_val (digits_of n) = n.
Proof.
  intros n. rewrite digits_val_dv. unfold digits_of.
  rewrite digits_fuel_val; [reflexivity|apply lt_pow10_size].
Qed.

Lemma digits_of_dig : forall n, Forall dig (digits_of n).
Proof. intros n. apply digits_fuel_dig. constructor. Qed.

Lemma dv_bound : forall l a, Forall dig l -> dv a l < (a + 1) * pow10_N (length l).
Proof.
  induction l as [|c l IH]; intros a H.
  - cbn [length pow10_N]. unfold dv. cbn [fold_left]. lia.
  - inversion H as [|? ? Hc Hl]; subst. rewrite dv_cons.
    specialize (IH (a * 10 + (c - 48)) Hl).
    cbn [length pow10_N]. unfold dig, is_digit in Hc.
    assert (Hle : (a * 10 + (c - 48) + 1) * pow10_N (length l)
                  <= ((a + 1) * 10) * pow10_N (length l)).
    { apply N.mul_le_mono_r. lia. }
    lia.
Qed.

Lemma digits_val_bound : forall l, Forall dig l -> digits_val l < pow10_N (length l).
Proof. intros l H. pose proof (dv_bound l 0 H). rewrite digits_val_dv. lia. Qed.

Lemma repeat_dig : forall k, Forall dig (repeat 48 k).
Proof. induction k as [|k IH]; cbn [repeat]; constructor; [reflexivity|exact IH]. Qed.

(* ------------------------------------------------------------------------- *)
(* 2. Thousands grouping                                                      *)
(* ------------------------------------------------------------------------- *)

Definition tri := (N * N * N)%type.

Fixpoint flat (t : list tri) : list N :=
  match t with [] => [] | (a, b, c) :: r => a :: b :: c :: flat r end.
Fixpoint enc (t : list tri) : list N :=
  match t with [] => [] | (a, b, c) :: r => 44 :: a :: b :: c :: enc r end.
Fixpoint renc (t : list tri) : list N :=
  match t with [] => [] | (a, b, c) :: r => a :: b :: c :: 44 :: renc r end.
Definition swap3 (x : tri) : tri := let '(a, b, c) := x in (c, b, a).
Definition rt (t : list tri) : list tri := rev (map swap3 t).

Lemma flat_app : forall x y, flat (x ++ y) = flat x ++ flat y.
Proof.
  induction x as [|[[a b] c] x IH]; intros y; [reflexivity|].
  cbn [app flat]. rewrite IH. reflexivity.
Qed.

Lemma enc_app : forall x y, enc (x ++ y) = enc x ++ enc y.
Proof.
  induction x as [|[[a b] c] x IH]; intros y; [reflexivity|].
  cbn [app enc]. rewrite IH. reflexivity.
Qed.

Lemma rev_flat : forall t, rev (flat t) = flat (rt t).
Proof.
  induction t as [|[[a b] c] t IH]; [reflexivity|].
  cbn [flat]. change (a :: b :: c :: flat t) with ([a; b; c] ++ flat t).
  rewrite rev_app_distr, IH. unfold rt. cbn [map rev swap3]. rewrite flat_app. reflexivity.
Qed.

Lemma rev_renc : forall t, rev (renc t) = enc (rt t).
Proof.
  induction t as [|[[a b] c] t IH]; [reflexivity|].
  cbn [renc]. change (a :: b :: c :: 44 :: renc t) with ([a; b; c; 44] ++ renc t).
  rewrite rev_app_distr, IH. unfold rt. cbn [map rev swap3]. rewrite enc_app. reflexivity.
Qed.

Lemma group3_rev_shape : forall n l,
  (length l <= n)%nat -> l <> [] ->
  exists t h, l = flat t ++ h /\ (1 <= length h <= 3)%nat /\ group3_rev l = renc t ++ h.
Proof.
  induction n as [|n IH]; intros l Hn Hne.
  - destruct l; [congruence|cbn [length] in Hn; lia].
  - destruct l as [|a [|b [|c [|d r]]]]; [congruence| | | |].
    + exists [], [a]. cbn [length]. repeat split; lia.
    + exists [], [a; b]. cbn [length]. repeat split; lia.
    + exists [], [a; b; c]. cbn [length]. repeat split; lia.
    + destruct (IH (d :: r)) as (t & h & Hl & Hh & Hg).
      * cbn [length] in *. lia.
      * discriminate.
      * exists ((a, b, c) :: t), h. split; [|split; [exact Hh|]].
        -- cbn [flat app]. rewrite <- Hl. reflexivity.
        -- change (group3_rev (a :: b :: c :: d :: r)) with
             (a :: b :: c :: 44 :: group3_rev (d :: r)).
           rewrite Hg. reflexivity.
Qed.

Lemma group3_shape : forall ip, ip <> [] ->
  exists g0 T, ip = g0 ++ flat T /\ group3 ip = g0 ++ enc T /\ (1 <= length g0 <= 3)%nat.
Proof.
  intros ip Hne.
  assert (Hr : rev ip <> []).
  { intros E. apply Hne. rewrite <- (rev_involutive ip), E. reflexivity. }
  destruct (group3_rev_shape (length (rev ip)) (rev ip) (le_n _) Hr) as (t & h & Hl & Hh & Hg).
  exists (rev h), (rt t). split; [|split].
  - rewrite <- (rev_involutive ip), Hl, rev_app_distr, rev_flat. reflexivity.
  - unfold group3. rewrite Hg, rev_app_distr, rev_renc. reflexivity.
  - rewrite rev_length. exact Hh.
Qed.

(* ------------------------------------------------------------------------- *)
(* 3. The spec on strings of the printed shape                                *)
(* ------------------------------------------------------------------------- *)

Definition tailpart (fp : list N) : list N := match fp with [] => [] | _ => 46 :: fp end.

Lemma span_digits_app : forall a b,
  Forall dig a -> (b = [] \/ exists c r, b = c :: r /\ is_digit c = false) ->
  span_digits (a ++ b) = (a, b).
Proof.
  induction a as [|x a IH]; intros b Ha Hb.
  - cbn [app]. destruct Hb as [->|(c & r & -> & Hc)]; [reflexivity|].
    cbn [span_digits]. rewrite Hc. reflexivity.
  - inversion Ha as [|? ? Hx Ha']; subst. cbn [app span_digits]. unfold dig in Hx.
    rewrite Hx, (IH b Ha' Hb). reflexivity.
Qed.

Lemma groups_enc : forall T rest,
  Forall dig (flat T) -> groups rest = ([], rest) -> groups (enc T ++ rest) = (flat T, rest).
Proof.
  induction T as [|[[a b] c] T IH]; intros rest Hd Hr.
  - exact Hr.
  - cbn [flat] in Hd.
    inversion Hd as [|? ? Ha Hd1]; subst. inversion Hd1 as [|? ? Hb Hd2]; subst.
    inversion Hd2 as [|? ? Hc Hd3]; subst. unfold dig in *.
    cbn [enc app flat]. rewrite groups_eq. cbv beta iota.
    rewrite Ha, Hb, Hc. change (44 =? 44) with true. cbn [andb].
    rewrite (IH rest Hd3 Hr). reflexivity.
Qed.

Lemma spec_scan_shape : forall (ng : bool) g0 T fp,
  Forall dig g0 -> g0 <> [] -> Forall dig (flat T) -> (T <> [] -> (length g0 <= 3)%nat) ->
  Forall dig fp ->
  spec_scan ((if ng then [45] else []) ++ g0 ++ enc T ++ tailpart fp) =
  Some {| l_neg := ng; l_int := g0 ++ flat T; l_frac := fp; l_grouped := nonempty (flat T) |}.
Proof.
  intros ng g0 T fp Hg0 Hne HT Hlen Hfp.
  rewrite spec_scan_eq.
  set (R := enc T ++ tailpart fp).
  assert (Hstrip : strip ((if ng then [45] else []) ++ g0 ++ R) = (ng, g0 ++ R)).
  { destruct ng; cbn [app].
    - cbn [strip]. change (45 =? 45) with true. reflexivity.
    - destruct g0 as [|x g0']; [congruence|]. cbn [app strip].
      inversion Hg0 as [|? ? Hx _]; subst. unfold dig, is_digit in Hx.
      assert (E : (x =? 45) = false) by lia. rewrite E. reflexivity. }
  rewrite Hstrip.
  assert (Hspan : span_digits (g0 ++ R) = (g0, R)).
  { apply span_digits_app; [exact Hg0|]. unfold R.
    destruct T as [|[[a b] c] T'].
    - cbn [enc app]. destruct fp as [|f fp']; [left; reflexivity|].
      right. exists 46, (f :: fp'). split; reflexivity.
    - right. cbn [enc app]. eexists _, _. split; reflexivity. }
  rewrite Hspan.
  assert (Htp : groups (tailpart fp) = ([], tailpart fp)).
  { destruct fp as [|f fp']; reflexivity. }
  assert (Hg : (if (1 <=? length g0)%nat && (length g0 <=? 3)%nat then groups R else ([], R))
               = (flat T, tailpart fp)).
  { destruct ((1 <=? length g0)%nat && (length g0 <=? 3)%nat) eqn:E.
    - apply groups_enc; assumption.
    - destruct T as [|x T']; [reflexivity|]. exfalso.
      assert (Hl : (length g0 <= 3)%nat) by (apply Hlen; discriminate).
      destruct g0; [congruence|]. cbn [length] in *. lia. }
  rewrite Hg. unfold tail, tailpart.
  destruct fp as [|f fp'].
  - destruct g0; [congruence|]. reflexivity.
  - change (46 =? 46) with true. cbv iota.
    pose proof (span_digits_app (f :: fp') [] Hfp (or_introl eq_refl)) as Hs.
    rewrite app_nil_r in Hs. rewrite Hs.
    destruct g0; [congruence|]. reflexivity.
Qed.

(* ------------------------------------------------------------------------- *)
(* 4. Round trip                                                              *)
(* ------------------------------------------------------------------------- *)

Definition ds_of (d : pdec) : list N := pad_zeros (S (scale d)) (digits_of (mant d)).
Definition ip_of (d : pdec) : list N := firstn (length (ds_of d) - scale d) (ds_of d).
Definition fp_of (d : pdec) : list N := skipn (length (ds_of d) - scale d) (ds_of d).

Lemma show_eq : forall d,
  show d = (if neg d then [45] else []) ++
           (match pfmt d with Some Comma3Dot => group3 (ip_of d) | _ => ip_of d end) ++
           tailpart (fp_of d).
Proof. reflexivity. Qed.

Lemma ds_of_facts : forall d,
  Forall dig (ds_of d) /\ (S (scale d) <= length (ds_of d))%nat /\
  (length (digits_of (mant d)) <= length (ds_of d))%nat /\
  digits_val (ds_of d) = mant d.
Proof.
  intros d. unfold ds_of, pad_zeros. repeat split.
  - apply Forall_app. split; [apply repeat_dig|apply digits_of_dig].
  - rewrite app_length, repeat_length. lia.
  - rewrite app_length. lia.
  - rewrite digits_val_dv, dv_app, dv_zeros, <- digits_val_dv. apply digits_of_val.
Qed.

Lemma big_ip : forall d, big d = true -> (4 <= length (ip_of d))%nat.
Proof.
  intros d Hb. unfold big in Hb.
  destruct (ds_of_facts d) as (_ & Hlen & Hdg & _).
  pose proof (digits_val_bound _ (digits_of_dig (mant d))) as Hbd.
  rewrite digits_of_val in Hbd.
  assert (Hlt : (3 + scale d < length (digits_of (mant d)))%nat).
  { destruct (Nat.lt_ge_cases (3 + scale d) (length (digits_of (mant d)))) as [H|H]; [exact H|].
    apply pow10_N_mono in H. lia. }
  unfold ip_of. rewrite firstn_length_le; lia.
Qed.

Theorem show_scan : forall d, wf_pdec d ->
  exists d', scan (show d) = SOk d' /\ mant d' = mant d /\ scale d' = scale d /\
             neg d' = neg d /\ (big d = true -> pfmt d' = pfmt d).
Proof.
  intros d (Hm & Hs & Hn & Hb).
  destruct (ds_of_facts d) as (Hdig & Hlen & _ & Hval).
  assert (Hsplit : ip_of d ++ fp_of d = ds_of d) by apply firstn_skipn.
  assert (Hfl : length (fp_of d) = scale d).
  { unfold fp_of. rewrite skipn_length. lia. }
  assert (Hil : length (ip_of d) = (length (ds_of d) - scale d)%nat).
  { unfold ip_of. rewrite firstn_length_le; lia. }
  rewrite <- Hsplit in Hdig. apply Forall_app in Hdig. destruct Hdig as [Hdi Hdf].
  assert (Hine : ip_of d <> []).
  { intros E. rewrite E in Hil. cbn [length] in Hil. lia. }
  assert (Hmid : exists g0 T,
            (match pfmt d with Some Comma3Dot => group3 (ip_of d) | _ => ip_of d end)
            = g0 ++ enc T /\ ip_of d = g0 ++ flat T /\ g0 <> [] /\
            (T <> [] -> (length g0 <= 3)%nat) /\
            (pfmt d = Some Comma3Dot -> (length g0 <= 3)%nat) /\
            (pfmt d <> Some Comma3Dot -> T = [])).
  { assert (Hplain : exists g0 T,
              ip_of d = g0 ++ enc T /\ ip_of d = g0 ++ flat T /\ g0 <> [] /\
              (T <> [] -> (length g0 <= 3)%nat) /\ T = []).
    { exists (ip_of d), []. cbn [enc flat]. rewrite app_nil_r. repeat split; auto. congruence. }
    destruct (pfmt d) as [[|]|].
    - destruct Hplain as (g0 & T & H1 & H2 & H3 & H4 & H5). exists g0, T.
      repeat split; auto. discriminate.
    - destruct (group3_shape _ Hine) as (g0 & T & H1 & H2 & H3). exists g0, T.
      repeat split; auto; try lia.
      + intros E. subst g0. cbn [length] in H3. lia.
      + congruence.
    - destruct Hplain as (g0 & T & H1 & H2 & H3 & H4 & H5). exists g0, T.
      repeat split; auto. discriminate. }
  destruct Hmid as (g0 & T & Hmid & Hip & Hg0ne & HTlen & Hclen & HTnil).
  rewrite Hip in Hdi. apply Forall_app in Hdi. destruct Hdi as [Hdg0 HdT].
  pose proof (spec_scan_shape (neg d) g0 T (fp_of d) Hdg0 Hg0ne HdT HTlen Hdf) as Hspec.
  assert (Hshow : show d = (if neg d then [45] else []) ++ g0 ++ enc T ++ tailpart (fp_of d)).
  { rewrite show_eq, Hmid, <- app_assoc. reflexivity. }
  rewrite <- Hshow in Hspec.
  pose proof (wf_accepted _ _ Hspec) as Hscan.
  set (t := {| l_neg := neg d; l_int := g0 ++ flat T; l_frac := fp_of d;
               l_grouped := nonempty (flat T) |}) in *.
  assert (Hlm : lit_mant t = mant d).
  { unfold lit_mant, t. cbn [l_int l_frac]. rewrite <- Hip, Hsplit. exact Hval. }
  assert (Hlp : lit_places t = scale d) by exact Hfl.
  assert (Hfits : fits t = true).
  { unfold fits. rewrite Hlm, Hlp. lia. }
  rewrite Hfits in Hscan.
  exists (pdec_of t). split; [exact Hscan|].
  unfold pdec_of. cbn [mant scale neg pfmt]. rewrite Hlm, Hlp.
  split; [reflexivity|]. split; [reflexivity|]. split.
  - unfold t. cbn [l_neg]. destruct (neg d); [|reflexivity].
    specialize (Hn eq_refl). cbn [andb]. assert (E : (mant d =? 0) = false) by lia.
    rewrite E. reflexivity.
  - intros Hbig. pose proof (big_ip d Hbig) as H4. unfold t. cbn [l_grouped l_int].
    rewrite <- Hip.
    destruct (pfmt d) as [[|]|] eqn:Ef.
    + rewrite (HTnil ltac:(discriminate)). cbn [flat nonempty].
      assert (E : (4 <=? length (ip_of d))%nat = true) by lia. rewrite E. reflexivity.
    + specialize (Hclen eq_refl).
      destruct T as [|[[a b] c] T'].
      * exfalso. cbn [flat] in Hip. rewrite app_nil_r in Hip. rewrite Hip in H4. lia.
      * reflexivity.
    + specialize (Hb eq_refl). congruence.
Qed.

(* everything the scanner returns satisfies the round trip's side conditions *)

Lemma Groups_dig : forall l gs r, Groups l gs r -> Forall dig gs.
Proof.
  intros l gs r H. induction H as [|a b c r gs rest Ha Hb Hc HG IH]; [constructor|].
  repeat constructor; assumption.
Qed.

Lemma spec_scan_digits : forall l t,
  spec_scan l = Some t -> Forall dig (l_int t) /\ Forall dig (l_frac t).
Proof.
  intros l t H. rewrite spec_scan_eq in H.
  destruct (strip l) as [ng body] eqn:Hstrip.
  destruct (span_digits body) as [g0 r1] eqn:Hspan.
  destruct (span_digits_spec _ _ _ Hspan) as (_ & Hdg0 & _).
  destruct (if (1 <=? length g0)%nat && (length g0 <=? 3)%nat then groups r1 else ([], r1))
    as [gs r2] eqn:Hgrp.
  assert (Hdgs : Forall dig gs).
  { destruct ((1 <=? length g0)%nat && (length g0 <=? 3)%nat).
    - apply groups_Groups in Hgrp. eapply Groups_dig; eauto.
    - inversion Hgrp; subst. constructor. }
  assert (Hint : Forall dig (g0 ++ gs)) by (apply Forall_app; split; assumption).
  unfold tail in H. destruct r2 as [|x r3].
  - destruct (nonempty (g0 ++ gs)); [|discriminate]. inversion H; subst t.
    cbn [l_int l_frac]. split; auto.
  - destruct (x =? 46); [|discriminate].
    destruct (span_digits r3) as [fp r4] eqn:Hsp2.
    destruct (span_digits_spec _ _ _ Hsp2) as (_ & Hdfp & _).
    destruct r4; [|discriminate].
    destruct (nonempty ((g0 ++ gs) ++ fp)); [|discriminate]. inversion H; subst t.
    cbn [l_int l_frac]. split; auto.
Qed.

Theorem scan_wf : forall l d, scan l = SOk d -> wf_pdec d.
Proof.
  intros l d H. destruct (accept_only_wf _ _ H) as (t & Ht & Hf & ->).
  destruct (spec_scan_digits _ _ Ht) as (Hdi & Hdf).
  unfold fits in Hf. unfold wf_pdec, pdec_of. cbn [mant scale neg pfmt].
  split; [lia|]. split; [lia|]. split.
  - intros Hn. destruct (l_neg t); [|discriminate]. cbn [andb] in Hn. lia.
  - intros Hp. destruct (l_grouped t); [discriminate|].
    destruct (4 <=? length (l_int t))%nat eqn:E; [discriminate|].
    unfold big. cbn [mant scale].
    assert (Hd : Forall dig (l_int t ++ l_frac t)) by (apply Forall_app; split; assumption).
    pose proof (digits_val_bound _ Hd) as Hbd. rewrite app_length in Hbd.
    assert (Hle : (length (l_int t) + length (l_frac t) <= 3 + lit_places t)%nat).
    { unfold lit_places. lia. }
    apply pow10_N_mono in Hle. unfold lit_mant. lia.
Qed.
