(* C04 — theorems only (placeholder until the proof files land). *)
From Coq Require Import List NArith ZArith Bool QArith Qcanon.
From Okv Require Import Base.Maps Base.Dec Model.Amount Model.Book Model.Query.
Import ListNotations.

Theorem C04_bypass_is_raw : forall s, balance_report s None None = s_bal s.
Proof. reflexivity. Qed.
Print Assumptions C04_bypass_is_raw.
