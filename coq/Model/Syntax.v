(* The ledger syntax tree (core/src/syntax.rs, syntax/expr.rs, with plain::Ident decoration),
   shared by the printer model (Model/Display*.v) and the parser model (Model/Parse*.v).
   Text is a list of Unicode scalar values; numbers are Model/Lit.v decimals. *)
From Coq Require Import List NArith ZArith.
From Okv Require Import Model.Lit.
Import ListNotations.

Definition str := list N.

Inductive clear_state := Uncleared | Cleared | Pending.

(* chrono::NaiveDate as written: proleptic Gregorian year, month 1-12, day 1-31 *)
Record date := { d_year : Z; d_month : N; d_day : N }.

Record s_amount := { sa_value : pdec; sa_commodity : str }.

Inductive s_binop := SAdd | SSub | SMul | SDiv.

Inductive s_vexpr :=
| SParen (e : s_expr)
| SAmount (a : s_amount)
with s_expr :=
| SUnaryNeg (e : s_expr)
| SBinary (op : s_binop) (l r : s_expr)
| SValue (v : s_vexpr).

Inductive s_exchange := STotal (e : s_vexpr) | SRate (e : s_vexpr).

Record s_lot := { lot_price : option s_exchange; lot_date : option date; lot_note : option str }.

Record s_posting_amount := { pa_amount : s_vexpr; pa_cost : option s_exchange; pa_lot : s_lot }.

Inductive s_meta_value := MText (s : str) | MExpr (s : str).

Inductive s_metadata :=
| MComment (s : str)
| MWordTags (tags : list str)
| MKeyValue (key : str) (value : s_meta_value).

Record s_posting := { sp_account : str; sp_clear : clear_state; sp_amount : option s_posting_amount;
                      sp_balance : option s_vexpr; sp_metadata : list s_metadata }.

Record s_txn := { st_date : date; st_edate : option date; st_clear : clear_state;
                  st_code : option str; st_payee : str; st_posts : list s_posting;
                  st_metadata : list s_metadata }.

Inductive s_account_detail := ADComment (s : str) | ADNote (s : str) | ADAlias (s : str).
Inductive s_commodity_detail := CDComment (s : str) | CDNote (s : str) | CDAlias (s : str) | CDFormat (a : s_amount).

Inductive s_entry :=
| STxn (t : s_txn)
| SComment (s : str)
| SApplyTag (key : str) (value : option s_meta_value)
| SEndApplyTag
| SInclude (path : str)
| SAccount (name : str) (details : list s_account_detail)
| SCommodity (name : str) (details : list s_commodity_detail).
