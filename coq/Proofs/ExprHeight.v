(* C06, finding C06-F23: what the height bound of the expression parser gives to the stages
   after it.  Every value expression of every parsed ledger (posting amount, cost, lot price,
   balance assertion) is a tree of height at most MAX_EXPR_HEIGHT, and so is the tree the
   report layer evaluates (Model/Lower.v keeps the shape).  Printing (Model/Display.v
   fmt_vexpr/fmt_expr = syntax/display.rs), evaluation (Model/Amount.v eval_v/eval_e =
   report/eval.rs eval_visit) and Drop are structural recursions over these trees: one level of
   recursion per level of the tree, so their recursion depth is bounded by the same constant. *)
From Coq Require Import List NArith ZArith Bool Lia Arith.
From Okv Require Import Model.Lit Model.Syntax Model.Comb Model.ParseExpr Model.ParseLedger
  Model.RoundTripSpec Model.Amount Model.Lower
  Proofs.RoundTripImage.
Import ListNotations.

(* ---- the value expressions of a syntax tree ---- *)
Definition opt_list {A} (o : option A) : list A := match o with Some x => [x] | None => [] end.
Definition exchange_vexpr (x : s_exchange) : s_vexpr := match x with STotal v => v | SRate v => v end.
Definition pa_vexprs (pa : s_posting_amount) : list s_vexpr :=
  pa_amount pa :: map exchange_vexpr (opt_list (pa_cost pa))
               ++ map exchange_vexpr (opt_list (lot_price (pa_lot pa))).
Definition posting_vexprs (p : s_posting) : list s_vexpr :=
  flat_map pa_vexprs (opt_list (sp_amount p)) ++ opt_list (sp_balance p).
Definition entry_vexprs (e : s_entry) : list s_vexpr :=
  match e with STxn t => flat_map posting_vexprs (st_posts t) | _ => [] end.
Definition ledger_vexprs (es : list s_entry) : list s_vexpr := flat_map entry_vexprs es.

Definition bounded_v (v : s_vexpr) : Prop :=
  (vexpr_height v <= max_expr_height)%nat /\ (vexpr_depth v <= max_expr_depth)%nat.

Lemma wf_vexpr_bounded : forall v, wf_vexpr v = true -> bounded_v v.
Proof.
  intros v H. unfold wf_vexpr in H. rewrite !andb_true_iff in H. destruct H as [[_ D] T].
  apply Nat.leb_le in D. apply Nat.leb_le in T. split; assumption.
Qed.

Lemma wf_exchange_bounded : forall x, wf_exchange x = true -> bounded_v (exchange_vexpr x).
Proof. intros [v | v] H; apply wf_vexpr_bounded; exact H. Qed.

Lemma wf_opt_exchange_bounded : forall o, opt_all wf_exchange o = true ->
  Forall bounded_v (map exchange_vexpr (opt_list o)).
Proof.
  intros [x |] H; cbn; [| constructor]. constructor; [apply wf_exchange_bounded; exact H | constructor].
Qed.

Lemma wf_pa_bounded : forall pa, wf_posting_amount pa = true -> Forall bounded_v (pa_vexprs pa).
Proof.
  intros pa H. unfold wf_posting_amount in H. rewrite !andb_true_iff in H. destruct H as [[Ha Hc] Hl].
  unfold wf_lot in Hl. rewrite !andb_true_iff in Hl. destruct Hl as [[Hp _] _].
  unfold pa_vexprs. constructor; [apply wf_vexpr_bounded; exact Ha |].
  apply Forall_app. split; apply wf_opt_exchange_bounded; assumption.
Qed.

Lemma wf_posting_bounded : forall p, wf_posting p = true -> Forall bounded_v (posting_vexprs p).
Proof.
  intros p H. unfold wf_posting in H. rewrite !andb_true_iff in H.
  destruct H as [[[_ Ha] Hb] _]. unfold posting_vexprs. apply Forall_app. split.
  - destruct (sp_amount p) as [pa |]; cbn; [| constructor]. rewrite app_nil_r. apply wf_pa_bounded. exact Ha.
  - destruct (sp_balance p) as [v |]; cbn; [| constructor].
    constructor; [apply wf_vexpr_bounded; exact Hb | constructor].
Qed.

Lemma wf_entry_bounded : forall e, wf_entry e = true -> Forall bounded_v (entry_vexprs e).
Proof.
  intros [t | | | | | |] H; cbn [entry_vexprs]; try constructor.
  cbn [wf_entry] in H. unfold wf_txn in H. rewrite !andb_true_iff in H. destruct H as [_ Hp].
  induction (st_posts t) as [| p ps IH]; cbn; [constructor |].
  cbn [forallb] in Hp. apply andb_true_iff in Hp. destruct Hp as [H1 H2].
  apply Forall_app. split; [apply wf_posting_bounded; exact H1 | apply IH; exact H2].
Qed.

Lemma wf_ledger_bounded : forall es, wf_ledger es = true -> Forall bounded_v (ledger_vexprs es).
Proof.
  induction es as [| e r IH]; intros H; cbn; [constructor |].
  cbn [wf_ledger] in H. rewrite !andb_true_iff in H. destruct H as [[He _] Hr].
  apply Forall_app. split; [apply wf_entry_bounded; exact He | apply IH; exact Hr].
Qed.

(* every value expression of every ledger the parser returns *)
Theorem parsed_exprs_bounded : forall s es,
  parse_ledger s = LOk es -> Forall bounded_v (ledger_vexprs (map e_entry es)).
Proof. intros s es H. apply wf_ledger_bounded. eapply parser_image_wf; eauto. Qed.

(* ---- the trees the report layer evaluates have the same shape ---- *)
Fixpoint eval_height_v (v : vexpr) : nat :=
  match v with
  | VParen e => S (eval_height_e e)
  | VAmt _ _ => 1
  end
with eval_height_e (e : expr) : nat :=
  match e with
  | EUnaryNeg e => S (eval_height_e e)
  | EBin _ l r => S (Nat.max (eval_height_e l) (eval_height_e r))
  | EVal v => eval_height_v v
  end.

Scheme s_vexpr_ind2 := Induction for s_vexpr Sort Prop
  with s_expr_ind2 := Induction for s_expr Sort Prop.
Combined Scheme s_vexpr_expr_ind from s_vexpr_ind2, s_expr_ind2.

Lemma low_height :
  (forall v tc, eval_height_v (snd (low_v tc v)) = vexpr_height v) /\
  (forall e tc, eval_height_e (snd (low_e tc e)) = expr_height e).
Proof.
  apply s_vexpr_expr_ind.
  - intros e IH tc. cbn [low_v]. specialize (IH tc). destruct (low_e tc e) as [t e'].
    cbn [snd eval_height_v vexpr_height] in *. rewrite IH. reflexivity.
  - intros a tc. cbn [low_v]. destruct (sa_commodity a) as [| c0 cs]; [reflexivity |].
    destruct (intern tc (c0 :: cs)). reflexivity.
  - intros e IH tc. cbn [low_e]. specialize (IH tc). destruct (low_e tc e) as [t e'].
    cbn [snd eval_height_e expr_height] in *. rewrite IH. reflexivity.
  - intros op l IHl r IHr tc. cbn [low_e]. specialize (IHl tc). destruct (low_e tc l) as [t1 l'].
    specialize (IHr t1). destruct (low_e t1 r) as [t2 r'].
    cbn [snd eval_height_e expr_height] in *. rewrite IHl, IHr. reflexivity.
  - intros v IH tc. cbn [low_e]. specialize (IH tc). destruct (low_v tc v) as [t v'].
    cbn [snd eval_height_e expr_height] in *. exact IH.
Qed.

Theorem lowered_height_bounded : forall s es tc v,
  parse_ledger s = LOk es -> In v (ledger_vexprs (map e_entry es)) ->
  (eval_height_v (snd (low_v tc v)) <= max_expr_height)%nat.
Proof.
  intros s es tc v H Hin. rewrite (proj1 low_height).
  pose proof (parsed_exprs_bounded s es H) as B. rewrite Forall_forall in B. exact (proj1 (B v Hin)).
Qed.

Print Assumptions parsed_exprs_bounded.
Print Assumptions lowered_height_bounded.
