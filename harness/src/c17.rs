//! C17: rewrite rules and layered configuration resolve as documented.
//! Lists of YAML documents -> load_from_yaml -> ConfigSet::select; then CSV records through
//! import::import under the selected entry and Txn::to_double_entry.
use crate::coq::{self, Shards, Stats};
use crate::impgen::*;
use crate::prng::Rng;
use crate::Opts;
use serde::{Deserialize, Serialize};
use serde_json::json;

#[derive(Clone, Debug, Serialize, Deserialize)]
pub struct Case17 {
    pub docs: Vec<Doc>,
    pub path: String,
    /// layout used for the import run (replaces the selected entry's `format`)
    pub layout: Format,
    pub header: Vec<String>,
    pub rows: Vec<Row>,
}

const FILE_PATHS: [&str; 7] = [
    "data/bank/okane/2024-01.csv",
    "stmt/card/visa-okane.csv",
    "import/bank/checking/202109.csv",
    "x.csv",
    // a directory name continued by other characters: `path: bank/` must not select these
    "data/bankcard/2024.csv",
    "stmt/cards/visa/okane-card.csv",
    "import/bank.old/bank/2021.csv",
];

/// byte offsets at which a path component of `file` starts
fn component_starts(file: &str) -> Vec<usize> {
    let mut v = vec![0];
    v.extend(file.match_indices('/').map(|(i, _)| i + 1));
    v
}

fn gen_doc_path(r: &mut Rng, file: &str) -> String {
    if r.chance(1, 6) {
        // does not occur in the file path
        return (*r.pick(&["viseca/", "zz", "bank\\okane", "OKANE", "2025"])).to_string();
    }
    let b = file.as_bytes();
    if r.chance(1, 4) {
        // a directory written with its trailing separator: the beginning of a component (all of it,
        // or only some of its first characters) followed by '/'; it occurs in the file path exactly
        // when the '/' is there too, never because the text without the '/' occurs
        let starts = component_starts(file);
        let st = *r.pick(&starts);
        let comp_len = file[st..].find('/').unwrap_or(file.len() - st);
        let take = if r.chance(1, 2) { comp_len } else { 1 + r.below(comp_len.max(1) as u64) as usize };
        let take = take.min(comp_len);
        if file.is_char_boundary(st + take) && take > 0 {
            // sometimes with the preceding separator or the preceding component
            let from = if st > 0 && r.chance(1, 3) { if r.chance(1, 2) { st - 1 } else { *r.pick(&starts).min(&st) } } else { st };
            return format!("{}/", &file[from..st + take]);
        }
    }
    if r.chance(1, 12) {
        // shapes a path normaliser would rewrite ("./x", "x//y", "x/./y"); the documented rule is the
        // plain substring test on the path as written
        let starts = component_starts(file);
        let st = *r.pick(&starts);
        let end = file[st..].find('/').map(|n| st + n).unwrap_or(file.len());
        let next_end = if end < file.len() { file[end + 1..].find('/').map(|n| end + 1 + n).unwrap_or(file.len()) } else { end };
        return match r.below(3) {
            0 => format!("./{}", &file[st..end]),
            1 if end < file.len() => format!("{}//{}", &file[st..end], &file[end + 1..next_end]),
            _ if end < file.len() => format!("{}/./{}", &file[st..end], &file[end + 1..next_end]),
            _ => format!("{}/.", &file[st..end]),
        };
    }
    let len = (*r.pick(&[0usize, 1, 2, 4, 4, 5, 5, 9])).min(b.len());
    let start = r.below((b.len() - len + 1) as u64) as usize;
    file[start..start + len].to_string()
}

fn gen_small_format(r: &mut Rng) -> Format {
    let mut fields = Vec::new();
    for k in 0..13 {
        if r.chance(1, 4) {
            let pos = match r.below(3) {
                0 => Pos::Index(r.below(9) as usize),
                1 => Pos::Label((*r.pick(&["Date", "日付", "Amount", "Payee", "Fees & Comm"])).to_string()),
                _ => Pos::Template(vec![Seg::Named(K_CATEGORY), Seg::Lit(" - ".into()), if r.chance(1, 2) { Seg::Named(K_NOTE) } else { Seg::Indexed(r.below(5) as usize) }]),
            };
            fields.push((k, pos));
        }
    }
    let mut precisions = Vec::new();
    for c in ["CHF", "EUR"] {
        if r.chance(1, 4) {
            precisions.push((c.to_string(), r.below(4) as u8));
        }
    }
    Format {
        date: (*r.pick(&["%Y-%m-%d", "%Y/%m/%d", "%d.%m.%Y", ""])).to_string(),
        precisions,
        fields,
        delimiter: (*r.pick(&["", ",", ";", "\t"])).to_string(),
        skip: r.below(3) as i32,
        new_to_old: r.chance(1, 3),
    }
}

fn gen_doc(r: &mut Rng, file: &str, rich: bool) -> Doc {
    let p = if rich { 9 } else { 4 };
    Doc {
        path: gen_doc_path(r, file),
        encoding: if r.chance(p, 10) { Some(r.below(3) as usize) } else { None },
        account: if r.chance(p, 10) { Some(r.pick(&SRC_ACCOUNTS).to_string()) } else { None },
        liability: if r.chance(p, 10) { Some(r.chance(1, 2)) } else { None },
        operator: if r.chance(1, 3) { Some((*r.pick(&["Okane Bank (fee)", "Broker"])).to_string()) } else { None },
        commodity: if r.chance(p, 10) {
            Some(if r.chance(2, 3) { Commodity::Primary(r.pick(&COMMODITIES).to_string()) } else { Commodity::Spec(r.pick(&COMMODITIES).to_string(), gen_conv(r)) })
        } else {
            None
        },
        format: if r.chance(1, 2) { Some(gen_small_format(r)) } else { None },
        rewrite: {
            let n = *r.pick(&[0u64, 1, 1, 2, 2, 3, 4]);
            (0..n).map(|_| gen_rule(r, 4)).collect()
        },
    }
}

/// the layouts of the import run: date, payee, category, secondary commodity, amount(s)
fn gen_layout(r: &mut Rng) -> (Format, Vec<String>) {
    let header: Vec<String> = ["Date", "Payee", "Category", "Symbol", "In", "Out"].iter().map(|s| s.to_string()).collect();
    let by_label = r.chance(1, 3);
    let pos = |i: usize| if by_label { Pos::Label(header[i].clone()) } else { Pos::Index(i) };
    let mut fields = vec![(K_DATE, pos(0)), (K_PAYEE, pos(1)), (K_CATEGORY, pos(2)), (K_SECONDARY_COMMODITY, pos(3))];
    if r.chance(1, 2) {
        fields.push((K_AMOUNT, pos(4)));
    } else {
        fields.push((K_CREDIT, pos(4)));
        fields.push((K_DEBIT, pos(5)));
    }
    fields.sort_by_key(|x| x.0);
    (Format { date: "%Y-%m-%d".into(), precisions: vec![], fields, delimiter: "".into(), skip: 0, new_to_old: r.chance(1, 4) }, header)
}

fn gen_rows(r: &mut Rng, layout: &Format) -> Vec<Row> {
    let credit_debit = layout.fields.iter().any(|(k, _)| *k == K_CREDIT);
    let n = 1 + r.below(4);
    let mut rows = Vec::new();
    for i in 0..n {
        let date = format!("2024-{:02}-{:02}", 1 + r.below(12), 1 + r.below(28));
        let payee = gen_payee_text(r);
        let cat = if r.chance(1, 2) { r.pick(&CATEGORIES).to_string() } else { String::new() };
        let sym = if r.chance(1, 3) { r.pick(&COMMODITIES).to_string() } else { String::new() };
        let v = format!("{}.{:02}", r.below(5000), r.below(100));
        let (a, b) = if credit_debit {
            match r.below(8) {
                0 => ("0".to_string(), String::new()),
                1 => (String::new(), "0".to_string()),
                2 | 3 | 4 => (v, String::new()),
                _ => (String::new(), v),
            }
        } else {
            match r.below(10) {
                0 => (String::new(), String::new()),
                1 => ("0".to_string(), String::new()),
                2 => ("-0.00".to_string(), String::new()),
                3 | 4 | 5 => (v, String::new()),
                _ => (format!("-{}", v), String::new()),
            }
        };
        let _ = i;
        rows.push(Row { fields: vec![date.clone(), payee, cat, sym, a, b], date_text: date });
    }
    rows
}

pub fn gen_case(r: &mut Rng) -> Case17 {
    let file = (*r.pick(&FILE_PATHS)).to_string();
    let n = 1 + r.below(4);
    let docs: Vec<Doc> = (0..n).map(|i| { let rich = i == 0 || r.chance(1, 3); gen_doc(r, &file, rich) }).collect();
    let (layout, header) = gen_layout(r);
    let rows = gen_rows(r, &layout);
    let mut docs = docs;
    if r.chance(1, 5) {
        // a named group that matches the empty string on one of the records, then a rule that
        // tells the rewritten (empty) payee from the original one
        let payee = rows[r.below(rows.len() as u64) as usize].fields[1].clone();
        let pair = gen_empty_group_rules(r, &payee);
        let matching: Vec<usize> = (0..docs.len()).filter(|i| file.contains(&docs[*i].path)).collect();
        let di = if matching.is_empty() || r.chance(1, 6) { r.below(docs.len() as u64) as usize } else { *r.pick(&matching) };
        let at = r.below(docs[di].rewrite.len() as u64 + 1) as usize;
        let mut pair = pair;
        let b = pair.pop().unwrap();
        let a = pair.pop().unwrap();
        docs[di].rewrite.insert(at, a);
        // the follow-up comes later in the same document, not always adjacent
        let at2 = at + 1 + r.below((docs[di].rewrite.len() - at) as u64) as usize;
        let at2 = at2.min(docs[di].rewrite.len());
        docs[di].rewrite.insert(at2, b);
    }
    Case17 { docs, path: file, layout, header, rows }
}

/// how many rules hit a record, following the fold (statistics only)
fn count_hits(rules: &[config_rule::R], payee0: &str, cat: &str, sym: &str, empty_caps: &mut usize) -> usize {
    let mut payee = payee0.to_string();
    let mut hits = 0;
    for rule in rules {
        let mut hit: Option<Option<String>> = None;
        'or: for a in &rule.matcher {
            if a.is_empty() {
                continue;
            }
            let mut cap: Option<String> = None;
            for (f, re) in a {
                let target = match *f {
                    RF_PAYEE => &payee,
                    RF_CATEGORY => cat,
                    RF_SECONDARY_COMMODITY => sym,
                    _ => continue 'or,
                };
                match re.as_ref().and_then(|re| re.captures(target)) {
                    Some(c) => {
                        if *f == RF_PAYEE {
                            if let Some(m) = c.name("payee") {
                                cap = Some(m.as_str().to_string());
                            }
                            if c.name("payee").map(|m| m.as_str().is_empty()).unwrap_or(false) || c.name("code").map(|m| m.as_str().is_empty()).unwrap_or(false) {
                                *empty_caps += 1;
                            }
                        }
                    }
                    None => continue 'or,
                }
            }
            hit = Some(cap);
            break;
        }
        if let Some(cap) = hit {
            hits += 1;
            if let Some(p) = rule.payee.clone().or(cap) {
                payee = p;
            }
        }
    }
    hits
}

mod config_rule {
    pub struct R {
        pub matcher: Vec<Vec<(usize, Option<regex::Regex>)>>,
        pub payee: Option<String>,
    }
}

pub fn emit(sh: &mut Shards, st: &mut Stats, c: &Case17, tag: &str) {
    let yaml = docs_yaml(&c.docs);
    let pats = collect_pats(&c.docs);
    let sel = run_select(&yaml, &c.path);
    let csv = csv_text(&[], &c.header, &c.rows, ',', false);
    let mut max_hits = 0;
    let mut empty_caps = 0usize;
    let imp = match &sel {
        SelObs::Ok(e) => {
            let mut e2 = e.clone();
            e2.format = c.layout.to_spec();
            let rules: Vec<config_rule::R> = e2
                .rewrite
                .iter()
                .map(|r| {
                    let ands: Vec<&okane::import::config::FieldMatcher> = match &r.matcher {
                        okane::import::config::RewriteMatcher::Or(v) => v.iter().collect(),
                        okane::import::config::RewriteMatcher::Field(f) => vec![f],
                    };
                    config_rule::R {
                        matcher: ands
                            .iter()
                            .map(|fm| {
                                fm.fields
                                    .iter()
                                    .map(|(f, s)| (RFIELDS.iter().position(|x| *x == f.to_string()).unwrap_or(99), regex::RegexBuilder::new(s).case_insensitive(true).build().ok()))
                                    .collect()
                            })
                            .collect(),
                        payee: r.payee.clone(),
                    }
                })
                .collect();
            for row in &c.rows {
                max_hits = max_hits.max(count_hits(&rules, &row.fields[1], &row.fields[2], &row.fields[3], &mut empty_caps));
            }
            run_import(&csv, &e2)
        }
        _ => ImpObs::NotRun,
    };
    let matching_docs = c.docs.iter().filter(|d| c.path.contains(&d.path)).count();
    let nontrivial = matching_docs >= 2 || (max_hits >= 2 && matches!(imp, ImpObs::Ok(..)));
    st.eval(&(yaml.clone(), c.path.clone(), csv.clone(), c.layout.term()), nontrivial);
    st.count(&format!("gen:{}", tag));
    st.count(&format!("docs_matching:{}", matching_docs.min(4)));
    for d in &c.docs {
        if let Some(stem) = d.path.strip_suffix('/') {
            if !stem.is_empty() {
                st.count(match (c.path.contains(&d.path), c.path.contains(stem)) {
                    (true, _) => "doc_path_with_trailing_slash:occurs",
                    (false, true) => "doc_path_with_trailing_slash:only_without_the_slash_occurs",
                    (false, false) => "doc_path_with_trailing_slash:absent",
                });
            }
        }
    }
    st.count(&format!("max_rules_hitting_a_record:{}", max_hits.min(4)));
    if empty_caps > 0 && matches!(imp, ImpObs::Ok(..)) {
        st.count("cases_with_a_named_group_matching_empty");
    }
    st.count(match &sel {
        SelObs::None => "select:none",
        SelObs::Err(..) => "select:invalid_config",
        SelObs::Ok(_) => "select:ok",
        SelObs::Panic(_) => "select:panic",
        SelObs::Load(_) => "select:yaml_load_failed",
    });
    st.count(&match &imp {
        ImpObs::NotRun => "import:not_run".to_string(),
        ImpObs::Err(k, _) => format!("import:err{}", k),
        ImpObs::Panic(_) => "import:panic".to_string(),
        ImpObs::Ok(..) => "import:ok".to_string(),
    });
    st.add("shape:documents", c.docs.len() as u64);
    st.add("shape:rules", c.docs.iter().map(|d| d.rewrite.len() as u64).sum());
    st.add("shape:records", c.rows.len() as u64);
    let rep = json!({
        "property": "C17",
        "config_yaml": yaml,
        "path": c.path,
        "csv": csv,
        "import_layout": serde_json::to_value(&c.layout).unwrap(),
        "select": match &sel {
            SelObs::None => json!("no document matches"),
            SelObs::Err(_, t) | SelObs::Panic(t) | SelObs::Load(t) => json!({"error": t}),
            SelObs::Ok(e) => json!(format!("{:?}", e)),
        },
        "import": imp_json(&imp),
        "case": serde_json::to_value(c).unwrap(),
        "reproduce": "write config_yaml and csv to files (csv under `path`) and run: okane import --config <yaml> <path>; the harness replaces format: by import_layout",
    });
    if st.samples.len() < 2 || (st.samples.len() < 5 && nontrivial && matches!(imp, ImpObs::Ok(..))) {
        st.sample(rep.clone(), 5);
    }
    let date_fmt = c.layout.date.clone();
    let term = format!(
        "K {} {} {} {} {} {} {}",
        coq::list(c.docs.iter().map(|d| d.term())),
        s_term(&c.path),
        sel_term(&sel, &pats),
        c.layout.term(),
        coq::list(c.header.iter().map(|h| s_term(h))),
        coq::list(c.rows.iter().map(|r| row_term(r, &date_fmt))),
        imp_term(&imp)
    );
    sh.push(term, vec![rep]);
}

pub const HEADER: &str = "From Coq Require Import List NArith ZArith QArith Qcanon.\nFrom Okv Require Import Base.Dec Model.ImpConfig Model.ImpExtract Model.ImpSingleEntry Model.ImpCsv Run.ImpPattern Run.ImpCase";

fn corpus_cases(o: &Opts) -> (Vec<Case17>, bool) {
    let mut files: Vec<std::path::PathBuf> = Vec::new();
    let mut replay = false;
    if let Some(i) = o.extra.iter().position(|a| a == "--replay") {
        replay = true;
        if let Some(p) = o.extra.get(i + 1) {
            files.push(p.into());
        }
    } else if let Ok(rd) = std::fs::read_dir(&o.corpus) {
        files = rd.filter_map(|e| e.ok()).map(|e| e.path()).collect();
        files.sort();
    }
    let mut out = Vec::new();
    for p in files {
        if let Ok(t) = std::fs::read_to_string(&p) {
            if let Ok(v) = serde_json::from_str::<serde_json::Value>(&t) {
                if let Some(c) = v.get("case") {
                    if let Ok(c) = serde_json::from_value::<Case17>(c.clone()) {
                        out.push(c);
                    }
                }
            }
        }
    }
    (out, replay)
}

pub fn run(o: &Opts) {
    let mut st = Stats::new();
    let mut sh = Shards::new(&o.out, if o.thorough { o.shards * 6 } else { o.shards }, &format!("{} Run.Classify_C17.\nImport ListNotations.\nOpen Scope N_scope.", HEADER));
    st.rule = "1-4 YAML documents (random subsets of encoding/account/account_type/operator/commodity/format, 0-4 rewrite rules each with single/OR-list matchers over payee/category/secondary_commodity, capture groups including ones that match the empty string on a record (`Lit(?P<payee>.*)`, `(?P<code>\\d*)`) followed by rules that tell the emptied payee from the original, payee/account/pending/conversion settings; paths drawn as substrings of the file path with frequent equal lengths, as directory prefixes with a trailing '/' where the file path continues the name with other characters (bank/ against bankcard/, bank.old/) or not, and as ./x, x//y, x/./y shapes) through load_from_yaml and ConfigSet::select; then 1-4 CSV records through import::import(Csv) under the selected entry (its `format` replaced by the harness's column layout) and Txn::to_double_entry; non-trivial = at least two documents match the path, or at least two rules hit one record; distinct by YAML + path + CSV".into();
    st.assumptions.push("matcher patterns come from a small language (literal / [0-9]+ / \\d* / .* atoms, optional ^ $, named groups payee and code) for which leftmost-first backtracking in the model is what the regex crate computes; text is UTF-8 without line breaks".into());
    st.assumptions.push("file paths are valid Unicode and use '/' (on this platform PathBufExt::from_slash is the identity)".into());
    let (corpus, replay) = corpus_cases(o);
    for c in &corpus {
        emit(&mut sh, &mut st, c, "corpus");
    }
    if !replay {
        let mut r = Rng::new(o.seed, 1701);
        let n = if o.thorough { 12000 } else { 2000 };
        for _ in 0..n {
            let c = gen_case(&mut r);
            emit(&mut sh, &mut st, &c, "random");
        }
    }
    sh.finish(&st);
}
