(* Ledger::eval (Model/Query.v) returns the exact denotation of the expression as an amount,
   whatever ledger it is asked on - in particular whatever display precisions that ledger
   declares (property C08). *)
From Coq Require Import List NArith ZArith Bool QArith Qcanon.
From Okv Require Import Base.Maps Base.Dec Model.Amount Model.Book Model.Query Model.EvalSpec Proofs.EvalProofs.
Import ListNotations.
Open Scope Qc_scope.

Lemma ledger_eval_exact : forall (s : bstate) (t : vexpr),
  match ledger_eval s t, (match den_v t with inl d => d_to_amount d | inr e => inr e end) with
  | inl a, inl (ks, f) =>
      NoDup (keys a) /\ (forall c, In c (keys a) <-> In c ks) /\ (forall c, a_get a c = f c)
  | inr e, inr e' => e = e'
  | _, _ => False
  end.
Proof.
  intros s t. unfold ledger_eval. pose proof (eval_v_denotes t) as A. unfold agrees in A.
  destruct (eval_v t) as [v|e], (den_v t) as [d|e']; try contradiction.
  - pose proof (to_amount_agrees v d A) as B.
    destruct (ev_to_amount v) as [a|e], (d_to_amount d) as [[ks f]|e']; try contradiction; exact B.
  - exact A.
Qed.

Lemma ledger_eval_any_ledger : forall (s s' : bstate) (t : vexpr), ledger_eval s t = ledger_eval s' t.
Proof. reflexivity. Qed.

(* 10 USD / 16 on a ledger that declares two decimals for USD (id 4): 0.625 USD, not 0.62 *)
Example ledger_eval_not_rounded : exists v,
  ledger_eval {| s_bal := []; s_fmt := [(4%N, 2%nat)]; s_events := []; s_txns := [] |}
              (VParen (EBin ODiv (EVal (VAmt (of_dec 10 0) (Some 4%N))) (EVal (VAmt (of_dec 16 0) None))))
  = inl [(4%N, v)] /\ v = of_dec 625 3.
Proof. eexists. split; [vm_compute; reflexivity | apply Qc_is_canon; reflexivity]. Qed.
