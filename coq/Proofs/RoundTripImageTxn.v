(* C05 round trip, the image of the parser: posting_account, posting and transaction only
   return well-formed trees (wf_account, wf_posting, wf_txn of Model/RoundTripSpec.v).
   The three facts about value expressions, posting amounts and dates are premises here
   (Proofs/RoundTripImageExpr.v proves them). *)
From Coq Require Import List NArith ZArith Bool Lia Arith.
From Okv Require Import Model.Lit Model.LitSpec Model.Syntax Model.Comb Model.ParseExpr Model.ParseMeta
  Model.ParsePosting Model.ParseTxn Model.Display Model.DocGrammar Model.RoundTripSpec
  Proofs.CombSpec Proofs.DocAccept Proofs.RoundTripBase Proofs.RoundTripMeta Proofs.RoundTripPosting.
Import ListNotations.
Open Scope N_scope.

(* ---- generic inversions of successful runs ---- *)
Lemma im_bind_inv : forall A B (p : parser A) (k : A -> parser B) i v r,
  bind p k i = POk v r -> exists a m, p i = POk a m /\ k a m = POk v r.
Proof.
  intros A B p k i v r H. unfold bind in H. destruct (p i) as [a m | | |]; try discriminate. eauto.
Qed.

Lemma im_pmap_inv : forall A B (f : A -> B) (p : parser A) i v r,
  pmap f p i = POk v r -> exists x, v = f x /\ p i = POk x r.
Proof.
  intros A B f p i v r H. unfold pmap, bind, ret in H. destruct (p i) as [a m | | |]; try discriminate.
  inversion H; subst. eauto.
Qed.

Lemma im_context_inv : forall A l (p : parser A) i v r, context l p i = POk v r -> p i = POk v r.
Proof.
  intros A l p i v r H. unfold context in H. destruct (p i) as [a m | c l0 m | w |]; try discriminate; auto.
  destruct l0; discriminate.
Qed.

Lemma im_cut_err_inv : forall A (p : parser A) i v r, cut_err p i = POk v r -> p i = POk v r.
Proof.
  intros A p i v r H. unfold cut_err in H. destruct (p i) as [a m | c l0 m | w |]; try discriminate; auto.
Qed.

Lemma im_opt_inv : forall A (p : parser A) i o r, opt p i = POk o r ->
  (o = None /\ r = i) \/ (exists x, o = Some x /\ p i = POk x r).
Proof.
  intros A p i o r H. unfold opt in H. destruct (p i) as [a m | [|] l0 m | w |]; try discriminate.
  - inversion H; subst. right. eauto.
  - inversion H; subst. left. auto.
Qed.

Lemma im_with_span_inv : forall A (p : parser A) i v r, with_span p i = POk v r -> p i = POk (fst v) r.
Proof.
  intros A p i v r H. unfold with_span in H. destruct (p i) as [a m | | |]; try discriminate.
  inversion H; subst. reflexivity.
Qed.

Lemma im_peek_inv : forall A (p : parser A) i v r, peek p i = POk v r -> r = i /\ exists r', p i = POk v r'.
Proof.
  intros A p i v r H. unfold peek in H. destruct (p i) as [a m | | |]; try discriminate.
  inversion H; subst. eauto.
Qed.

Lemma im_has_peek_inv : forall A (p : parser A) i b r, has_peek p i = POk b r ->
  r = i /\ (b = true -> exists x r', p i = POk x r').
Proof.
  intros A p i b r H. unfold has_peek in H. destruct (im_pmap_inv _ _ _ _ _ _ _ H) as (o & -> & P).
  destruct (im_peek_inv _ _ _ _ _ P) as (-> & r' & O). split; [reflexivity |].
  destruct (im_opt_inv _ _ _ _ _ O) as [[-> _] | (x & -> & Px)]; [discriminate | eauto].
Qed.

Lemma im_space0_rest : forall i s r, space0 i = POk s r -> starts_not is_sp r.
Proof.
  intros i s r H. destruct (space0_skip i) as [s' E]. rewrite E in H. inversion H; subst.
  apply skip_sp_starts_not.
Qed.

Lemma im_take_while1_inv : forall f i a b, take_while1 f i = POk a b ->
  a <> [] /\ all f a /\ i = a ++ b /\ starts_not f b.
Proof.
  intros f i a b H. unfold take_while1 in H.
  destruct (span_while_split f i) as (w & r & E & E2 & Hw & Hr). rewrite E in H.
  destruct w as [| c w]; [discriminate |]. inversion H; subst. repeat split; auto. discriminate.
Qed.

Lemma im_take_while0_inv : forall f i a b, take_while0 f i = POk a b ->
  all f a /\ i = a ++ b /\ starts_not f b.
Proof.
  intros f i a b H. unfold take_while0 in H.
  destruct (span_while_split f i) as (w & r & E & E2 & Hw & Hr). rewrite E in H.
  inversion H; subst. repeat split; auto.
Qed.

Lemma im_space1_rest : forall i s r, space1 i = POk s r -> starts_not is_sp r.
Proof. intros i s r H. apply im_take_while1_inv in H. tauto. Qed.

Lemma im_forallb_map : forall A B (f : A -> B) (q : B -> bool) l,
  forallb q (map f l) = forallb (fun x => q (f x)) l.
Proof. induction l as [| a l IH]; [reflexivity |]. cbn [map forallb]. rewrite IH. reflexivity. Qed.

(* the head of a prefix is the head of the whole *)
Lemma im_starts_prefix : forall f (p w i : str), i = p ++ w -> starts_not f i -> starts f p = false.
Proof. intros f [| c p] w i -> H; [reflexivity | exact H]. Qed.

(* ================================================================================== *)
(* the account                                                                        *)
(* ================================================================================== *)

Lemma acct_tail_nonstop_app : forall w s, all nonstop w -> acct_tail (w ++ s) = acct_tail s.
Proof.
  induction w as [| c w IH]; intros s H; [reflexivity |].
  apply all_cons in H. destruct H as [Hc Hw].
  destruct (nonstop_facts c Hc) as (_ & _ & _ & H32).
  cbn [app acct_tail]. rewrite H32. unfold nonstop in Hc. rewrite Hc. cbn [andb]. apply IH. exact Hw.
Qed.

Lemma acc_word_inv : forall i w r, acc_word i = POk w r ->
  w <> [] /\ all nonstop w /\ starts_not nonstop r /\ (i = w ++ r \/ i = 32 :: w ++ r).
Proof.
  intros i w r H. unfold acc_word in H. destruct (im_bind_inv _ _ _ _ _ _ _ H) as (o & m & O & T).
  unfold take_till1 in T. destruct (im_take_while1_inv _ _ _ _ T) as (Hne & Hw & Em & Hr).
  repeat split; auto.
  destruct (im_opt_inv _ _ _ _ _ O) as [[_ ->] | (x & _ & L)]; [left; exact Em |].
  right. unfold literal in L. destruct (strip_prefix [32] i) as [r0 |] eqn:S; [| discriminate].
  inversion L; subst. apply strip_prefix_app in S. exact S.
Qed.

Lemma acc_end_inv : forall i u r, acc_end i = POk u r -> r = i.
Proof. intros i u r H. unfold acc_end in H. apply im_peek_inv in H. tauto. Qed.

Lemma acc_loop_inv : forall fuel i u r, starts_not nonstop i ->
  repeat_till_loop fuel acc_word acc_end i = POk u r ->
  exists s, i = s ++ r /\ acct_tail s = true.
Proof.
  assert (Step : forall i w r1 (P : Prop), starts_not nonstop i -> acc_word i = POk w r1 ->
            (starts_not nonstop r1 ->
             forall s r, r1 = s ++ r -> acct_tail s = true ->
                         exists s0, i = s0 ++ r /\ acct_tail s0 = true)).
  { intros i w r1 _ Hi W Hr1 s r E T.
    destruct (acc_word_inv _ _ _ W) as (Hne & Hw & _ & [Ei | Ei]).
    - exfalso. destruct w as [| c w']; [congruence |]. subst i. cbn [app starts_not] in Hi.
      apply all_cons in Hw. destruct Hw as [Hc _]. congruence.
    - exists (32 :: w ++ s). split; [subst; cbn [app]; rewrite <- app_assoc; reflexivity |].
      destruct w as [| d w']; [congruence |].
      pose proof Hw as Hw0. apply all_cons in Hw. destruct Hw as [Hd _].
      change (acct_tail (32 :: (d :: w') ++ s)) with
        (negb (is_account_stop d) && acct_tail ((d :: w') ++ s)).
      rewrite (acct_tail_nonstop_app _ s Hw0), T.
      unfold nonstop in Hd. rewrite Hd. reflexivity. }
  induction fuel as [| n IH]; intros i u r Hi H; cbn [repeat_till_loop] in H.
  - destruct (acc_end i) as [b r0 | [|] l r0 | w |] eqn:E; try discriminate.
    + inversion H; subst. apply acc_end_inv in E. subst. exists []. auto.
    + destruct (acc_word i) as [w r1 | | |]; try discriminate. destruct (consumed i r1); discriminate.
  - destruct (acc_end i) as [b r0 | [|] l r0 | w |] eqn:E; try discriminate.
    + inversion H; subst. apply acc_end_inv in E. subst. exists []. auto.
    + destruct (acc_word i) as [w r1 | | |] eqn:W; try discriminate.
      destruct (consumed i r1); [| discriminate].
      destruct (acc_word_inv _ _ _ W) as (_ & _ & Hr1 & _).
      destruct (IH r1 u r Hr1 H) as (s & Es & Ts).
      exact (Step i w r1 True Hi W Hr1 s r Es Ts).
Qed.

Lemma acc_run_inv : forall fuel i u r, repeat_till1 fuel acc_word acc_end i = POk u r ->
  exists b w s, i = (b ++ w ++ s) ++ r /\ (b = [] \/ b = [32]) /\ w <> [] /\ all nonstop w /\ acct_tail s = true.
Proof.
  intros fuel i u r H. unfold repeat_till1 in H. destruct (im_bind_inv _ _ _ _ _ _ _ H) as (w & r1 & W & L).
  destruct (acc_word_inv _ _ _ W) as (Hne & Hw & Hr1 & Ei).
  destruct (acc_loop_inv _ _ _ _ Hr1 L) as (s & Es & Ts).
  destruct Ei as [Ei | Ei].
  - exists [], w, s. subst. cbn [app]. rewrite <- app_assoc. auto.
  - exists [32], w, s. subst. cbn [app]. rewrite <- app_assoc. auto 6.
Qed.

(* the account the parser returns; when the input does not start with a blank the account
   starts with the first character of the input *)
Theorem posting_account_wf : forall fuel i a sp r, posting_account fuel i = POk (a, sp) r ->
  wf_account a = true /\ (starts_not is_sp i -> exists c x, i = c :: x /\ hd 0 a = c).
Proof.
  intros fuel i a sp r H. rewrite posting_account_eq in H. unfold terminated in H.
  destruct (im_bind_inv _ _ _ _ _ _ _ H) as ([a0 sp0] & m & S & K).
  destruct (im_bind_inv _ _ _ _ _ _ _ K) as (s0 & m0 & _ & K0). unfold ret in K0. inversion K0; subst a0 sp0 m0.
  clear K K0 H. apply im_with_span_inv in S. cbn [fst] in S.
  unfold try_map in S.
  destruct (pmap trim_start_spaces (taken (repeat_till1 fuel acc_word acc_end)) i) as [x m1 | | |] eqn:P;
    try discriminate.
  destruct (trim x) as [| t0 t] eqn:Tx; [discriminate |]. inversion S; subst x m1. clear S.
  destruct (im_pmap_inv _ _ _ _ _ _ _ P) as (y & Ea & Tk). clear P.
  unfold taken in Tk.
  destruct (repeat_till1 fuel acc_word acc_end i) as [u r0 | | |] eqn:R; try discriminate.
  inversion Tk; subst y r0. clear Tk.
  destruct (acc_run_inv _ _ _ _ R) as (b & w & s & Ei & Hb & Hne & Hw & Ts).
  rewrite Ei, firstn_app_exact in Ea.
  destruct w as [| c w']; [congruence |].
  pose proof Hw as Hw0. apply all_cons in Hw. destruct Hw as [Hc Hw'].
  destruct (nonstop_facts c Hc) as (Hsp & _ & _ & H32).
  assert (Ea' : a = c :: w' ++ s).
  { rewrite Ea. destruct Hb as [-> | ->]; cbn [app trim_start_spaces]; apply trim_start_spaces_id; exact H32. }
  split.
  - rewrite Ea'. unfold wf_account. rewrite <- Ea', Tx. rewrite (acct_tail_nonstop_app _ _ Hw'), Ts.
    unfold nonstop in Hc. rewrite Hc. reflexivity.
  - intros Hi. destruct Hb as [-> | ->].
    + exists c, ((w' ++ s) ++ m). split; [rewrite Ei; reflexivity | rewrite Ea'; reflexivity].
    + exfalso. rewrite Ei in Hi. cbn in Hi. discriminate.
Qed.
