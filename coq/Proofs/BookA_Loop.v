(* The posting loop of add_transaction (fold_left loop_step over enumerate): step inversion,
   splitting at an index, and the loop invariants (stored postings, unfilled index, residual
   as a sum of balancing values, frame, well-formedness, no Panic). *)
From Coq Require Import List NArith ZArith Bool QArith Qcanon Lia.
From Okv Require Import Base.Maps.
From Okv Require Import Base.Dec.
From Okv Require Import Model.Amount.
From Okv Require Import Model.Book.
From Okv Require Import Model.BookSpec.
From Okv Require Import Proofs.BookA_Maps.
From Okv Require Import Proofs.BookA_Amount.
From Okv Require Import Proofs.BookA_Posting.
Import ListNotations.
Open Scope Qc_scope.

Definition st_init (b : balance) : loop_st :=
  {| l_bal := b; l_posts := []; l_unfilled := None; l_residual := a_zero; l_events := [] |}.

Definition run (d : Z) (i : nat) (ps : list posting) (acc : outcome loop_st) : outcome loop_st :=
  fold_left (loop_step d) (enumerate i ps) acc.

Lemma txn_loop_run s t : txn_loop s t = run (t_date t) 0 (t_posts t) (Ok (st_init (s_bal s))).
Proof. reflexivity. Qed.

Lemma run_nil d i acc : run d i [] acc = acc.
Proof. reflexivity. Qed.

Lemma run_cons d i p ps acc : run d i (p :: ps) acc = run d (S i) ps (loop_step d acc (i, p)).
Proof. reflexivity. Qed.

Lemma run_err d ps : forall i e, run d i ps (Err e) = Err e.
Proof. induction ps as [|p r IH]; intros i e; [reflexivity|]. rewrite run_cons. apply IH. Qed.

Lemma run_panic d ps : forall i, run d i ps Panic = Panic.
Proof. induction ps as [|p r IH]; intros i; [reflexivity|]. rewrite run_cons. apply IH. Qed.

Lemma enumerate_app {A} (l1 l2 : list A) : forall i,
  enumerate i (l1 ++ l2) = enumerate i l1 ++ enumerate (i + length l1)%nat l2.
Proof.
  induction l1 as [|x r IH]; intros i; cbn [app enumerate length].
  - rewrite Nat.add_0_r. reflexivity.
  - rewrite IH. do 3 f_equal. lia.
Qed.

Lemma run_app d l1 l2 i acc : run d i (l1 ++ l2) acc = run d (i + length l1)%nat l2 (run d i l1 acc).
Proof. unfold run. rewrite enumerate_app, fold_left_app. reflexivity. Qed.

Lemma run_cons_inv d i p ps st0 st :
  run d i (p :: ps) (Ok st0) = Ok st ->
  exists st1, loop_step d (Ok st0) (i, p) = Ok st1 /\ run d (S i) ps (Ok st1) = Ok st.
Proof.
  rewrite run_cons. destruct (loop_step d (Ok st0) (i, p)) as [st1|e|] eqn:E.
  - eauto.
  - rewrite run_err. discriminate.
  - rewrite run_panic. discriminate.
Qed.

Lemma run_app_inv d l1 l2 i st0 st :
  run d i (l1 ++ l2) (Ok st0) = Ok st ->
  exists st1, run d i l1 (Ok st0) = Ok st1 /\ run d (i + length l1)%nat l2 (Ok st1) = Ok st.
Proof.
  rewrite run_app. destruct (run d i l1 (Ok st0)) as [st1|e|] eqn:E.
  - eauto.
  - rewrite run_err. discriminate.
  - rewrite run_panic. discriminate.
Qed.

(* ---- one step ---- *)

Lemma loop_step_ok_inv d st i p st' :
  loop_step d (Ok st) (i, p) = Ok st' ->
  exists b' ep ev,
    process_posting (l_bal st) d i p = Ok (b', ep, ev) /\
    l_bal st' = b' /\
    l_posts st' = stored_posting p ep :: l_posts st /\
    l_residual st' = add_bv (l_residual st) (option_map ep_delta ep) /\
    l_unfilled st' = (match ep with Some _ => l_unfilled st | None => Some i end) /\
    (ep = None -> l_unfilled st = None).
Proof.
  unfold loop_step. cbn [bind].
  destruct (process_posting (l_bal st) d i p) as [[[b' ep] ev]|e|] eqn:E; cbn [bind]; try discriminate.
  intros H. exists b', ep, ev. split; [reflexivity|].
  destruct ep as [e|].
  - injection H as <-. cbn. repeat split. discriminate.
  - destruct (l_unfilled st) eqn:Eu; [discriminate|]. injection H as <-. cbn. repeat split.
Qed.

Lemma loop_step_second_unconstrained d st i p u :
  unconstrained p -> l_unfilled st = Some u ->
  loop_step d (Ok st) (i, p) = Err (UndeduciblePostingAmount u i).
Proof.
  intros Hp Hu. unfold loop_step. cbn [bind].
  rewrite (process_posting_unconstrained _ _ _ _ Hp). cbn [bind]. rewrite Hu. reflexivity.
Qed.

Lemma loop_step_no_panic d acc ip : acc <> Panic -> loop_step d acc ip <> Panic.
Proof.
  intros Hacc. unfold loop_step. apply bind_np; [exact Hacc|]. intros st _.
  destruct ip as [i p]. apply bind_np; [apply process_posting_no_panic|].
  intros [[b' ep] ev] _. destruct ep; [discriminate|]. destruct (l_unfilled st); discriminate.
Qed.

Lemma run_no_panic d ps : forall i acc, acc <> Panic -> run d i ps acc <> Panic.
Proof.
  induction ps as [|p r IH]; intros i acc H; [exact H|].
  rewrite run_cons. apply IH. apply loop_step_no_panic. exact H.
Qed.

(* ---- splitting a successful run at posting k ---- *)

Lemma nth_error_split_firstn {A} (l : list A) k x :
  nth_error l k = Some x -> l = firstn k l ++ x :: skipn (S k) l /\ length (firstn k l) = k.
Proof.
  revert k. induction l as [|y r IH]; intros [|k] H; cbn in H; try discriminate.
  - injection H as ->. cbn. split; reflexivity.
  - destruct (IH k H) as [E L]. cbn [firstn skipn app length]. split; [f_equal; exact E|f_equal; exact L].
Qed.

Lemma firstn_S_nth {A} (l : list A) k x :
  nth_error l k = Some x -> firstn (S k) l = firstn k l ++ [x].
Proof.
  revert k. induction l as [|y r IH]; intros [|k] H; cbn in H; try discriminate.
  - injection H as ->. reflexivity.
  - cbn [firstn app]. f_equal. apply IH. exact H.
Qed.

Lemma run_split d i ps st0 st k p :
  run d i ps (Ok st0) = Ok st -> nth_error ps k = Some p ->
  exists stk stk',
    run d i (firstn k ps) (Ok st0) = Ok stk /\
    loop_step d (Ok stk) ((i + k)%nat, p) = Ok stk' /\
    run d i (firstn (S k) ps) (Ok st0) = Ok stk' /\
    run d (S (i + k)%nat) (skipn (S k) ps) (Ok stk') = Ok st.
Proof.
  intros H Hk. destruct (nth_error_split_firstn _ _ _ Hk) as [E L].
  rewrite E in H. apply run_app_inv in H. destruct H as [stk [H1 H2]]. rewrite L in H2.
  apply run_cons_inv in H2. destruct H2 as [stk' [H2 H3]].
  exists stk, stk'. repeat split; try assumption.
  rewrite (firstn_S_nth _ _ _ Hk), run_app, H1, L. cbn. exact H2.
Qed.

(* a successful run has successful prefixes *)
Lemma run_prefix_ok d i ps st0 st k :
  run d i ps (Ok st0) = Ok st -> exists stk, run d i (firstn k ps) (Ok st0) = Ok stk.
Proof.
  intros H. rewrite <- (firstn_skipn k ps) in H. apply run_app_inv in H.
  destruct H as [stk [H _]]. eauto.
Qed.

(* ---- invariant: the stored postings ---- *)

Lemma run_posts d ps : forall i st0 st,
  run d i ps (Ok st0) = Ok st ->
  exists outs, l_posts st = rev outs ++ l_posts st0 /\ length outs = length ps /\
               map o_account outs = map p_account ps.
Proof.
  induction ps as [|p r IH]; intros i st0 st H.
  - injection H as <-. exists []. repeat split.
  - apply run_cons_inv in H. destruct H as [st1 [Hs Hr]].
    apply loop_step_ok_inv in Hs. destruct Hs as [b' [ep [ev [_ [_ [Hp _]]]]]].
    destruct (IH _ _ _ Hr) as [outs [E [L M]]].
    exists (stored_posting p ep :: outs). cbn [rev length map]. repeat split.
    + rewrite E, Hp, <- app_assoc. reflexivity.
    + f_equal. exact L.
    + f_equal; [destruct ep; reflexivity|exact M].
Qed.

(* the k-th stored posting is the one produced when posting k was processed *)
Lemma run_nth_stored d i ps st0 st k p :
  run d i ps (Ok st0) = Ok st -> l_posts st0 = [] -> nth_error ps k = Some p ->
  exists stk b' ep ev,
    run d i (firstn k ps) (Ok st0) = Ok stk /\
    process_posting (l_bal stk) d (i + k)%nat p = Ok (b', ep, ev) /\
    nth_error (rev (l_posts st)) k = Some (stored_posting p ep).
Proof.
  intros H H0 Hk. destruct (run_split _ _ _ _ _ _ _ H Hk) as [stk [stk' [H1 [H2 [_ H3]]]]].
  apply loop_step_ok_inv in H2. destruct H2 as [b' [ep [ev [Hpp [_ [Hp _]]]]]].
  exists stk, b', ep, ev. repeat split; try assumption.
  destruct (run_posts _ _ _ _ _ H1) as [o1 [E1 [L1 _]]].
  destruct (run_posts _ _ _ _ _ H3) as [o3 [E3 _]].
  rewrite E3, Hp, E1, H0, app_nil_r. rewrite rev_app_distr. cbn [rev].
  rewrite !rev_involutive. rewrite <- app_assoc. cbn [app].
  assert (length o1 = k) as Lk.
  { rewrite L1. apply nth_error_split_firstn in Hk. tauto. }
  rewrite nth_error_app2 by lia. rewrite Lk, Nat.sub_diag. reflexivity.
Qed.

(* ---- invariant: the unfilled index ---- *)

Lemma run_unfilled d ps : forall i st0 st,
  run d i ps (Ok st0) = Ok st ->
  l_unfilled st = match l_unfilled st0 with
                  | Some u => Some u
                  | None => first_unconstrained i ps
                  end.
Proof.
  induction ps as [|p r IH]; intros i st0 st H.
  - injection H as <-. cbn. destruct (l_unfilled st0); reflexivity.
  - apply run_cons_inv in H. destruct H as [st1 [Hs Hr]].
    apply loop_step_ok_inv in Hs. destruct Hs as [b' [ep [ev [Hpp [_ [_ [_ [Hu Hn]]]]]]]].
    rewrite (IH _ _ _ Hr), Hu. cbn [first_unconstrained]. destruct ep as [e|].
    + destruct (l_unfilled st0); [reflexivity|].
      destruct (unconstrainedb p) eqn:Eb; [|reflexivity].
      apply unconstrainedb_iff in Eb.
      rewrite (process_posting_unconstrained _ _ _ _ Eb) in Hpp. discriminate.
    + rewrite (Hn eq_refl). apply process_posting_none in Hpp. destruct Hpp as [Hpu _].
      apply unconstrainedb_iff in Hpu. rewrite Hpu. reflexivity.
Qed.

Lemma first_unconstrained_some ps : forall i u,
  first_unconstrained i ps = Some u ->
  exists k p, u = (i + k)%nat /\ nth_error ps k = Some p /\ unconstrained p /\
    forall k' p', (k' < k)%nat -> nth_error ps k' = Some p' -> ~ unconstrained p'.
Proof.
  induction ps as [|p r IH]; intros i u H; cbn [first_unconstrained] in H; [discriminate|].
  destruct (unconstrainedb p) eqn:Eb.
  - injection H as <-. exists 0%nat, p. apply unconstrainedb_iff in Eb.
    split; [lia|]. split; [reflexivity|]. split; [exact Eb|]. intros; lia.
  - destruct (IH _ _ H) as [k [q [-> [Hn [Hq Hlt]]]]]. exists (S k), q.
    split; [lia|]. split; [exact Hn|]. split; [exact Hq|].
    intros [|k'] p' Hk' Hp'; cbn in Hp'.
    + injection Hp' as <-. rewrite <- unconstrainedb_iff. congruence.
    + apply (Hlt k'); [lia|exact Hp'].
Qed.

Lemma first_unconstrained_none ps : forall i,
  first_unconstrained i ps = None -> forall p, In p ps -> ~ unconstrained p.
Proof.
  induction ps as [|q r IH]; intros i H p Hin; cbn [first_unconstrained] in H; [destruct Hin|].
  destruct (unconstrainedb q) eqn:Eb; [discriminate|].
  destruct Hin as [->|Hin].
  - rewrite <- unconstrainedb_iff. congruence.
  - eapply IH; eauto.
Qed.

(* the first unconstrained posting of a list, located by its index *)
Lemma first_unconstrained_at ps : forall i k p,
  nth_error ps k = Some p -> unconstrained p ->
  (forall k' p', (k' < k)%nat -> nth_error ps k' = Some p' -> ~ unconstrained p') ->
  first_unconstrained i ps = Some (i + k)%nat.
Proof.
  induction ps as [|q r IH]; intros i [|k] p Hk Hp Hlt; cbn in Hk; try discriminate.
  - injection Hk as ->. cbn [first_unconstrained].
    apply unconstrainedb_iff in Hp. rewrite Hp. f_equal. lia.
  - cbn [first_unconstrained]. destruct (unconstrainedb q) eqn:Eb.
    + exfalso. apply (Hlt 0%nat q); [lia|reflexivity|apply unconstrainedb_iff; exact Eb].
    + rewrite (IH (S i) k p Hk Hp).
      * f_equal. lia.
      * intros k' p' Hk' Hp'. apply (Hlt (S k') p'); [lia|exact Hp'].
Qed.

(* ---- invariant: the residual is the sum of the balancing values ---- *)

Lemma loop_step_bv d st i p st' :
  loop_step d (Ok st) (i, p) = Ok st' ->
  exists o, posting_bv (l_bal st) p o /\ l_residual st' = add_bv (l_residual st) o.
Proof.
  intros H. apply loop_step_ok_inv in H. destruct H as [b' [ep [ev [Hpp [_ [_ [Hr _]]]]]]].
  exists (option_map ep_delta ep). split; [|exact Hr].
  eapply process_posting_bv; eauto.
Qed.

Lemma run_bvs d ps : forall i st0 st,
  run d i ps (Ok st0) = Ok st ->
  exists bvs,
    length bvs = length ps /\
    l_residual st = fold_left add_bv bvs (l_residual st0) /\
    forall k p, nth_error ps k = Some p ->
      exists stk o, run d i (firstn k ps) (Ok st0) = Ok stk /\
                    nth_error bvs k = Some o /\ posting_bv (l_bal stk) p o.
Proof.
  induction ps as [|p r IH]; intros i st0 st H.
  - injection H as <-. exists []. repeat split. intros [|k] q Hq; discriminate.
  - apply run_cons_inv in H. destruct H as [st1 [Hs Hr]].
    destruct (loop_step_bv _ _ _ _ _ Hs) as [o [Ho Hres]].
    destruct (IH _ _ _ Hr) as [bvs [L [E Hn]]].
    exists (o :: bvs). cbn [length fold_left]. repeat split.
    + f_equal. exact L.
    + rewrite E, Hres. reflexivity.
    + intros [|k] q Hq; cbn in Hq.
      * injection Hq as <-. exists st0, o. repeat split. exact Ho.
      * destruct (Hn k q Hq) as [stk [o' [H1 [H2 H3]]]]. exists stk, o'. repeat split; try assumption.
        cbn [firstn]. rewrite run_cons, Hs. exact H1.
Qed.

(* pointwise reading of a sum of balancing values *)
Lemma a_get_add_bv a o c : a_get (add_bv a o) c = a_get a c + bv_get o c.
Proof.
  destruct o as [p|]; cbn [add_bv bv_get]; [apply a_get_add_pa|ring].
Qed.

Lemma a_get_fold_add_bv bvs : forall a c,
  a_get (fold_left add_bv bvs a) c = a_get a c + qc_sum (map (fun o => bv_get o c) bvs).
Proof.
  induction bvs as [|o r IH]; intros a c; cbn [fold_left map qc_sum]; [ring|].
  rewrite IH, a_get_add_bv. ring.
Qed.

(* ---- invariant: frame ---- *)

Lemma run_frame d a' ps : forall i st0 st,
  run d i ps (Ok st0) = Ok st ->
  (forall p, In p ps -> p_account p <> a') ->
  get a' (l_bal st) = get a' (l_bal st0).
Proof.
  induction ps as [|p r IH]; intros i st0 st H Hacc.
  - injection H as <-. reflexivity.
  - apply run_cons_inv in H. destruct H as [st1 [Hs Hr]].
    apply loop_step_ok_inv in Hs. destruct Hs as [b' [ep [ev [Hpp [Hb _]]]]].
    rewrite (IH _ _ _ Hr) by (intros q Hq; apply Hacc; right; exact Hq).
    rewrite Hb. eapply process_posting_frame; eauto.
    intros E. apply (Hacc p); [left; reflexivity|congruence].
Qed.

(* ---- invariant: well-formed balances ---- *)

Lemma run_wf d ps : forall i st0 st,
  run d i ps (Ok st0) = Ok st -> bal_wf (l_bal st0) -> bal_wf (l_bal st).
Proof.
  induction ps as [|p r IH]; intros i st0 st H Hwf.
  - injection H as <-. exact Hwf.
  - apply run_cons_inv in H. destruct H as [st1 [Hs Hr]].
    apply loop_step_ok_inv in Hs. destruct Hs as [b' [ep [ev [Hpp [Hb _]]]]].
    apply (IH _ _ _ Hr). rewrite Hb. eapply process_posting_wf; eauto.
Qed.
