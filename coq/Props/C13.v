(* C13 — same input, same output: everything printed from a map is a function of the map,
   not of its iteration order.  Theorems only. *)
From Coq Require Import List NArith ZArith QArith Qcanon Permutation.
From Okv Require Import Base.Maps Base.Dec Model.Amount Model.Book Model.Query Model.Render
     Proofs.MapsSort Proofs.RenderProofs.
Import ListNotations.

(* the canonical (sorted) presentation of a duplicate-free map depends only on its contents *)
Theorem C13_sorted_presentation_canonical : forall (V : Type) (m m' : amap V),
  map_equiv m m' -> sort_keys m = sort_keys m'.
Proof. exact @sort_keys_canonical. Qed.
Print Assumptions C13_sorted_presentation_canonical.

(* an amount prints the same whatever order its HashMap iterates in *)
Theorem C13_amount_print_order_independent : forall a a' : amount,
  NoDup (keys a) -> Permutation a a' -> render_amount a = render_amount a'.
Proof. exact render_amount_perm. Qed.
Print Assumptions C13_amount_print_order_independent.

(* the balance report prints the same for any iteration order of accounts and of commodities *)
Theorem C13_balance_print_order_independent : forall b b' : balance,
  bal_equiv b b' -> render_balance b = render_balance b'.
Proof. exact render_balance_equiv. Qed.
Print Assumptions C13_balance_print_order_independent.
