(* Model of the Extractor adapter of cli/src/import/iso_camt053.rs: FieldMatch, to_field,
   TryFrom<(RewriteField, &str)> for FieldMatch, impl EntityMatcher for FieldMatch, and of what
   `import` does with the extracted Fragment of one record (an entry without TxDtls, or one
   TxDtls of an entry).  Definitions only.

   The entity (&Entry, Option<&TransactionDetails>) is reduced to the texts the regex matchers
   look at: for each RewriteField the text found in the record, if any.  AdditionalEntryInfo is
   always there (Entry::additional_info is a String); the party names, account ids, the
   remittance information and AddtlTxInf exist only on a TxDtls that carries the element.
   The three bank-transaction-code matchers (domain_code, domain_family, domain_sub_family: an
   enum parsed with serde_yaml and compared for equality) are outside this model: camt_in_model
   says whether a rule list stays inside it. *)
From Coq Require Import List NArith Bool.
From Okv Require Import Model.ImpConfig Model.ImpExtract Model.ImpSingleEntry.
Import ListNotations.

Record camt_entity := {
  ce_texts : list (rewrite_field * str);   (* the fields present in the record *)
  ce_reference : option str;               (* Refs/AcctSvcrRef of the TxDtls *)
  ce_debit : bool                          (* CdtDbtInd = DBIT: the account's posting is negative *)
}.

Fixpoint ce_get (l : list (rewrite_field * str)) (f : rewrite_field) : option str :=
  match l with
  | [] => None
  | (k, v) :: r => if Nat.eqb (rf_rank k) (rf_rank f) then Some v else ce_get r f
  end.

Definition is_domain_field (f : rewrite_field) : bool :=
  match f with RDomainCode | RDomainFamily | RDomainSubFamily => true | _ => false end.

Section Camt.
  Context {P : Type}.
  Variable re_captures : P -> str -> option captures.
  Variable re_valid : P -> bool.

  (* TryFrom<(RewriteField, &str)> for FieldMatch: the regex must compile and to_field must know
     the field (secondary_commodity and category are CSV / Viseca fields) *)
  Definition camt_valid (m : rewrite_field * P) : bool :=
    match fst m with
    | RSecondaryCommodity | RCategory => false
    | _ => re_valid (snd m)
    end.

  (* impl EntityMatcher for FieldMatch (RegexMatch arm): the captures of the regex on the field's
     text; `payee` looks at the payee accumulated in the fragment and matches nothing while
     there is none *)
  Definition camt_matches (m : rewrite_field * P) (e : camt_entity) (f : frag) : option captures :=
    match fst m with
    | RPayee => match g_payee f with Some p => re_captures (snd m) p | None => None end
    | RSecondaryCommodity | RCategory => None
    | fd => match ce_get (ce_texts e) fd with Some t => re_captures (snd m) t | None => None end
    end.

  Definition camt_in_model (rules : list (rule P)) : bool :=
    forallb (fun r => forallb (forallb (fun m => negb (is_domain_field (fst m)))) (r_matcher r)) rules.

  Definition camt_fragment (rules : list (rule P)) (e : camt_entity) : frag :=
    extract camt_matches (compile rules) e.

  Definition unknown_payee : str := [117;110;107;110;111;119;110;32;112;97;121;101;101]%N.   (* "unknown payee" *)

  (* what `import` takes from the fragment for one record: Txn::new(.., payee or "unknown payee"),
     code_option(fragment.code.or(AcctSvcrRef)) - a code a rule captured wins over the statement's
     reference (/repo d2eb1b8; an entry without TxDtls has no reference) -, dest_account_option,
     clear_state(Pending) unless cleared *)
  Record camt_view := { cv_payee : str; cv_code : option str; cv_dest : option str; cv_pending : bool }.
  Definition camt_record_view (rules : list (rule P)) (e : camt_entity) : camt_view :=
    let f := camt_fragment rules e in
    {| cv_payee := one_line (match g_payee f with Some p => p | None => unknown_payee end);
       cv_code := option_map one_line (option_or (g_code f) (ce_reference e));
       cv_dest := g_account f;
       cv_pending := negb (g_cleared f) |}.
End Camt.
